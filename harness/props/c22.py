"""C22 — per-step drive values are the interpolated Pulser samples (emu_base/pulser_adapter.py,
`_extract_omega_delta_phi`).

Lean: EmuVerif.Props.C22 (row k = PCHIP of the samples at knots 0..T-1 evaluated at the k-th
mid-point; amplitude clamped at 0 in *every* row; non-negative samples give a non-negative
amplitude inside [0, T-1] already before the clamp; detuning/phase not clamped; the dictionary
dispatch). Correspondence: `Model.Extract` at binary64 against the real function on
SequenceSamples stand-ins and on real Pulser sequences, bit for bit, errors included.
Oracle on the real code (always on): amplitude >= 0 in every row, values = SciPy PCHIP at the
mid-points, detuning/phase unclamped, one row per step.
"""
from __future__ import annotations

import json
import math
from unittest import mock

from harness.common import Driver, LeanError, Report, f2b, b2f, lst, unlst, lean_stage, seeded, ulp_diff

REGISTRY = dict(
    text=("Lean 4 theorems over every linear ordered field, every T >= 2 samples, every time grid (any dt, extra "
          "evaluation times) and any number of qubits: each row k of the amplitude/detuning/phase column is the PCHIP "
          "interpolant (C20) through the samples at knots 0..T-1 evaluated at the mid-point (t_k+t_{k+1})/2, one row per "
          "step; for non-negative samples every mid-point inside [0,T-1] has amplitude >= 0 before any clamp (C20: no "
          "undershoot); after the clamp every amplitude of every row is >= 0, also beyond the last sample (dt < 1); "
          "detuning and phase are not clamped; a successful call had exactly one interaction type (ground-rydberg, else "
          "XY), max_duration == target_times[-1], kept the requested qubits present in the channel in request order. "
          "Full for the ordered-field reading. Model tied to the code by bit-exact binary64 correspondence incl. the "
          "raising branches; Pulser's own sampling (to_nested_dict) is outside the model (contract checked on real "
          "sequences). Not a theorem, checked on the real code every run: the drives of every trajectory yielded by "
          "PulserData.get_sequences, as the state-vector back-end consumes them one after the other (in-place zeroing "
          "of badly prepared atoms), equal the interpolated samples of that trajectory for every well-prepared atom."),
    note=("Trusted: Lean kernel + propext/Classical.choice/Quot.sound; Mathlib; hand-written Model.Extract/Model.Pchip "
          "tied by correspondence only; IEEE rounding outside the theorems; pulser.sampler output shape assumed "
          "(checked on real sequences each run)."),
    technique="Lean 4 proof (on top of C20's shape theorems) + bit-exact model/implementation correspondence",
    design_ref="DESIGN.md §5 C22",
)

PROP_MODULE = "EmuVerif.Props.C22"
AUDIT = "Audit/C22.lean"
ATOL = 1e-8      # torch.allclose default atol (rtol * |0| = 0)
REL = 1e-9
KINDS = ("amp", "det", "phase")


# ------------------------------------------------------------------ stand-in
class FakeSamples:
    """What `_extract_omega_delta_phi` touches of a `SequenceSamples`."""

    def __init__(self, max_duration, local):
        self.max_duration = max_duration
        self._local = local
        self.calls = []

    def to_nested_dict(self, all_local=False, samples_type="array"):
        self.calls.append((all_local, samples_type))
        return {"Global": {}, "Local": self._local}


def _tensor(re, im):
    import torch
    if im is None:
        return torch.tensor(re, dtype=torch.float64)
    return torch.complex(torch.tensor(re, dtype=torch.float64), torch.tensor(im, dtype=torch.float64))


def build_samples(case):
    local = {}
    for key in case["keys"]:
        local[key] = {}
    if case["keys"]:
        first = local[case["keys"][0]]
        for qid, q in case["qubits"]:
            first[qid] = {k: _tensor(q[k], q.get(k + "_im")) for k in KINDS}
    return FakeSamples(case["maxdur"], local)


# ------------------------------------------------------------------ generators
def gen_signal(rng, T, kind):
    mode = rng.choice(["ramp_down", "blackman", "const", "random", "flat_tail", "step", "lattice", "zero"])
    if mode == "ramp_down":
        a = rng.uniform(0.5, 12)
        y = [a - a * i / T + rng.choice([0.0, 0.2]) for i in range(T)]
    elif mode == "blackman":
        a = rng.uniform(0.5, 12)
        y = [a * (0.42 - 0.5 * math.cos(2 * math.pi * i / max(T - 1, 1)) + 0.08 * math.cos(4 * math.pi * i / max(T - 1, 1)))
             for i in range(T)]
        y = [max(v, 0.0) for v in y]
    elif mode == "const":
        y = [rng.choice([0.0, 1.0, 6.283185307179586, rng.uniform(0, 10)])] * T
    elif mode == "random":
        y = [rng.uniform(0, 10) for _ in range(T)]
    elif mode == "flat_tail":
        k = rng.randint(0, T - 1)
        y = [rng.uniform(0, 5) if i < k else 0.0 for i in range(T)]
    elif mode == "step":
        k = rng.randint(0, T - 1)
        a, b = rng.uniform(0, 8), rng.uniform(0, 8)
        y = [a if i < k else b for i in range(T)]
    elif mode == "lattice":
        y = [float(rng.randint(0, 6)) / 2 for _ in range(T)]
    else:
        y = [0.0] * T
    if kind != "amp" and rng.random() < 0.7:
        s = rng.choice([-1.0, 1.0])
        y = [s * v - rng.choice([0.0, 3.0]) for v in y]
    elif kind == "amp" and rng.random() < 0.05:
        y = [v - 1.0 for v in y]       # the function does not assume non-negative samples
    return y, mode


def gen_grid(rng, T):
    dt = rng.choice([0.25, 0.5, 0.3, 0.7, 1.0, 1.0, 2.0, 3.0, 3.7, 10.0, 0.125])
    tt = {i * dt for i in range(int(math.floor(T / dt)) + 1) if i * dt <= T}
    tt.add(float(T))
    tt.add(0.0)
    for _ in range(rng.choice([0, 0, 1, 3])):      # evaluation times, some inside the last ns
        tt.add(rng.choice([T - rng.uniform(0, 1), rng.uniform(0, T), T - 0.5, T - 2.0 ** -10]))
    tt = sorted(t for t in tt if 0 <= t <= T)
    if len(tt) > 260:
        tt = tt[:40] + tt[-200:]                   # keep the tail: that is where the clamp matters
    return tt, dt


def gen_case(rng, i):
    r = rng.random()
    T = rng.randint(2, 12) if r < 0.5 else (rng.randint(13, 60) if r < 0.95 else rng.randint(61, 500))
    kind = rng.choice(["ok"] * 7 + ["keys", "assert", "imag", "len", "emptygrid"])
    nq = rng.choice([0, 1, 1, 2, 3, 4])
    ids = [f"q{j}" for j in range(nq)]
    rng.shuffle(ids)
    qubits = []
    for qid in ids:
        q = {}
        for k in KINDS:
            q[k], _ = gen_signal(rng, T, k)
        qubits.append((qid, q))
    req = [f"q{j}" for j in range(nq + rng.choice([0, 0, 1, 2]))]     # some requested qubits are missing
    rng.shuffle(req)
    if rng.random() < 0.2 and req:
        req = req[:-1]                                                 # some present qubits are not requested
    keys = [rng.choice(["ground-rydberg", "ground-rydberg", "XY"])]
    tt, dt = gen_grid(rng, T)
    maxdur = T
    if kind == "keys":
        keys = rng.choice([[], ["digital"], ["ground-rydberg", "XY"], ["XY", "digital"], ["Ground-Rydberg"]])
    elif kind == "assert":
        if rng.random() < 0.5 and len(tt) > 1:
            tt = tt[:-1]
        else:
            maxdur = T + 1
    elif kind == "emptygrid":
        tt = rng.choice([[], [float(T)]])
    elif kind == "len" and qubits:
        qid, q = rng.choice(qubits)
        k = rng.choice(KINDS)
        q[k] = q[k][:-1] if rng.random() < 0.5 else q[k] + [0.0]
    if kind == "imag" or rng.random() < 0.25:
        for qid, q in qubits:
            for k in KINDS:
                if rng.random() < 0.4:
                    n = len(q[k])
                    big = kind == "imag" and rng.random() < 0.5
                    q[k + "_im"] = [rng.choice([0.0, 0.0, 1e-10, -1e-9, 1e-8]) for _ in range(n)]
                    if big and n:
                        q[k + "_im"][rng.randrange(n)] = rng.choice([1e-3, -2.0, 1.0000000000000002e-8, 2e-8])
    return dict(T=T, maxdur=maxdur, keys=keys, qubits=qubits, req=req, tt=tt, dt=dt, kind=kind)


# ------------------------------------------------------------------ real code
def run_impl(case, samples=None):
    """Canonical outcome of the real function: ('ok', [A, D, P]) with column lists, or ('err', tag)."""
    import emu_base.pulser_adapter as pa
    s = samples if samples is not None else build_samples(case)
    calls = {"n": 0}
    real = pa.PCHIP1D

    class Counting(real):
        def __init__(self, *a, **kw):
            calls["n"] += 1
            super().__init__(*a, **kw)

    nkept = len([q for q in case["req"] if q in dict(case["qubits"])])
    with mock.patch.object(pa, "PCHIP1D", Counting):
        try:
            om, de, ph = pa._extract_omega_delta_phi(s, tuple(case["req"]), case["tt"])
        except ValueError as e:
            m = str(e)
            if "single interaction" in m:
                return "err", "single"
            if "channels are supported" in m:
                return "err", "channel"
            if "imaginary" in m:
                return "err", "imag " + m.split()[1]
            kind = KINDS[(calls["n"] - 1) // max(nkept, 1)] if calls["n"] else "?"
            return "err", "pchip " + kind
        except AssertionError:
            return "err", "assert"
        except IndexError:
            return "err", "index"
    import torch
    for t in (om, de, ph):
        if t.dtype != torch.complex128 or float(t.imag.abs().sum()) != 0.0:
            return "err", "dtype"
    cols = [[t.real[:, j].tolist() for j in range(t.shape[1])] for t in (om, de, ph)]
    return "ok", (cols, tuple(om.shape))


def model_line(case):
    toks = ["extract.runf", lst(case["keys"]), lst(case["req"]), str(case["maxdur"]), lst(map(f2b, case["tt"])), f2b(ATOL)]
    for qid, q in case["qubits"]:
        toks.append(qid)
        for k in KINDS:
            toks.append(lst(map(f2b, q[k])))
            im = q.get(k + "_im")
            toks.append("r" if im is None else lst(map(f2b, im)))
    return " ".join(toks)


def _cols(tok):
    n, body = tok.split(":", 1)
    if int(n) == 0:
        return []
    cols = [[float("nan") if s == "nan" else b2f(s) for s in unlst(c)] for c in body.split(";")]
    assert len(cols) == int(n)
    return cols


def _same(a, b):
    if a != a or b != b:
        return (a != a) and (b != b)
    return ulp_diff(a, b) == 0


def compare(case, status, res, mo):
    parts = mo.split()
    if status == "err":
        return None if mo == "err " + res else f"impl raises '{res}', model says '{mo[:60]}'"
    if parts[0] != "ok":
        return f"impl succeeds, model says '{mo[:60]}'"
    cols, shape = res
    for name, tok, ic in zip(KINDS, parts[1:4], cols):
        mc = _cols(tok)
        if len(mc) != len(ic):
            return f"{name}: {len(mc)} model columns, {len(ic)} impl columns"
        for j, (a, b) in enumerate(zip(mc, ic)):
            if len(a) != len(b):
                return f"{name}[:, {j}]: {len(a)} model rows, {len(b)} impl rows"
            for k, (u, v) in enumerate(zip(a, b)):
                if not _same(u, v):
                    return f"{name}[{k}, {j}]: model={u!r} impl={v!r}"
    return None


# ------------------------------------------------------------------ property oracle on the real code
def oracle(case, status, res):
    """C22 evaluated on one real call. Returns a failure string or None."""
    if status != "ok":
        return None
    import numpy as np
    from scipy.interpolate import PchipInterpolator
    cols, shape = res
    tt, T = case["tt"], case["T"]
    present = dict(case["qubits"])
    kept = [q for q in case["req"] if q in present]
    if shape != (len(tt) - 1, len(kept)):
        return f"shape {shape}, expected ({len(tt) - 1}, {len(kept)}): one row per step, one column per kept qubit"
    mids = [0.5 * (a + b) for a, b in zip(tt, tt[1:])]
    knots = np.arange(T, dtype=float)
    for name, cc in zip(KINDS, cols):
        for j, qid in enumerate(kept):
            col = cc[j]
            y = present[qid][name]
            if name == "amp":
                bad = [(k, v) for k, v in enumerate(col) if not (v >= 0.0)]
                if bad:
                    k, v = bad[0]
                    return (f"negative amplitude {v!r} for qubit {qid} in step {k} (mid-point {mids[k]!r}, "
                            f"last sample at {T - 1}); {len(bad)} negative rows")
            if not mids or len(y) != len(knots):
                # malformed sample lengths: the clean code raises; if a changed code accepts them the
                # correspondence (status mismatch) reports it — no reference exists for this column
                continue
            ref = PchipInterpolator(knots, np.array(y), extrapolate=True)(np.array(mids)).tolist()
            sc0 = max(abs(v) for v in y) + 1e-300
            for k, (v, r) in enumerate(zip(col, ref)):
                over = max(0.0, mids[k] - (T - 1))
                tol = REL * sc0 * (1 + over) ** 3 * 8
                want = max(r, 0.0) if name == "amp" else r
                if abs(v - want) > tol:
                    return (f"{name} of qubit {qid} in step {k} is {v!r}, interpolated sample value at the mid-point "
                            f"{mids[k]!r} is {r!r}" + (" (clamped: %r)" % want if name == "amp" else ""))
                if name == "amp" and min(y) >= 0 and 0 <= mids[k] <= T - 1 and r < -tol:
                    return f"interpolated amplitude undershoots 0 inside the sample range: {r!r} at {mids[k]!r}"
    return None


def _ser(case):
    return {k: case[k] for k in ("T", "maxdur", "keys", "qubits", "req", "tt", "dt", "kind")}


FIXED = [
    # D6 shape: samples 9.2 - i, dt = 0.25: several mid-points beyond the last sample
    dict(T=10, maxdur=10, keys=["ground-rydberg"], req=["q0"], dt=0.25, kind="ok",
         qubits=[("q0", {"amp": [9.2 - i for i in range(10)], "det": [0.0] * 10, "phase": [0.0] * 10})],
         tt=[0.25 * i for i in range(41)]),
    # D18 shape through the adapter: flat end interval next to a slope
    dict(T=4, maxdur=4, keys=["XY"], req=["q1", "q0"], dt=0.5, kind="ok",
         qubits=[("q0", {"amp": [3.0, 1.0, 0.0, 0.0], "det": [0.0, 0.0, -1.0, -3.0], "phase": [0.0] * 4}),
                 ("q1", {"amp": [0.0, 0.0, 1.0, 3.0], "det": [1.0] * 4, "phase": [0.5] * 4})],
         tt=[0.5 * i for i in range(9)]),
]


# ------------------------------------------------------------------ real Pulser sequences (contract of the stand-in)
def pulser_cases(rng, n):
    """Real `pulser.sampler.sample` output: returns (case, samples) pairs; the case is read off the nested dict."""
    from pulser import Sequence, Pulse, Register
    from pulser.devices import MockDevice
    from pulser.waveforms import BlackmanWaveform, RampWaveform, ConstantWaveform, InterpolatedWaveform, CompositeWaveform
    from pulser.sampler import sample
    out = []
    for _ in range(n):
        nq = rng.randint(1, 3)
        reg = Register.from_coordinates([(8.0 * j, 0.0) for j in range(nq)], prefix="q")
        seq = Sequence(reg, MockDevice)
        seq.declare_channel("g", "rydberg_global")
        for _ in range(rng.randint(1, 2)):
            dur = rng.choice([16, 20, 33, 52])
            amp = rng.choice([
                BlackmanWaveform(dur, rng.uniform(0.5, 3.0)),
                ConstantWaveform(dur, rng.uniform(0.0, 6.0)),
                RampWaveform(dur, rng.uniform(0, 5), rng.uniform(0, 5)),
                InterpolatedWaveform(dur, [0.0, rng.uniform(1, 5), rng.uniform(0, 2), 0.0]),
                CompositeWaveform(RampWaveform(dur // 2, 0.0, 4.0), ConstantWaveform(dur - dur // 2, 4.0)),
            ])
            det = rng.choice([RampWaveform(dur, -5.0, 5.0), ConstantWaveform(dur, rng.uniform(-6, 6))])
            seq.add(Pulse(amp, det, rng.choice([0.0, 0.3, 1.2])), "g")
        if rng.random() < 0.5 and nq > 1:
            seq.declare_channel("l", "rydberg_local", initial_target="q1")
            seq.add(Pulse.ConstantPulse(rng.choice([12, 20]), rng.uniform(0.5, 3), rng.uniform(-2, 2), 0.0), "l")
        s = sample(seq)
        T = int(s.max_duration)
        loc = s.to_nested_dict(all_local=True, samples_type="tensor")["Local"]
        keys = list(loc.keys())
        qubits = [(qid, {k: v[k].tolist() for k in KINDS}) for qid, v in loc[keys[0]].items()]
        tt, dt = gen_grid(rng, T)
        req = [f"q{j}" for j in range(nq)]
        out.append((dict(T=T, maxdur=T, keys=keys, qubits=qubits, req=req, tt=tt, dt=dt, kind="pulser"), s))
    return out


# ------------------------------------------------------------------ drives as the back-end consumes them
def gen_consumer_case(rng, i):
    """A real Pulser sequence + noise model + n_trajectories for `PulserData.get_sequences`, consumed trajectory by
    trajectory the way SVBackend does (run k, then pull k+1)."""
    noise = ["spam", "spam", "spam", "spam+amp", "none", "amp"][i % 6]
    return dict(family="consumer", natoms=rng.choice([2, 3, 4, 4]), noise=noise,
                spe=rng.choice([0.3, 0.4, 0.5, 0.6]), amp_sigma=rng.choice([0.05, 0.1]),
                ntraj=rng.choice([2, 3, 5, 8]) if noise != "none" else 1,
                dt=rng.choice([1.0, 2.0, 0.5, 4.0]), pulse=rng.choice(["blackman", "const", "ramp", "two"]),
                dur=rng.choice([16, 24, 40]), consumer="run" if i % 12 == 0 else "init_dark_qubits",
                npseed=rng.randrange(2 ** 31))


def _consumer_sequence(case):
    import pulser
    reg = pulser.Register.from_coordinates([[8.0 * j, 0.0] for j in range(case["natoms"])], prefix="q")
    seq = pulser.Sequence(reg, pulser.MockDevice)
    seq.declare_channel("ryd", "rydberg_global")
    d = case["dur"]
    amp = {"blackman": pulser.BlackmanWaveform(d, 2.0), "const": pulser.ConstantWaveform(d, 3.0),
           "ramp": pulser.RampWaveform(d, 0.5, 4.0), "two": pulser.BlackmanWaveform(d, 1.5)}[case["pulse"]]
    seq.add(pulser.Pulse(amp, pulser.RampWaveform(d, -3.0, 3.0), 0.3), "ryd")
    if case["pulse"] == "two":
        seq.add(pulser.Pulse.ConstantPulse(16, 2.0, -1.0, 0.7), "ryd")
    return seq


def _reference_columns(samples, qubit_ids, tt):
    """SciPy PCHIP of one trajectory's own Pulser samples at the step mid-points (amplitude clamped at 0)."""
    import numpy as np
    from scipy.interpolate import PchipInterpolator
    loc = samples.to_nested_dict(all_local=True, samples_type="tensor")["Local"]
    chan = loc["ground-rydberg"] if "ground-rydberg" in loc else loc["XY"]
    mids = np.array([0.5 * (a + b) for a, b in zip(tt, tt[1:])])
    T = int(samples.max_duration)
    out = {}
    for name in KINDS:
        cols, scales = [], []
        for qid in qubit_ids:
            y = np.asarray(chan[qid][name].tolist(), dtype=float).real
            r = PchipInterpolator(np.arange(T, dtype=float), y, extrapolate=True)(mids)
            cols.append(np.maximum(r, 0.0) if name == "amp" else r)
            scales.append(float(np.abs(y).max()) + 1e-300)
        out[name] = (cols, scales)
    return out, mids


def run_consumer_case(case):
    """Iterate the real `PulserData.get_sequences()`; after each yielded SequenceData let the state-vector back-end
    consume it (the real `SVBackendImpl.init_dark_qubits`, or a whole `SVBackend._run_from_sequence_data`), then
    check every yielded SequenceData — at the moment it is handed out — against the interpolated samples of its own
    trajectory for all well-prepared atoms, and that trajectories with different bad-atom patterns do not share
    the storage the consumer mutates. Returns (failure message or None, stats)."""
    import dataclasses
    import types
    import warnings
    import numpy as np
    import torch
    from pulser.noise_model import NoiseModel
    from pulser.backend import BitStrings
    from harness import compat
    import emu_base.pulser_adapter as pa
    from emu_sv.sv_backend_impl import SVBackendImpl
    from emu_sv.sv_backend import SVBackend
    compat.install()
    np.random.seed(case["npseed"])
    torch.manual_seed(case["npseed"])
    nm = {"none": NoiseModel(), "spam": NoiseModel(state_prep_error=case["spe"]),
          "amp": NoiseModel(amp_sigma=case["amp_sigma"]),
          "spam+amp": NoiseModel(state_prep_error=case["spe"], amp_sigma=case["amp_sigma"])}[case["noise"]]
    seq = _consumer_sequence(case)
    with warnings.catch_warnings():
        warnings.simplefilter("ignore")
        config = compat.sv_config(noise_model=nm, n_trajectories=case["ntraj"],
                                  observables=[BitStrings(evaluation_times=[1.0])])
        pd = pa.PulserData(sequence=seq, config=config, dt=case["dt"])
        refs, owners = [], []
        for idx, sw in enumerate(pd.hamiltonian.noisy_samples):
            refs.append(_reference_columns(sw.samples, pd.qubit_ids, pd.target_times)[0])
            owners += [idx] * sw.reps
        n = case["natoms"]
        U = torch.zeros(n, n, dtype=torch.float64)
        for a in range(n):
            for b in range(n):
                if a != b:
                    U[a, b] = 5420158.53 / (8.0 * abs(a - b)) ** 6
        seen = []          # (owner, bad_atoms, data_ptrs)
        keep = []
        stats = dict(yielded=0, patterns=set(), good_columns=0)
        for k, sd in enumerate(pd.get_sequences()):
            if k >= len(owners):
                return f"get_sequences yielded more than the {len(owners)} requested trajectory repetitions", stats
            stats["yielded"] += 1
            stats["patterns"].add(tuple(sd.bad_atoms))
            ref = refs[owners[k]]
            for name, got in zip(KINDS, (sd.omega, sd.delta, sd.phi)):
                if got.shape != (len(pd.target_times) - 1, n):
                    return f"trajectory {k}: {name} has shape {tuple(got.shape)}", stats
                cols, scales = ref[name]
                for j in range(n):
                    if sd.state_prep_error > 0.0 and sd.bad_atoms[j]:
                        continue       # badly prepared atoms are dark: the back-end zeroes their drive itself
                    stats["good_columns"] += 1
                    g = got[:, j]
                    err = float((g.real - torch.as_tensor(cols[j])).abs().max()) + float(g.imag.abs().max())
                    if err > REL * scales[j] * 8:
                        kk = int((g.real - torch.as_tensor(cols[j])).abs().argmax())
                        return (f"trajectory {k} (bad_atoms={tuple(sd.bad_atoms)}), after the back-end consumed the "
                                f"previous {k} trajectories: well-prepared atom {pd.qubit_ids[j]} gets {name} = "
                                f"{g[kk].real.item()!r} in step {kk}, the interpolated Pulser sample of this trajectory is "
                                f"{float(cols[j][kk])!r} (max deviation {err:.3g})"), stats
            ptrs = (sd.omega.data_ptr(), sd.delta.data_ptr(), sd.phi.data_ptr())
            if sd.state_prep_error > 0.0:
                for (o2, b2, p2) in seen:
                    if o2 != owners[k] and tuple(b2) != tuple(sd.bad_atoms) and set(p2) & set(ptrs):
                        return (f"trajectory {k} (bad_atoms={tuple(sd.bad_atoms)}) shares the storage of its drive tensors "
                                f"with an earlier trajectory of a different state-preparation pattern {tuple(b2)}; "
                                f"SVBackendImpl.init_dark_qubits zeroes bad-atom columns in place"), stats
            keep.append((sd.omega, sd.delta, sd.phi))   # keep them alive: a freed tensor's address is reused
            seen.append((owners[k], tuple(sd.bad_atoms), ptrs))
            # the back-end consumes this trajectory before the next one is requested
            if case["consumer"] == "run":
                SVBackend._run_from_sequence_data(
                    dataclasses.replace(sd, interaction_matrix=pa._InteractionMatrixCallable(U, U, 0.0)), config)
            else:
                stub = types.SimpleNamespace(_data=sd, interaction_matrix=sd.interaction_matrix,
                                             omega=sd.omega, delta=sd.delta, phi=sd.phi)   # as SVBackendImpl.__init__ binds them
                SVBackendImpl.init_dark_qubits(stub)
        if stats["yielded"] != len(owners):
            return f"get_sequences yielded {stats['yielded']} SequenceData for {len(owners)} requested repetitions", stats
    return None, stats


def consumer_family(rep, rng, n, stop_at_first=False):
    for i in range(n):
        case = gen_consumer_case(rng, i)
        try:
            msg, stats = run_consumer_case(case)
        except Exception as e:
            if type(e).__name__ in ("ImportError", "ModuleNotFoundError"):
                rep.notes.append(f"consumer family skipped: {e}")
                return False
            msg, stats = f"get_sequences / state-vector consumer raised {type(e).__name__}: {e}", dict(patterns=set(), yielded=0)
        rep.hist("consumer_noise", case["noise"])
        rep.hist("consumer_distinct_bad_patterns", len(stats.get("patterns", ())))
        rep.count("consumer_trajectories", stats.get("yielded", 0))
        rep.case(key=("consumer", json.dumps(case, sort_keys=True)), nontrivial=len(stats.get("patterns", ())) > 1,
                 trace=False)
        if msg:
            rep.fail(msg, dict(case))
            if stop_at_first:
                return True
    return False


# ------------------------------------------------------------------ check
def check(rep: Report, tier: str, seed: int) -> None:
    import torch
    torch.set_num_threads(1)
    rep.rule = ("cases = SequenceSamples stand-ins (max_duration + to_nested_dict): T = 2..500 samples, 0..4 local qubits "
                "with their own amplitude/detuning/phase signals (ramp-down, Blackman, constant, random, flat tail, step, "
                "lattice, zero; detuning/phase of both signs), requested ids incl. missing and unrequested qubits in "
                "shuffled order, key ground-rydberg / XY, dt in {0.125,...,10} below and above 1 ns plus evaluation times "
                "inside the last ns, complex samples with zero, tiny and non-zero imaginary part; malformed: no/two/"
                "unknown interaction keys, max_duration != target_times[-1], empty grid, wrong sample length; plus real "
                "Pulser sequences (Blackman, constant, ramp, interpolated, composite, global + local channel); plus the real "
                "PulserData.get_sequences() on 2-4 atoms with SPAM / amplitude / no noise and 1-8 trajectories, each "
                "yielded SequenceData consumed by the real state-vector back-end before the next one is pulled. "
                "non-trivial = successful call with at least one kept qubit and two steps")
    rep.assumptions = [
        "pulser.sampler's to_nested_dict(all_local=True, samples_type='tensor') contract (keys, float64 tensors of length "
        "max_duration) — exercised on real sequences in this run, not proved",
        "binary64 rounding is outside the theorems; probed by the SciPy oracle (rel 1e-9)",
    ]
    lean_stage(rep, PROP_MODULE, AUDIT, thorough=(tier == "thorough"))
    rng = seeded(seed * 7919 + 22)
    n = 220 if tier == "quick" else 5000
    cases = [(c, None) for c in FIXED] + [(gen_case(rng, i), None) for i in range(n)]
    try:
        cases += pulser_cases(rng, 6 if tier == "quick" else 120)
    except Exception as e:  # Pulser API drift is an environment problem, not a verdict on the property
        rep.notes.append(f"real Pulser sequences skipped: {type(e).__name__}: {e}")
    lines, metas = [], []
    for case, samples in cases:
        try:
            status, res = run_impl(case, samples)
        except Exception as e:
            rep.fail(f"real _extract_omega_delta_phi raised {type(e).__name__}: {e}", _ser(case))
            continue
        if status == "err" and res == "dtype":
            rep.fail("returned tensors are not complex128 with zero imaginary part", _ser(case))
            continue
        msg = oracle(case, status, res)
        if msg:
            rep.fail(msg, _ser(case))
        lines.append(model_line(case))
        metas.append((case, status, res))
        rep.hist("kind", case["kind"])
        rep.hist("outcome", status if status == "ok" else res.split()[0])
        rep.hist("dt", case["dt"])
        rep.hist("key", ",".join(case["keys"]) or "-")
        beyond = sum(1 for a, b in zip(case["tt"], case["tt"][1:]) if 0.5 * (a + b) > case["T"] - 1)
        rep.hist("midpoints_beyond_last_sample", min(beyond, 8))
    try:
        out = Driver().batch(lines)
    except LeanError as e:
        rep.broke("driver: " + str(e)[-800:])
        out = None
    dis = 0
    if out is not None:
        for (case, status, res), mo in zip(metas, out):
            nt = status == "ok" and res[1][1] >= 1 and res[1][0] >= 2
            rep.case(key=model_line(case) if nt else None, nontrivial=nt,
                     sample={"T": case["T"], "dt": case["dt"], "kind": case["kind"], "keys": case["keys"],
                             "requested": case["req"], "present": [q for q, _ in case["qubits"]],
                             "outcome": status if status == "ok" else res})
            msg = compare(case, status, res, mo)
            if msg:
                dis += 1
                if dis <= 4:
                    rep.broke("correspondence Model.Extract vs _extract_omega_delta_phi: " + msg + " on "
                              + json.dumps(_ser(case))[:500])
        rep.extra["correspondence_disagreements"] = dis
        rep.extra["exactness"] = "bit-exact (0 ulp, sign of zero ignored) for every entry of Omega, delta, phi; error kinds equal"
    consumer_family(rep, seeded(seed * 7919 + 2222), 18 if tier == "quick" else 240)
    if rep.broken and not rep.unknown_failing():
        search(rep, seed, 1500 if tier == "quick" else 20000)


def search(rep: Report, seed: int, n: int) -> None:
    """Failing-input search on the real code: the oracle on grids with many mid-points beyond the last sample
    (dt < 1, steep final ramps) and on non-negative samples with flat ends."""
    rng = seeded(seed * 104729 + 22)
    if consumer_family(rep, rng, 60, stop_at_first=True):
        return
    for i in range(n):
        case = gen_case(rng, i)
        case["kind"] = "search"
        T = case["T"] = case["maxdur"] = rng.randint(2, 12)
        case["keys"] = ["ground-rydberg"]
        a = rng.uniform(0.1, 10)
        amp = [a * (T - j) / T + rng.choice([0.0, 0.2, 1.0]) for j in range(T)]
        if rng.random() < 0.4:
            amp = [float(rng.randint(0, 4)) for _ in range(T)]
            amp[-1] = amp[-2] if rng.random() < 0.5 else amp[-1]
        case["qubits"] = [("q0", {"amp": amp, "det": [0.0] * T, "phase": [0.0] * T})]
        case["req"] = ["q0"]
        dt = rng.choice([0.125, 0.25, 0.3, 0.5])
        case["dt"] = dt
        case["tt"] = sorted({j * dt for j in range(int(T / dt) + 1) if j * dt <= T} | {float(T)})
        try:
            status, res = run_impl(case)
        except Exception as e:
            rep.fail(f"real _extract_omega_delta_phi raised {type(e).__name__}: {e}", _ser(case))
            return
        msg = oracle(case, status, res)
        if msg:
            rep.fail(msg, _ser(case))
            return
    rep.extra["search_cases"] = n


def replay(rep: Report, path: str) -> int:
    data = json.load(open(path))
    bad = 0
    for f in data.get("failing_inputs", []):
        d = f["data"]
        case = dict(d)
        try:
            if d.get("family") == "consumer":
                msg, _ = run_consumer_case(case)
                print("replay:", msg or "property holds on this input now")
                bad += bool(msg)
                continue
            case["qubits"] = [(q[0], q[1]) for q in d["qubits"]]
            status, res = run_impl(case)
            msg = oracle(case, status, res)
        except Exception as e:
            msg = f"raised {type(e).__name__}: {e}"
        print("replay:", msg or "property holds on this input now")
        bad += bool(msg)
    return 1 if bad else 0
