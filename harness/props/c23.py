"""C23 — interactions follow the register, cutoff, custom matrix and SLM schedule
(emu_base/pulser_adapter.py `PulserData.get_sequences` cutoff/mask code and
`_InteractionMatrixCallable`; the query times in emu_sv `_evolve_step`/`_apply_observables` and emu_mps
`_get_interaction_matrix`).

Lean: EmuVerif.Props.C23. Correspondence: the real `get_sequences` (PulserData built without its
constructor, mock trajectories) on dyadic matrices/cutoffs/masks/query times against `Model.Interact`,
exact; the query times and the matrix handed to every step by both real back-ends (evolution stubbed)
against `svQueries`/`mpsQueries`. Oracle: the statement of C23 on the real outputs.
"""
from __future__ import annotations

import json

from harness.common import Driver, LeanError, Report, f2b, b2f, lst, lean_stage, seeded
from harness.props import tg_common as T

REGISTRY = dict(
    text=("Lean 4 theorems over every linear ordered field, matrix size, target list: closed form of every entry of "
          "SequenceData.interaction_matrix(t) (0 if t<slm_end and the row or column is an SLM target, else 0 if |x|<cutoff, "
          "else x, with x from the user matrix if given, otherwise the register); symmetric in => symmetric out; masked "
          "matrix = rows/columns of the targets zeroed; t<slm_end <-> masked matrix returned; user matrix wins; the "
          "diagonal is inherited, NOT enforced (kernel-checked example of a non-zero user diagonal passing through) - the "
          "'zero diagonal' clause holds only as far as the input has one; query schedule: emu-sv uses the matrix of the "
          "step start, emu-mps the mid-point for step 0 and the step start afterwards, so the back-ends can differ only on "
          "step 0, exactly when 0<slm_end<=t1/2; masked steps form a prefix. FULL for the adapter algebra and the query "
          "schedule; register matrices themselves (pulser) are an input."),
    note=("Trusted: Lean kernel + propext/Classical.choice/Quot.sound; Mathlib; hand-written Model.Interact tied by exact "
          "correspondence on dyadic inputs; PulserData.__init__ (config.interaction_matrix -> tensor, slm end from the "
          "sequence) is not exercised: it cannot run under pulser-core 1.9.1 (matrices shaped (1,N,N)), the object is built "
          "field by field; emu-mps swaps its Hamiltonian only when the new matrix differs by more than allclose(atol=1e-10, "
          "rtol=1e-8) - test matrices differ by >= 1; pulser's register matrix (symmetry, zero diagonal) is assumed."),
    technique="Lean 4 proof (case analysis, induction over the target list) + exact model/implementation correspondence",
    design_ref="DESIGN.md §5 C23",
)

PROP_MODULE = "EmuVerif.Props.C23"
AUDIT = "Audit/C23.lean"


def gen_matrix(rng, n, symmetric=True, zero_diag=True):
    vals = [0.0, 0.25, 0.5, 1.0, 1.5, 2.0, 3.0, 8.0, -0.5, -2.0, 0.125, 1024.0, 2.0 ** -20]
    m = [[rng.choice(vals) for _ in range(n)] for _ in range(n)]
    if symmetric:
        for i in range(n):
            for j in range(i):
                m[i][j] = m[j][i]
    if zero_diag:
        for i in range(n):
            m[i][i] = 0.0
    return m


def gen_seq_case(rng):
    n = rng.randint(1, 6)
    k = rng.randint(1, 3)
    regs = [gen_matrix(rng, n) for _ in range(k)]
    r = rng.random()
    user = None
    if r < 0.35:
        user = gen_matrix(rng, n)
    elif r < 0.5:
        user = gen_matrix(rng, n, symmetric=rng.random() < 0.5, zero_diag=False)
    cutoff = rng.choice([0.0, 0.0, 0.25, 0.5, 1.0, 2.0, 0.3, 100.0, 2.0 ** -21])
    targets = rng.sample(range(n), rng.randint(0, min(n, 3)))
    if rng.random() < 0.1 and targets:
        targets = targets + [targets[0]]
    slm_end = rng.choice([0.0, 0.0, 5.0, 10.0, 7.5, 100.0])
    ts = [0.0, slm_end, slm_end - 0.5, slm_end + 0.5, rng.choice([1.0, 2.5, 50.0, 1000.0])]
    return dict(n=n, regs=regs, user=user, cutoff=cutoff, targets=targets, slm_end=slm_end, ts=ts,
                reps=[rng.choice([1, 1, 2]) for _ in regs])


def flat(m):
    return [x for row in m for x in row]


def seq_oracle(c, i, t, out):
    """C23 on one returned matrix (`out`, nested list) for trajectory i, query time t."""
    n = c["n"]
    src = c["user"] if c["user"] is not None else c["regs"][i]
    sym_in = all(src[a][b] == src[b][a] for a in range(n) for b in range(n))
    masked = t < c["slm_end"]
    for a in range(n):
        for b in range(n):
            x = src[a][b]
            want = 0.0 if abs(x) < c["cutoff"] else x
            if masked and (a in c["targets"] or b in c["targets"]):
                want = 0.0
            if out[a][b] != want:
                return (f"entry ({a},{b}) at t={t!r}: got {out[a][b]!r}, expected {want!r} "
                        f"(source {'user' if c['user'] is not None else 'register'} {x!r}, cutoff {c['cutoff']!r}, "
                        f"{'masked' if masked else 'full'})")
    if sym_in and any(out[a][b] != out[b][a] for a in range(n) for b in range(n)):
        return f"symmetric input but asymmetric output at t={t!r}"
    return None


def seq_correspondence(rep, rng, n):
    import torch
    lines, expect, meta = [], [], []
    for _ in range(n):
        c = gen_seq_case(rng)
        regs = [torch.tensor(m, dtype=torch.float64).reshape(c["n"], c["n"]) for m in c["regs"]]
        user = None if c["user"] is None else torch.tensor(c["user"], dtype=torch.float64).reshape(c["n"], c["n"])
        user0 = None if user is None else user.clone()
        regs0 = [r.clone() for r in regs]
        try:
            seqs = T.run_get_sequences(regs, c["reps"], user, c["cutoff"], c["targets"], c["slm_end"], c["n"])
        except Exception as e:
            rep.fail(f"get_sequences raised {type(e).__name__}: {e}", _ser(c))
            continue
        if (user is not None and not torch.equal(user, user0)) or any(not torch.equal(a, b) for a, b in zip(regs, regs0)):
            rep.fail("get_sequences modified its input matrices in place", _ser(c))
        rep.hist("source", "user" if user is not None else "register")
        rep.hist("n_targets", len(set(c["targets"])))
        k = 0
        for i, r in enumerate(c["reps"]):
            for _ in range(r):
                s = seqs[k]
                k += 1
                for t in c["ts"]:
                    out = s.interaction_matrix(t).tolist()
                    msg = seq_oracle(c, i, t, out)
                    if msg:
                        rep.fail(msg, dict(_ser(c), traj=i, t=t))
                    lines.append(f"ia.seq {c['n']} {'N' if c['user'] is None else lst(f2b(x) for x in flat(c['user']))} "
                                 f"{lst(f2b(x) for x in flat(c['regs'][i]))} {f2b(c['cutoff'])} "
                                 f"{lst(str(x) for x in c['targets'])} {f2b(c['slm_end'])} {f2b(t)}")
                    expect.append(lst(f2b(x) for x in flat(out)))
                    meta.append(c)
    return lines, expect, meta


def _ser(c):
    return {k: c[k] for k in ("n", "regs", "user", "cutoff", "targets", "slm_end", "ts", "reps")}


# ------------------------------------------------------------------ query schedule of the back-ends
def gen_sched_case(rng):
    m = rng.randint(1, 8)
    pts = sorted(set([0.0] + [float(rng.randint(1, 40)) / 2 for _ in range(m)]))
    if len(pts) < 2:
        pts.append(pts[-1] + 1.0)
    k = rng.randrange(len(pts) - 1)
    a, b = pts[k], pts[k + 1]
    slm_end = rng.choice([0.0, a, b, (a + b) / 2, a + (b - a) / 4, a + 3 * (b - a) / 4, pts[1] / 2, pts[1] / 4, pts[-1], pts[-1] + 5.0])
    backend = rng.choice(T_BACKENDS)
    nq = rng.choice([2, 3]) if backend == "sv" else rng.choice([2, 3, 4, 5])
    # state-preparation error: the dark-atom filter is installed (also with an all-False mask)
    bad = None
    if rng.random() < 0.6:
        max_bad = nq - 1 if backend == "sv" else nq - 2       # emu-mps needs two surviving atoms
        nb = rng.choice([0, 0, 1, 2])
        bad = [False] * nq
        for i in rng.sample(range(nq), min(nb, max(max_bad, 0))):
            bad[i] = True
    # forced site order (emu-mps with optimize_qubit_ordering): mostly permutations that are not involutions
    perm = None
    if backend != "sv" and nq >= 3 and rng.random() < 0.5:
        for _ in range(20):
            perm = list(range(nq))
            rng.shuffle(perm)
            if any(perm[perm[i]] != i for i in range(nq)):
                break
    return dict(grid=pts, slm_end=slm_end, backend=backend, obs0=rng.random() < 0.5,
                reorder=(backend != "sv" and bad is None and perm is None and rng.random() < 0.07), nq=nq, bad=bad,
                slm_target=rng.randrange(nq), perm=perm)


T_BACKENDS = ["sv", "mps", "dmrg"]


def sched_mats(c):
    """full / masked matrices of a schedule case (distinct dyadic entries, differences >= 1)."""
    import torch
    nq = c["nq"]
    full = torch.zeros(nq, nq, dtype=torch.float64)
    for i in range(nq):
        for j in range(i):
            full[i, j] = full[j, i] = float(4 + 5 * i + j)       # all pairs distinct
    masked = full.clone()
    t = c.get("slm_target", 0)
    masked[t] = 0.0
    masked[:, t] = 0.0
    return full, masked


def run_sched(c):
    """Returns (query times, [matrix used in step k as nested lists])."""
    from pulser.backend import Occupation
    nq = c["nq"]
    full, masked = sched_mats(c)
    obs = [Occupation(evaluation_times=[0.0, 1.0] if c["obs0"] else [1.0])]
    kw = {}
    if c["backend"] != "sv":
        kw["optimize_qubit_ordering"] = bool(c["reorder"] or c.get("perm"))
        if c["backend"] == "dmrg":
            from emu_mps import Solver
            kw["solver"] = Solver.DMRG
    cc = dict(dflt=[(1, 1.0)], dt=1.0)
    cfg = T.make_config(cc, "sv" if c["backend"] == "sv" else "mps", obs, **kw)
    tt = c["grid"]
    bad = c.get("bad")
    data = T.zero_data(len(tt) - 1, nq, tt, U=full, masked_U=masked, slm_end=c["slm_end"],
                       bad_atoms=bad, state_prep_error=(0.1 if bad is not None else 0.0))
    res, log = T.run_stubbed(c["backend"], data, cfg, force_perm=c.get("perm"))
    return log["queries"], [m.tolist() for m in log["step_mats"]]


def expected_step_mats(c):
    """C23 for the matrix used in each step: masked before the SLM end (at the back-end's query time), full
    afterwards; rows/columns of badly prepared atoms zero (emu-sv) or removed (emu-mps), at EVERY step."""
    tt, e, nq = c["grid"], c["slm_end"], c["nq"]
    full, masked = sched_mats(c)
    bad = c.get("bad")
    out = []
    for k in range(len(tt) - 1):
        q = tt[k] if (c["backend"] == "sv" or k > 0) else 0.5 * (0.0 + tt[1])
        m = (masked if q < e else full).clone()
        if bad is not None:
            if c["backend"] == "sv":
                for i in range(nq):
                    if bad[i]:
                        m[i] = 0.0
                        m[:, i] = 0.0
            elif c.get("perm") is None:
                keep = [i for i in range(nq) if not bad[i]]
                m = m[keep][:, keep]
        if c["backend"] != "sv" and c.get("perm") is not None:
            # site k holds atom perm[k]; sites holding a badly prepared atom are dropped: entry (a, b) must be the
            # register-order interaction of the two atoms the sites hold
            atoms = [a for a in c["perm"] if bad is None or not bad[a]]
            m = m[atoms][:, atoms]
        out.append((q, m.tolist()))
    return out


def sched_oracle(c, queries, used):
    if c["reorder"]:
        return None
    exp = expected_step_mats(c)
    if len(used) != len(exp):
        return f"{len(used)} steps recorded for {len(exp)} intervals"
    tt = c["grid"]
    for k, (u, (q, m)) in enumerate(zip(used, exp)):
        if u != m:
            return (f"step {k} [{tt[k]}, {tt[k + 1]}] of {c['backend']} used the matrix {u}; SLM ends at {c['slm_end']}, "
                    f"query time {q}, bad atoms {c.get('bad')}: expected {m}")
    return None


def sched_correspondence(rep, rng, n):
    lines, expect, meta = [], [], []
    for _ in range(n):
        c = gen_sched_case(rng)
        try:
            queries, used = run_sched(c)
        except Exception as e:
            rep.fail(f"{c['backend']} run raised {type(e).__name__}: {str(e)[:200]}", c)
            continue
        msg = sched_oracle(c, queries, used)
        if msg:
            rep.fail(msg, c)
        tt = c["grid"]
        if c["backend"] == "sv":
            lines.append(f"ia.sv {f2b(0.5)} {lst(f2b(x) for x in tt)} {len(tt) - 1} {int(c['obs0'])}")
        else:
            lines.append(f"ia.mps {f2b(0.5)} {lst(f2b(x) for x in tt)} {len(tt) - 1} {int(bool(c['reorder'] or c.get('perm')))}")
        expect.append(lst(f2b(x) for x in queries))
        meta.append(c)
        if not c["reorder"]:
            pm = c.get("perm")
            full, masked = sched_mats(c)
            bad = c.get("bad")
            lines.append(f"ia.steps {'sv' if c['backend'] == 'sv' else 'mps'} {f2b(0.5)} {c['nq']} "
                         f"{lst(f2b(x) for x in full.flatten().tolist())} {lst(f2b(x) for x in masked.flatten().tolist())} "
                         f"{f2b(c['slm_end'])} {'N' if bad is None else lst(str(int(b)) for b in bad)} {len(tt) - 1} "
                         f"{lst(f2b(x) for x in tt)} {'N' if pm is None else lst(str(x) for x in pm)}")
            expect.append(";".join(lst(f2b(x) for row in m for x in row) for m in used))
            meta.append(c)
        rep.hist("site_order", "register" if not c.get("perm") else ("forced, %d atoms" % c["nq"]))
        rep.hist("dark_filter", "none" if c.get("bad") is None else f"{sum(c['bad'])} bad")
        rep.hist("sched_backend", c["backend"])
        k = next((i for i in range(len(tt) - 1) if tt[i] < c["slm_end"] <= tt[i + 1]), None)
        rep.hist("slm_end_position", "none/outside" if k is None else ("first step" if k == 0 else "later step")
                 + (" (boundary)" if c["slm_end"] in tt else " (inside)"))
    return lines, expect, meta


def check(rep: Report, tier: str, seed: int) -> None:
    rep.rule = ("(a) get_sequences cases = 1..3 noise trajectories with dyadic symmetric zero-diagonal register matrices "
                "(n = 1..6), optional user matrix (symmetric zero-diagonal, or arbitrary with non-zero diagonal), cutoff on "
                "and off the entry magnitudes (ties), 0..3 SLM targets (with repeats), SLM end, five query times incl. "
                "t = slm_end and slm_end ± 0.5; (b) schedule cases = random half-ns grids, SLM end at step boundaries, "
                "mid-points, quarter points, inside the first step, beyond the end; emu-sv / TDVP / DMRG, with and without an "
                "observable at t=0, qubit reordering, and state_prep_error > 0 with bad-atom masks (all False, 1-2 True); the "
                "matrix handed to the stepper is compared at EVERY step. non-trivial = all; distinct = distinct driver lines")
    rep.assumptions = [
        "register matrices (symmetry, zero diagonal, values) are pulser's; zero diagonal is inherited, not enforced",
        "PulserData.__init__ is bypassed (cannot run under pulser-core 1.9.1): full_interaction_matrix, interaction_cutoff, "
        "slm_end_time, _sequence._slm_mask_targets are set directly",
        "emu-mps keeps its previous Hamiltonian when the new matrix is allclose(atol=1e-10, rtol=1e-8) to the old one: an "
        "SLM mask that changes interactions by less than that is not applied on time (not exercised: test matrices differ by 4)",
        "runs where RCM picks the order only compare the query times; forced site orders (minimize_bandwidth patched to return a non-involutive permutation) compare the matrix of every step",
        "state_prep_error > 0 runs use hand-set bad_atoms masks (all False, one or two True); emu-mps keeps >= 2 good atoms",
    ]
    T.compat.install()
    lean_stage(rep, PROP_MODULE, AUDIT, thorough=(tier == "thorough"))
    rng = seeded(seed * 7919 + 23)
    l1, e1, m1 = seq_correspondence(rep, rng, 150 if tier == "quick" else 3000)
    l2, e2, m2 = sched_correspondence(rep, rng, 150 if tier == "quick" else 1500)
    try:
        out = Driver().batch(l1 + l2)
    except LeanError as e:
        rep.broke("driver: " + str(e)[-800:])
        out = []
    bad = 0
    for l, m, e, c in zip(l1 + l2, out, e1 + e2, m1 + m2):
        rep.case(key=l, nontrivial=True,
                 sample=({"n": c["n"], "cutoff": c["cutoff"], "targets": c["targets"], "slm_end": c["slm_end"],
                          "user": c["user"] is not None} if "n" in c else c))
        if m != e:
            bad += 1
            if bad <= 3:
                rep.broke(f"correspondence ({l.split()[0]}): {json.dumps(c)[:400]} model={m[:160]} impl={e[:160]}")
    rep.extra["disagreements"] = bad
    rep.extra["seq_lines"] = len(l1)
    rep.extra["schedule_lines"] = len(l2)
    if rep.broken and not rep.unknown_failing():
        search(rep, seed, 2000 if tier == "quick" else 30000)


def search(rep: Report, seed: int, n: int) -> None:
    """Failing-input search on the real code: the oracles on fresh cases."""
    import torch
    rng = seeded(seed * 104729 + 23)
    for i in range(n):
        c = gen_seq_case(rng)
        regs = [torch.tensor(m, dtype=torch.float64).reshape(c["n"], c["n"]) for m in c["regs"]]
        user = None if c["user"] is None else torch.tensor(c["user"], dtype=torch.float64).reshape(c["n"], c["n"])
        try:
            seqs = T.run_get_sequences(regs, c["reps"], user, c["cutoff"], c["targets"], c["slm_end"], c["n"])
        except Exception as e:
            rep.fail(f"get_sequences raised {type(e).__name__}: {e}", _ser(c))
            return
        k = 0
        for j, r in enumerate(c["reps"]):
            for _ in range(r):
                for t in c["ts"]:
                    msg = seq_oracle(c, j, t, seqs[k].interaction_matrix(t).tolist())
                    if msg:
                        rep.fail(msg, dict(_ser(c), traj=j, t=t))
                        return
                k += 1
        if i % 4 == 0:
            s = gen_sched_case(rng)
            try:
                q, used = run_sched(s)
            except Exception as e:
                rep.fail(f"{s['backend']} run raised {type(e).__name__}: {str(e)[:200]}", s)
                return
            msg = sched_oracle(s, q, used)
            if msg:
                rep.fail(msg, s)
                return
    rep.extra["search_cases"] = n


def replay(rep: Report, path: str) -> int:
    import torch
    T.compat.install()
    data = json.load(open(path))
    bad = 0
    for f in data.get("failing_inputs", []):
        c = f["data"]
        if "grid" in c:
            q, used = run_sched(c)
            msg = sched_oracle(c, q, used)
        else:
            regs = [torch.tensor(m, dtype=torch.float64).reshape(c["n"], c["n"]) for m in c["regs"]]
            user = None if c["user"] is None else torch.tensor(c["user"], dtype=torch.float64).reshape(c["n"], c["n"])
            seqs = T.run_get_sequences(regs, c["reps"], user, c["cutoff"], c["targets"], c["slm_end"], c["n"])
            msg, k = None, 0
            for j, r in enumerate(c["reps"]):
                for _ in range(r):
                    for t in c["ts"]:
                        msg = msg or seq_oracle(c, j, t, seqs[k].interaction_matrix(t).tolist())
                    k += 1
        print("replay:", msg or "property holds on this input now")
        bad += bool(msg)
    return 1 if bad else 0
