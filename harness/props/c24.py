"""C24 — noise-model channels act on the intended atomic levels
(emu_base/jump_lindblad_operators.py, emu_base/pulser_adapter.py:_get_all_lindblad_noise_operators).

Lean: EmuVerif.Props.C24. Correspondence: the real `get_lindblad_operators` /
`_get_all_lindblad_noise_operators` against `Model.Noise` run at binary64 with the recorded
`math.sqrt` tape (exact comparison of every entry, exception kinds included). Oracle on the real
code: the total Lindblad dissipator of the returned operators against the dissipator of
pulser-core's own collapse operators (`HamiltonianData._build_local_collapse_operators`),
transported with the basis permutation measured from `MPS.from_state_amplitudes`.
"""
from __future__ import annotations

import json
import math
import types
from unittest import mock

import numpy as np

from harness.common import Driver, LeanError, Report, f2b, b2f, lst, lean_stage, seeded

REGISTRY = dict(
    text=("Lean 4 theorems over Cx(alpha), alpha any field, sqrt an arbitrary function with s*s = x at the arguments "
          "used: relaxation = sqrt(G)|g><r| in the emulator's (g,r[,x]) ordering and L^dag L = G|r><r|; depolarizing "
          "operators are +-P(Pulser's)P^T (every dim >= 2, ising and XY) hence same dissipator; dephasing has Pulser's "
          "dissipator in dim 2; eff_noise operators are sqrt(rate) P A P^T for XY (any dim) and ising dim 2; "
          "_get_all_lindblad_noise_operators concatenates in noise_types order; PulserData.lindblad_ops are the operators of "
          "the noise model in effect (device default if prefer_device_noise_model else config's; NoiseModel() if None), "
          "independent of the other model. PARTIAL in dim 3 (leakage level), two "
          "defects of the unchanged code with kernel-checked counterexamples: (a) eff_noise ising flips only the 2x2 "
          "block (D5, pinned by test_flipping_right_elements): proved only for operators whose couplings to x are "
          "r<->g symmetric; (b) dephasing uses sqrt(G/2)(|g><g|-|r><r|) whose dissipator equals Pulser's "
          "sqrt(2G)|r><r| only on states without coherences to x. Model tied to the code by exact binary64 "
          "correspondence incl. exception kinds; dissipators compared with pulser-core's own collapse operators."),
    note=("Trusted: Lean kernel + propext/Classical.choice/Quot.sound; Mathlib; hand-written Model.Noise tied by "
          "correspondence only; the basis orderings (emulator (g,r,x) measured from MPS.from_state_amplitudes on every "
          "run; XY assumed (u,d,x) = Pulser's, not observable through a labelled API); math.sqrt contract validated "
          "numerically on the recorded tape; binary64 rounding outside the theorems."),
    technique="Lean 4 proof (entry-wise + dissipator algebra over a commutative star ring) + exact model/implementation correspondence",
    design_ref="DESIGN.md §5 C24, §6 D5",
)

PROP_MODULE = "EmuVerif.Props.C24"
AUDIT = "Audit/C24.lean"

NT_CODE = {"relaxation": 0, "dephasing": 1, "depolarizing": 2, "eff_noise": 3, "leakage": 4}
NON_LINDBLAD = ["SPAM", "doppler", "amplitude", "detuning", "register", "dmm_sigma", "dmm_crosstalk"]
_UNKNOWN: dict = {}
K_EFF = "C24-effnoise-dim3-leakage-block"
K_DEPH = "C24-dephasing-dim3-leakage-coherence"


def nt_code(s: str) -> str:
    if s in NT_CODE:
        return str(NT_CODE[s])
    if s in NON_LINDBLAD:
        return f"5:{NON_LINDBLAD.index(s)}"
    return f"6:{_UNKNOWN.setdefault(s, len(_UNKNOWN))}"


# ------------------------------------------------------------------ real code under a sqrt tape
class _MathProxy:
    """stands in for the `math` module inside jump_lindblad_operators: records sqrt calls"""

    def __init__(self):
        self.calls = []

    def sqrt(self, x):
        r = math.sqrt(x)
        self.calls.append((float(x), float(r)))
        return r

    def __getattr__(self, k):
        return getattr(math, k)


def _exc_kind(e: Exception) -> str:
    if isinstance(e, AssertionError):
        return "assertion"
    if isinstance(e, NotImplementedError):
        return "notimplemented"
    if isinstance(e, IndexError):
        return "indexerror"
    if isinstance(e, ValueError):
        s = str(e)
        if s.startswith("Only"):
            return "valueshape"
        if s.startswith("Unknown noise type"):
            return "valueunknown"
    return "other:" + type(e).__name__ + ":" + str(e)[:80]


def run_impl(nm, noise_type, it, dim):
    """-> (('ok', [np arrays]) | ('err', kind), tape)"""
    import emu_base.jump_lindblad_operators as jl
    proxy = _MathProxy()
    with mock.patch.object(jl, "math", proxy):
        try:
            ops = jl.get_lindblad_operators(noise_type=noise_type, noise_model=nm, interact_type=it, dim=dim)
            out = ("ok", [np.array(o.detach().cpu().numpy(), dtype=complex) for o in ops])
        except Exception as e:  # noqa: BLE001 — mapped to the model's error enum
            out = ("err", _exc_kind(e))
    return out, proxy.calls


def run_impl_all(nm, it, dim):
    import emu_base.jump_lindblad_operators as jl
    import emu_base.pulser_adapter as pa
    proxy = _MathProxy()
    with mock.patch.object(jl, "math", proxy):
        try:
            ops = pa._get_all_lindblad_noise_operators(nm, dim=dim, interact_type=it)
            out = ("ok", [np.array(o.detach().cpu().numpy(), dtype=complex) for o in ops])
        except Exception as e:  # noqa: BLE001
            out = ("err", _exc_kind(e))
    return out, proxy.calls


# ------------------------------------------------------------------ model lines
def _op_tok(a: np.ndarray) -> str:
    a = np.asarray(a, dtype=complex)
    r, c = a.shape
    ents = []
    for i in range(r):
        for j in range(c):
            ents += [f2b(a[i, j].real), f2b(a[i, j].imag)]
    return f"{r}:{c}:" + "_".join(ents)


def _model_fields(nm, tape):
    return [lst(nt_code(t) for t in nm.noise_types), f2b(nm.relaxation_rate), f2b(nm.dephasing_rate),
            f2b(nm.depolarizing_rate), "1" if nm.hyperfine_dephasing_rate != 0.0 else "0",
            lst(f"{f2b(a)}:{f2b(b)}" for a, b in tape), lst(f2b(r) for r in nm.eff_noise_rates),
            lst(_op_tok(o) for o in nm.eff_noise_opers)]


def model_line_get(variant, nm, noise_type, it, dim, tape):
    return " ".join(["noise.get", str(variant), nt_code(noise_type), "0" if it == "ising" else "1", str(dim)]
                    + _model_fields(nm, tape))


def model_line_all(variant, nm, it, dim, tape):
    if nm is None:
        dummy = types.SimpleNamespace(noise_types=(), relaxation_rate=0.0, dephasing_rate=0.0, depolarizing_rate=0.0,
                                      hyperfine_dephasing_rate=0.0, eff_noise_rates=(), eff_noise_opers=())
        return " ".join(["noise.all", str(variant), "0" if it == "ising" else "1", str(dim), "0"] + _model_fields(dummy, tape))
    return " ".join(["noise.all", str(variant), "0" if it == "ising" else "1", str(dim), "1"] + _model_fields(nm, tape))


def parse_model(out: str, dim: int):
    t = out.split()
    if t[0] == "err":
        return ("err", t[1])
    if t[0] != "ok":
        return ("bad", out)
    k = int(t[1])
    if k == 0 or t[2] == "-":
        return ("ok", [np.zeros((dim, dim), dtype=complex) for _ in range(k)] if dim == 0 else [])
    ops = []
    for tok in t[2].split(";"):
        v = [float("nan") if x == "nan" else b2f(x) for x in tok.split(",")]
        ops.append(np.array([complex(v[2 * i], v[2 * i + 1]) for i in range(dim * dim)]).reshape(dim, dim))
    return ("ok", ops)


def same(a, b) -> bool:
    if a[0] != b[0]:
        return False
    if a[0] != "ok":
        return a[1] == b[1]
    if len(a[1]) != len(b[1]):
        return False
    return all(x.shape == y.shape and np.array_equal(x, y) for x, y in zip(a[1], b[1]))  # exact (−0 == 0)


# ------------------------------------------------------------------ generators
def _rate(rng):
    return rng.choice([0.0, 1.0, 0.25, 2.0, 1e-3, rng.uniform(0, 3), 10 ** rng.uniform(-6, 2)])


def _cop(rng, r, c, style):
    if style == "unit":
        a = np.zeros((r, c), dtype=complex)
        a[rng.randrange(r), rng.randrange(c)] = 1.0
        return a
    if style == "dyadic":
        return np.array([[complex(rng.randint(-8, 8) / 4, rng.randint(-8, 8) / 4) for _ in range(c)] for _ in range(r)])
    return np.array([[complex(rng.gauss(0, 1), rng.gauss(0, 1)) for _ in range(c)] for _ in range(r)])


def gen_real_model(rng, dim):
    """a NoiseModel pulser itself accepts (mostly-valid stream)"""
    from pulser.noise_model import NoiseModel
    kw = {}
    if rng.random() < 0.5:
        kw["relaxation_rate"] = _rate(rng)
    if rng.random() < 0.5:
        kw["dephasing_rate"] = _rate(rng)
    if rng.random() < 0.5:
        kw["depolarizing_rate"] = _rate(rng)
    if rng.random() < 0.15:
        kw["hyperfine_dephasing_rate"] = rng.choice([0.0, 0.5])
    if rng.random() < 0.3:
        kw["state_prep_error"] = 0.1
    if rng.random() < 0.2:
        kw["amp_sigma"] = 0.05
    # the other non-Lindbladian channels (must be skipped by _get_all_lindblad_noise_operators)
    extra = rng.choice([None, None, None, "doppler", "detuning", "register", "dmm_sigma", "dmm_crosstalk"])
    if extra == "doppler":
        kw["temperature"] = 50.0
    elif extra == "detuning":
        kw["detuning_sigma"] = 0.1
    elif extra == "register":
        kw.update(temperature=50.0, trap_waist=1.0, trap_depth=150.0)
    elif extra == "dmm_sigma":
        kw["dmm_sigma"] = 0.1
    elif extra == "dmm_crosstalk":
        kw["detuning_map_spot_waist"] = 3.0
    n_eff = rng.choice([0, 1, 1, 2, 3]) if dim == 2 else rng.choice([1, 1, 2, 3])
    if n_eff:
        kw["eff_noise_rates"] = [_rate(rng) for _ in range(n_eff)]
        kw["eff_noise_opers"] = [_cop(rng, dim, dim, rng.choice(["unit", "dyadic", "gauss"])) for _ in range(n_eff)]
    if dim == 3:
        kw["with_leakage"] = True
    try:
        return NoiseModel(**kw)
    except Exception:  # pulser rejected the combination: not a case
        return None


def gen_mock_model(rng, dim):
    """attribute bag read by get_lindblad_operators — malformed stream (wrong shapes, length
    mismatch, unknown / non-Lindbladian type names)"""
    pool = ["relaxation", "dephasing", "depolarizing", "eff_noise", "leakage", "SPAM", "doppler", "amplitude",
            "detuning", "register", "dmm_sigma", "dmm_crosstalk", "weird", "trap"]
    k = rng.randint(0, 5)
    types_ = tuple(rng.sample(pool, k))
    n_eff = rng.randint(0, 3)
    shapes = [(dim, dim) if rng.random() < 0.7 else (rng.randint(1, 4), rng.randint(1, 4)) for _ in range(n_eff)]
    n_rates = n_eff if rng.random() < 0.8 else rng.randint(0, 3)
    return types.SimpleNamespace(
        noise_types=types_, relaxation_rate=_rate(rng), dephasing_rate=_rate(rng), depolarizing_rate=_rate(rng),
        hyperfine_dephasing_rate=rng.choice([0.0, 0.0, 0.0, 0.3, -0.0]),
        eff_noise_rates=tuple(_rate(rng) for _ in range(n_rates)),
        eff_noise_opers=tuple(_cop(rng, r, c, "dyadic") for r, c in shapes))


# ------------------------------------------------------------------ basis orderings (measured)
def measure_orderings(rep: Report):
    """emulator index -> Pulser index for ('r','g') and ('r','g','x'), measured on the real classes."""
    out = {}
    try:
        from harness import compat
        compat.install()
        from emu_mps import MPS
        from pulser.channels.base_channel import STATES_RANK
        for basis in (("r", "g"), ("r", "g", "x")):
            pulser_order = [s for s in STATES_RANK if s in basis]
            emu_index = {}
            for s in basis:
                m = MPS.from_state_amplitudes(eigenstates=basis, amplitudes={s + s: 1.0})
                v = m.factors[0].reshape(-1).abs()
                emu_index[s] = int(v.argmax())
            emu_order = sorted(basis, key=lambda s: emu_index[s])
            out[len(basis)] = [pulser_order.index(s) for s in emu_order]
        rep.extra["basis_orderings_measured"] = {str(k): v for k, v in out.items()}
    except Exception as e:  # noqa: BLE001 — the probe is an assumption check, not the property
        rep.notes.append(f"basis-order probe unavailable ({type(e).__name__}: {e}); using the documented (g,r,x)")
    return out


def to_pulser(it: str, dim: int, measured) -> list[int]:
    if it == "XY":
        return list(range(dim))
    if dim in measured:
        return measured[dim]
    return [1, 0] + list(range(2, dim))


# ------------------------------------------------------------------ dissipators
def superop(ops, d):
    """matrix of rho -> sum_k L rho L^dag - 1/2 {L^dag L, rho} on row-major vec(rho)"""
    S = np.zeros((d * d, d * d), dtype=complex)
    I = np.eye(d)
    for L in ops:
        LdL = L.conj().T @ L
        S += np.kron(L, L.conj()) - 0.5 * (np.kron(LdL, I) + np.kron(I, LdL.T))
    return S


def pulser_collapse_ops(nm, it: str, dim: int):
    """pulser-core's own construction, as dense matrices in Pulser's ordering"""
    from pulser._hamiltonian_data.hamiltonian_data import HamiltonianData
    eb = (["r", "g"] if it == "ising" else ["u", "d"]) + (["x"] if dim == 3 else [])
    basis_name = ("ground-rydberg" if it == "ising" else "XY") + ("_with_error" if dim == 3 else "")
    names = HamiltonianData._get_projectors(eb)
    cops, paulis = HamiltonianData._build_local_collapse_operators(None, nm, basis_name, eb, names)

    def sigma(name):
        a, b = name[len("sigma_"):]
        m = np.zeros((dim, dim), dtype=complex)
        m[eb.index(a), eb.index(b)] = 1.0
        return m

    out = []
    for coeff, op in cops:
        if isinstance(op, str):
            if op in paulis:
                m = sum(c * sigma(n) for c, n in paulis[op])
            else:
                m = sigma(op)
        else:
            m = np.array(op, dtype=complex)
        out.append(complex(coeff) * m)
    return out


def transport(ops, perm):
    """P A P^T: emulator index e holds Pulser index perm[e]"""
    idx = np.array(perm)
    return [o[np.ix_(idx, idx)] for o in ops]


def dissipator_case(nm, it, dim, measured):
    """-> (max abs difference, scale, real ops) of the two total dissipators, or None if pulser refuses"""
    try:
        ref = pulser_collapse_ops(nm, it, dim)
    except Exception:  # pulser refuses this combination
        return None
    (tag, ops), _ = run_impl_all(nm, it, dim)
    if tag != "ok":
        return ("err", ops)
    S_emu = superop(ops, dim)
    S_ref = superop(transport(ref, to_pulser(it, dim, measured)), dim)
    scale = max(1.0, float(np.abs(S_ref).max()), float(np.abs(S_emu).max()))
    return float(np.abs(S_emu - S_ref).max()), scale, ops


LINDBLAD = ("relaxation", "dephasing", "depolarizing", "eff_noise")


def channel_view(nm, t):
    """the noise model restricted to one channel (both get_lindblad_operators and pulser's builder only
    read these attributes)"""
    return types.SimpleNamespace(
        noise_types=(t,), relaxation_rate=nm.relaxation_rate, dephasing_rate=nm.dephasing_rate,
        hyperfine_dephasing_rate=nm.hyperfine_dephasing_rate, depolarizing_rate=nm.depolarizing_rate,
        eff_noise_rates=tuple(nm.eff_noise_rates), eff_noise_opers=tuple(nm.eff_noise_opers))


def channel_mismatches(nm, it, dim, measured):
    """per Lindbladian channel: real operators vs pulser-core's for that channel alone, at the
    dissipator level. -> list of pending records for every channel that disagrees (or raises)."""
    pend = []
    perm = to_pulser(it, dim, measured)
    for t in nm.noise_types:
        if t not in LINDBLAD:
            continue
        view = channel_view(nm, t)
        try:
            ref = pulser_collapse_ops(view, it, dim)
        except Exception:  # pulser refuses
            continue
        out, tape = run_impl(view, t, it, dim)
        if out[0] != "ok":
            pend.append(dict(nm=nm, view=view, it=it, dim=dim, t=t, out=out, tape=tape, diff=float("inf"), scale=1.0,
                             msg=f"real get_lindblad_operators({t}) raised {out[1]} on a model pulser accepts"))
            continue
        S_emu, S_ref = superop(out[1], dim), superop(transport(ref, perm), dim)
        scale = max(1.0, float(np.abs(S_ref).max()), float(np.abs(S_emu).max()))
        diff = float(np.abs(S_emu - S_ref).max())
        if diff > 1e-12 * scale:
            pend.append(dict(nm=nm, view=view, it=it, dim=dim, t=t, out=out, tape=tape, diff=diff, scale=scale,
                             msg=f"{t} channel: dissipator differs from pulser-core's by {diff:.3e} (scale {scale:.2e}) dim={dim} {it}"))
    return pend


def resolve_pending(rep: Report, pend: list, counts: dict) -> None:
    """Known class ONLY when the real operators of the disagreeing channel are, entry by entry, those of
    the as-found Lean model (`noise.get 0 …`: sqrt(G/2)·diag(1,−1,0) for dephasing, block-flip-only for
    eff_noise) in dim 3; any other disagreeing operator is a new failure with its own class."""
    if not pend:
        return
    lines = [model_line_get(0, q["view"], q["t"], q["it"], q["dim"], q["tape"]) for q in pend]
    try:
        mo = Driver().batch(lines)
    except LeanError as e:
        rep.broke("driver (classification): " + str(e)[-600:])
        mo = [None] * len(lines)
    shown = {K_EFF: 0, K_DEPH: 0}
    for q, o in zip(pend, mo):
        is_asfound = o is not None and q["out"][0] == "ok" and same(parse_model(o, q["dim"]), q["out"])
        if is_asfound and q["dim"] == 3 and q["t"] == "dephasing":
            klass = K_DEPH
        elif is_asfound and q["dim"] == 3 and q["t"] == "eff_noise" and q["it"] == "ising":
            klass = K_EFF
        else:
            klass = f"C24-{q['t']}-dim{q['dim']}-{q['it']}-unexpected-operator"
        key = {K_EFF: "mismatch_known_eff", K_DEPH: "mismatch_known_deph"}.get(klass, "mismatch_new")
        counts[key] = counts.get(key, 0) + 1
        if klass in shown:
            shown[klass] += 1
            if shown[klass] > 4 and not q.get("witness"):
                continue
        data = dict(_ser_model(q["nm"], q["it"], q["dim"]), channel=q["t"], matches_as_found_model=bool(is_asfound),
                    real_operators=[_ser(x) for x in q["out"][1]] if q["out"][0] == "ok" else q["out"][1])
        if q.get("witness"):
            data["witness"] = q["witness"]
        rep.fail(q["msg"] + ("" if is_asfound else " — operator is NOT the as-found one"), data, klass=klass)


# ------------------------------------------------------------------ Lean witnesses on the real code
def witness_models():
    """the two kernel-checked counterexamples as real NoiseModels"""
    from pulser.noise_model import NoiseModel
    A = np.zeros((3, 3)); A[2, 0] = 1.0
    xx = np.zeros((3, 3)); xx[2, 2] = 1.0
    return [("effnoise_dim3_counterexample", NoiseModel(eff_noise_rates=[1.0], eff_noise_opers=[A], with_leakage=True), "eff_noise"),
            ("dephasing_dim3_counterexample", NoiseModel(dephasing_rate=2.0, eff_noise_rates=[0.0], eff_noise_opers=[xx],
                                                         with_leakage=True), "dephasing")]


def witness_pending(measured):
    """A = E20 = Pulser's |x><r|, rate 1 (entry (x,g) instead of (x,r));  Gamma = 2, dim 3 (d/dt rho_gx = -G/4
    instead of 0). Returned as pending records so that they are classified like every other mismatch."""
    pend = []
    for name, nm, t in witness_models():
        for q in channel_mismatches(nm, "ising", 3, measured):
            if q["t"] == t:
                q["witness"] = name
                q["msg"] = f"Lean witness {name} replayed on the real code: " + q["msg"]
                pend.append(q)
    return pend


def _ser(a):
    return [[[float(z.real), float(z.imag)] for z in row] for row in np.asarray(a)]


# ------------------------------------------------------------------ PulserData.__init__: which model's channels
K_PDATA = "C24-pulserdata-operators-not-from-effective-model"


def gen_pdata_kwargs(rng, xy: bool, lindblad: bool):
    """JSON-friendly NoiseModel kwargs (eff operators as nested [re, im] lists)"""
    kw = {}
    if lindblad:
        if not xy and rng.random() < 0.6:
            kw["relaxation_rate"] = _rate(rng) or 0.5
        if rng.random() < 0.5:
            kw["dephasing_rate"] = _rate(rng) or 0.5
        if rng.random() < 0.5:
            kw["depolarizing_rate"] = _rate(rng) or 0.5
        dim = rng.choice([2, 3])
        n_eff = rng.choice([0, 1, 2]) if dim == 2 else rng.choice([1, 2])
        if n_eff:
            kw["eff_noise_rates"] = [_rate(rng) or 0.5 for _ in range(n_eff)]
            kw["eff_noise_opers"] = [_ser(_cop(rng, dim, dim, rng.choice(["unit", "dyadic", "gauss"]))) for _ in range(n_eff)]
        if dim == 3:
            kw["with_leakage"] = True
        if not kw:
            kw["depolarizing_rate"] = 0.5
    if rng.random() < 0.4:
        kw["state_prep_error"] = 0.1
    if not xy and rng.random() < 0.2:
        kw["amp_sigma"] = 0.05
    return kw


def kw_to_model(kw):
    from pulser.noise_model import NoiseModel
    if kw is None:
        return None
    kw = dict(kw)
    if "eff_noise_opers" in kw:
        kw["eff_noise_opers"] = [np.array([[complex(*z) for z in row] for row in o]) for o in kw["eff_noise_opers"]]
    return NoiseModel(**kw)


def build_pdata(it: str, prefer: bool, dev_nm, cfg_nm):
    """the real PulserData.__init__ on a tiny real sequence -> (pd | exception, sqrt tape, device model, config)"""
    import dataclasses
    import warnings
    import pulser
    from pulser.devices import MockDevice
    from harness import compat
    compat.install()
    import emu_base.jump_lindblad_operators as jl
    from emu_base import PulserData
    dev = dataclasses.replace(MockDevice, default_noise_model=dev_nm)
    reg = pulser.Register({"q0": (0, 0), "q1": (6, 0)})
    seq = pulser.Sequence(reg, dev)
    if it == "XY":
        seq.declare_channel("ch", "mw_global")
    else:
        seq.declare_channel("ch", "rydberg_global")
    seq.add(pulser.Pulse.ConstantPulse(40, 3.0, 0.0, 0.0), "ch")
    proxy = _MathProxy()
    with warnings.catch_warnings():
        warnings.simplefilter("ignore")
        kw = {} if cfg_nm is None else dict(noise_model=cfg_nm)
        cfg = compat.mps_config(prefer_device_noise_model=prefer, dt=10, **kw)
        with mock.patch.object(jl, "math", proxy):
            try:
                pd = PulserData(sequence=seq, config=cfg, dt=cfg.dt)
            except Exception as e:  # noqa: BLE001
                pd = e
    return pd, proxy.calls, seq, cfg


def _pdata_fields(nm):
    if nm is None:
        nm = types.SimpleNamespace(noise_types=(), relaxation_rate=0.0, dephasing_rate=0.0, depolarizing_rate=0.0,
                                   hyperfine_dephasing_rate=0.0, eff_noise_rates=(), eff_noise_opers=())
        present = "0"
    else:
        present = "1"
    f = _model_fields(nm, [])
    return [present] + f[:5] + f[6:]


def pdata_check_one(it, prefer, dev_kw, cfg_kw, measured):
    """-> dict(skip=…) | dict(lines, out, dim, fail=[(msg, klass)], pending=[…])"""
    from pulser._hamiltonian_data import HamiltonianData
    import emu_base.pulser_adapter as pa
    dev_nm, cfg_nm = kw_to_model(dev_kw), kw_to_model(cfg_kw)
    pd, tape, seq, cfg = build_pdata(it, prefer, dev_nm, cfg_nm)
    from pulser.noise_model import NoiseModel
    eff = (dev_nm if prefer else cfg.noise_model) or NoiseModel()
    try:   # does pulser accept the model in effect on this sequence?
        hd = HamiltonianData.from_sequence(seq, noise_model=eff, n_trajectories=1)
        dim = hd.basis_data.dim
    except Exception as e:  # noqa: BLE001
        return dict(skip=f"pulser refuses the effective model: {type(e).__name__}")
    res = dict(fail=[], pending=[], dim=dim)
    cfg_model_for_line = None if cfg.noise_model is None else cfg.noise_model
    head = ["0" if it == "ising" else "1", str(dim), "1" if prefer else "0", lst(f"{f2b(a)}:{f2b(b)}" for a, b in tape)]
    res["lines"] = [" ".join(["noise.pdata", v] + head + _pdata_fields(dev_nm) + _pdata_fields(cfg_model_for_line)) for v in ("0", "1")]
    if isinstance(pd, Exception):
        res["out"] = ("err", _exc_kind(pd))
        res["fail"].append((f"PulserData.__init__ raised {type(pd).__name__}: {str(pd)[:120]} although pulser accepts the "
                            f"noise model in effect (prefer_device_noise_model={prefer})", K_PDATA))
        return res
    res["out"] = ("ok", [np.array(o.detach().cpu().numpy(), dtype=complex) for o in pd.lindblad_ops])
    if pd.noise_model is not eff and not (dev_nm is None and prefer) and not (cfg.noise_model is None and not prefer):
        res["fail"].append((f"PulserData.noise_model is not the model in effect (prefer_device_noise_model={prefer})", None))
    if pd.dim != dim:
        res["fail"].append((f"PulserData.dim={pd.dim} but the effective model's basis has {dim} levels", None))
    (tag, want), _ = run_impl_all(pd.noise_model, it, pd.dim)
    if tag != "ok" or not same(("ok", want), res["out"]):
        res["fail"].append((f"PulserData.lindblad_ops ({len(res['out'][1])} operators) are not the jump operators of the noise "
                            f"model in effect {tuple(pd.noise_model.noise_types)} (prefer_device_noise_model={prefer}, "
                            f"config model {tuple(cfg.noise_model.noise_types) if cfg.noise_model else None})", K_PDATA))
        return res
    try:
        ref = pulser_collapse_ops(pd.noise_model, it, pd.dim)
    except Exception:  # noqa: BLE001
        return res
    S_emu = superop(res["out"][1], pd.dim)
    S_ref = superop(transport(ref, to_pulser(it, pd.dim, measured)), pd.dim)
    scale = max(1.0, float(np.abs(S_ref).max()), float(np.abs(S_emu).max()))
    if float(np.abs(S_emu - S_ref).max()) > 1e-12 * scale:
        ch = channel_mismatches(pd.noise_model, it, pd.dim, measured)
        if ch:
            res["pending"] = ch
        else:
            res["fail"].append(("PulserData.lindblad_ops: total dissipator differs from pulser-core's for the model in effect", None))
    return res


def pulserdata_stage(rep: Report, rng, measured, n: int) -> None:
    """{prefer_device_noise_model} x {device default model: None / no Lindblad channel / Lindblad channels} x
    {config.noise_model: not given / different Lindblad channels} on the real PulserData.__init__."""
    cases, lines, pend = [], [], []
    counts = {}
    for i in range(n):
        it = rng.choice(["ising", "ising", "XY"])
        prefer = rng.random() < 0.6
        dkind = rng.choice(["none", "plain", "lindblad", "lindblad"])
        ckind = rng.choice(["default", "lindblad", "lindblad"])
        dev_kw = None if dkind == "none" else gen_pdata_kwargs(rng, it == "XY", dkind == "lindblad")
        cfg_kw = None if ckind == "default" else gen_pdata_kwargs(rng, it == "XY", True)
        data = dict(pdata=dict(it=it, prefer=prefer, device=dev_kw, config=cfg_kw))
        try:
            r = pdata_check_one(it, prefer, dev_kw, cfg_kw, measured)
        except Exception as e:  # noqa: BLE001 — could not even build the case (pulser rejects the kwargs)
            rep.hist("pdata_outcome", "unbuildable:" + type(e).__name__)
            continue
        if "skip" in r:
            rep.hist("pdata_outcome", "skip")
            continue
        rep.hist("pdata_case", f"prefer={int(prefer)} dev={dkind} cfg={ckind} {it}")
        rep.hist("pdata_outcome", r["out"][1] if r["out"][0] == "err" else f"ok{len(r['out'][1])}")
        for msg, klass in r["fail"]:
            rep.fail(msg, data, klass=klass)
        for q in r["pending"]:
            q["msg"] = "PulserData.lindblad_ops: " + q["msg"]
        pend += r["pending"]
        cases.append((r, data))
        lines += r["lines"]
    try:
        mo = Driver().batch(lines)
    except LeanError as e:
        rep.broke("driver (pulserdata): " + str(e)[-600:])
        mo = None
    if mo is not None:
        dis = 0
        for k, (r, data) in enumerate(cases):
            a = same(parse_model(mo[2 * k], r["dim"]), r["out"])
            b = same(parse_model(mo[2 * k + 1], r["dim"]), r["out"])
            rep.case(key=r["lines"][0], nontrivial=True, sample=dict(path="PulserData.__init__", **{k2: str(v)[:60] for k2, v in data["pdata"].items()}))
            if not a and not b:
                dis += 1
                if dis <= 3:
                    rep.broke("correspondence Model.Noise.pulserDataLindblad vs PulserData.lindblad_ops: "
                              + json.dumps(data)[:400] + f" model={mo[2 * k][:160]} impl={str(r['out'])[:160]}")
        rep.extra["pulserdata_disagreements"] = dis
    resolve_pending(rep, pend, counts)
    rep.extra["pulserdata_classes"] = counts
    rep.extra["pulserdata_cases"] = len(cases)


# ------------------------------------------------------------------ check
def check(rep: Report, tier: str, seed: int) -> None:
    rep.rule = ("cases = (noise model, queried noise type, interaction type, dim) from one PRNG; models are real "
                "pulser NoiseModel objects (valid stream; rates from {0, 1, 1/4, 2, 1e-3, U(0,3), 10^U(-6,2)}, eff operators "
                "unit / dyadic / Gaussian complex, dim 2 and 3) and attribute bags (malformed stream: wrong shapes, "
                "rate/operator count mismatch, unknown and non-Lindbladian type names, dims 1-4). non-trivial = at "
                "least one operator returned or an exception kind; distinct = distinct model line")
    rep.assumptions = [
        "math.sqrt contract s*s = x: validated on every recorded call (|s*s-x| <= 4e-16*x)",
        "emulator basis ordering (g,r[,x]) measured from MPS.from_state_amplitudes; XY ordering (u,d[,x]) = Pulser's is "
        "assumed (the code comment says so; no labelled XY state API exists to measure it)",
        "Pulser's definition = pulser-core 1.9.1 HamiltonianData._build_local_collapse_operators (called unbound, "
        "self=None) with op_matrix names from _get_projectors; sigma_ab = |a><b|",
        "binary64 rounding is outside the theorems",
    ]
    lean_stage(rep, PROP_MODULE, AUDIT, thorough=(tier == "thorough"))
    rng = seeded(seed * 7919 + 24)
    np.random.seed(seed)
    measured = measure_orderings(rep)
    n = 700 if tier == "quick" else 20000

    # ---- correspondence --------------------------------------------------------------
    lines, impl_out, meta = [], [], []
    drv_extra = [("noise.topulser 0 2", "2i"), ("noise.topulser 0 3", "3i"), ("noise.topulser 1 3", "3x")]
    for i in range(n):
        stream = "real" if rng.random() < 0.65 else "mock"
        it = rng.choice(["ising", "ising", "XY"])
        if stream == "real":
            dim = rng.choice([2, 3])
            nm = gen_real_model(rng, dim)
            if nm is None:
                continue
            qdim = dim if rng.random() < 0.9 else 5 - dim   # a few calls with the other dimension
            pool = list(nm.noise_types) + ["relaxation", "dephasing", "depolarizing", "eff_noise", "leakage"]
        else:
            qdim = rng.choice([1, 2, 2, 3, 3, 4])
            nm = gen_mock_model(rng, qdim)
            pool = list(nm.noise_types) + ["relaxation", "dephasing", "eff_noise", "weird", "SPAM"]
        whole = rng.random() < 0.3
        try:
            if whole:
                nm_arg = None if rng.random() < 0.03 else nm
                out, tape = run_impl_all(nm_arg, it, qdim)
                line0 = model_line_all(0, nm_arg, it, qdim, tape)
                line1 = model_line_all(1, nm_arg, it, qdim, tape)
                nt = "*"
            else:
                nt = rng.choice(pool)
                out, tape = run_impl(nm, nt, it, qdim)
                line0 = model_line_get(0, nm, nt, it, qdim, tape)
                line1 = model_line_get(1, nm, nt, it, qdim, tape)
        except Exception as e:  # noqa: BLE001
            rep.fail(f"harness could not drive get_lindblad_operators: {type(e).__name__}: {e}", {"i": i})
            continue
        for x, r in tape:   # sqrt contract
            if not (abs(r * r - x) <= 4e-16 * abs(x)):
                rep.fail(f"math.sqrt contract violated: sqrt({x!r}) = {r!r}", {"x": x, "r": r})
        if out[0] == "err" and out[1].startswith("other:"):
            rep.fail(f"real get_lindblad_operators raised an unmodelled exception {out[1]}",
                     {"noise_type": nt, "it": it, "dim": qdim, "types": list(nm.noise_types) if nm is not None else None})
        lines += [line0, line1]
        impl_out.append(out)
        meta.append(dict(stream=stream, nt=nt, it=it, dim=qdim, whole=whole))
        rep.hist("stream", stream)
        rep.hist("queried_type", nt)
        rep.hist("dim", qdim)
        rep.hist("interaction", it)
        rep.hist("outcome", out[1] if out[0] == "err" else f"ok{len(out[1])}")
    try:
        mo = Driver().batch(lines + [l for l, _ in drv_extra])
    except LeanError as e:
        rep.broke("driver: " + str(e)[-800:])
        mo = None
    variant_votes = {"asFound": 0, "repaired": 0, "both": 0, "neither": 0}
    if mo is not None:
        extra_out = mo[len(lines):]
        for (l, tag), o in zip(drv_extra, extra_out):
            want = to_pulser("ising" if tag.endswith("i") else "XY", int(tag[0]), measured)
            if o != ",".join(map(str, want)):
                rep.broke(f"basis permutation: model `{l}` = {o}, measured on the real classes = {want}")
        dis = 0
        for k, (out, m) in enumerate(zip(impl_out, meta)):
            a = same(parse_model(mo[2 * k], m["dim"]), out)
            b = same(parse_model(mo[2 * k + 1], m["dim"]), out)
            variant_votes["both" if a and b else "asFound" if a else "repaired" if b else "neither"] += 1
            rep.case(key=lines[2 * k], nontrivial=True,
                     sample=dict(m, outcome=out[1] if out[0] == "err" else f"{len(out[1])} operators"))
            if not a and not b:
                dis += 1
                if dis <= 4:
                    rep.broke("correspondence Model.Noise vs get_lindblad_operators: " + json.dumps(m)
                              + f" line={lines[2 * k][:300]} model={mo[2 * k][:200]} impl={str(out)[:200]}")
        rep.extra["correspondence_disagreements"] = dis
    rep.extra["variant_votes"] = variant_votes
    if variant_votes["asFound"] and variant_votes["repaired"]:
        rep.broke(f"the real code matches neither variant consistently: {variant_votes}")
    rep.extra["variant"] = ("repaired" if variant_votes["repaired"] and not variant_votes["asFound"] else
                            "asFound" if variant_votes["asFound"] else "undetermined")

    # ---- property oracle on the real code: dissipators vs pulser-core ------------------
    dissipator_oracle(rep, rng, measured, 250 if tier == "quick" else 6000)

    # ---- PulserData.__init__: the operators come from the noise model in effect ----------
    pulserdata_stage(rep, rng, measured, 60 if tier == "quick" else 1500)

    # ---- Lean witnesses replayed on the real code (classified like any other mismatch) ---
    resolve_pending(rep, witness_pending(measured), rep.extra.setdefault("witness_classes", {}))

    if rep.broken and not rep.unknown_failing():
        dissipator_oracle(rep, seeded(seed * 104729 + 24), measured, 3000 if tier == "quick" else 30000)


def dissipator_oracle(rep: Report, rng, measured, n: int) -> None:
    """The statement of C24 on the real code: total dissipator of the returned operators ==
    dissipator of pulser-core's collapse operators in the emulator's ordering, and the same channel
    by channel (tolerance 1e-12 x scale: products of at most two O(1) entries and a correctly rounded
    sqrt — a few ulp). Disagreeing channels are classified by the actual operator matrix."""
    worst = 0.0
    counts = {"compared": 0, "refused_by_pulser": 0, "mismatch_known_eff": 0, "mismatch_known_deph": 0, "mismatch_new": 0}
    pend = []
    for i in range(n):
        it = rng.choice(["ising", "ising", "XY"])
        dim = rng.choice([2, 3])
        nm = gen_real_model(rng, dim)
        if nm is None or nm.hyperfine_dephasing_rate != 0.0:
            continue
        if it == "XY" and "relaxation" in nm.noise_types:
            continue  # pulser: relaxation needs the ground-rydberg basis
        r = dissipator_case(nm, it, dim, measured)
        if r is None:
            counts["refused_by_pulser"] += 1
            continue
        if r[0] == "err":
            rep.fail(f"real _get_all_lindblad_noise_operators raised {r[1]} on a model pulser accepts",
                     _ser_model(nm, it, dim))
            continue
        diff, scale, _ = r
        counts["compared"] += 1
        rep.hist("oracle_dim_it", f"{dim}{it}")
        ch = channel_mismatches(nm, it, dim, measured)
        pend += ch
        if diff <= 1e-12 * scale:
            worst = max(worst, diff / scale)
        elif not ch:
            counts["mismatch_new"] += 1
            rep.fail(f"total dissipator differs from pulser-core's by {diff:.3e} (scale {scale:.2e}) dim={dim} {it} "
                     f"although every channel agrees on its own", _ser_model(nm, it, dim))
    resolve_pending(rep, pend, counts)
    rep.extra["dissipator_oracle"] = counts
    rep.extra["dissipator_worst_rel_diff_on_agreeing_cases"] = worst


def _ser_model(nm, it, dim):
    return dict(it=it, dim=dim, noise_types=list(nm.noise_types), relaxation_rate=nm.relaxation_rate,
                dephasing_rate=nm.dephasing_rate, depolarizing_rate=nm.depolarizing_rate,
                eff_noise_rates=list(nm.eff_noise_rates), eff_noise_opers=[_ser(o) for o in nm.eff_noise_opers])


def replay(rep: Report, path: str) -> int:
    from pulser.noise_model import NoiseModel
    data = json.load(open(path))
    measured = measure_orderings(rep)
    bad = 0
    for f in data.get("failing_inputs", []):
        d = f["data"]
        msg = None
        if "pdata" in d:
            q = d["pdata"]
            r = pdata_check_one(q["it"], q["prefer"], q["device"], q["config"], measured)
            msg = "; ".join(m for m, _ in r.get("fail", [])) or None
        elif "noise_types" in d:
            kw = {}
            for k in ("relaxation", "dephasing", "depolarizing"):
                if k in d["noise_types"]:
                    kw[k + "_rate"] = d[k + "_rate"]
            if d["eff_noise_rates"]:
                kw["eff_noise_rates"] = d["eff_noise_rates"]
                kw["eff_noise_opers"] = [np.array([[complex(*z) for z in row] for row in o]) for o in d["eff_noise_opers"]]
            if d["dim"] == 3:
                kw["with_leakage"] = True
            nm = NoiseModel(**kw)
            ch = channel_mismatches(nm, d["it"], d["dim"], measured)
            r = dissipator_case(nm, d["it"], d["dim"], measured)
            if ch:
                msg = "; ".join(q["msg"] for q in ch)
            elif r is not None and (r[0] == "err" or r[0] > 1e-12 * r[1]):
                msg = f"total dissipator still differs: {r[:2]}"
        print("replay:", msg or "property holds on this input now")
        bad += bool(msg)
    return 1 if bad else 0
