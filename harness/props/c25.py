"""C25 — badly prepared atoms behave as absent, on both back-ends
(emu_mps/utils.py: extended_mps_factors, extended_mpo_factors, get_extended_site_index;
 emu_mps/mps_backend_impl.py: init_dark_qubits, _get_interaction_matrix, fill_results;
 emu_sv/sv_backend_impl.py: init_dark_qubits).

Lean: EmuVerif.Props.C25 — padded state = reduced ⊗ |0…0⟩_dark and padded operator = reduced ⊗ 1 for EVERY mask
(amplitude level, all sizes/dimensions), padded expectation = reduced expectation, the index map, the
zeroed emu-sv Hamiltonian = embedded reduced Hamiltonian.
Correspondence: exact — the three helpers on Gaussian-integer factors for all masks on 2–5 atoms (random
masks up to 8), dims 2/3, vs `Model/Dark.lean`.
Oracle (always on, real back-ends, hand-built SequenceData): run with a mask vs run of the reduced register,
both back-ends, qubit reordering on (forced non-identity order) / off, leakage level on / off.
"""
from __future__ import annotations

import itertools
import json
import math
import random
from unittest import mock

from harness.common import Driver, LeanError, Report, lean_stage, seeded

REGISTRY = dict(
    text=("Lean 4 theorems for every mask, every number of atoms, every physical dimension and bond-dimension sequence "
          "(induction over the mask): extended_mps_factors gives amplitude(s) = reduced amplitude on the good atoms if all dark "
          "atoms are in level 0 and 0 otherwise, and a valid chain; extended_mpo_factors gives reduced (x) identity on the dark "
          "atoms; hence MPO.expect(padded) = MPO.expect(reduced) (what fill_results hands to the observables); "
          "get_extended_site_index = position of the k-th good atom (None -> None, raises iff there is none), and boolean-mask "
          "filtering of drives/interactions picks exactly those positions; emu-sv: after init_dark_qubits every coefficient of a "
          "term touching a bad atom is 0, the others unchanged, and the Hamiltonian is the image of the reduced Hamiltonian "
          "under any linear embedding of the reduced generators (H = H_red (x) 1). AS FOUND (open, D2d): emu-mps raises for "
          "masks with <= 1 surviving atom (mps_needs_two_survivors, d2d_counterexample) although the padding algebra covers "
          "them. PARTIAL: DynamicsAsAbsent (full run with bad atoms = run of the reduced register) is stated, not proved - it "
          "rests on the accuracy of the time-steppers; validated end to end on both back-ends."),
    note=("Trusted: Lean kernel + propext/Classical.choice/Quot.sound; Mathlib; hand-written Model.Dark tied by exact "
          "correspondence only; the mask permutation into site order (optimatrix) is covered by the end-to-end oracle, not by a "
          "theorem here (C03); solver accuracy (Krylov/TDVP) outside; harness/compat.py shim for pulser-core 1.9.1."),
    technique="Lean 4 proof (induction over the mask on top of the C11 amplitude semantics) + exact model/implementation correspondence + masked-vs-reduced end-to-end oracle",
    design_ref="DESIGN.md §5 C25, §6 D2",
)

PROP_MODULE = "EmuVerif.Props.C25"
AUDIT = "Audit/C25.lean"
D2D_CLASS = "mps-one-or-zero-surviving-atoms"


def _tu():
    from harness.props import tensor_util as tu
    return tu


def mask_tok(w) -> str:
    return "".join("1" if b else "0" for b in w) or "-"


# =============================================================================== correspondence
def gen_correspondence(rep: Report, rng, tier: str):
    import torch
    from emu_mps import MPS
    from emu_mps.utils import extended_mps_factors, extended_mpo_factors, get_extended_site_index
    tu = _tu()
    lines, cmps = [], []

    def add(name, line, fn, sample=None):
        lines.append(line)
        cmps.append((name, fn, sample))

    masks = [w for n in range(2, 6) for w in itertools.product([False, True], repeat=n)]
    extra = 24 if tier == "quick" else 300
    for _ in range(extra):
        n = rng.randint(6, 8)
        masks.append(tuple(rng.random() < rng.choice([0.2, 0.5, 0.8]) for _ in range(n)))
    for w in masks:
        k = sum(w)
        d = rng.choice([2, 3])
        for is_op in (False, True):
            shape = (d, d) if is_op else (d,)
            fs = tu.rand_int_chain(rng, k, shape, rng.choice([1, 2, 3, 4]), 3) if k else []
            mode = "ok"
            if rng.random() < 0.06:
                mode = "count"
                fs = fs + [tu.rand_int_site(rng, 1, shape, 1, 2)] if rng.random() < 0.5 or not fs else fs[:-1]
            fn = extended_mpo_factors if is_op else extended_mps_factors
            try:
                out = fn([f.clone() for f in fs], torch.tensor(w, dtype=torch.bool))
                impl = out
            except AssertionError:
                impl = None
            rep.hist("ext_case", ("mpo" if is_op else "mps") + f":k={min(k, 3)}" + ("" if impl is not None else ":assert"))

            def cmp_ext(reply, impl=impl):
                if impl is None:
                    return None if reply == "none" else f"real code asserted, model answered {reply[:40]}"
                if not reply.startswith("ok "):
                    return f"model answered {reply[:40]}"
                ms, _ = tu.dec_chain(reply.split()[1:], "z")
                return None if tu.chains_equal_exact(ms, impl) else "padded factors differ"
            add("extended_mpo_factors" if is_op else "extended_mps_factors",
                f"d.{'extmpo' if is_op else 'extmps'} z {tu.enc_chain(fs, 'z')} {mask_tok(w)}", cmp_ext,
                sample={"mask": mask_tok(w), "dim": d, "op": is_op, "good": k})
        if len(w) <= 5 or rng.random() < 0.3:
            for desired in [None] + list(range(0, k + 2)):
                try:
                    r = get_extended_site_index(torch.tensor(w, dtype=torch.bool), desired)
                    impl = "None" if r is None else str(int(r))
                except ValueError:
                    impl = "raise"
                add("get_extended_site_index", f"d.extidx {mask_tok(w)} {'-' if desired is None else desired}",
                    lambda reply, impl=impl: None if reply == impl else f"model {reply} real {impl}")
        if len(w) <= 4:
            try:
                MPS.make(k, num_gpus_to_use=0)
                impl = str(k)
            except ValueError:
                impl = "raise"
            add("MPS.make(qubit_count)", f"d.init {mask_tok(w)}", lambda reply, impl=impl: None if reply == impl else f"model {reply} real {impl}")
    return lines, cmps


def run_correspondence(rep: Report, lines, cmps) -> None:
    try:
        out = Driver().batch(lines)
    except LeanError as e:
        rep.broke("driver: " + str(e)[-800:])
        return
    bad = {}
    for line, reply, (name, fn, sample) in zip(lines, out, cmps):
        rep.case(key=hash(line), sample=sample, nontrivial=True)
        rep.hist("corr_kind", name)
        try:
            msg = fn(reply)
        except Exception as e:
            msg = f"unreadable model reply {reply[:80]!r}: {type(e).__name__}: {e}"
        if msg:
            bad[name] = bad.get(name, 0) + 1
            if bad[name] <= 2:
                rep.broke(f"correspondence Model.Dark vs emu_mps.utils [{name}]: {msg}; line={line[:260]}")
    rep.extra["correspondence_disagreements"] = sum(bad.values())
    rep.extra["correspondence_lines"] = len(lines)


# =============================================================================== end-to-end oracle
def make_problem(cs: int, n: int):
    """a register whose natural site order is not the atom order, per-atom drives, 4 steps; one atom can be
    SLM-masked (its interactions are switched off) until `slm_end`, a step boundary inside the sequence"""
    rng = random.Random(cs)
    pts = [(rng.uniform(0, 9 * n), rng.uniform(0, 9)) for _ in range(n)]
    U = [[0.0] * n for _ in range(n)]
    for i in range(n):
        for j in range(i + 1, n):
            U[i][j] = U[j][i] = 5420158.53 / (math.dist(pts[i], pts[j]) + 7.0) ** 6
    steps = 4
    perm = list(range(n))
    while perm == list(range(n)):
        rng.shuffle(perm)
    return dict(n=n, U=U, steps=steps, site_perm=perm, slm_atom=rng.randrange(n), slm_end=rng.choice([50.0, 100.0, 150.0]),
                omega=[[rng.uniform(4, 12) for _ in range(n)] for _ in range(steps)],
                delta=[[rng.uniform(-6, 6) for _ in range(n)] for _ in range(steps)],
                phi=[[rng.uniform(0, 1) for _ in range(n)] for _ in range(steps)])


EV = [0.25, 0.5, 0.75, 1.0]      # evaluation times = the step boundaries (50, 100, 150, 200 ns)
ETAGS = ["energy", "energy_variance", "energy_second_moment"]


def noise_ops(kind: str, dim: int):
    """single-atom Lindblad operators (levels g = 0, r = 1, x = 2); rates per µs chosen so that the trajectory norm decays
    visibly within 200 ns. None of them excites |g⟩, so a dark atom stays dark under the noise as well."""
    import torch
    base = kind.split("-")[0]
    z = lambda: torch.zeros(dim, dim, dtype=torch.complex128)
    ops = []
    if base == "relax":
        L = z(); L[0, 1] = 2.0; ops.append(L)                      # r → g
    elif base == "dephase":
        L = z(); L[0, 0] = 0.0; L[1, 1] = 1.8; ops.append(L)       # phase noise on r
    elif base == "eff":
        L = z(); L[0, 1] = 1.2 + 0.5j; L[1, 1] = 0.9; ops.append(L)
        M = z(); M[1, 1] = -0.7j; M[0, 1] = 0.4; ops.append(M)
    if dim == 3:
        X = z(); X[2, 1] = 1.1; X[0, 2] = 0.8; ops.append(X)        # leakage r → x and x → g
    return ops


def run_backend(prob, atoms, bad, backend: str, reorder: bool, leak: bool, perm=None, shots=40, slm=False, noise=None):
    """run on the listed atoms (register order kept); returns occupation/correlation per atom id at the end, the three
    Hamiltonian observables at every evaluation time, bitstrings"""
    import numpy as np
    import torch
    from harness import compat
    import pulser.backend as pb
    import emu_mps.mps_backend_impl as impl_mod
    idx = list(atoms)
    sub = lambda rows: [[r[i] for i in idx] for r in rows]
    U = [[prob["U"][i][j] for j in idx] for i in idx]
    T = [50.0 * k for k in range(prob["steps"] + 1)]
    ops, eig = [], ("r", "g")
    if leak:
        L = torch.zeros(3, 3, dtype=torch.complex128)
        L[0, 2] = 1e-4          # a leakage channel far too weak to fire: 3 levels, deterministic dynamics
        ops, eig = [L], ("r", "g", "x")
    if noise:
        ops = noise_ops(noise, 3 if leak else 2)
    any_bad = any(bad[i] for i in idx)
    mU, slm_end = None, 0.0
    if slm:
        off = prob["slm_atom"]
        mU = [[0.0 if (i == off or j == off) else prob["U"][i][j] for j in idx] for i in idx]
        slm_end = prob["slm_end"]
    data = compat.make_sequence_data(sub(prob["omega"]), sub(prob["delta"]), sub(prob["phi"]), U, T,
                                     qubit_ids=[f"q{i}" for i in idx], bad_atoms=[bad[i] for i in idx],
                                     state_prep_error=0.1 if any_bad else 0.0, lindblad_ops=ops, eigenstates=eig,
                                     masked_U=mU, slm_end_time=slm_end)
    obs = [pb.Occupation(evaluation_times=EV), pb.CorrelationMatrix(evaluation_times=[1.0]),
           pb.Energy(evaluation_times=EV), pb.EnergyVariance(evaluation_times=EV),
           pb.EnergySecondMoment(evaluation_times=EV), pb.BitStrings(evaluation_times=[1.0], num_shots=shots)]
    # the masked run and the reduced run get the same random stream (quantum jumps of the Monte-Carlo solver, sampling);
    # "-nojump": the jump threshold is pinned to ~0 so that the trajectory norm decays and no jump ever fires
    random.seed(12345)
    torch.manual_seed(12345)
    import contextlib
    with contextlib.ExitStack() as stack:
        if noise and noise.endswith("-nojump"):
            stack.enter_context(mock.patch("random.uniform", lambda a, b: a + 1e-30 * (b - a)))
        if backend == "sv":
            r = compat.run_sv(data, compat.sv_config(observables=obs, dt=10))
        else:
            cfg = compat.mps_config(observables=obs, dt=10, precision=1e-10, optimize_qubit_ordering=bool(reorder))
            if reorder:
                stack.enter_context(mock.patch.object(impl_mod.optimat, "minimize_bandwidth",
                                                      lambda M: torch.tensor(perm, dtype=torch.int64)))
            r = compat.run_mps(data, cfg)
    ao = list(r.atom_order)
    occ = torch.as_tensor(r.get_result("occupation", 1.0)).tolist()
    cor = torch.as_tensor(r.get_result("correlation_matrix", 1.0)).tolist()
    return dict(order=ao, occ={a: complex(occ[k]).real for k, a in enumerate(ao)},
                cor={(a, b): complex(cor[k][l]).real for k, a in enumerate(ao) for l, b in enumerate(ao)},
                energy=float(r.get_result("energy", 1.0)), bits=dict(r.get_result("bitstrings", 1.0)),
                ham={tag: [complex(r.get_result(tag, t)).real for t in EV] for tag in ETAGS},
                occ_t=[{a: complex(x).real for a, x in zip(ao, torch.as_tensor(r.get_result("occupation", t)).tolist())} for t in EV])


def oracle_case(cs: int, n: int, bad: tuple, backend: str, reorder: bool, leak: bool, cache=None, slm: bool = False,
                noise=None):
    """C25 on one (problem, mask, back-end configuration). Returns [(msg, data, klass)]."""
    prob = make_problem(cs, n)
    info = {"case_seed": cs, "n": n, "bad": list(bad), "backend": backend, "reorder": reorder, "leak": leak, "slm": slm}
    if slm:
        info.update(slm_atom=prob["slm_atom"], slm_end=prob["slm_end"])
    if noise:
        info["noise"] = noise
    fails = []
    good = [i for i in range(n) if not bad[i]]
    perm = prob["site_perm"]
    if reorder == "prefix":
        # a legal optimiser answer that starts like the identity on as many sites as there are good atoms and
        # permutes the rest (e.g. [0, 1, 3, 4, 2] with two good atoms)
        g_ = len(good)
        rest = list(range(g_, n))
        perm = list(range(g_)) + rest[1:] + rest[:1]
        info["site_perm"] = perm
    try:
        full = run_backend(prob, range(n), bad, backend, reorder, leak, perm=perm, slm=slm, noise=noise)
    except ValueError as e:
        if backend == "mps" and len(good) <= 1 and "do state vector" in str(e):
            return [(f"emu-mps raises ValueError({e}) with {len(good)} surviving atom(s) (mask bad={list(bad)}); emu-sv runs it",
                     info, D2D_CLASS)]
        raise
    tol = 1e-8 if backend == "sv" else 1e-7
    ids = [f"q{i}" for i in range(n)]
    if full["order"] != ids:
        fails.append((f"atom order of the results {full['order']} ≠ register order", info, None))
    for i in range(n):
        if bad[i]:
            if abs(full["occ"][ids[i]]) > 1e-12:
                fails.append((f"bad atom q{i} reports occupation {full['occ'][ids[i]]!r} ≠ 0", info, None))
            for j in range(n):
                if abs(full["cor"][(ids[i], ids[j])]) > 1e-12 or abs(full["cor"][(ids[j], ids[i])]) > 1e-12:
                    fails.append((f"correlation matrix entry with bad atom q{i} is not 0", info, None))
                    break
    tot = sum(full["bits"].values())
    if tot != 40:
        fails.append((f"bitstrings: {tot} shots instead of 40", info, None))
    for key in full["bits"]:
        if len(key) != n or any(key[i] != "0" for i in range(n) if bad[i]):
            fails.append((f"bitstring {key!r} has a '1' at a bad position (bad={list(bad)})", info, None))
            break
    # reference: the same sequence on the reduced register (same relative site order, so that the numerics coincide)
    ref_backend = backend
    if len(good) == 0:
        if abs(full["energy"]) > 1e-12:
            fails.append((f"all atoms dark but energy {full['energy']!r} ≠ 0", info, None))
        return fails
    if backend == "mps" and len(good) < 2:
        ref_backend = "sv"
    if noise and ref_backend != backend:
        return fails        # a trajectory cannot be compared with the density-matrix solver
    red_perm = None
    if reorder and ref_backend == "mps":
        pos = {a: k for k, a in enumerate(good)}
        red_perm = [pos[a] for a in perm if a in pos]
    key = (cs, n, tuple(good), ref_backend, reorder and ref_backend == "mps", leak and ref_backend == "mps", slm, noise, tuple(red_perm) if red_perm is not None else None)
    if cache is not None and key in cache:
        red = cache[key]
    else:
        red = run_backend(prob, good, [False] * n, ref_backend, reorder and ref_backend == "mps",
                          leak and ref_backend == "mps", perm=red_perm, slm=slm, noise=noise)
        if cache is not None:
            cache[key] = red
    for i in good:
        a, b = full["occ"][ids[i]], red["occ"][ids[i]]
        if abs(a - b) > tol:
            fails.append((f"good atom q{i}: occupation {a!r} with the mask, {b!r} on the reduced register (|Δ| = {abs(a - b):.2e} > {tol:g})", info, None))
            break
    for k, t in enumerate(EV):
        for i in range(n):
            a = full["occ_t"][k][ids[i]]
            if bad[i] and abs(a) > 1e-12:
                fails.append((f"bad atom q{i} reports occupation {a!r} ≠ 0 at t = {200.0 * t:g} ns", info, None))
                break
            if not bad[i] and abs(a - red["occ_t"][k][ids[i]]) > tol:
                fails.append((f"good atom q{i} at t = {200.0 * t:g} ns: occupation {a!r} with the mask, "
                              f"{red['occ_t'][k][ids[i]]!r} on the reduced register", info, None))
                break
        else:
            continue
        break
    worst = max(abs(full["cor"][(ids[i], ids[j])] - red["cor"][(ids[i], ids[j])]) for i in good for j in good)
    if worst > tol:
        fails.append((f"correlation matrix of the good atoms differs from the reduced run by {worst:.2e} > {tol:g}", info, None))
    if abs(full["energy"] - red["energy"]) > tol * max(1.0, abs(red["energy"])):
        fails.append((f"energy {full['energy']!r} with the mask, {red['energy']!r} on the reduced register", info, None))
    # the Hamiltonian observables at every evaluation time (before and after the end of an SLM mask)
    htol = tol if ref_backend == backend else 1e-3
    for tag in ETAGS:
        for k, t in enumerate(EV):
            a, b = full["ham"][tag][k], red["ham"][tag][k]
            # H·H is formed with zip_right at DEFAULT_PRECISION = 1e-5, and the padded operator truncates differently
            # from the reduced one: observed clean-tree spread 2e-7 relative on the second moment → allowance 5e-6
            rel = htol if tag == "energy" else max(htol, 5e-6)
            if abs(a - b) > rel * max(1.0, abs(b), abs(red["ham"]["energy_second_moment"][k])):
                when = "" if not slm else (" (SLM mask still on)" if 200.0 * t <= prob["slm_end"] else " (after the SLM mask ended)")
                fails.append((f"{tag} at t = {200.0 * t:g} ns{when}: {a!r} with the mask, {b!r} on the reduced register", info, None))
                break
    # emu-mps against emu-sv on the same masked problem. TDVP's splitting error depends on the site order (up to ~1e-2 on
    # these strongly interacting registers), so only the natural order is compared, with a 5e-2 relative allowance
    # (observed clean-tree spread up to 1.2e-2 on the energy variance; the cached-MPO seed r03 is off by O(1)).
    if backend == "mps" and not leak and not reorder and not noise:
        skey = (cs, n, tuple(bad), "sv-masked", slm)
        if cache is not None and skey in cache:
            svr = cache[skey]
        else:
            svr = run_backend(prob, range(n), bad, "sv", False, False, slm=slm)
            if cache is not None:
                cache[skey] = svr
        for tag in ETAGS:
            for k, t in enumerate(EV):
                a, b = full["ham"][tag][k], svr["ham"][tag][k]
                e2 = abs(svr["ham"]["energy_second_moment"][k])
                if abs(a - b) > 5e-2 * max(1.0, abs(b), math.sqrt(e2) if tag == "energy" else e2):
                    fails.append((f"{tag} at t = {200.0 * t:g} ns: emu-mps {a!r} vs emu-sv {b!r} on the same masked problem", info, None))
                    break
    return fails


# (back-end, reorder, leak, SLM mask ending inside the sequence)
# (back-end, reorder, leak, SLM mask ending inside the sequence, Lindblad noise)
CONFIGS = [("sv", False, False, False, None), ("mps", False, False, False, None), ("mps", True, False, False, None),
           ("mps", False, True, False, None), ("mps", True, True, False, None), ("sv", False, False, True, None),
           ("mps", False, False, True, None), ("mps", True, False, True, None), ("mps", True, True, True, None),
           # noisy: emu-sv = density-matrix solver; emu-mps = Monte-Carlo trajectories (same random stream in both runs)
           ("sv", False, False, False, "relax"), ("sv", False, False, True, "eff"), ("mps", False, False, False, "relax"),
           ("mps", True, False, False, "dephase"), ("mps", False, True, False, "eff"), ("mps", True, True, True, "relax"),
           ("mps", False, False, False, "eff-nojump"), ("mps", True, True, False, "dephase-nojump"),
           # forced site orders whose first #good entries are the identity while the rest is permuted
           ("mps", "prefix", False, False, None), ("mps", "prefix", True, True, None)]


def oracle_plan(rng, tier: str):
    """(case seed, n, mask, config) list: thorough = every mask on 2–5 atoms × every configuration;
    quick = every mask on 2–3 atoms × every configuration + a seeded sample of the masks on 4–5 atoms."""
    plan = []
    for n in (2, 3, 4, 5):
        cs = rng.randrange(2 ** 31)
        masks = list(itertools.product([False, True], repeat=n))
        for ci, cfg in enumerate(CONFIGS):
            ms = masks
            if cfg[1] == "prefix":
                # only meaningful with ≥ 2 good atoms and ≥ 2 other sites; cheap, so every such mask is run in both tiers
                for w in masks:
                    if sum(1 for b in w if not b) >= 2 and sum(w) >= 2 and (tier != "quick" or ci == 17 or n == 4):
                        plan.append((cs, n, tuple(w), cfg))
                continue
            if cfg[0] == "sv" and cfg[4] and n > 4:
                continue        # density matrices of 5 atoms: 1024², skipped for time
            if tier == "quick" and (ci in (3, 7) or (n == 2 and ci in (4, 5)) or (n == 5 and cfg[4]) or (n == 2 and ci in (12, 16))):
                continue        # quick: the leak-only and the reorder-only SLM configurations are covered by their combinations
            if tier == "quick" and n >= 4:
                ms = rng.sample(masks, 5 if n == 4 else 3)
            elif tier == "quick" and n == 3 and cfg[0] == "mps":
                ms = rng.sample(masks, 5)
            for w in ms:
                plan.append((cs, n, tuple(w), cfg))
    return plan


def run_oracle(rep: Report, plan, first_only=False) -> None:
    cache = {}
    for cs, n, bad, (backend, reorder, leak, slm, noise) in plan:
        try:
            fails = oracle_case(cs, n, bad, backend, reorder, leak, cache, slm=slm, noise=noise)
        except Exception as e:
            import traceback
            fails = [(f"real code raised {type(e).__name__}: {e}",
                      {"case_seed": cs, "n": n, "bad": list(bad), "backend": backend, "reorder": reorder, "leak": leak,
                       "slm": slm, "noise": noise, "trace": traceback.format_exc()[-700:]}, None)]
        rep.case(key=("oracle", cs, bad, backend, reorder, leak, slm, noise), nontrivial=any(bad), trace=False,
                 sample={"n": n, "bad": list(bad), "backend": backend, "reorder": reorder, "leak": leak, "slm": slm,
                         "noise": noise} if any(bad) else None)
        rep.hist("oracle_config", f"{backend}{'+reorder' if reorder else ''}{'+leak' if leak else ''}{'+slm' if slm else ''}"
                                  f"{'+' + noise if noise else ''}")
        rep.hist("oracle_survivors", min(n - sum(bad), 3))
        for msg, data, klass in fails:
            rep.fail(msg, data, klass=klass)
        if first_only and any(k is None for _, _, k in fails):
            return


# =============================================================================== check / search / replay
def check(rep: Report, tier: str, seed: int) -> None:
    rep.rule = ("correspondence: every mask on 2–5 atoms (and random masks on 6–8) × {MPS, MPO factors} × dims 2/3, Gaussian-integer "
                "factors, bonds 1–4, plus wrong factor counts (assert); get_extended_site_index for desired ∈ {None, 0..k+1}; "
                "MPS.make(count). oracle: registers of 2–5 atoms with a forced non-identity site order, per-atom drives, 4 steps of "
                "50 ns (dt = 10), optionally one atom SLM-masked until 50/100/150 ns; Energy / EnergyVariance / EnergySecondMoment at "
                "50, 100, 150, 200 ns; thorough = all masks × {sv, mps, mps+reorder, mps+leak, mps+reorder+leak} × {no SLM, SLM}; quick = all masks on 2–3 atoms "
                "+ a seeded sample on 4–5. tolerance 1e-8 (sv) / 1e-7 (mps, precision 1e-10, same relative site order in the "
                "reduced run); emu-mps (natural order) vs emu-sv on the same masked problem 5e-2 relative (TDVP splitting error); noisy configurations (relaxation / dephasing / effective noise, 2 and 3 levels; emu-sv density matrices, emu-mps trajectories with the same random stream in the masked and the reduced run, or with the jump threshold pinned so that no jump fires), occupations of every atom at every evaluation time. non-trivial = at least one bad atom")
    rep.assumptions = [
        "accuracy of the time-steppers (emu-sv Krylov, emu-mps TDVP): DynamicsAsAbsent is stated, not proved; validated by the masked-vs-reduced oracle",
        "the permutation of the mask / drives / interaction matrix into site order is C03's subject; here it is exercised end to end with a forced non-identity order",
        "leakage runs use a 1e-4 jump operator that never fires (deterministic 3-level dynamics)",
    ]
    import logging
    import torch
    torch.set_num_threads(1)
    logging.getLogger("emulators").setLevel(logging.ERROR)
    lean_stage(rep, PROP_MODULE, AUDIT, thorough=(tier == "thorough"))
    rng = seeded(seed * 7919 + 25)
    try:
        lines, cmps = gen_correspondence(rep, rng, tier)
        run_correspondence(rep, lines, cmps)
    except LeanError:
        raise
    except Exception:
        import traceback
        rep.broke("correspondence generation: real code raised " + traceback.format_exc()[-700:])
    run_oracle(rep, oracle_plan(rng, tier))
    if rep.broken and not any(f["class"] is None for f in rep.failing):
        search(rep, seed, tier)


def search(rep: Report, seed: int, tier: str) -> None:
    """Failing-input search on the real back-ends: the full masked-vs-reduced plan (all masks, all configurations)."""
    rng = seeded(seed * 104729 + 25)
    plan = oracle_plan(rng, "thorough")
    if tier == "quick":
        plan = [p for p in plan if p[1] <= 4]
    run_oracle(rep, plan, first_only=True)
    rep.extra["search_cases"] = len(plan)


def replay(rep: Report, path: str) -> int:
    data = json.load(open(path))
    bad = 0
    for f in data.get("failing_inputs", []):
        d = f["data"]
        try:
            fails = oracle_case(d["case_seed"], d["n"], tuple(d["bad"]), d["backend"], d["reorder"], d["leak"],
                                slm=d.get("slm", False), noise=d.get("noise"))
        except Exception as e:
            fails = [(f"real code raised {type(e).__name__}: {e}", d, None)]
        for msg, _, klass in fails:
            print("replay:", msg, f"[{klass}]" if klass else "")
        if not fails:
            print("replay: property holds on this input now")
        bad += bool(fails)
    return 1 if bad else 0
