"""C26 — resuming from an autosave gives the same results as an uninterrupted run; the autosave file is
removed at the end (`MPSBackend.resume` / `_run` / `_run_from_sequence_data`, emu_mps/mps_backend.py;
`__getstate__`/`__setstate__`/`save_simulation`/`permute_results`, emu_mps/mps_backend_impl.py).

Lean: EmuVerif.Props.C26 over Model.Autosave (`run = post ∘ loop`, `resume = post ∘ loop ∘ load` for an abstract
deterministic `progress`; RNG-tape and PMF versions for noisy runs). Correspondence / always-on oracle on the
real code: TDVP, DMRG and noisy runs of 2-4 atoms with local drives, qubit reordering on (register whose
optimal order is not the identity) and off, a fake clock forcing an autosave at EVERY `progress`; the file is
copied after the k-th save together with the RNG states; for every k `MPSBackend.resume(copy_k)` must return the
uninterrupted results (values, times, atom order; tolerance 1e-12 — same floating-point path), apply
`permute_results` exactly once and remove the file; `pickle.load(copy_k)` must reproduce the machine state
captured at dump time; the file-operation trace of run and resume must equal the model's (`autosave.run`,
`autosave.resume`).
"""
from __future__ import annotations

import json
import pickle
import random
import shutil
import types
from pathlib import Path
from unittest import mock

from harness.common import Driver, LeanError, Report, lean_stage, seeded

REGISTRY = dict(
    text=("Lean 4 theorems over every state type, every deterministic progress/finished/results/post-processing and every "
          "save point m <= n: iterating from the m-th snapshot reaches the same final state (iter f (m+n) = iter f n ∘ iter f m), "
          "hence resume(snapshot_m) = run, both = permute_results applied exactly once to the same final state; combined with "
          "C27: a crash anywhere inside a later autosave, then resume from the advertised name, gives the uninterrupted results; "
          "the autosave file is absent at the end of run and of resume; results are independent of the clock/save schedule; "
          "everything _run writes is a snapshot of an iterate 1..n. Noisy runs: identical results given the identical RNG "
          "stream (tape theorem), same law when progress is a Markov kernel (theorem for every lawful monad; its instance at "
          "Mathlib's PMF is in Props/C26Law.lean, audited by the thorough tier), counterexample for a different stream. Full on the glue; the numerical content of progress and the pickle round trip are a stated contract, "
          "validated on every run by real TDVP/DMRG/noisy resumes from every save point, with the autosave path passed to resume() as "
          "Path, str, relative str and relative Path (a resumed run that raises where the uninterrupted run returns is a failure)."),
    note=("Trusted: Lean kernel + propext/Classical.choice/Quot.sound; Mathlib PMF monad; hand-written Model.Autosave tied by "
          "trace correspondence and by end-to-end resumes on the real code; contract 'unpickled back-end behaves as the pickled "
          "one' and 'progress is a function of the pickled state (+ RNG stream)' validated by exact state digests and 1e-12 "
          "result comparison, not proved; the RNG state is not in the pickle, so resumed noisy runs (and sampled bitstrings) "
          "match in value only when the harness restores the RNG stream, otherwise in distribution (PMF theorem; the "
          "independence of the fresh stream is assumed)."),
    technique="Lean 4 proof (induction over the loop / monadic iteration) + end-to-end resume-from-every-save-point differential on the real code",
    design_ref="DESIGN.md §5 C26",
)

PROP_MODULE = "EmuVerif.Props.C26"
AUDIT = "Audit/C26.lean"
LAW_MODULE = "EmuVerif.Props.C26Law"     # the PMF instance of noisy_same_law (imports Mathlib measure theory: thorough tier)
LAW_AUDIT = "Audit/C26Law.lean"
TOL = 1e-12
PATH_FORMS = ["Path", "str", "relative str", "relative Path"]   # the two declared argument types of resume(), absolute and relative


def path_form(p: Path, form: str):
    import os
    if form == "Path":
        return p
    if form == "str":
        return str(p)
    rel = os.path.relpath(p, os.getcwd())
    return rel if form == "relative str" else Path(rel)
D3_CLASS = "resume-not-unpermuted"


class RandomProxy(types.SimpleNamespace):
    """stands in for the `random` module inside emu_mps.mps_backend_impl: records (or verifies) the tape of
    `uniform` / `choices` calls while delegating to the real generator."""

    def __init__(self):
        super().__init__()
        self.tape: list[tuple] = []
        self.expect: list[tuple] | None = None
        self.pos = 0
        self.mismatch: str | None = None

    def __getattr__(self, k):
        return getattr(random, k)

    def _rec(self, kind, args, val):
        ent = (kind, args, val)
        if self.expect is not None:
            if self.pos >= len(self.expect):
                self.mismatch = self.mismatch or f"extra RNG call #{self.pos}: {kind}"
            else:
                ek, ea, ev = self.expect[self.pos]
                if ek != kind:
                    self.mismatch = self.mismatch or f"RNG call #{self.pos}: {kind} instead of {ek}"
                elif any(abs(x - y) > 1e-9 for x, y in zip(ea, args)) or len(ea) != len(args):
                    self.mismatch = self.mismatch or f"RNG call #{self.pos} ({kind}): arguments differ"
                elif ev != val:
                    self.mismatch = self.mismatch or f"RNG call #{self.pos} ({kind}): value {val} instead of {ev}"
            self.pos += 1
        self.tape.append(ent)

    def uniform(self, a, b):
        v = random.uniform(a, b)
        self._rec("uniform", (float(a), float(b)), v)
        return v

    def choices(self, population, weights=None, **kw):
        r = random.choices(population, weights=weights, **kw)
        idx = next(i for i, p in enumerate(population) if p is r[0])
        self._rec("choices", tuple(float(w) for w in (weights or [])), idx)
        return r


def one_config(rep: Report, cx: list, rng, seed: int, kind: str, reorder: bool, max_points: int,
               n: int | None = None) -> None:
    from harness import autosave_util as U
    from emu_mps.mps_backend import MPSBackend
    import emu_mps.mps_backend_impl as impl_mod

    sysd = U.gen_system(rng, kind, n=n)
    ctx = dict(system=sysd, reorder=reorder, rng_seed=seed)
    rep.hist("config", f"{kind}/n={sysd['n']}/steps={sysd['steps']}/reorder={'on' if reorder else 'off'}")
    calls = {"permute": 0}
    real_permute = impl_mod.MPSBackendImpl.permute_results

    def permute_results(self, results, permute):
        calls["permute"] += 1
        return real_permute(self, results, permute)

    with U.workdir() as tmp:
        copies = tmp / "copies"
        copies.mkdir()
        run_dir = tmp / "run"
        run_dir.mkdir()
        import os
        os.chdir(run_dir)
        clock = U.FakeClock(0.0)
        ip = U.Interposer()
        ip.clock = clock
        ip.schedule = lambda k: 100.0 * k
        rp = RandomProxy()
        digests, rngs, tape_pos = {}, {}, {}
        ip.on_dump = lambda impl, k: digests.__setitem__(k, U.digest(impl))

        def on_saved(impl, k):
            shutil.copy(impl.autosave_file, copies / f"snap{k}.dat")
            rngs[k] = U.rng_state()
            tape_pos[k] = len(rp.tape)
        ip.on_saved = on_saved
        # ---------------- run A: the real entry point, autosave at every progress
        U.seed_all(seed)
        with U.fake_time(clock, also_backend=True), ip.installed(), mock.patch.object(impl_mod, "random", rp), \
                mock.patch.object(impl_mod.MPSBackendImpl, "permute_results", permute_results):
            try:
                resA = MPSBackend._run_from_sequence_data(U.make_data(sysd), U.make_config(sysd, reorder))
            except Exception as e:
                rep.fail(f"uninterrupted run with autosave at every progress raised {type(e).__name__}: {e}", ctx)
                return
        n = ip.save_calls
        ref = U.canon_results(resA)
        tapeA = list(rp.tape)
        perm = digests[1]["perm"] if digests else None
        rep.hist("permutation_nontrivial", bool(perm and perm != sorted(perm)))
        rep.hist("progress_calls", n)
        rep.hist("rng_calls_in_run", len(tapeA))
        left = sorted(p.name for p in run_dir.iterdir())
        if left:
            rep.fail("autosave file(s) left behind by a finished uninterrupted run", dict(ctx, listing=left))
        if calls["permute"] != 1:
            rep.fail(f"permute_results applied {calls['permute']} times by an uninterrupted run", ctx)
        if len(digests) != n or sorted(digests) != list(range(1, n + 1)):
            rep.broke(f"harness: expected one autosave per progress call, got saves at {sorted(digests)} of {n}")
        opsA = []
        for k, evs in enumerate(ip.per_save, 1):
            opsA += (U.canon_ops(evs, k) or ["unparsable"]) if evs else []
        opsA += ip.all_events[sum(len(e) for e in ip.per_save):]
        cx.append((f"autosave.run 11 0 0 {n} {','.join(str(100 * k) for k in range(1, n + 1))} a a a",
                   f"ok {n} {','.join(opsA) if opsA else '-'} a/a/a", dict(ctx, what="trace of the uninterrupted run")))
        # ---------------- run B: same seeds, autosave disabled, nothing interposed
        U.seed_all(seed)
        try:
            resB = MPSBackend._run_from_sequence_data(U.make_data(sysd), U.make_config(sysd, reorder, autosave_dt=1e9))
            msg = U.diff_results(U.canon_results(resB), ref, TOL)
            if msg:
                rep.fail(f"results depend on whether autosaves are written: {msg}", ctx)
        except Exception as e:
            rep.fail(f"uninterrupted run without autosave raised {type(e).__name__}: {e}", ctx)
        os.chdir(tmp)
        # ---------------- resume from every save point
        ks = list(range(1, n + 1))
        if len(ks) > max_points:
            interesting = [k for k in ks if digests[k].get("root_finder")]
            keep = {1, n, n - 1} | set(rng.sample(interesting, min(len(interesting), 3))) if interesting else {1, n, n - 1}
            rest = [k for k in ks if k not in keep]
            keep |= set(rng.sample(rest, max(0, max_points - len(keep))))
            ks = sorted(k for k in keep if 1 <= k <= n)
        form0 = rng.randrange(len(PATH_FORMS))
        for k_i, k in enumerate(ks):
            d = digests[k]
            rep.hist("save_point", f"{d['direction'][0]}{d['sweep_index']}/t{d['timestep_index']}" + ("/rootfinder" if d.get("root_finder") else ""))
            cctx = dict(ctx, resumed_from_save=k, of=n, machine_state={x: d[x] for x in ("timestep_index", "sweep_index", "direction", "n_left_baths", "n_right_baths", "current_time", "target_time")})
            copy = copies / f"snap{k}.dat"
            # pickle round trip preserves the machine state
            try:
                with open(copy, "rb") as f:
                    loaded = pickle.load(f)
                m = U.diff_digest(d, U.digest(loaded))
                if m:
                    rep.fail(f"pickle round trip does not preserve the machine state: {m}", cctx)
                del loaded
            except Exception as e:
                rep.fail(f"autosave written at save {k} cannot be loaded: {type(e).__name__}: {e}", cctx)
                continue
            calls["permute"] = 0
            ip2 = U.Interposer()
            ip2.clock = clock
            now0 = 100 * k + rng.choice([0, 5, 50])
            times2 = {k: now0}
            for j in range(k + 1, n + 2):
                times2[j] = times2[j - 1] + rng.choice([3, 10, 11, 12, 100, 100])
            ip2.schedule = lambda j: float(times2[j]) if j in times2 else float(times2[n + 1] + 100 * (j - n))
            ip2.save_calls = k
            ip2.base = copy
            clock.now = float(now0)
            rp2 = RandomProxy()
            rp2.expect = tapeA[tape_pos[k]:]
            U.set_rng_state(rngs[k])
            with U.fake_time(clock, also_backend=True), ip2.installed(), mock.patch.object(impl_mod, "random", rp2), \
                    mock.patch.object(impl_mod.MPSBackendImpl, "permute_results", permute_results):
                form = PATH_FORMS[(k_i + form0) % len(PATH_FORMS)]
                cctx["path_form"] = form
                rep.hist("resume_path_form", form)
                try:
                    res = MPSBackend.resume(path_form(copy, form))
                except Exception as e:
                    # the uninterrupted run returned results: a resumed run that raises violates "same results"
                    rep.fail(f"MPSBackend.resume(<{form}>) raised {type(e).__name__}: {e} where the uninterrupted run returns results", cctx)
                    continue
            got = U.canon_results(res)
            rep.case(key=(kind, reorder, json.dumps(sysd, sort_keys=True), k),
                     sample={"kind": kind, "reorder": reorder, "n": sysd["n"], "resumed_from_save": k, "of": n,
                             "perm": perm, "rng_calls_after_save": len(tapeA) - tape_pos[k]})
            msg = U.diff_results(ref, got, TOL)
            if msg:
                klass = D3_CLASS if (U.is_permuted_version(ref, got) and got["atom_order"] == d["atom_order"]) else None
                rep.fail(f"resumed run differs from the uninterrupted run: {msg}", cctx, klass=klass)
            if calls["permute"] != 1:
                rep.fail(f"permute_results applied {calls['permute']} times by resume", cctx,
                         klass=D3_CLASS if calls["permute"] == 0 else None)
            if rp2.mismatch or rp2.pos != len(rp2.expect):
                rep.fail("resumed noisy run has a different RNG event structure under the identical stream: "
                         + (rp2.mismatch or f"{rp2.pos} calls instead of {len(rp2.expect)}"), cctx)
            leftover = sorted(p.name for p in copies.iterdir() if p.name.startswith(f"snap{k}."))
            if leftover:
                rep.fail("autosave file not removed at the end of the resumed run", dict(cctx, listing=leftover))
            ops = []
            for j, evs in enumerate(ip2.per_save, k + 1):
                ops += (U.canon_ops(evs, j) or ["unparsable"]) if evs else []
            ops += ip2.all_events[sum(len(e) for e in ip2.per_save):]
            cx.append((f"autosave.resume 11 {now0} {n} {','.join(str(times2[j]) for j in range(k + 1, n + 1)) or '-'} c{k} a a",
                       f"ok {n} {','.join(ops) if ops else '-'} a/a/a", dict(cctx, what="trace of the resumed run")))


def fresh_stream_probe(rep: Report, rng, seed: int, n_fresh: int = 2) -> None:
    """Noisy run resumed WITHOUT restoring the RNG state: legal behaviour (only the law is preserved); counts how
    often the values differ — evidence for the 'same distribution' reading, never a failure."""
    from harness import autosave_util as U
    from emu_mps.mps_backend import MPSBackend
    import os

    sysd = U.gen_system(rng, "noisy", n=3, steps=3)
    with U.workdir() as tmp:
        clock = U.FakeClock(0.0)
        ip = U.Interposer()
        ip.clock = clock
        ip.schedule = lambda k: 100.0 * k
        kept = {}
        ip.on_saved = lambda impl, k: kept.setdefault(k, Path(impl.autosave_file).read_bytes()) if k == 1 else None
        U.seed_all(seed)
        try:
            with U.fake_time(clock), ip.installed():
                ref = U.canon_results(MPSBackend._run_from_sequence_data(U.make_data(sysd), U.make_config(sysd, True, bitstrings=False)))
        except Exception as e:
            rep.fail(f"noisy run with autosave at every progress raised {type(e).__name__}: {e}", dict(system=sysd, reorder=True, rng_seed=seed))
            return
        if 1 not in kept:
            return
        differ = 0
        for s2 in (seed + 101, seed + 202)[:n_fresh]:
            p = tmp / "c.dat"
            p.write_bytes(kept[1])
            U.seed_all(s2)
            try:
                got = U.canon_results(MPSBackend.resume(p))
            except Exception as e:
                rep.fail(f"MPSBackend.resume of a noisy run (fresh RNG stream) raised {type(e).__name__}: {e}",
                         dict(system=sysd, reorder=True, rng_seed=seed, resumed_from_save=1))
                return
            if got["atom_order"] != ref["atom_order"]:
                rep.fail("resumed noisy run (fresh RNG stream) has a different atom order", dict(system=sysd, reorder=True, rng_seed=seed, resumed_from_save=1))
            differ += U.diff_results(ref, got, TOL) is not None
        rep.extra["noisy_fresh_stream_resumes_differing_in_value"] = f"{differ}/{n_fresh}"


def check(rep: Report, tier: str, seed: int) -> None:
    from harness import compat
    compat.install()
    import torch
    torch.set_num_threads(1)   # tiny tensors: one thread is faster and immune to OpenMP spin-wait under load
    rep.rule = ("cases = (solver kind in TDVP/DMRG/noisy, reordering on/off, shuffled-chain register of 2-4 atoms with per-atom "
                "drives, save point k of n) with an autosave forced at every progress; non-trivial = distinct (system, k); "
                "save points cover every sweep position/direction/time step and root-finder iterations of the run")
    rep.assumptions = [
        "contract: the unpickled back-end behaves as the pickled one (validated: exact digest of MPS factors, baths, "
        "Hamiltonian, sweep index/direction, time-step index, root-finder fields, thresholds, results so far; 1e-12 results)",
        "contract: progress is a function of the pickled state and of the RNG stream; the RNG state is not pickled, so the "
        "harness restores random/torch RNG states captured at the save; with a fresh stream only the law is preserved "
        "(Props.C26.noisy_same_law assumes independent fresh draws)",
        "the `statistics` observable (wall-clock durations) is excluded from every comparison",
    ]
    lean_stage(rep, PROP_MODULE, AUDIT, thorough=(tier == "thorough"))
    if tier == "thorough":
        ob, cmd = list(rep.obligations), rep.checker_cmd
        lean_stage(rep, LAW_MODULE, LAW_AUDIT, thorough=True)
        rep.obligations = ob + [o for o in rep.obligations if o not in ob]
        rep.checker_cmd = cmd + " ; " + rep.checker_cmd
    else:
        rep.notes.append("Props/C26Law.lean (noisy_same_law at Mathlib's PMF) is built by `lake build` and audited in the thorough tier only")
    rng = seeded(seed * 4099 + 26)
    cx: list = []
    configs = [("tdvp", True), ("tdvp", False), ("dmrg", True), ("dmrg", False), ("noisy", True), ("noisy", False)]
    reps = 1 if tier == "quick" else 4
    import time as _time
    for r in range(reps):
        for kind, reorder in configs:
            t0 = _time.time()
            one_config(rep, cx, rng, seed + 1000 * r, kind, reorder, max_points=5 if tier == "quick" else 40)
            rep.extra.setdefault("seconds_per_config", []).append(round(_time.time() - t0, 1))
    # the 1-or-2-qubit corner case of `progress()` (one pair, no sweep) is its own code path: always exercised
    # (a sub-stream of its own, so the cases above keep their seeds)
    rng2 = seeded(seed * 4099 + 2626)
    for kind2 in (("tdvp", "dmrg", "noisy") if tier != "quick" else ("tdvp", "noisy")):
        one_config(rep, cx, rng2, seed + 77, kind2, False, max_points=3 if tier == "quick" else 12, n=2)
    fresh_stream_probe(rep, rng, seed, n_fresh=1 if tier == "quick" else 2)
    settle(rep, cx)
    if rep.broken and not rep.unknown_failing():
        search(rep, seed)


def settle(rep: Report, cx: list) -> None:
    if not cx:
        return
    try:
        out = Driver().batch([l for l, _, _ in cx])
    except LeanError as e:
        rep.broke("driver: " + str(e)[-800:])
        return
    bad = 0
    for (line, want, ctx), mo in zip(cx, out):
        if mo != want:
            bad += 1
            if bad <= 4:
                rep.broke(f"correspondence run/resume file-operation trace: {line}: model `{mo}` real `{want}` ({ctx.get('what')})")
    rep.extra["trace_correspondence"] = f"{len(cx) - bad}/{len(cx)}"


def search(rep: Report, seed: int) -> None:
    """Failing-input search on the real code only: more systems, every save point."""
    rng = seeded(seed * 9973 + 5)
    cx: list = []
    for kind, reorder in [("tdvp", True), ("dmrg", True), ("noisy", True), ("tdvp", False), ("noisy", False)]:
        one_config(rep, cx, rng, seed + 77, kind, reorder, max_points=10 ** 6)
        if rep.failing:
            return
    rep.extra["search_configs"] = 5


def replay(rep: Report, path: str) -> int:
    """Re-run the recorded system, copy the autosave of the recorded save point, resume, compare."""
    from harness import autosave_util as U
    from harness import compat
    from emu_mps.mps_backend import MPSBackend
    import os
    compat.install()
    bad = 0
    for f in json.load(open(path)).get("failing_inputs", []):
        d = f["data"]
        if "system" not in d:
            continue
        sysd, reorder, k = d["system"], d["reorder"], d.get("resumed_from_save")
        with U.workdir() as tmp:
            clock = U.FakeClock(0.0)
            ip = U.Interposer()
            ip.clock = clock
            ip.schedule = lambda j: 100.0 * j
            kept, rngs = {}, {}

            def on_saved(impl, j):
                kept[j] = Path(impl.autosave_file).read_bytes()
                rngs[j] = U.rng_state()
            ip.on_saved = on_saved
            U.seed_all(d.get("rng_seed", 0))
            with U.fake_time(clock), ip.installed():
                ref = U.canon_results(MPSBackend._run_from_sequence_data(U.make_data(sysd), U.make_config(sysd, reorder)))
            left = sorted(p.name for p in tmp.iterdir())
            msg = f"files left after the run: {left}" if left else None
            if k is not None and k in kept:
                p = tmp / "copy.dat"
                p.write_bytes(kept[k])
                U.set_rng_state(rngs[k])
                try:
                    os.chdir(tmp)
                    got = U.canon_results(MPSBackend.resume(path_form(p, d.get("path_form", "Path"))))
                    msg = msg or U.diff_results(ref, got, TOL)
                    if p.exists():
                        msg = msg or "autosave file not removed by resume"
                except Exception as e:
                    msg = f"resume raised {type(e).__name__}: {e}"
            print(f"replay: {sysd['kind']} n={sysd['n']} reorder={reorder} resume from save {k}:", msg or "property holds on this input now")
            bad += bool(msg)
    return 1 if bad else 0
