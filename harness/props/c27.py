"""C27 — a loadable autosave always survives a crash during autosaving
(`MPSBackendImpl.save_simulation`, emu_mps/mps_backend_impl.py; `MPSBackend.resume`/`_run`, emu_mps/mps_backend.py).

Lean: EmuVerif.Props.C27 over Model.Autosave (file system = base/.new/.bak -> absent|partial|complete v;
`save_simulation` = open(.new), write(.new) [not atomic, buffered: the disk holds a prefix], close(.new) [flush:
complete], replace(.new, base) [atomic]; crash = process kill after any operation prefix or inside the write,
write buffers lost). Correspondence: the real `save_simulation` under harness-level
interposition of os.replace/os.rename/os.remove/open/pickle.dump in the emu_mps.mps_backend_impl
namespace, in a temp dir, with a fake clock: operation sequence == model's, exception injected at every
operation (and inside the write) of the 2nd and later autosaves, real directory (existence + loadability
+ which snapshot) == model's crash state, `MPSBackend.resume(base)` must succeed and reproduce the
uninterrupted results. Real process kills (`kill_level`): the autosave runs in a forked child that calls
os._exit(9) immediately before/after every interposed call and inside the dump (no unwinding: buffers are not
flushed), with a >= 300 kB snapshot (tensor padding attached to the back-end) and a tiny one; the parent
compares the directory with the model's kill state (refinement: a model `partial` only promises existence),
requires a complete previous-or-new snapshot under the advertised name and resumes from it. Always-on oracle:
after every injected crash/kill the advertised file is a loadable snapshot (previous or new) and resume works.
"""
from __future__ import annotations

import json
import shutil
from pathlib import Path

from harness.common import Driver, LeanError, Report, lean_stage, seeded

REGISTRY = dict(
    text=("Lean 4 theorems over every snapshot type, every initial directory (left-over .new/.bak of any kind) and "
          "every history length, under process-kill semantics (write buffers lost: `write` leaves a prefix on disk, only "
          "`close` completes the file): with the current save_simulation (open .new, write, close, os.replace(.new, base)) every crash "
          "state of an autosave that follows >= 1 completed autosave has `base = complete v` with v the previous or the "
          "new snapshot, so resume's is_file()+pickle.load succeeds (CrashSafe, autosave_survives_crash); the invariant "
          "survives arbitrary interleavings of completed saves, crashed saves and restarts (loadable_forever). The variant with os.replace inside the `with` block (rename before the flush) has a kernel-checked counterexample (killed "
          "after the rename: truncated pickle under the advertised name, previous snapshot gone) although its undisturbed runs "
          "end in the same directory. Exception semantics (unwindStates: the handler runs on the directory the exception leaves): the current code has no handler and "
          "is safe; os.replace in a finally: clause has a kernel-checked counterexample (exception inside the write, truncated .new renamed "
          "over the last good snapshot). Finding A1-C27 (fixed by 8d35338; Props.C27.aliased_counterexample for the old naming, appended_temp_name_distinct for the new; "
          "witness replayed on every run): a back-end resumed from a file whose suffix is .new wrote its autosaves in place. The "
          "three-step variant removed by commit 3262c67 is modelled separately with a kernel-checked counterexample "
          "(nothing under the advertised name between the two renames). Model tied to the code by exact comparison of "
          "the operation trace and of the directory after an exception (Crash(BaseException), OSError ENOSPC, MemoryError, KeyboardInterrupt) "
          "injected at every operation and raised by the file object's write after 0 %, 50 % and all but one byte of pickle.dump, and by "
          "real process kills (forked child, os._exit immediately before/after every interposed call) with a >= 300 kB and a tiny snapshot."),
    note=("Trusted: Lean kernel + propext/Quot.sound; hand-written Model.Autosave tied by the trace/crash-injection "
          "correspondence only; crash = exception at, or os._exit(9) of a forked child immediately before/after, an interposed call "
          "(os.replace/rename/remove, open, pickle.dump, close); kills between two non-interposed instructions are covered by the model only; "
          "durability under power loss of the machine (no fsync in save_simulation), other processes in the directory and Windows "
          "rename semantics are outside the model; pickle round trip is validated by loading, not proved."),
    technique="Lean 4 proof (case analysis over crash states, induction over histories) + exact trace/crash-injection correspondence",
    design_ref="DESIGN.md §5 C27",
)

PROP_MODULE = "EmuVerif.Props.C27"
AUDIT = "Audit/C27.lean"
WITNESS_CLASS = "autosave-rename-window"


def _event_to_label(events):
    """index of real event -> index of the model operation (one to one: open, write(dump), close, replace, …)"""
    return list(range(len(events))), len(events)


class Ctx:
    """collects model queries (answered in one driver batch at the end)"""

    def __init__(self, rep):
        self.rep = rep
        self.q: list[tuple[str, object, dict]] = []   # (driver line, how to compare, context)

    def ask(self, line, real, ctx):
        self.q.append((line, real, ctx))


def save_level(rep: Report, cx: Ctx, rng, sysd, reorder, n_saves, leftovers_full, resume_for, ref):
    """Part A: crash injection at `save_simulation` level for autosaves 2..n_saves."""
    from harness import autosave_util as U
    from emu_mps.mps_backend import MPSBackend
    from emu_mps.mps_backend_impl import create_impl

    with U.workdir() as tmp:
        clock = U.FakeClock(0.0)
        ip = U.Interposer()
        ip.clock = clock
        due = {"on": True}
        ip.schedule = lambda k: 100.0 * k if due["on"] else -1e9
        with U.fake_time(clock), ip.installed():
            impl = create_impl(U.make_data(sysd), U.make_config(sysd, reorder, bitstrings=False))
            impl.init()
            base = Path(impl.autosave_file)
            blobs: dict[int, bytes] = {}
            # ---- first autosave
            impl.progress()
            ev1 = list(ip.per_save[-1]) if ip.per_save else []
            ops1 = U.canon_ops(ev1, 1)
            cx.ask("autosave.ops current a a a 1", ops1, dict(what="trace of the 1st autosave", events=ev1))
            cx.ask("autosave.ops threeStep a a a 1", ("classify", ops1, "threeStep"), {})
            cx.ask("autosave.ops earlyReplace a a a 1", ("classify", ops1, "earlyReplace"), {})
            st = U.dir_state(base)
            rep.case(key=("first", sysd["kind"], reorder), sample={"first_autosave_events": ev1, "dir": st})
            if st.split("/")[0] != "c1":
                rep.fail("the first autosave did not leave a loadable file under the advertised name",
                         dict(system=sysd, reorder=reorder, events=ev1, dir=st))
                return
            blobs[1] = base.read_bytes()
            # ---- later autosaves
            for j in range(2, n_saves + 1):
                if impl.is_finished():
                    break
                due["on"] = False
                impl.progress()                      # numerics of progress call j, save not due
                due["on"] = True
                assert ip.save_calls == j and not ip.per_save[-1], "harness: a save happened although not due"
                prev = f"c{j - 1}"
                combos = [(a, b) for a in ("a", "p", prev) for b in ("a", "p", prev)]
                if not (leftovers_full and j == 2):
                    combos = [("a", "a")] + rng.sample(combos[1:], 2)
                for (lnew, lbak) in combos:
                    def reset():
                        U.put_file(base, prev, blobs)
                        U.put_file(U.new_path(base), lnew, blobs)
                        U.put_file(U.bak_path(base), lbak, blobs)
                        impl.last_save_time = 0.0
                        ip.save_calls = j - 1
                        ip.crash, ip.crash_save, ip.fired = None, None, False
                    # learn the event list of an undisturbed save from this directory
                    reset()
                    impl.save_simulation()
                    events = list(ip.per_save[-1])
                    if (lnew, lbak) == ("a", "a"):
                        blobs[j] = base.read_bytes()
                    ops = U.canon_ops(events, j)
                    cx.ask(f"autosave.ops current {prev} {lnew} {lbak} {j}", ops,
                           dict(what=f"trace of autosave {j}", events=events, leftovers=(lnew, lbak)))
                    cx.ask(f"autosave.ops threeStep {prev} {lnew} {lbak} {j}", ("classify", ops, "threeStep"), {})
                    cx.ask(f"autosave.ops earlyReplace {prev} {lnew} {lbak} {j}", ("classify", ops, "earlyReplace"), {})
                    lab, nops = _event_to_label(events)
                    kinds = U.exception_kinds()
                    full = (lnew, lbak) == ("a", "a")
                    points = []          # (crash spec, exception kind index)
                    for i, e in enumerate(events):
                        if not e.startswith("close:"):
                            points.append((("before", i), (i + j) % len(kinds)))
                        if e.startswith("dump:"):
                            # exceptions raised by the file object's write in the MIDDLE of pickle.dump: after 0 bytes,
                            # half, all but one; every exception kind (Exception and bare BaseException subclasses)
                            for fi, frac in enumerate((0.0, 0.5, 1.0)):
                                for ki in (range(len(kinds)) if full else [(fi + j) % len(kinds)]):
                                    points.append((("mid", i, frac), ki))
                    points.append((None, 0))
                    real_states = {}
                    for pt, ki in points:
                        reset()
                        ip.crash = pt
                        ip.exc = kinds[ki][1]
                        label = f"b{nops}" if pt is None else (("b" if pt[0] == "before" else "m") + str(lab[pt[1]]))
                        status, err = U.run_injected(ip, impl.save_simulation)
                        if status == "raised":  # the real code raising by itself
                            rep.fail(f"save_simulation raised {type(err).__name__}: {err}",
                                     dict(system=sysd, save=j, leftovers=(lnew, lbak), crash_point=str(pt)))
                            continue
                        crashed = status == "crash"
                        if crashed and err is not None and not isinstance(err, type(kinds[ki][1](""))):
                            rep.count("injected_exception_replaced_by_the_code")
                        rep.hist("exception_kind", kinds[ki][0] if pt is not None else "none")
                        if (pt is not None) != crashed:
                            rep.broke(f"harness could not inject crash point {pt} in autosave {j} (events {events})")
                            continue
                        ip.crash, ip.exc = None, None
                        st = U.dir_state(base)
                        if real_states.setdefault(label, st) != st:
                            real_states[label + "'"] = st      # a second, different state at the same model label
                        rep.case(key=(sysd["kind"], j, lnew, lbak, label, str(pt), ki),
                                 sample={"save": j, "leftovers": [lnew, lbak], "crash_point": label,
                                         "event": None if pt is None else events[pt[1]], "dir": st})
                        rep.hist("crash_point", label)
                        # ---- the property itself on the real directory
                        b = st.split("/")[0]
                        data = dict(system=sysd, reorder=reorder, save=j, leftovers=[lnew, lbak], crash_point=label,
                                    crash_before_event=None if pt is None else events[pt[1]], mode=None if pt is None else pt[0],
                                    exception=None if pt is None else kinds[ki][0], exception_index=ki,
                                    fraction_of_bytes_written=pt[2] if pt is not None and len(pt) > 2 else None,
                                    escaped=None if err is None else f"{type(err).__name__}: {err}"[:200],
                                    events_of_an_undisturbed_save=events, dir_base_new_bak=st)
                        if b not in (prev, f"c{j}"):
                            klass = WITNESS_CLASS if (b == "a" and any(e.startswith("rename:base") for e in events)) else None
                            how = "a crash" if pt is None or pt[0] != "mid" else f"{kinds[ki][0]} raised inside pickle.dump (after {int(pt[2] * 100)}% of the bytes)"
                            rep.fail(f"after {how} at {label} of autosave {j} the advertised file is "
                                     f"{'missing' if b == 'a' else 'not loadable' if b == 'p' else 'snapshot ' + b} "
                                     f"(directory base/.new/.bak = {st})", data, klass=klass)
                        if (j, lnew, lbak) in resume_for or b not in (prev, f"c{j}"):
                            ip.save_calls = int(b[1:]) if b.startswith("c") and b[1:].isdigit() else j
                            try:
                                res = MPSBackend.resume(str(base) if ki % 2 else base)
                                msg = U.diff_results(ref, U.canon_results(res)) if ref is not None else None
                                if msg:
                                    rep.fail(f"resume after a crash at {label} of autosave {j} differs from the uninterrupted run: {msg}", data)
                                if base.exists():
                                    rep.fail("autosave file still present after the resumed run finished", data)
                                rep.count("resumes_after_crash")
                            except Exception as e:
                                if b in (prev, f"c{j}"):
                                    rep.fail(f"MPSBackend.resume(base) raised {type(e).__name__}: {e}", data)
                                else:
                                    rep.extra.setdefault("resume_errors", []).append(f"{label}: {type(e).__name__}: {e}"[:160])
                    skip = {f"b{i}" for i, e in enumerate(events) if e.startswith("close:")}
                    cx.ask(f"autosave.crash current {prev} {lnew} {lbak} {j}", ("states", real_states, skip, "exact"),
                           dict(what=f"crash states of autosave {j}", leftovers=(lnew, lbak), events=events))
                    cx.ask(f"autosave.unwind {prev} {lnew} {lbak} {j}", ("classify_unwind", real_states), {})
                reset()
                U.put_file(base, f"c{j}", blobs)
                ip.save_calls = j
            for q in (base, U.new_path(base), U.bak_path(base)):
                if q.exists():
                    q.unlink()


def _state_ok(model: str | None, real: str, mode: str) -> bool:
    """exact: identical. refine (process-kill runs): the model's `p` only promises that the file exists — what
    reached the disk is a prefix, possibly everything (small pickles are written with one unbuffered write)."""
    if model is None:
        return False
    if mode == "exact":
        return model == real
    return all(m == r or (m == "p" and r != "a") for m, r in zip(model.split("/"), real.split("/")))


PAD_BYTES = 320_000


def kill_points(events, essential: bool = False):
    """all kill points; `essential` (quick tier; every fork of the torch-laden harness process costs ~1 s under
    load) keeps one point per distinct model state around the operations that move or complete a file."""
    if essential:
        pts = []
        for i, e in enumerate(events):
            if e.startswith("dump:"):
                pts.append((("kill_mid", i), f"m{i}", f"inside {e} (half of the bytes handed to the file object)"))
                pts.append((("kill_after", i), f"b{i + 1}", f"immediately after {e}"))
            if e.startswith(("replace:", "rename:", "remove:")):
                pts.append((("kill_before", i), f"b{i}", f"immediately before {e}"))
                pts.append((("kill_after", i), f"b{i + 1}", f"immediately after {e}"))
        if essential == "min":       # tiny snapshot in the quick tier: after the dump and after each move
            pts = [x for x in pts if x[0][0] == "kill_after"]
        return pts
    pts = []
    for i, e in enumerate(events):
        pts.append((("kill_before", i), f"b{i}", f"immediately before {e}"))
        if e.startswith("dump:"):
            pts.append((("kill_mid", i), f"m{i}", f"inside {e} (half of the bytes handed to the file object)"))
        pts.append((("kill_after", i), f"b{i + 1}", f"immediately after {e}"))
    pts.append((None, f"b{len(events)}", "not at all"))
    return pts


def run_killed_save(ip, impl, pt):
    """`impl.save_simulation()` in a forked child that dies with os._exit(9) at `pt` (no unwinding, buffers lost);
    returns the child's exit code."""
    import os
    import sys
    sys.stdout.flush()
    sys.stderr.flush()
    pid = os.fork()
    if pid == 0:
        code = 0
        try:
            ip.crash, ip.crash_save, ip.fired = pt, None, False
            impl.save_simulation()
        except BaseException:
            code = 3
        finally:
            os._exit(code)
    _, status = os.waitpid(pid, 0)
    return os.waitstatus_to_exitcode(status)


def kill_level(rep: Report, cx: Ctx, rng, sysd, reorder, ref, pad: int, n_saves: int, resume_all: bool, only=None,
               essential: bool = False):
    """Real process kills: the autosave j >= 2 runs in a forked child that calls os._exit(9) immediately before /
    after every interposed file-system call (and inside the dump); the parent then inspects the directory
    (refinement of the model's kill-semantics crash state), checks that the advertised file is a complete snapshot
    (previous or new) and resumes from it. `pad` bytes of tensor are attached to the back-end so that the pickle is
    a few 100 kB (the tail after the last large object then sits in the 8 kB write buffer until close)."""
    import torch
    from harness import autosave_util as U
    from emu_mps.mps_backend import MPSBackend
    from emu_mps.mps_backend_impl import create_impl

    with U.workdir() as tmp:
        clock = U.FakeClock(0.0)
        ip = U.Interposer()
        ip.clock = clock
        due = {"on": True}
        ip.schedule = lambda k: 100.0 * k if due["on"] else -1e9
        with U.fake_time(clock), ip.installed():
            impl = create_impl(U.make_data(sysd), U.make_config(sysd, reorder, bitstrings=False))
            impl.init()
            if pad:
                impl._verif_pad = torch.arange(pad // 8, dtype=torch.float64)
            base = Path(impl.autosave_file)
            impl.progress()                                   # first autosave, undisturbed
            blobs = {1: base.read_bytes()}
            rep.hist("kill_snapshot_kB", len(blobs[1]) // 1000)
            for j in range(2, n_saves + 1):
                if impl.is_finished():
                    break
                due["on"] = False
                impl.progress()
                due["on"] = True
                prev = f"c{j - 1}"

                def reset():
                    U.put_file(base, prev, blobs)
                    U.put_file(U.new_path(base), "a", blobs)
                    U.put_file(U.bak_path(base), "a", blobs)
                    impl.last_save_time = 0.0
                    ip.save_calls = j - 1
                    ip.crash, ip.crash_save, ip.fired = None, None, False
                reset()
                impl.save_simulation()                        # learn the events (parent, undisturbed)
                events = list(ip.per_save[-1])
                blobs[j] = base.read_bytes()
                real_states = {}
                pts = kill_points(events, essential)
                for pt, label, where in pts:
                    if only is not None and where != only:      # replay: the recorded kill point, by name
                        continue
                    reset()
                    rc = run_killed_save(ip, impl, pt)
                    if rc not in (0, 9) or (rc == 9) != (pt is not None):
                        if rc == 3:
                            rep.fail("save_simulation raised in the forked child", dict(system=sysd, save=j, kill=where))
                        else:
                            rep.broke(f"harness: forked autosave ended with exit code {rc} at kill point {pt}")
                        continue
                    st = U.dir_state(base)
                    real_states.setdefault(label, st)
                    rep.case(key=("kill", sysd["kind"], pad, j, str(pt)),
                             sample={"kill": where, "save": j, "snapshot_bytes": len(blobs[j]), "dir": st})
                    rep.hist("kill_point", label)
                    b = st.split("/")[0]
                    data = dict(system=sysd, reorder=reorder, save=j, kill=None if pt is None else list(pt), kill_where=where,
                                pad_bytes=pad, snapshot_bytes=len(blobs[j]), crash_point=label,
                                events_of_an_undisturbed_save=events, dir_base_new_bak=st)
                    ok = b in (prev, f"c{j}")
                    if not ok:
                        size = base.stat().st_size if base.exists() else None
                        data["advertised_file_bytes"] = size
                        err = ""
                        try:
                            import pickle
                            with open(base, "rb") as f:
                                pickle.load(f)
                        except Exception as e:
                            err = f"{type(e).__name__}: {e}"
                        rep.fail(f"process killed {where} of autosave {j}: the advertised file is "
                                 f"{'missing' if b == 'a' else 'not loadable (' + err + ', ' + str(size) + ' of ' + str(len(blobs[j])) + ' bytes)' if b == 'p' else 'snapshot ' + b}"
                                 f"; directory base/.new/.bak = {st}", data)
                    if ok and (resume_all or pt is None or (pt[0] != "kill_mid" and events[pt[1]].startswith(("replace:", "rename:")))):
                        ip.save_calls = int(b[1:])
                        try:
                            res = MPSBackend.resume(base)
                            msg = U.diff_results(ref, U.canon_results(res)) if ref is not None else None
                            if msg:
                                rep.fail(f"resume after a process kill {where} of autosave {j} differs from the uninterrupted run: {msg}", data)
                            rep.count("resumes_after_kill")
                        except Exception as e:
                            rep.fail(f"MPSBackend.resume(base) after a process kill {where} raised {type(e).__name__}: {e}", data)
                if only is None:
                    skip = set() if not essential else {"b0", "b1", "b2", "b3", "b4", "b5", "b6", "m1"} - set(real_states)
                    cx.ask(f"autosave.crash current {prev} a a {j}", ("states", real_states, skip, "refine"),
                           dict(what=f"kill states of autosave {j}", pad=pad, events=events))
                reset()
                U.put_file(base, f"c{j}", blobs)
                ip.save_calls = j
            for q in (base, U.new_path(base), U.bak_path(base)):
                if q.exists():
                    q.unlink()


def refuse_kinds():
    import errno
    return [("OSError(EXDEV)", lambda m: OSError(errno.EXDEV, "Invalid cross-device link (" + m + ")")),
            ("PermissionError(EACCES)", lambda m: PermissionError(errno.EACCES, "Permission denied (" + m + ")"))]


def run_refused_save(ip, impl, refuse, kill: bool):
    """`impl.save_simulation()` in a forked child in which the move onto the advertised file is refused; with `kill` the
    child dies right after any later open-for-writing of the advertised path. Exit code: 0 the save returned, 5 the
    injected refusal propagated, 3 another exception, 9 killed."""
    import os
    import sys
    sys.stdout.flush()
    sys.stderr.flush()
    pid = os.fork()
    if pid == 0:
        code = 0
        try:
            ip.crash, ip.crash_save, ip.fired = None, None, False
            ip.refuse, ip.refused, ip.kill_on_write_open = refuse, False, kill
            try:
                impl.save_simulation()
            except OSError as e:
                code = 5 if "injected" in str(e) else 3
        except BaseException:
            code = 3
        finally:
            os._exit(code)
    _, status = os.waitpid(pid, 0)
    return os.waitstatus_to_exitcode(status)


def refuse_level(rep: Report, cx: Ctx, rng, sysd, reorder, ref, n_saves: int, only=None):
    """`os.replace` / `os.rename` onto the advertised file REFUSED (raises OSError / PermissionError without moving
    anything) during autosave j >= 2, in a forked child: (a) the process goes on — whatever the code does (propagate,
    fall back) the advertised file must stay a complete previous-or-new snapshot; (b) additionally the process is
    killed right after any open-for-writing of the advertised path that follows the refusal (an in-place fallback
    such as shutil.copyfile truncates the only good snapshot). Then resume."""
    from harness import autosave_util as U
    from emu_mps.mps_backend import MPSBackend
    from emu_mps.mps_backend_impl import create_impl

    with U.workdir() as tmp:
        clock = U.FakeClock(0.0)
        ip = U.Interposer()
        ip.clock = clock
        due = {"on": True}
        ip.schedule = lambda k: 100.0 * k if due["on"] else -1e9
        with U.fake_time(clock), ip.installed():
            impl = create_impl(U.make_data(sysd), U.make_config(sysd, reorder, bitstrings=False))
            impl.init()
            base = Path(impl.autosave_file)
            impl.progress()
            blobs = {1: base.read_bytes()}
            for j in range(2, n_saves + 1):
                if impl.is_finished():
                    break
                due["on"] = False
                impl.progress()
                due["on"] = True
                prev = f"c{j - 1}"

                def reset():
                    U.put_file(base, prev, blobs)
                    U.put_file(U.new_path(base), "a", blobs)
                    U.put_file(U.bak_path(base), "a", blobs)
                    impl.last_save_time = 0.0
                    ip.save_calls = j - 1
                    ip.crash, ip.crash_save, ip.fired = None, None, False
                reset()
                impl.save_simulation()
                blobs[j] = base.read_bytes()
                for ri, (rname, refuse) in enumerate(refuse_kinds()):
                    for kill in (False, True):
                        if only is not None and [rname, kill] != list(only):
                            continue
                        reset()
                        rc = run_refused_save(ip, impl, refuse, kill)
                        st = U.dir_state(base)
                        outcome = {0: "save_simulation returned", 5: "the refusal propagated", 9: "killed right after the advertised "
                                   "file was opened for writing", 3: "another exception"}.get(rc, f"exit code {rc}")
                        rep.case(key=("refuse", sysd["kind"], j, rname, kill),
                                 sample={"refused": rname, "kill_on_write_open": kill, "outcome": outcome, "save": j, "dir": st})
                        rep.hist("refused_rename_outcome", outcome)
                        if rc not in (0, 5, 9):
                            rep.fail(f"save_simulation raised something else than the refusal after {rname} from the rename",
                                     dict(system=sysd, save=j, refuse=[rname, kill], dir_base_new_bak=st))
                            continue
                        data = dict(system=sysd, reorder=reorder, save=j, refuse=[rname, kill], outcome=outcome, dir_base_new_bak=st)
                        b = st.split("/")[0]
                        if rc == 5 and not kill:
                            cx.ask(f"autosave.crash current {prev} a a {j}", ("states", {"b3": st}, {"b0", "b1", "m1", "b2", "b4"}, "exact"),
                                   dict(what="directory after a refused rename that propagates"))
                        if rc == 9:
                            rep.notes.append("after a refused rename the code opened the advertised file for writing (in-place fallback): "
                                             "Props.C27.copyFallback_counterexample applies") if not rep.notes or "copyFallback" not in rep.notes[-1] else None
                        if b not in (prev, f"c{j}"):
                            rep.fail(f"autosave {j}: the rename onto the advertised file was refused with {rname}"
                                     + (", then the process was killed right after the code opened the advertised file for writing" if rc == 9 else "")
                                     + f": the advertised file is {'missing' if b == 'a' else 'not loadable' if b == 'p' else 'snapshot ' + b} "
                                     f"(directory base/.new/.bak = {st})", data)
                            continue
                        ip.save_calls = int(b[1:])
                        ip.refuse, ip.kill_on_write_open = None, False
                        try:
                            res = MPSBackend.resume(base)
                            msg = U.diff_results(ref, U.canon_results(res)) if ref is not None else None
                            if msg:
                                rep.fail(f"resume after a refused rename differs from the uninterrupted run: {msg}", data)
                            rep.count("resumes_after_refused_rename")
                        except Exception as e:
                            rep.fail(f"MPSBackend.resume(base) after a refused rename raised {type(e).__name__}: {e}", data)
                reset()
                U.put_file(base, f"c{j}", blobs)
                ip.save_calls = j
            for q in tmp.iterdir():
                q.unlink()


def loop_level(rep: Report, cx: Ctx, rng, sysd, reorder, ref, n_scen):
    """Parts B/D: a crash inside the real `_run` loop at a seeded (autosave, point), resume; optionally a
    second crash in the resumed process (fake clock also in emu_mps.mps_backend) and a second resume."""
    from harness import autosave_util as U
    from emu_mps.mps_backend import MPSBackend

    for sc in range(n_scen):
        with U.workdir() as tmp:
            clock = U.FakeClock(0.0)
            ip = U.Interposer()
            ip.clock = clock
            ip.schedule = lambda k: 100.0 * k
            j = rng.randint(2, 5)
            pt = rng.choice([("before", 0), ("before", 1), ("mid", 1), ("before", 3)])
            kinds = U.exception_kinds()
            kname, ip.exc = kinds[(sc + j) % len(kinds)]
            ip.crash, ip.crash_save = pt, j
            data = dict(system=sysd, reorder=reorder, crash_in_autosave=j, crash_point=list(pt), exception=kname, scenario="loop")
            with U.fake_time(clock, also_backend=True), ip.installed():
                status, err = U.run_injected(ip, lambda: MPSBackend._run_from_sequence_data(
                    U.make_data(sysd), U.make_config(sysd, reorder, bitstrings=False)))
                if status == "ok":
                    rep.count("loop_crash_not_reached")
                    continue
                if status == "raised":
                    rep.fail(f"run with autosaves raised {type(err).__name__}: {err}", data)
                    continue
                base = ip.base
                st = U.dir_state(base)
                data["dir_base_new_bak"] = st
                data["escaped"] = None if err is None else f"{type(err).__name__}: {err}"[:200]
                rep.case(key=("loop", sysd["kind"], j, pt, kname), sample={"loop_crash": [j, list(pt)], "exception": kname, "dir": st})
                second = sc % 2 == 1
                b = st.split("/")[0]
                if not (b.startswith("c") and b[1:].isdigit()):
                    klass = WITNESS_CLASS if b == "a" and any(ev.startswith("rename:base") for ev in ip.all_events) else None
                    rep.fail(f"after {kname} at {list(pt)} of autosave {j} inside the run loop the advertised file is "
                             f"{'missing' if b == 'a' else 'not loadable'} (directory base/.new/.bak = {st})", data, klass=klass)
                    continue
                try:
                    ip.save_calls = int(b[1:])
                    ip.fired = False
                    if second:
                        j2 = ip.save_calls + 2   # the first save_simulation after a restart is never due (last_save_time = now)
                        ip.crash, ip.crash_save = rng.choice([("mid", 1), ("before", 3)]), j2
                        data["second_crash_in_autosave"] = j2
                        status, err = U.run_injected(ip, lambda: MPSBackend.resume(str(base)))
                        if status == "ok":
                            rep.count("second_crash_not_reached")
                            continue
                        if status == "raised":
                            raise err
                        st2 = U.dir_state(base)
                        data["dir_after_second_crash"] = st2
                        b2 = st2.split("/")[0]
                        ip.save_calls = int(b2[1:]) if b2[1:].isdigit() else j2
                        rep.count("double_crash_scenarios")
                    ip.crash, ip.crash_save, ip.exc, ip.fired = None, None, None, False
                    res = MPSBackend.resume(base if sc % 2 else str(base))
                except Exception as e:
                    klass = WITNESS_CLASS if "Not a file" in str(e) and any(ev.startswith("rename:base") for ev in ip.all_events) else None
                    rep.fail(f"MPSBackend.resume(base) after a crash inside the run loop raised {type(e).__name__}: {e}", data, klass=klass)
                    continue
                msg = U.diff_results(ref, U.canon_results(res)) if ref is not None else None
                if msg:
                    rep.fail(f"resume after a crash inside the run loop differs from the uninterrupted run: {msg}", data)
                left = sorted(p.name.split(".")[-1] for p in tmp.iterdir())
                if base.exists():
                    rep.fail("autosave file still present after the resumed run finished", dict(data, listing=left))
                rep.count("loop_crash_resumes")


ALIAS_CLASS = "autosave-suffix-new-in-place"


def aliased_level(rep: Report, cx: Ctx, sysd, reorder):
    """Finding A1-C27 (fixed by 8d35338: the temporary name is now built by appending ".new"): `MPSBackend.resume` of a
    file whose suffix is `.new` — e.g. the complete temporary file left by a crash between close and rename — used to make
    `autosave_file.with_suffix(".new") == autosave_file`, so every later autosave was written in place and an exception
    inside the write truncated the advertised file. Replays the Lean witness `Props.C27.aliased_counterexample` on the
    real code for both spellings of such a name (`<uuid>.new`, `<uuid>.dat.new`): the autosaves of the resumed back-end
    must go through a temporary file different from the advertised one and survive the exception."""
    import shutil as _sh
    from harness import autosave_util as U
    from emu_mps.mps_backend import MPSBackend
    from emu_mps.mps_backend_impl import create_impl

    with U.workdir() as tmp:
        clock = U.FakeClock(0.0)
        ip = U.Interposer()
        ip.clock = clock
        ip.schedule = lambda k: 100.0 * k
        with U.fake_time(clock, also_backend=True), ip.installed():
            impl = create_impl(U.make_data(sysd), U.make_config(sysd, reorder, bitstrings=False))
            impl.init()
            impl.progress()
            impl.progress()
            base = Path(impl.autosave_file)
            snap2 = base.read_bytes()
            names = []
            for q in (U.new_path(base), base.with_suffix(".new"), base.with_name(base.name + ".new")):
                if q not in names:
                    names.append(q)
            for left in names:
                for q in tmp.iterdir():
                    q.unlink()
                base.write_bytes(snap2)
                left.write_bytes(snap2)             # directory state b3 of the model: complete temp file next to the old base
                ip.save_calls, clock.now = 2, 200.0
                ip.per_save.clear()
                ip.crash, ip.crash_save, ip.fired = ("mid", 1, 0.5), 4, False
                status, err = U.run_injected(ip, lambda: MPSBackend.resume(left))
                if status != "crash":
                    rep.count("aliased_witness_not_reached")
                    continue
                st = U.file_state(left)
                third = ip.per_save[-2] if len(ip.per_save) >= 2 else []
                shown = left.name.replace(base.stem, "<uuid>")
                rep.case(key=("aliased", sysd["kind"], shown), sample={"resumed_from": shown, "events_of_autosave_3": third,
                                                                       "advertised_after_crash_in_autosave_4": st})
                cx.ask("autosave.aliased c3 4", ("aliased", st, U.canon_ops(third, 3)), dict(events=third, resumed_from=shown))
                if st not in ("c3", "c4"):
                    rep.fail(f"resumed from {shown}: autosaves are written in place ({third}); after an exception inside "
                             f"the write of autosave 4 the advertised file is {'missing' if st == 'a' else 'not loadable'} "
                             f"(the stale <uuid>.dat still holds snapshot {U.file_state(base)})",
                             dict(system=sysd, reorder=reorder, resumed_from=shown, crash_in_autosave=4,
                                  crash="exception inside pickle.dump after 50% of the bytes", events_of_autosave_3=third,
                                  advertised_file=st), klass=ALIAS_CLASS)


def world_level(rep: Report, cx: Ctx, rng, sysd, reorder, n_runs):
    """Part C: whole `_run` under a random clock: which progress calls save, the complete operation
    trace (incl. the final remove) and the final directory, against `autosave.run`."""
    from harness import autosave_util as U
    from emu_mps.mps_backend import MPSBackend

    for _ in range(n_runs):
        with U.workdir() as tmp:
            dt = rng.choice([11, 20, 35])
            times = [0]

            def reading(k, times=times, dt=dt):
                while len(times) <= k:      # noisy runs: the number of progress calls is not known in advance
                    times.append(times[-1] + rng.choice([0, 3, dt - 1, dt, dt + 1, 2 * dt, 5]))
                return float(times[k])
            clock = U.FakeClock(0.0)
            ip = U.Interposer()
            ip.clock = clock
            ip.schedule = reading
            with U.fake_time(clock), ip.installed():
                try:
                    MPSBackend._run_from_sequence_data(U.make_data(sysd), U.make_config(sysd, reorder, autosave_dt=float(dt), bitstrings=False))
                except Exception as e:
                    rep.fail(f"run under a fake clock raised {type(e).__name__}: {e}", dict(system=sysd, dt=dt, clock=times[:20]))
                    continue
            n = ip.save_calls
            ops = []
            bad = False
            for k, evs in enumerate(ip.per_save, 1):
                ops += U.canon_ops(evs, k)
            tail = [e for e in ip.all_events[sum(len(e) for e in ip.per_save):]]
            real = None if bad else ops + tail
            left = sorted(p.name for p in tmp.iterdir())
            final = "a/a/a" if not left else "left:" + ",".join(left)
            flags = ["1" if evs else "0" for evs in ip.per_save]
            rep.hist("world_saves_per_run", sum(f == "1" for f in flags))
            rep.case(key=("world", dt, tuple(times[:n + 1])), sample={"dt": dt, "clock": times[1:n + 1], "saved": "".join(flags)})
            cx.ask(f"autosave.run {dt} 0 0 {n} {','.join(str(t) for t in times[1:n + 1])} a a a",
                   ("world", real, final, n), dict(what="whole-run trace", dt=dt, clock=times[1:n + 1], events=ip.all_events))
            cx.ask(f"autosave.sched {dt} 0 {','.join(str(t) for t in times[1:n + 1])}", ("sched", flags), dict(dt=dt, clock=times[1:n + 1]))
            if left:
                rep.fail("files left in the working directory after a finished run", dict(system=sysd, dt=dt, clock=times[1:n + 1], listing=left))


def settle(rep: Report, cx: Ctx):
    """one driver batch; compare"""
    if not cx.q:
        return
    try:
        out = Driver().batch([l for l, _, _ in cx.q])
    except LeanError as e:
        rep.broke("driver: " + str(e)[-800:])
        return
    matches_three = matches_early = matches_cur = total_traces = matches_finally = n_unwind = 0
    for (line, real, ctx), mo in zip(cx.q, out):
        if isinstance(real, tuple) and real[0] == "classify":
            if real[1] is not None and ",".join(real[1]) == mo:
                if real[2] == "threeStep":
                    matches_three += 1
                else:
                    matches_early += 1
            continue
        if isinstance(real, tuple) and real[0] == "aliased":
            model = dict(x.split("=") for x in mo.split(";"))
            inplace = "open:base,write:base:3,close:base:3,replace:base:base"
            current = "open:new,write:new:3,close:new:3,replace:new:base"
            got = ",".join(real[2]) if real[2] else "-"
            if got == inplace:
                if model.get("m1", "").split("/")[0] != real[1]:
                    rep.broke(f"correspondence in-place save (resumed from *.new): model m1 {model.get('m1')} real advertised file {real[1]}")
            elif got != current:
                rep.broke(f"correspondence operation trace of a back-end resumed from {ctx.get('resumed_from')}: model {current} real {got}")
            rep.extra.setdefault("resume_from_dot_new_writes_in_place", []).append(got == inplace)
            continue
        if isinstance(real, tuple) and real[0] == "classify_unwind":
            model = dict(x.split("=") for x in mo.split(";"))
            n_unwind += 1
            # only crash points inside the protected body (an exception injected at the rename itself prevents the rename)
            body = {l: st for l, st in real[1].items() if l.rstrip("'") in ("b0", "b1", "m1")}
            matches_finally += bool(body) and all(model.get(l.rstrip("'")) == st for l, st in body.items())
            continue
        if isinstance(real, tuple) and real[0] == "states":
            model = dict(x.split("=") for x in mo.split(";"))
            for lab, st in real[1].items():
                if not _state_ok(model.get(lab.rstrip("'")), st, real[3]):
                    rep.broke(f"correspondence crash state: {line} at {lab}: model {model.get(lab)} real {st} ({json.dumps(ctx, default=str)[:300]})")
            missing = set(model) - {l.rstrip("'") for l in real[1]} - set(real[2])
            if missing and real[1]:
                rep.broke(f"correspondence crash state: {line}: model crash points {sorted(missing)} were not reachable on the real code")
            continue
        if isinstance(real, tuple) and real[0] == "world":
            _, ops, final, n = real
            want = f"ok {n} {','.join(ops) if ops else '-'} {final}" if ops is not None else None
            if want != mo:
                rep.broke(f"correspondence whole-run trace: {line}: model `{mo}` real `{want}`")
            continue
        if isinstance(real, tuple) and real[0] == "sched":
            if mo.split()[0] != (",".join(real[1]) if real[1] else "-"):
                rep.broke(f"correspondence save schedule (last_save_time/autosave_dt guard): {line}: model {mo.split()[0]} real {','.join(real[1])}")
            continue
        total_traces += 1
        got = ",".join(real) if real else ("-" if real is not None else "unparsable")
        if got == mo:
            matches_cur += 1
        else:
            rep.broke(f"correspondence operation trace: {line}: model {mo} real {got} ({json.dumps(ctx, default=str)[:300]})")
    rep.extra["traces_matching_current_model"] = f"{matches_cur}/{total_traces}"
    rep.extra["traces_matching_threeStep_model"] = matches_three
    rep.extra["traces_matching_earlyReplace_model"] = matches_early
    rep.extra["exception_states_matching_finallyReplace_model"] = f"{matches_finally}/{n_unwind}"
    if n_unwind and matches_finally == n_unwind and any("crash state" in b for b in rep.broken):
        rep.notes.append("the directories left by injected exceptions match the `try: … finally: os.replace(.new, base)` variant of the "
                         "model (unwindStates finallyBody finallyCleanup): Props.C27.finallyReplace_counterexample applies "
                         "(exception inside the write, truncated .new renamed over the last good snapshot)")
    if matches_cur < total_traces and matches_early >= total_traces - matches_cur and total_traces:
        rep.notes.append("the real operation traces match the early-replace variant (saveEarlyReplace: os.replace inside the "
                         "`with` block) of the model: Props.C27.earlyReplace_counterexample applies (process killed at b3, "
                         "after the rename, before the flush)")
    if matches_cur < total_traces and matches_three >= total_traces - matches_cur and total_traces:
        rep.notes.append("the real operation traces match the three-step variant (saveOld) of the model: "
                         "Props.C27.threeStep_counterexample applies (crash point b4)")


def reference(sysd, reorder):
    from harness import autosave_util as U
    from harness import compat
    return U.canon_results(compat.run_mps(U.make_data(sysd), U.make_config(sysd, reorder, autosave_dt=1e9, bitstrings=False)))


def check(rep: Report, tier: str, seed: int) -> None:
    from harness import autosave_util as U
    from harness import compat
    compat.install()
    import torch
    torch.set_num_threads(1)   # tiny tensors: one thread is faster and immune to OpenMP spin-wait under load
    rep.rule = ("cases = (system, autosave index j >= 2, left-over .new/.bak state in {absent, garbage, old snapshot}^2, crash "
                "point in {before each interposed call, inside pickle.dump with half of the bytes written, none}); non-trivial = "
                "distinct (kind, j, leftovers, crash point); plus crashes inside the real run loop (single and double, then "
                "resume) and whole runs under random integer clocks hitting the autosave_dt guard at equality")
    rep.assumptions = [
        "crash = exception raised at an interposed call (the `with` block then unwinds and flushes) or a real process kill: "
        "os._exit(9) in a forked child immediately before/after every interposed call and inside pickle.dump (buffers lost)",
        "the kill injector pads the back-end with a 320 kB tensor so that the pickle has an unflushed tail (as snapshots with "
        "bond dimension >~ 32 do); a tiny (~11 kB) snapshot is killed as well",
        "durability under power loss is outside the model (save_simulation does not fsync)",
        "unpickling an autosave gives back an equivalent back-end (validated by loading and resuming, not proved)",
    ]
    import time as _time
    _t = [_time.time()]

    def lap(name):
        rep.extra.setdefault("seconds", {})[name] = round(rep.extra.get("seconds", {}).get(name, 0) + _time.time() - _t[0], 1)
        _t[0] = _time.time()
    lean_stage(rep, PROP_MODULE, AUDIT, thorough=(tier == "thorough"))
    lap("lean")
    rng = seeded(seed * 6151 + 27)
    cx = Ctx(rep)
    quick = tier == "quick"
    kinds = ["tdvp", "dmrg"] if quick else ["tdvp", "dmrg", "noisy", "tdvp", "dmrg"]
    for ki, kind in enumerate(kinds):
        small = quick and ki > 0
        sysd = U.gen_system(rng, kind, n=3 if quick else None, steps=3 if quick else None)
        reorder = rng.random() < 0.6
        rep.hist("system", f"{kind}/n={sysd['n']}/steps={sysd['steps']}/reorder={reorder}")
        U.seed_all(seed)
        ref = reference(sysd, reorder) if kind != "noisy" else None   # noisy: resume must succeed, values are random
        lap("reference")
        save_level(rep, cx, rng, sysd, reorder, n_saves=(2 if small else 3) if quick else 6, leftovers_full=not small,
                   resume_for={(2, "a", "a")} if quick else {(2, "a", "a"), (3, "a", "a"), (2, "p", "p")}, ref=ref)
        lap("save_level")
        if ki == 0 or not quick:
            # real process kills: a padded (>= 300 kB) and a tiny snapshot
            kill_level(rep, cx, rng, sysd, reorder, ref, pad=PAD_BYTES, n_saves=2 if quick else 4, resume_all=not quick, essential=quick)
            kill_level(rep, cx, rng, sysd, reorder, ref, pad=0, n_saves=2 if quick else 3, resume_all=False, essential="min" if quick else False)
        lap("kill_level")
        if ki == 0:
            aliased_level(rep, cx, sysd, reorder)
            lap("aliased_level")
        if ki == 0 or not quick:
            refuse_level(rep, cx, rng, sysd, reorder, ref, n_saves=2 if quick else 3)
            lap("refuse_level")
        loop_level(rep, cx, rng, sysd, reorder, ref, n_scen=(1 if small else 2) if quick else 8)
        lap("loop_level")
        world_level(rep, cx, rng, sysd, reorder, n_runs=(1 if small else 2) if quick else 12)
        lap("world_level")
    settle(rep, cx)
    lap("driver")
    if rep.broken and not rep.unknown_failing():
        search(rep, seed, tier)


def search(rep: Report, seed: int, tier: str) -> None:
    """Failing-input search on the real code only: the crash-injection oracle on more systems (DMRG, and the
    noiseless part of noisy systems), more autosaves and every left-over combination."""
    from harness import autosave_util as U
    rng = seeded(seed * 7907 + 3)
    cx = Ctx(rep)
    for kind in ["tdvp", "dmrg", "tdvp"]:
        sysd = U.gen_system(rng, kind)
        reorder = rng.random() < 0.5
        U.seed_all(seed)
        ref = reference(sysd, reorder)
        save_level(rep, cx, rng, sysd, reorder, n_saves=5, leftovers_full=True,
                   resume_for={(j, "a", "a") for j in range(2, 6)}, ref=ref)
        loop_level(rep, cx, rng, sysd, reorder, ref, n_scen=6)
        if rep.failing:
            break
    rep.extra["search_systems"] = 3


def replay(rep: Report, path: str) -> int:
    """Re-inject the recorded crash (system, autosave index, left-overs, crash point) on the real code."""
    from harness import autosave_util as U
    from harness import compat
    from emu_mps.mps_backend import MPSBackend
    from emu_mps.mps_backend_impl import create_impl
    compat.install()
    bad = 0
    for f in json.load(open(path)).get("failing_inputs", []):
        d = f["data"]
        if "save" not in d:
            print("replay: (loop-level scenario) re-run `vcheck C27` with the recorded seed")
            continue
        if d.get("refuse") is not None:
            import torch
            torch.set_num_threads(1)
            before = len(rep.failing)
            refuse_level(rep, Ctx(rep), seeded(0), d["system"], d.get("reorder", False), None, n_saves=d["save"], only=d["refuse"])
            new = [x for x in rep.failing[before:] if x["data"].get("save") == d["save"]]
            for x in new:
                print("replay:", x["what"])
            if not new:
                print(f"replay: autosave {d['save']}, rename refused with {d['refuse'][0]}"
                      + (", killed at the next write-open of the advertised file" if d["refuse"][1] else "")
                      + ": advertised file complete, resume ok — property holds on this input now")
            bad += bool(new)
            continue
        if d.get("kill") is not None:
            # real process kill: fork, os._exit(9) at the recorded interposed call, inspect the directory, resume
            import torch
            torch.set_num_threads(1)
            before = len(rep.failing)
            kill_level(rep, Ctx(rep), seeded(0), d["system"], d.get("reorder", False), None, pad=d.get("pad_bytes", 0),
                       n_saves=d["save"], resume_all=True, only=d["kill_where"])
            new = rep.failing[before:]
            for x in new:
                print("replay:", x["what"])
            if not new:
                print(f"replay: process killed {d['kill_where']} of autosave {d['save']} ({d.get('snapshot_bytes')} byte snapshot): "
                      "advertised file complete, resume ok — property holds on this input now")
            bad += bool(new)
            continue
        sysd, j = d["system"], d["save"]
        with U.workdir():
            clock = U.FakeClock(0.0)
            ip = U.Interposer()
            ip.clock = clock
            ip.schedule = lambda k: 100.0 * k
            with U.fake_time(clock), ip.installed():
                impl = create_impl(U.make_data(sysd), U.make_config(sysd, d.get("reorder", False), bitstrings=False))
                impl.init()
                base = Path(impl.autosave_file)
                for k in range(1, j):
                    impl.progress()
                old = base.read_bytes()
                for q, st in ((U.new_path(base), d["leftovers"][0]), (U.bak_path(base), d["leftovers"][1])):
                    U.put_file(q, "a" if st == "a" else "p" if st == "p" else "c0", {0: old})
                events = d["events_of_an_undisturbed_save"]
                idx = next((i for i, e in enumerate(events) if e == d["crash_before_event"]), None)
                ip.crash = None if idx is None else ((d["mode"], idx, d["fraction_of_bytes_written"]) if d.get("fraction_of_bytes_written") is not None else (d["mode"], idx))
                ip.exc = U.exception_kinds()[d.get("exception_index", 0)][1]
                ip.crash_save = j
                U.run_injected(ip, impl.progress)
                ip.crash, ip.exc, ip.fired = None, None, False
                st = U.dir_state(base)
                ok = st.split("/")[0] in (f"c{j - 1}", f"c{j}")
                try:
                    ip.crash = None
                    MPSBackend.resume(base)
                    r = "resume ok"
                except Exception as e:
                    r = f"resume raised {type(e).__name__}: {e}"
                    ok = False
                print(f"replay: autosave {j}, crash at {d['crash_point']}: directory base/.new/.bak = {st}; {r}")
                bad += not ok
    return 1 if bad else 0
