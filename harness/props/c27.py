"""C27 — a loadable autosave always survives a crash during autosaving
(`MPSBackendImpl.save_simulation`, emu_mps/mps_backend_impl.py; `MPSBackend.resume`/`_run`, emu_mps/mps_backend.py).

Lean: EmuVerif.Props.C27 over Model.Autosave (file system = base/.new/.bak -> absent|partial|complete v;
`save_simulation` = open(.new), write(.new) [not atomic], replace(.new, base) [atomic]; crash after any
operation prefix or inside the write). Correspondence: the real `save_simulation` under harness-level
interposition of os.replace/os.rename/os.remove/open/pickle.dump in the emu_mps.mps_backend_impl
namespace, in a temp dir, with a fake clock: operation sequence == model's, exception injected at every
operation (and inside the write) of the 2nd and later autosaves, real directory (existence + loadability
+ which snapshot) == model's crash state, `MPSBackend.resume(base)` must succeed and reproduce the
uninterrupted results. Always-on oracle: after every injected crash the advertised file is a loadable
snapshot (previous or new) and resume works.
"""
from __future__ import annotations

import json
import shutil
from pathlib import Path

from harness.common import Driver, LeanError, Report, lean_stage, seeded

REGISTRY = dict(
    text=("Lean 4 theorems over every snapshot type, every initial directory (left-over .new/.bak of any kind) and "
          "every history length: with the current save_simulation (write .new, os.replace(.new, base)) every crash "
          "state of an autosave that follows >= 1 completed autosave has `base = complete v` with v the previous or the "
          "new snapshot, so resume's is_file()+pickle.load succeeds (CrashSafe, autosave_survives_crash); the invariant "
          "survives arbitrary interleavings of completed saves, crashed saves and restarts (loadable_forever). The "
          "three-step variant removed by commit 3262c67 is modelled separately with a kernel-checked counterexample "
          "(nothing under the advertised name between the two renames). Model tied to the code by exact comparison of "
          "the operation trace and of the directory after an exception injected at every operation and inside the write."),
    note=("Trusted: Lean kernel + propext/Quot.sound; hand-written Model.Autosave tied by the trace/crash-injection "
          "correspondence only; crash = exception at an interposed call (os.replace/rename/remove, open, pickle.dump) — "
          "durability under power loss (no fsync in save_simulation), other processes in the directory and Windows "
          "rename semantics are outside the model; pickle round trip is validated by loading, not proved."),
    technique="Lean 4 proof (case analysis over crash states, induction over histories) + exact trace/crash-injection correspondence",
    design_ref="DESIGN.md §5 C27",
)

PROP_MODULE = "EmuVerif.Props.C27"
AUDIT = "Audit/C27.lean"
WITNESS_CLASS = "autosave-rename-window"


def _event_to_label(events):
    """index of real event -> index of the model operation it belongs to"""
    lab, c = [], 0
    for e in events:
        if e.startswith("close:"):
            lab.append(c - 1)
        else:
            lab.append(c)
            c += 1
    return lab, c


class Ctx:
    """collects model queries (answered in one driver batch at the end)"""

    def __init__(self, rep):
        self.rep = rep
        self.q: list[tuple[str, object, dict]] = []   # (driver line, how to compare, context)

    def ask(self, line, real, ctx):
        self.q.append((line, real, ctx))


def save_level(rep: Report, cx: Ctx, rng, sysd, reorder, n_saves, leftovers_full, resume_for, ref):
    """Part A: crash injection at `save_simulation` level for autosaves 2..n_saves."""
    from harness import autosave_util as U
    from emu_mps.mps_backend import MPSBackend
    from emu_mps.mps_backend_impl import create_impl

    with U.workdir() as tmp:
        clock = U.FakeClock(0.0)
        ip = U.Interposer()
        ip.clock = clock
        due = {"on": True}
        ip.schedule = lambda k: 100.0 * k if due["on"] else -1e9
        with U.fake_time(clock), ip.installed():
            impl = create_impl(U.make_data(sysd), U.make_config(sysd, reorder, bitstrings=False))
            impl.init()
            base = Path(impl.autosave_file)
            blobs: dict[int, bytes] = {}
            # ---- first autosave
            impl.progress()
            ev1 = list(ip.per_save[-1]) if ip.per_save else []
            ops1 = U.canon_ops(ev1, 1)
            cx.ask("autosave.ops current a a a 1", ops1, dict(what="trace of the 1st autosave", events=ev1))
            cx.ask("autosave.ops threeStep a a a 1", ("classify", ops1), {})
            st = U.dir_state(base)
            rep.case(key=("first", sysd["kind"], reorder), sample={"first_autosave_events": ev1, "dir": st})
            if st.split("/")[0] != "c1":
                rep.fail("the first autosave did not leave a loadable file under the advertised name",
                         dict(system=sysd, reorder=reorder, events=ev1, dir=st))
                return
            blobs[1] = base.read_bytes()
            # ---- later autosaves
            for j in range(2, n_saves + 1):
                if impl.is_finished():
                    break
                due["on"] = False
                impl.progress()                      # numerics of progress call j, save not due
                due["on"] = True
                assert ip.save_calls == j and not ip.per_save[-1], "harness: a save happened although not due"
                prev = f"c{j - 1}"
                combos = [(a, b) for a in ("a", "p", prev) for b in ("a", "p", prev)]
                if not (leftovers_full and j == 2):
                    combos = [("a", "a")] + rng.sample(combos[1:], 2)
                for (lnew, lbak) in combos:
                    def reset():
                        U.put_file(base, prev, blobs)
                        U.put_file(base.with_suffix(".new"), lnew, blobs)
                        U.put_file(base.with_suffix(".bak"), lbak, blobs)
                        impl.last_save_time = 0.0
                        ip.save_calls = j - 1
                        ip.crash, ip.crash_save, ip.fired = None, None, False
                    # learn the event list of an undisturbed save from this directory
                    reset()
                    impl.save_simulation()
                    events = list(ip.per_save[-1])
                    if (lnew, lbak) == ("a", "a"):
                        blobs[j] = base.read_bytes()
                    ops = U.canon_ops(events, j)
                    cx.ask(f"autosave.ops current {prev} {lnew} {lbak} {j}", ops,
                           dict(what=f"trace of autosave {j}", events=events, leftovers=(lnew, lbak)))
                    cx.ask(f"autosave.ops threeStep {prev} {lnew} {lbak} {j}", ("classify", ops), {})
                    lab, nops = _event_to_label(events)
                    points = [("before", i) for i, e in enumerate(events) if not e.startswith("close:")]
                    points += [("mid", i) for i, e in enumerate(events) if e.startswith("dump:")]
                    points.append(None)
                    real_states = {}
                    for pt in points:
                        reset()
                        ip.crash = pt
                        label = f"b{nops}" if pt is None else (("b" if pt[0] == "before" else "m") + str(lab[pt[1]]))
                        crashed = False
                        try:
                            impl.save_simulation()
                        except U.Crash:
                            crashed = True
                        except Exception as e:  # the real code raising by itself
                            rep.fail(f"save_simulation raised {type(e).__name__}: {e}",
                                     dict(system=sysd, save=j, leftovers=(lnew, lbak), crash_point=str(pt)))
                            continue
                        if (pt is not None) != crashed:
                            rep.broke(f"harness could not inject crash point {pt} in autosave {j} (events {events})")
                            continue
                        ip.crash = None
                        st = U.dir_state(base)
                        real_states[label] = st
                        rep.case(key=(sysd["kind"], j, lnew, lbak, label),
                                 sample={"save": j, "leftovers": [lnew, lbak], "crash_point": label,
                                         "event": None if pt is None else events[pt[1]], "dir": st})
                        rep.hist("crash_point", label)
                        # ---- the property itself on the real directory
                        b = st.split("/")[0]
                        data = dict(system=sysd, reorder=reorder, save=j, leftovers=[lnew, lbak], crash_point=label,
                                    crash_before_event=None if pt is None else events[pt[1]], mode=None if pt is None else pt[0],
                                    events_of_an_undisturbed_save=events, dir_base_new_bak=st)
                        if b not in (prev, f"c{j}"):
                            klass = WITNESS_CLASS if (b == "a" and any(e.startswith("rename:base") for e in events)) else None
                            rep.fail(f"after a crash at {label} of autosave {j} the advertised file is "
                                     f"{'missing' if b == 'a' else 'not loadable' if b == 'p' else 'snapshot ' + b} "
                                     f"(directory base/.new/.bak = {st})", data, klass=klass)
                        if (j, lnew, lbak) in resume_for or b not in (prev, f"c{j}"):
                            ip.save_calls = int(b[1:]) if b.startswith("c") and b[1:].isdigit() else j
                            try:
                                res = MPSBackend.resume(base)
                                msg = U.diff_results(ref, U.canon_results(res)) if ref is not None else None
                                if msg:
                                    rep.fail(f"resume after a crash at {label} of autosave {j} differs from the uninterrupted run: {msg}", data)
                                if base.exists():
                                    rep.fail("autosave file still present after the resumed run finished", data)
                                rep.count("resumes_after_crash")
                            except Exception as e:
                                if b in (prev, f"c{j}"):
                                    rep.fail(f"MPSBackend.resume(base) raised {type(e).__name__}: {e}", data)
                                else:
                                    rep.extra.setdefault("resume_errors", []).append(f"{label}: {type(e).__name__}: {e}"[:160])
                    cx.ask(f"autosave.crash current {prev} {lnew} {lbak} {j}", ("states", real_states),
                           dict(what=f"crash states of autosave {j}", leftovers=(lnew, lbak), events=events))
                reset()
                U.put_file(base, f"c{j}", blobs)
                ip.save_calls = j
            for q in (base, base.with_suffix(".new"), base.with_suffix(".bak")):
                if q.exists():
                    q.unlink()


def loop_level(rep: Report, cx: Ctx, rng, sysd, reorder, ref, n_scen):
    """Parts B/D: a crash inside the real `_run` loop at a seeded (autosave, point), resume; optionally a
    second crash in the resumed process (fake clock also in emu_mps.mps_backend) and a second resume."""
    from harness import autosave_util as U
    from emu_mps.mps_backend import MPSBackend

    for sc in range(n_scen):
        with U.workdir() as tmp:
            clock = U.FakeClock(0.0)
            ip = U.Interposer()
            ip.clock = clock
            ip.schedule = lambda k: 100.0 * k
            j = rng.randint(2, 5)
            pt = rng.choice([("before", 0), ("before", 1), ("mid", 1), ("before", 3)])
            ip.crash, ip.crash_save = pt, j
            data = dict(system=sysd, reorder=reorder, crash_in_autosave=j, crash_point=list(pt), scenario="loop")
            with U.fake_time(clock, also_backend=True), ip.installed():
                try:
                    MPSBackend._run_from_sequence_data(U.make_data(sysd), U.make_config(sysd, reorder, bitstrings=False))
                    rep.count("loop_crash_not_reached")
                    continue
                except U.Crash:
                    pass
                base = ip.base
                st = U.dir_state(base)
                data["dir_base_new_bak"] = st
                rep.case(key=("loop", sysd["kind"], j, pt), sample={"loop_crash": [j, list(pt)], "dir": st})
                second = sc % 2 == 1
                try:
                    b = st.split("/")[0]
                    ip.save_calls = int(b[1:]) if b[1:].isdigit() else j
                    ip.fired = False
                    if second:
                        j2 = ip.save_calls + 2   # the first save_simulation after a restart is never due (last_save_time = now)
                        ip.crash, ip.crash_save = rng.choice([("mid", 1), ("before", 3)]), j2
                        data["second_crash_in_autosave"] = j2
                        try:
                            MPSBackend.resume(base)
                            rep.count("second_crash_not_reached")
                            continue
                        except U.Crash:
                            pass
                        st2 = U.dir_state(base)
                        data["dir_after_second_crash"] = st2
                        b2 = st2.split("/")[0]
                        ip.save_calls = int(b2[1:]) if b2[1:].isdigit() else j2
                        rep.count("double_crash_scenarios")
                    ip.crash, ip.crash_save = None, None
                    res = MPSBackend.resume(base)
                except Exception as e:
                    klass = WITNESS_CLASS if "Not a file" in str(e) and any(ev.startswith("rename:base") for ev in ip.all_events) else None
                    rep.fail(f"MPSBackend.resume(base) after a crash inside the run loop raised {type(e).__name__}: {e}", data, klass=klass)
                    continue
                msg = U.diff_results(ref, U.canon_results(res)) if ref is not None else None
                if msg:
                    rep.fail(f"resume after a crash inside the run loop differs from the uninterrupted run: {msg}", data)
                left = sorted(p.name.split(".")[-1] for p in tmp.iterdir())
                if base.exists():
                    rep.fail("autosave file still present after the resumed run finished", dict(data, listing=left))
                rep.count("loop_crash_resumes")


def world_level(rep: Report, cx: Ctx, rng, sysd, reorder, n_runs):
    """Part C: whole `_run` under a random clock: which progress calls save, the complete operation
    trace (incl. the final remove) and the final directory, against `autosave.run`."""
    from harness import autosave_util as U
    from emu_mps.mps_backend import MPSBackend

    for _ in range(n_runs):
        with U.workdir() as tmp:
            dt = rng.choice([11, 20, 35])
            times = [0]

            def reading(k, times=times, dt=dt):
                while len(times) <= k:      # noisy runs: the number of progress calls is not known in advance
                    times.append(times[-1] + rng.choice([0, 3, dt - 1, dt, dt + 1, 2 * dt, 5]))
                return float(times[k])
            clock = U.FakeClock(0.0)
            ip = U.Interposer()
            ip.clock = clock
            ip.schedule = reading
            with U.fake_time(clock), ip.installed():
                try:
                    MPSBackend._run_from_sequence_data(U.make_data(sysd), U.make_config(sysd, reorder, autosave_dt=float(dt), bitstrings=False))
                except Exception as e:
                    rep.fail(f"run under a fake clock raised {type(e).__name__}: {e}", dict(system=sysd, dt=dt, clock=times[:20]))
                    continue
            n = ip.save_calls
            ops = []
            bad = False
            for k, evs in enumerate(ip.per_save, 1):
                c = U.canon_ops(evs, k)
                if c is None:
                    bad = True
                    break
                ops += c
            tail = [e for e in ip.all_events[sum(len(e) for e in ip.per_save):]]
            real = None if bad else ops + tail
            left = sorted(p.name for p in tmp.iterdir())
            final = "a/a/a" if not left else "left:" + ",".join(left)
            flags = ["1" if evs else "0" for evs in ip.per_save]
            rep.hist("world_saves_per_run", sum(f == "1" for f in flags))
            rep.case(key=("world", dt, tuple(times[:n + 1])), sample={"dt": dt, "clock": times[1:n + 1], "saved": "".join(flags)})
            cx.ask(f"autosave.run {dt} 0 0 {n} {','.join(str(t) for t in times[1:n + 1])} a a a",
                   ("world", real, final, n), dict(what="whole-run trace", dt=dt, clock=times[1:n + 1], events=ip.all_events))
            cx.ask(f"autosave.sched {dt} 0 {','.join(str(t) for t in times[1:n + 1])}", ("sched", flags), dict(dt=dt, clock=times[1:n + 1]))
            if left:
                rep.fail("files left in the working directory after a finished run", dict(system=sysd, dt=dt, clock=times[1:n + 1], listing=left))


def settle(rep: Report, cx: Ctx):
    """one driver batch; compare"""
    if not cx.q:
        return
    try:
        out = Driver().batch([l for l, _, _ in cx.q])
    except LeanError as e:
        rep.broke("driver: " + str(e)[-800:])
        return
    matches_three = matches_cur = total_traces = 0
    for (line, real, ctx), mo in zip(cx.q, out):
        if isinstance(real, tuple) and real[0] == "classify":
            if real[1] is not None and ",".join(real[1]) == mo:
                matches_three += 1
            continue
        if isinstance(real, tuple) and real[0] == "states":
            model = dict(x.split("=") for x in mo.split(";"))
            for lab, st in real[1].items():
                if model.get(lab) != st:
                    rep.broke(f"correspondence crash state: {line} at {lab}: model {model.get(lab)} real {st} ({json.dumps(ctx, default=str)[:300]})")
            missing = set(model) - set(real[1])
            if missing and real[1]:
                rep.broke(f"correspondence crash state: {line}: model crash points {sorted(missing)} were not reachable on the real code")
            continue
        if isinstance(real, tuple) and real[0] == "world":
            _, ops, final, n = real
            want = f"ok {n} {','.join(ops) if ops else '-'} {final}" if ops is not None else None
            if want != mo:
                rep.broke(f"correspondence whole-run trace: {line}: model `{mo}` real `{want}`")
            continue
        if isinstance(real, tuple) and real[0] == "sched":
            if mo.split()[0] != (",".join(real[1]) if real[1] else "-"):
                rep.broke(f"correspondence save schedule (last_save_time/autosave_dt guard): {line}: model {mo.split()[0]} real {','.join(real[1])}")
            continue
        total_traces += 1
        got = ",".join(real) if real else ("-" if real is not None else "unparsable")
        if got == mo:
            matches_cur += 1
        else:
            rep.broke(f"correspondence operation trace: {line}: model {mo} real {got} ({json.dumps(ctx, default=str)[:300]})")
    rep.extra["traces_matching_current_model"] = f"{matches_cur}/{total_traces}"
    rep.extra["traces_matching_threeStep_model"] = matches_three
    if matches_cur < total_traces and matches_three >= total_traces - matches_cur and total_traces:
        rep.notes.append("the real operation traces match the three-step variant (saveOld) of the model: "
                         "Props.C27.threeStep_counterexample applies (crash point b3)")


def reference(sysd, reorder):
    from harness import autosave_util as U
    from harness import compat
    return U.canon_results(compat.run_mps(U.make_data(sysd), U.make_config(sysd, reorder, autosave_dt=1e9, bitstrings=False)))


def check(rep: Report, tier: str, seed: int) -> None:
    from harness import autosave_util as U
    from harness import compat
    compat.install()
    import torch
    torch.set_num_threads(1)   # tiny tensors: one thread is faster and immune to OpenMP spin-wait under load
    rep.rule = ("cases = (system, autosave index j >= 2, left-over .new/.bak state in {absent, garbage, old snapshot}^2, crash "
                "point in {before each interposed call, inside pickle.dump with half of the bytes written, none}); non-trivial = "
                "distinct (kind, j, leftovers, crash point); plus crashes inside the real run loop (single and double, then "
                "resume) and whole runs under random integer clocks hitting the autosave_dt guard at equality")
    rep.assumptions = [
        "crash = exception raised at an interposed call; the `with` block then closes the file. A kill between "
        "pickle.dump and close is covered by the model's mid-write state (partial .new), not injected.",
        "durability under power loss is outside the model (save_simulation does not fsync)",
        "unpickling an autosave gives back an equivalent back-end (validated by loading and resuming, not proved)",
    ]
    lean_stage(rep, PROP_MODULE, AUDIT, thorough=(tier == "thorough"))
    rng = seeded(seed * 6151 + 27)
    cx = Ctx(rep)
    quick = tier == "quick"
    kinds = ["tdvp", "dmrg"] if quick else ["tdvp", "dmrg", "noisy", "tdvp", "dmrg"]
    for ki, kind in enumerate(kinds):
        small = quick and ki > 0
        sysd = U.gen_system(rng, kind, n=3 if quick else None, steps=3 if quick else None)
        reorder = rng.random() < 0.6
        rep.hist("system", f"{kind}/n={sysd['n']}/steps={sysd['steps']}/reorder={reorder}")
        U.seed_all(seed)
        ref = reference(sysd, reorder) if kind != "noisy" else None   # noisy: resume must succeed, values are random
        save_level(rep, cx, rng, sysd, reorder, n_saves=(2 if small else 3) if quick else 6, leftovers_full=not small,
                   resume_for={(2, "a", "a")} if quick else {(2, "a", "a"), (3, "a", "a"), (2, "p", "p")}, ref=ref)
        loop_level(rep, cx, rng, sysd, reorder, ref, n_scen=(1 if small else 2) if quick else 8)
        world_level(rep, cx, rng, sysd, reorder, n_runs=(1 if small else 2) if quick else 12)
    settle(rep, cx)
    if rep.broken and not rep.failing:
        search(rep, seed, tier)


def search(rep: Report, seed: int, tier: str) -> None:
    """Failing-input search on the real code only: the crash-injection oracle on more systems (DMRG, and the
    noiseless part of noisy systems), more autosaves and every left-over combination."""
    from harness import autosave_util as U
    rng = seeded(seed * 7907 + 3)
    cx = Ctx(rep)
    for kind in ["tdvp", "dmrg", "tdvp"]:
        sysd = U.gen_system(rng, kind)
        reorder = rng.random() < 0.5
        U.seed_all(seed)
        ref = reference(sysd, reorder)
        save_level(rep, cx, rng, sysd, reorder, n_saves=5, leftovers_full=True,
                   resume_for={(j, "a", "a") for j in range(2, 6)}, ref=ref)
        loop_level(rep, cx, rng, sysd, reorder, ref, n_scen=6)
        if rep.failing:
            break
    rep.extra["search_systems"] = 3


def replay(rep: Report, path: str) -> int:
    """Re-inject the recorded crash (system, autosave index, left-overs, crash point) on the real code."""
    from harness import autosave_util as U
    from harness import compat
    from emu_mps.mps_backend import MPSBackend
    from emu_mps.mps_backend_impl import create_impl
    compat.install()
    bad = 0
    for f in json.load(open(path)).get("failing_inputs", []):
        d = f["data"]
        if "save" not in d:
            print("replay: (loop-level scenario) re-run `vcheck C27` with the recorded seed")
            continue
        sysd, j = d["system"], d["save"]
        with U.workdir():
            clock = U.FakeClock(0.0)
            ip = U.Interposer()
            ip.clock = clock
            ip.schedule = lambda k: 100.0 * k
            with U.fake_time(clock), ip.installed():
                impl = create_impl(U.make_data(sysd), U.make_config(sysd, d.get("reorder", False), bitstrings=False))
                impl.init()
                base = Path(impl.autosave_file)
                for k in range(1, j):
                    impl.progress()
                old = base.read_bytes()
                for q, st in ((base.with_suffix(".new"), d["leftovers"][0]), (base.with_suffix(".bak"), d["leftovers"][1])):
                    U.put_file(q, "a" if st == "a" else "p" if st == "p" else "c0", {0: old})
                events = d["events_of_an_undisturbed_save"]
                idx = next((i for i, e in enumerate(events) if e == d["crash_before_event"]), None)
                ip.crash = None if idx is None else (d["mode"], idx)
                ip.crash_save = j
                try:
                    impl.progress()
                except U.Crash:
                    pass
                st = U.dir_state(base)
                ok = st.split("/")[0] in (f"c{j - 1}", f"c{j}")
                try:
                    ip.crash = None
                    MPSBackend.resume(base)
                    r = "resume ok"
                except Exception as e:
                    r = f"resume raised {type(e).__name__}: {e}"
                    ok = False
                print(f"replay: autosave {j}, crash at {d['crash_point']}: directory base/.new/.bak = {st}; {r}")
                bad += not ok
    return 1 if bad else 0
