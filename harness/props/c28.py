"""C28 — noiseless evolution conserves the norm; energy and its second moment are constant while the
Hamiltonian does not change (PARTIAL).

Lean: EmuVerif.Props.C28 (exp(-i t H) unitary for Hermitian H; norm, <H>, <H^2> conserved; window-wise
conservation for the ideal kernel over Model.SvLoop's schedule entries, any dimension). Correspondence:
the schedule tie of Model.SvLoop to the real loop is re-checked on a few recorded runs (C01's check
does it at scale). Oracle (always on, real code): constant-drive / piecewise-constant SequenceData on
emu-sv (2-10 atoms) and emu-mps (2-12 atoms): norm drift at every evaluation time, energy and
second-moment drift across every window in which the drive rows and the interaction matrix are
unchanged.
"""
from __future__ import annotations

import json
import math

import numpy as np

from harness.common import Report, lean_stage, seeded
from harness import ideal_common as ic

REGISTRY = dict(
    text=("PARTIAL. Lean 4 theorems over complex matrices of every dimension: propagator_unitary / "
          "propagator_mem_unitaryGroup (H Hermitian => exp(-i t H) unitary), norm_conserved (+ the 2-norm version on "
          "EuclideanSpace), energy_conserved and second_moment_conserved (<H>, <H^2> unchanged by psi -> exp(-i t H) psi, "
          "because H commutes with its propagator), window_conservation (over any window of the emu-sv schedule whose "
          "steps share one Hamiltonian, the ideal kernel keeps norm, energy and second moment exactly constant at every "
          "step boundary, for any step lengths), fullClaim_ideal. NOT PROVED, ASSUMED: the real kernels are the ideal one "
          "up to their tolerance (emu-sv: C07 Krylov contract; emu-mps: TDVP = exponentials of Hermitian effective "
          "operators + truncation, C10) — in particular TDVP energy conservation is not proved; C06/C13 (operator and "
          "observables are the dense H, <H>, <H^2>). The statement about the real back-ends is FullClaim (not proved); it "
          "is validated by drift measurements on constant-drive runs of both back-ends, beyond dense-reference sizes."),
    note=("Trusted: Lean kernel + propext/Classical.choice/Quot.sound; Mathlib; Model.SvLoop tied to the code by the "
          "recorded-schedule correspondence; Krylov / TDVP accuracy only validated (drift tolerances derived from "
          "krylov_tolerance resp. precision x truncations per sweep x steps)."),
    technique="Lean 4 proof (matrix exponential algebra, list induction) + drift oracle on both back-ends",
    design_ref="DESIGN.md §5 C28",
)

PROP_MODULE = "EmuVerif.Props.C28"
AUDIT = "Audit/C28.lean"
C6 = 5420158.53      # rad/µs·µm^6 (Rydberg level 70), only used to get realistic interaction scales


def gen(rng, backend):
    """piecewise-constant drive: 2-3 windows of 2-4 steps with identical rows inside a window."""
    n = rng.randint(2, 10) if backend == "sv" else rng.randint(2, 12)
    nwin = rng.randint(1, 3) if backend == "sv" else rng.randint(1, 2)
    local = rng.random() < 0.5
    rows, win = [], []
    for w in range(nwin):
        steps = rng.randint(2, 4)
        om0, de0 = rng.uniform(2.0, 12.0), rng.uniform(-10.0, 10.0)
        ph0 = rng.choice([0.0, 0.0, rng.uniform(-3.0, 3.0)]) if backend == "sv" else 0.0
        om = [om0 * (rng.uniform(0.5, 1.0) if local else 1.0) for _ in range(n)]
        de = [de0 + (rng.uniform(-4.0, 4.0) if local else 0.0) for _ in range(n)]
        ph = [ph0] * n
        for _ in range(steps):
            rows.append((om, de, ph))
            win.append(w)
    nsteps = len(rows)
    if backend == "sv":
        kind = rng.choice(["uniform", "nonuniform"])
        dts = [rng.choice([2.0, 5.0, 10.0])] * nsteps if kind == "uniform" else [rng.choice([1.0, 3.0, 7.5, 10.0, 20.0]) for _ in range(nsteps)]
    else:
        kind, dts = "uniform", [10.0] * nsteps
    times = [0.0]
    for d in dts:
        times.append(times[-1] + d)
    if times[-1] != math.floor(times[-1]):
        times[-1] = float(math.floor(times[-1]) + 1)
    spacing = rng.uniform(6.0, 10.0)
    pos = [(i * spacing + rng.uniform(-0.5, 0.5), rng.uniform(-0.5, 0.5)) for i in range(n)]
    U = [[0.0] * n for _ in range(n)]
    for i in range(n):
        for j in range(i + 1, n):
            r = math.dist(pos[i], pos[j])
            U[i][j] = U[j][i] = C6 / r ** 6
    return dict(backend=backend, n=n, nsteps=nsteps, times=times, grid_kind=kind, window=win, local=local,
                omega=[r[0] for r in rows], delta=[r[1] for r in rows], phi=[r[2] for r in rows], U=U,
                kt=rng.choice([1e-8, 1e-10]), precision=rng.choice([1e-5, 1e-6]))


KLASS_E2 = "mps-second-moment-mpo-truncation-assert"


def chain_case(n, spacing, om, de, steps, precision):
    U = [[0.0] * n for _ in range(n)]
    for i in range(n):
        for j in range(i + 1, n):
            U[i][j] = U[j][i] = C6 / (abs(i - j) * spacing) ** 6
    return dict(backend="mps", n=n, nsteps=steps, times=[10.0 * k for k in range(steps + 1)], grid_kind="uniform",
                window=[0] * steps, local=False, omega=[[om] * n] * steps, delta=[[de] * n] * steps,
                phi=[[0.0] * n] * steps, U=U, kt=1e-10, precision=precision)


# Witness of finding D21-C28 (known_findings.d/ideal.json): 12 atoms, 5.5 µm chain, constant global drive,
# default precision — the run aborts inside the EnergySecondMoment callback.
WITNESS_MPS = chain_case(12, 5.5, 7.745, -0.454, 4, 1e-5)


def classify_exc(e):
    """`mps-second-moment-mpo-truncation-assert` iff the exception is the AssertionError raised by
    emu_mps' own `energy_second_moment_mps_impl` (imaginary part of <H@H> above its absolute 1e-4)."""
    import traceback
    tb = traceback.extract_tb(e.__traceback__)
    if isinstance(e, AssertionError) and tb and tb[-1].name == "energy_second_moment_mps_impl":
        return KLASS_E2
    return None


def gen_under_resolved(rng, backend):
    """constant-drive runs whose local exponentials need more Krylov vectors than allowed: emu-mps with a
    reduced `max_krylov_dim` and coarse steps on a strongly interacting chain; emu-sv (fixed max 100) with
    a huge dt·‖H‖. The ONLY acceptable outcomes are RecursionError or conservation within tolerance."""
    if backend == "mps":
        c = chain_case(rng.randint(4, 8), rng.uniform(5.5, 7.0), rng.uniform(6.0, 12.0), rng.uniform(-5.0, 5.0),
                       rng.randint(3, 5), 1e-8)
        dt = rng.choice([20.0, 40.0])
        c["max_krylov_dim"] = rng.choice([4, 6, 8, 10, 10, 15, 30])
    else:
        c = chain_case(rng.randint(7, 9), rng.uniform(5.5, 7.0), rng.uniform(8.0, 12.0), rng.uniform(-5.0, 5.0),
                       rng.randint(2, 3), 1e-5)
        c["backend"] = "sv"
        dt = rng.choice([300.0, 1000.0, 2000.0])
    c["times"] = [dt * k for k in range(c["nsteps"] + 1)]
    c["grid_kind"] = "under-resolved"
    return c


def gen_truncating(rng):
    """emu-mps on an entangling chain with a saturated bond dimension / coarse precision: every two-site
    truncation discards weight, so the raw MPS loses norm during the run. `fill_results` hands the
    observables a *normalised* copy — that is what the first clause of C28 is about for emu-mps."""
    c = chain_case(rng.randint(6, 8), rng.uniform(6.5, 9.0), rng.uniform(6.0, 12.0), rng.uniform(-4.0, 6.0),
                   rng.randint(5, 9), rng.choice([1e-2, 1e-3]))
    dt = rng.choice([10.0, 20.0, 20.0])
    c["times"] = [dt * k for k in range(c["nsteps"] + 1)]
    c["max_bond_dim"] = rng.choice([2, 3, 4])
    c["grid_kind"] = "truncating"
    return c


def mps_to_dense(state):
    """contract the factors (Dl, 2, Dr) left to right; atom 0 is the most significant bit"""
    import torch
    acc = torch.ones(1, 1, dtype=torch.complex128)
    for f in state.factors:
        f = f.to("cpu").to(torch.complex128)
        acc = torch.tensordot(acc, f, dims=([acc.dim() - 1], [0]))
        acc = acc.reshape(-1, f.shape[2])
    return acc.reshape(-1).numpy()


def run_truncating(case):
    from harness import compat
    from pulser.backend import StateResult, Energy, Occupation
    f64 = lambda x: np.array(x, dtype=np.float64)
    T = case["times"][-1]
    ev = [t / T for t in case["times"]]
    obs = [StateResult(evaluation_times=ev), Energy(evaluation_times=ev), Occupation(evaluation_times=ev)]
    data = compat.make_sequence_data(f64(case["omega"]), f64(case["delta"]), f64(case["phi"]), f64(case["U"]), case["times"])
    res = compat.run_mps(data, compat.mps_config(observables=obs, precision=case["precision"], dt=10,
                                                 max_bond_dim=case["max_bond_dim"]))
    return dict(norm=[float(s.norm()) for s in res.state], dense=[mps_to_dense(s) for s in res.state],
                bond=[int(s.get_max_bond_dim()) for s in res.state],
                energy=[float(x) for x in res.energy], occ=[np.array(x, dtype=float) for x in res.occupation])


def oracle_truncating(case, r):
    """(a) the state every observable receives has norm 1 to 1e-10 at every evaluation time (fill_results
    normalises; the discarded weight must not leak into the results); (b) the reported occupation and energy are
    those of that normalised state (dense contraction of the reported MPS, independent dense H)."""
    n = case["n"]
    nops = [np.real(np.diag(ic.embed(ic.NN, q, n))) for q in range(n)]
    worst = 0.0
    for k, (nv, v) in enumerate(zip(r["norm"], r["dense"])):
        dn = abs(nv - 1.0)
        worst = max(worst, dn / 1e-10)
        if not dn <= 1e-10:
            return f"state handed to the observables at index {k} has norm {nv!r} (deviates from 1 by {dn:.3e} > 1e-10)", worst
        d2 = abs(float(np.linalg.norm(v)) - 1.0)
        if not d2 <= 1e-9:
            return f"dense contraction of the reported MPS at index {k} has norm deviating from 1 by {d2:.3e}", worst
        vh = v / np.linalg.norm(v)
        occ = np.array([float(np.sum(nops[q] * np.abs(vh) ** 2)) for q in range(n)])
        eo = float(np.max(np.abs(occ - r["occ"][k])))
        worst = max(worst, eo / 1e-8)
        if not eo <= 1e-8:
            return f"occupation at index {k} differs from that of the normalised reported state by {eo:.3e} > 1e-8", worst
        kk = max(k - 1, 0)
        H = ic.dense_h(case["omega"][kk], case["delta"][kk], case["phi"][kk], case["U"])
        e = float(np.real(np.vdot(vh, H @ vh)))
        tol = 1e-8 * max(1.0, h_bound(case, kk))
        worst = max(worst, abs(e - r["energy"][k]) / tol)
        if not abs(e - r["energy"][k]) <= tol:
            return f"energy at index {k} differs from <H> of the normalised reported state by {abs(e - r['energy'][k]):.3e} > {tol:.3e}", worst
    return None, worst


def gen_t0(rng):
    """energy-type observables AT t = 0 on emu-mps (before any step has run): default |g…g> or a custom random
    product state, 2-8 atoms, per-atom drives"""
    n = rng.randint(2, 8)
    c = chain_case(n, rng.uniform(6.5, 9.0), 1.0, 0.0, 2, rng.choice([1e-5, 1e-6]))
    om = [rng.uniform(2.0, 12.0) for _ in range(n)]
    de = [rng.uniform(-8.0, 8.0) for _ in range(n)]
    c["omega"], c["delta"] = [om, om], [de, de]
    c["grid_kind"] = "t0"
    c["prod"] = None
    if rng.random() < 0.6:
        c["prod"] = [(rng.gauss(0, 1), rng.gauss(0, 1), rng.gauss(0, 1), rng.gauss(0, 1)) for _ in range(n)]   # (re g, im g, re r, im r)
    return c


def run_t0(case):
    import torch
    from harness import compat
    from pulser.backend import Energy, EnergySecondMoment, EnergyVariance
    compat.install()
    from emu_mps import MPS
    f64 = lambda x: np.array(x, dtype=np.float64)
    n = case["n"]
    ev = [0.0, 0.5, 1.0]
    obs = [Energy(evaluation_times=ev), EnergySecondMoment(evaluation_times=ev), EnergyVariance(evaluation_times=ev)]
    kw = {}
    psi = np.zeros(2 ** n, dtype=complex)
    psi[0] = 1.0
    if case.get("prod"):
        locs = []
        for a, b, c_, d in case["prod"]:
            v = np.array([a + 1j * b, c_ + 1j * d])
            locs.append(v / np.linalg.norm(v))
        psi = np.array([1.0 + 0j])
        for v in locs:
            psi = np.kron(psi, v)                       # atom 0 most significant; index 0 = g, 1 = r
        kw["initial_state"] = MPS([torch.tensor(v, dtype=torch.complex128).reshape(1, 2, 1) for v in locs],
                                  num_gpus_to_use=0, eigenstates=("r", "g"))
    data = compat.make_sequence_data(f64(case["omega"]), f64(case["delta"]), f64(case["phi"]), f64(case["U"]), case["times"])
    res = compat.run_mps(data, compat.mps_config(observables=obs, precision=case["precision"], dt=10, **kw))
    H = ic.dense_h(case["omega"][0], case["delta"][0], case["phi"][0], case["U"])
    hp = H @ psi
    e, e2 = float(np.real(np.vdot(psi, hp))), float(np.real(np.vdot(hp, hp)))
    return dict(got=(float(res.energy[0]), float(res.energy_second_moment[0]), float(res.energy_variance[0])),
                want=(e, e2, e2 - e * e))


def oracle_t0(case, r):
    """at t = 0 the reported <H>, <H²>, variance are those of the initial state under the Hamiltonian of the first
    step (what emu-mps builds before the loop). <H²> goes through the truncated H@H product (finding D21-C28: 1e-5
    relative): allowance 2e-4 relative on the second moment and the variance, 1e-8·max(1, ‖H‖ bound) on the energy."""
    hb = h_bound(case, 0)
    (e, e2, var), (we, we2, wvar) = r["got"], r["want"]
    if not abs(e - we) <= 1e-8 * max(1.0, hb):
        return f"energy at t=0 is {e!r}, the initial state under the first step's Hamiltonian has {we!r}"
    if not abs(e2 - we2) <= 2e-4 * max(1.0, we2):
        return f"energy second moment at t=0 is {e2!r}, the initial state under the first step's Hamiltonian has {we2!r}"
    if not abs(var - wvar) <= 2e-4 * max(1.0, we2):
        return f"energy variance at t=0 is {var!r}, the initial state under the first step's Hamiltonian has {wvar!r}"
    return None


def run_noisy_once(case, rate):
    """one emu-mps quantum-jump trajectory with a relaxation channel on the same sequence (its results are not judged:
    it only has to have happened in this process)"""
    import torch
    from harness import compat
    from pulser.backend import Occupation
    f64 = lambda x: np.array(x, dtype=np.float64)
    L = math.sqrt(rate) * torch.tensor([[0.0, 1.0], [0.0, 0.0]], dtype=torch.complex128)
    data = compat.make_sequence_data(f64(case["omega"]), f64(case["delta"]), f64(case["phi"]), f64(case["U"]), case["times"],
                                     lindblad_ops=[L])
    compat.run_mps(data, compat.mps_config(observables=[Occupation(evaluation_times=[1.0])], precision=case["precision"], dt=10))


def history_leg(rep: Report, rng, tier: str) -> None:
    """process history: noiseless run -> noisy run (one trajectory, relaxation) -> the same noiseless run again, all in
    this process. The second noiseless run must reproduce the first (it is the same deterministic computation) and
    satisfy the conservation oracle: nothing a noisy run does may leak into later noiseless runs."""
    for _ in range(3 if tier == "quick" else 40):
        case = gen(rng, "mps")
        while case["n"] > 7:
            case = gen(rng, "mps")
        rep.case(key=("history", case["n"], case["omega"][0][0]), nontrivial=True)
        try:
            r1 = run_case(case)
            run_noisy_once(case, rng.choice([0.5, 2.0]))
            r2 = run_case(case)
        except Exception as e:
            import traceback
            k = classify_exc(e)
            where = traceback.extract_tb(e.__traceback__)[-1].name
            rep.fail(f"[mps, noiseless run / noisy run / same noiseless run in one process] real back-end raised "
                     f"{type(e).__name__} in {where}: {e}", ic.ser_case(case, stream="history"), klass=k)
            continue
        rep.count("history_triples")
        msg = history_compare(case, r1, r2)
        if msg:
            rep.fail("[mps, noiseless run after a noisy run in the same process] " + msg, ic.ser_case(case, stream="history"))


def history_compare(case, r1, r2):
    for name in ("norm", "energy", "e2"):
        for k, (a, b) in enumerate(zip(r1[name], r2[name])):
            if not abs(a - b) <= 1e-10 * max(1.0, abs(a)):
                return (f"{name} at index {k} is {b!r} in the second noiseless run, {a!r} in the first — the run in between "
                        f"changed what a noiseless run computes")
    return oracle(case, r2)[0]


class CutoffTape:
    """wraps emu_mps.utils._determine_cutoff_index for the duration of a run (real call, arguments and answer
    recorded): every two-site truncation may discard at most precision² of squared weight — "normalised to
    within the backend's precision" at the place where the norm is actually lost."""

    def __init__(self):
        self.worst = 0.0            # max discarded / max_error²
        self.count = 0
        self.maxlen = 0
        self.bad = None

    def __enter__(self):
        from harness import compat
        compat.install()
        import emu_mps.utils as mu
        self.mu, self.real = mu, mu._determine_cutoff_index

        def rec(d, max_error):
            i = self.real(d, max_error)
            disc = float(d[:i].sum()) if i > 0 else 0.0
            self.count += 1
            self.maxlen = max(self.maxlen, int(d.shape[0]))
            ratio = disc / (max_error * max_error)
            if ratio > self.worst:
                self.worst = ratio
                if ratio > 1.0 + 1e-9:
                    self.bad = dict(eigenvalues=int(d.shape[0]), cut=int(i), discarded=disc, max_error=float(max_error))
            return i
        mu._determine_cutoff_index = rec
        return self

    def __exit__(self, *a):
        self.mu._determine_cutoff_index = self.real
        return False


def check_tape(rep, case, tape, stream=None):
    rep.extra["cutoff_tape_truncations"] = rep.extra.get("cutoff_tape_truncations", 0) + tape.count
    rep.extra["cutoff_tape_max_eigenvalues"] = max(rep.extra.get("cutoff_tape_max_eigenvalues", 0), tape.maxlen)
    rep.extra["cutoff_tape_worst_discarded_over_precision2"] = round(
        max(rep.extra.get("cutoff_tape_worst_discarded_over_precision2", 0.0), tape.worst), 6)
    if tape.bad is not None:
        b = tape.bad
        extra = dict(stream=stream) if stream else {}
        rep.fail(f"[mps] a truncation of {b['eigenvalues']} eigenvalues discarded squared weight {b['discarded']:.3e} > "
                 f"precision^2 = {b['max_error'] ** 2:.3e} (cut index {b['cut']}): the state is not kept normalised to within "
                 f"the backend's precision", ic.ser_case(case, **extra))


def gen_bond16(rng):
    """10-12 atom constant-drive emu-mps runs long enough for the bond dimension to exceed 16 (more than 32
    eigenvalues per truncation), default precision"""
    c = chain_case(rng.randint(10, 12), rng.uniform(6.5, 8.0), rng.uniform(10.0, 12.0), rng.uniform(3.0, 8.0),
                   rng.randint(12, 16), 1e-5)
    dt = rng.choice([20.0, 25.0])
    c["times"] = [dt * k for k in range(c["nsteps"] + 1)]
    c["grid_kind"] = "bond16"
    return c


def run_case(case):
    from harness import compat
    from pulser.backend import StateResult, Energy, EnergySecondMoment
    f64 = lambda x: np.array(x, dtype=np.float64)
    T = case["times"][-1]
    ev = [t / T for t in case["times"]]
    obs = [StateResult(evaluation_times=ev), Energy(evaluation_times=ev), EnergySecondMoment(evaluation_times=ev)]
    data = compat.make_sequence_data(f64(case["omega"]), f64(case["delta"]), f64(case["phi"]), f64(case["U"]), case["times"])
    if case["backend"] == "sv":
        res = compat.run_sv(data, compat.sv_config(observables=obs, krylov_tolerance=case["kt"]))
        norms = [float(s.data.norm()) for s in res.state]
    else:
        mk = {"max_krylov_dim": case["max_krylov_dim"]} if case.get("max_krylov_dim") else {}
        res = compat.run_mps(data, compat.mps_config(observables=obs, precision=case["precision"], dt=10, **mk))
        norms = [float(s.norm()) for s in res.state]
    return dict(norm=norms, energy=[float(x) for x in res.energy], e2=[float(x) for x in res.energy_second_moment])


def h_bound(case, k):
    """upper bound on ‖H_k‖: Σ|Ω|/2 + Σ|δ| + Σ_{i<j} U_ij"""
    n = case["n"]
    return (sum(abs(x) for x in case["omega"][k]) / 2 + sum(abs(x) for x in case["delta"][k])
            + sum(case["U"][i][j] for i in range(n) for j in range(i + 1, n)))


def oracle(case, r):
    """C28 on one real run. Per-step state error budget ε₁: emu-sv 10·krylov_tolerance (C07 contract);
    emu-mps 2(n−1) truncations per TDVP sweep, each discarding at most `precision` in norm. After m steps
    of a window ε = m·ε₁ + 1e-10; then |Δnorm| ≤ ε (from the start of the run: k·ε₁),
    |Δ<H>| ≤ 2·sqrt(<H²>)·ε + ‖H‖ε², |Δ<H²>| ≤ 2·‖H‖·sqrt(<H²>)·ε + ‖H‖²ε², with ‖H‖ ≤ Σ|Ω|/2+Σ|δ|+ΣU,
    plus a relative rounding allowance of 1e-9 on the reported numbers."""
    n = case["n"]
    e1 = 10.0 * case["kt"] if case["backend"] == "sv" else 2 * (n - 1) * case["precision"]
    worst = 0.0
    for k, nv in enumerate(r["norm"]):
        # emu-sv: Krylov budget per step; emu-mps: fill_results hands out a normalised copy → 1e-10 flat
        allowed = (k * e1 + 1e-10) if case["backend"] == "sv" else 1e-10
        worst = max(worst, abs(nv - 1.0) / allowed)
        if not abs(nv - 1.0) <= allowed:
            return f"norm at index {k} deviates from 1 by {abs(nv - 1.0):.3e} > {allowed:.3e}", worst
    win = case["window"]
    for w in sorted(set(win)):
        steps = [k for k in range(case["nsteps"]) if win[k] == w]
        a = steps[0]
        # indices a+1 .. b are reported with the window's Hamiltonian (the step that ended there)
        idx = [k + 1 for k in steps]
        hb = h_bound(case, a)
        e_ref, e2_ref = r["energy"][idx[0]], r["e2"][idx[0]]
        for m, j in enumerate(idx[1:], start=1):
            eps = m * e1 + 1e-10
            s2 = math.sqrt(max(e2_ref, r["e2"][j], 0.0))
            tol_e = 2 * s2 * eps + hb * eps * eps + 1e-9 * max(1.0, abs(e_ref), s2)
            tol_e2 = 2 * hb * s2 * eps + hb * hb * eps * eps + 1e-9 * max(1.0, abs(e2_ref))
            de, de2 = abs(r["energy"][j] - e_ref), abs(r["e2"][j] - e2_ref)
            worst = max(worst, de / tol_e, de2 / tol_e2)
            if not de <= tol_e:
                return (f"energy drifts by {de:.3e} > {tol_e:.3e} inside window {w} (indices {idx[0]}..{j}) although the "
                        f"Hamiltonian does not change"), worst
            if not de2 <= tol_e2:
                return (f"energy second moment drifts by {de2:.3e} > {tol_e2:.3e} inside window {w} (indices {idx[0]}..{j}) "
                        f"although the Hamiltonian does not change"), worst
    return None, worst


def schedule_tie(rep: Report, rng, k: int):
    """a few recorded runs against Model.SvLoop (the model the window theorem quantifies over)"""
    from harness.props import c01
    cases, outs, due = [], [], []
    for _ in range(k):
        c = c01.gen(rng, 4, 5)
        try:
            o = c01.run_case(c)
        except Exception as e:  # the real code misbehaving is a finding candidate, not a harness error
            rep.fail(f"real SVBackendImpl raised {type(e).__name__}: {e}", ic.ser_case(c))
            continue
        cases.append(c)
        outs.append(o)
        due.append(c["obs0"])
        rep.case(key=("tie", tuple(c["times"]), c["slm_end"]), nontrivial=c["nsteps"] >= 2)
    ic.compare_schedule(rep, "c28", cases, outs, due)


def check(rep: Report, tier: str, seed: int) -> None:
    rep.rule = ("cases = piecewise-constant SequenceData (1-3 windows of 2-4 steps with identical drive rows; global or "
                "per-atom drives with Omega >= 1 rad/us; chain register with van-der-Waals U; uniform and non-uniform step "
                "lengths) on emu-sv (2-10 atoms, krylov_tolerance 1e-8/1e-10) and emu-mps (2-12 atoms, precision 1e-5/1e-6, "
                "dt = 10 ns); plus an under-resolved stream (emu-mps max_krylov_dim 4-30 with 20/40 ns steps on a 5.5-7 um chain, "
                "emu-sv 7-9 atoms with 0.3-2 us steps) where the only acceptable outcomes are RecursionError or conservation; "
                "plus a truncating emu-mps stream (6-8 atom entangling chains, max_bond_dim 2-4, precision 1e-2/1e-3) where the "
                "state every observable receives must have norm 1 to 1e-10 and occupation/energy must be those of that state; "
                "plus 10-12 atom runs whose bond dimension exceeds 16; plus a t=0 leg (emu-mps Energy / EnergySecondMoment / "
                "EnergyVariance evaluated at t=0 on the default and on custom product initial states vs dense); plus a process-history "
                "leg (noiseless run, one noisy trajectory, the same noiseless run again in one process: identical and conserving). Every emu-mps run is executed under a tape on "
                "_determine_cutoff_index: each truncation may discard at most precision^2 of squared weight. "
                "non-trivial = window of >= 3 steps or >= 2 windows")
    rep.assumptions = [
        "emu-sv Krylov step within 10*krylov_tolerance (C07) — assumed in FullClaim, validated by the drift oracle",
        "emu-mps TDVP: energy conservation of the projected dynamics is NOT proved; norm/energy/second-moment drift is "
        "validated against precision x 2(n-1) truncations per sweep x steps",
        "C06 / C13: operator and observables are the dense H, <H>, <H^2> (checked by their own properties)",
        "drives are kept at Omega >= 1 rad/us: the weak-drive regime of finding D20-C01 (Krylov early acceptance) is C01's/C07's",
    ]
    lean_stage(rep, PROP_MODULE, AUDIT, thorough=(tier == "thorough"))
    rng = seeded(seed * 7919 + 128)
    import torch
    torch.manual_seed(seed)
    plan = [("sv", 36), ("mps", 10)] if tier == "quick" else [("sv", 800), ("mps", 150)]
    worst = {"sv": 0.0, "mps": 0.0}
    for backend, count in plan:
        for _ in range(count):
            case = gen(rng, backend)
            tape = CutoffTape()
            try:
                with tape:
                    r = run_case(case)
                if backend == "mps":
                    check_tape(rep, case, tape)
            except Exception as e:
                k = classify_exc(e)
                rep.hist("exception_class", k)
                rep.fail(f"real {backend} back-end raised {type(e).__name__}: {e}", ic.ser_case(case), klass=k)
                continue
            rep.hist("backend", backend)
            rep.hist(f"atoms_{backend}", case["n"])
            rep.hist("windows", len(set(case["window"])))
            nontriv = len(set(case["window"])) >= 2 or case["nsteps"] >= 3
            rep.case(key=(backend, case["n"], tuple(case["times"]), case["omega"][0][0]), nontrivial=nontriv,
                     sample={"backend": backend, "n": case["n"], "times": case["times"], "window": case["window"],
                             "energy": r["energy"][:6]})
            msg, w = oracle(case, r)
            worst[backend] = max(worst[backend], w)
            if msg:
                rep.fail(f"[{backend}] " + msg, ic.ser_case(case, result=r))
    # under-resolved stream: refuse (RecursionError) or conserve — never a silently non-unitary step
    for backend, count in ([("mps", 10), ("sv", 6)] if tier == "quick" else [("mps", 150), ("sv", 60)]):
        for _ in range(count):
            case = gen_under_resolved(rng, backend)
            rep.case(key=("under", backend, case["n"], case["times"][1], case.get("max_krylov_dim"), case["omega"][0][0]),
                     nontrivial=True)
            try:
                r = run_case(case)
            except RecursionError:
                rep.hist(f"under_resolved_{backend}", "refused:RecursionError")
                continue
            except Exception as e:
                k = classify_exc(e)
                rep.hist("exception_class", k)
                rep.fail(f"real {backend} back-end raised {type(e).__name__}: {e}", ic.ser_case(case), klass=k)
                continue
            rep.hist(f"under_resolved_{backend}", "completed")
            msg, w = oracle(case, r)
            worst[backend] = max(worst[backend], w)
            if msg:
                rep.fail(f"[{backend}, under-resolved Krylov space, run was not refused] " + msg, ic.ser_case(case, result=r))
    # bond > 16 stream (emu-mps, 10-12 atoms): drift oracles + the cutoff tape on truncations of > 32 eigenvalues
    for _ in range(2 if tier == "quick" else 30):
        case = gen_bond16(rng)
        rep.case(key=("bond16", case["n"], case["times"][1], case["omega"][0][0]), nontrivial=True)
        tape = CutoffTape()
        try:
            with tape:
                r = run_case(case)
        except Exception as e:
            k = classify_exc(e)
            rep.hist("exception_class", k)
            rep.fail(f"real mps back-end raised {type(e).__name__}: {e}", ic.ser_case(case), klass=k)
            continue
        rep.hist("bond16_more_than_32_eigenvalues", tape.maxlen > 32)
        check_tape(rep, case, tape)
        msg, w = oracle(case, r)
        worst["mps"] = max(worst["mps"], w)
        if msg:
            rep.fail("[mps, bond > 16] " + msg, ic.ser_case(case, result=r))
    # t = 0 leg (emu-mps): energy, second moment and variance of the initial state, default and custom
    for _ in range(8 if tier == "quick" else 150):
        case = gen_t0(rng)
        rep.case(key=("t0", case["n"], case["omega"][0][0], case["prod"] is not None), nontrivial=True)
        rep.hist("t0_initial_state", "custom product" if case["prod"] else "default")
        try:
            r = run_t0(case)
        except Exception as e:
            k = classify_exc(e)
            rep.fail(f"real mps back-end raised {type(e).__name__}: {e}", ic.ser_case(case, stream="t0"), klass=k)
            continue
        msg = oracle_t0(case, r)
        if msg:
            rep.fail("[mps, t=0] " + msg, ic.ser_case(case, stream="t0"))
    # truncating stream (emu-mps, saturated bond dimension / coarse precision): normalised state + consistency
    worst["mps_truncating"] = 0.0
    lost = 0
    for _ in range(8 if tier == "quick" else 150):
        case = gen_truncating(rng)
        rep.case(key=("trunc", case["n"], case["max_bond_dim"], case["precision"], case["omega"][0][0]), nontrivial=True)
        tape = CutoffTape()
        try:
            with tape:
                r = run_truncating(case)
            check_tape(rep, case, tape, stream="truncating")
        except Exception as e:
            k = classify_exc(e)
            rep.fail(f"real mps back-end raised {type(e).__name__}: {e}", ic.ser_case(case, stream="truncating"), klass=k)
            continue
        rep.hist("truncating_max_bond_reached", max(r["bond"]) >= case["max_bond_dim"])
        msg, w = oracle_truncating(case, r)
        worst["mps_truncating"] = max(worst["mps_truncating"], w)
        if msg:
            rep.fail("[mps, truncating run] " + msg, ic.ser_case(case, stream="truncating"))
    rep.extra["oracle_worst_over_allowed"] = {k: round(v, 5) for k, v in worst.items()}
    history_leg(rep, rng, tier)
    # replay of the recorded witness of the known finding on the real code (DESIGN §2.4)
    try:
        run_case(dict(WITNESS_MPS))
        rep.extra["witness_D21_C28"] = "no longer fails (fixed?)"
    except Exception as e:
        rep.extra["witness_D21_C28"] = f"{type(e).__name__} in {classify_exc(e) or 'unclassified'}"
        rep.fail(f"real mps back-end raised {type(e).__name__}: {e}", ic.ser_case(WITNESS_MPS), klass=classify_exc(e))
    schedule_tie(rep, rng, 6 if tier == "quick" else 200)
    if rep.broken and not rep.unknown_failing():
        search(rep, seed, 60 if tier == "quick" else 600)


def search(rep: Report, seed: int, n: int) -> None:
    """Failing-input search on the real code: long single windows with strong drives on both back-ends."""
    rng = seeded(seed * 104729 + 28)
    for i in range(n):
        backend = "sv" if i % 4 else "mps"
        case = gen(rng, backend)
        case["window"] = [0] * case["nsteps"]
        for key in ("omega", "delta", "phi"):
            case[key] = [case[key][0]] * case["nsteps"]
        try:
            r = run_case(case)
        except Exception as e:
            rep.fail(f"real {backend} back-end raised {type(e).__name__}: {e}", ic.ser_case(case))
            return
        msg, _ = oracle(case, r)
        if msg:
            rep.fail(f"[{backend}] " + msg, ic.ser_case(case, result=r))
            return
    rep.extra["search_cases"] = n


def replay(rep: Report, path: str) -> int:
    data = json.load(open(path))
    bad = 0
    for f in data.get("failing_inputs", []):
        case = f["data"]
        try:
            tape = CutoffTape()
            with tape:
                if case.get("stream") == "history":
                    r1 = run_case(case)
                    run_noisy_once(case, 2.0)
                    msg = history_compare(case, r1, run_case(case))
                elif case.get("stream") == "t0":
                    msg = oracle_t0(case, run_t0(case))
                elif case.get("stream") == "truncating":
                    msg = oracle_truncating(case, run_truncating(case))[0]
                else:
                    msg = oracle(case, run_case(case))[0]
            if not msg and tape.bad is not None:
                msg = f"a truncation discarded {tape.bad['discarded']:.3e} > precision^2 = {tape.bad['max_error'] ** 2:.3e}"
        except RecursionError:
            msg = None      # refusing an under-resolved step is an acceptable outcome
        except Exception as e:
            msg = f"raised {type(e).__name__}: {e}"
        print("replay:", msg or "property holds on this input now")
        bad += bool(msg)
    return 1 if bad else 0
