"""C29 — physically equivalent inputs give equivalent results. PARTIAL.

Lean: EmuVerif.Props.C29 (phase offset = conjugation by a diagonal unitary that fixes |g..g> and commutes with every n_i;
polynomial propagators; phase negation = complex conjugation = time reversal, NOT an invariance; H depends on the
register only through U). Oracle on the real code (always on): Hamiltonian-level identities on RydbergHamiltonian,
end-to-end runs of emu-sv and emu-mps on hand-built SequenceData with phases phi, phi+theta (equal results), -phi
(equal only when the phase is constant; otherwise compared with an independent expm reference), and metamorphic runs
through real Pulser sequences: rotated / translated / reflected registers, serialise + deserialise.
"""
from __future__ import annotations

import json
import math

from harness.common import Report, lean_stage, seeded
from harness.props.extra_stage import ExtraLeanStage

REGISTRY = dict(
    text=("PARTIAL. Lean 4 theorems for every qubit number, all parameters and vectors: adding a common offset theta to all "
          "phases is conjugation of the emu-sv Hamiltonian by V = tensor of diag(1, e^{i theta}) (H(phi+theta) = V H(phi) V^dag, "
          "trig addition as an abstract rotation with c^2+s^2=1); V commutes with every n_k, fixes |g..g>, preserves all "
          "|psi_s|^2 and inner products; every polynomial in H is conjugated likewise, hence for any sequence of polynomial "
          "(Taylor/Krylov) propagator steps from |g..g> all basis-state probabilities - occupations, correlations, bitstring "
          "weights - and energies are unchanged by the offset; negating all phases is entry-wise complex conjugation of H (real "
          "drives) and maps p(H) to the conjugate-coefficient polynomial, i.e. to backward evolution: the property's clause "
          "'negating all phases leaves results unchanged' is FALSE in general (kernel-checked instance; on the real back-ends "
          "occupations differ by O(1) for detuned drives with time-varying phase while both agree with an independent expm "
          "reference) - it holds when the phase is constant, which is checked; H depends on the register only through the "
          "interaction matrix. Props/C29Exp.lean (audited on every run) adds the IDEAL propagator for complex matrices of any "
          "size: exp_smul_conj (V W = 1 => exp(c V H W) = V exp(c H) W), run_conj / probabilities_invariant / energy_invariant "
          "(any list of steps (H_k, t_k) conjugated by one diagonal unitary fixing psi_0 up to a phase: all |psi_s|^2 and energies "
          "of exp(-i t_k H_k)-evolution unchanged), propagator_entrywise_conj / negation_is_time_reversal (exp(-it conj H) = "
          "conj exp(+itH): negation = time reversal), negation_invariant_of_real_up_to_diagonal (sufficient condition: H_k real "
          "up to one diagonal unitary, i.e. constant phase), exp_smul_of_mul_self_eq_one and negation_not_an_invariance (exactly "
          "evaluated Hermitian 2x2 two-step instance: ground-state weight 4385/15625 vs 13985/15625). Props/C29ExpLink.lean "
          "(audited on every run) bridges the two: C is a LawfulCx scalar, tree vectors over C are functions on a 2^n-element "
          "index type, hamMatrix_shift transports phase_offset_is_conjugation to dense matrices (H(phi+theta) = D H(phi) D^dag), "
          "hence ideal_results_invariant_under_phase_offset / ideal_energy_invariant_under_phase_offset (the modelled emu-sv "
          "Hamiltonian, any qubit number, any steps: all |psi_s|^2 and energies of prod_k exp(-i t_k H_k)|g..g> are unchanged by "
          "a common offset) and hamMatrix_neg / ideal_negation_is_time_reversal. Not proved: register "
          "isometries and (de)serialisation "
          "(Pulser's computation: metamorphic checks through real pulser Registers/Sequences), emu-mps (validated end to end)."),
    note=("Trusted: Lean kernel + propext/Classical.choice/Quot.sound; Mathlib; Model.SvOps tied to the code by C06's "
          "correspondence; end-to-end equalities are differential tests with stated tolerances (1e-8 emu-sv, 2e-3 emu-mps at "
          "precision 1e-10; clean-tree spread 2e-15 / 5.6e-5), labelled as such."),
    technique="Lean 4 proof (conjugation by a diagonal unitary, induction on the qubit tree) + metamorphic oracle on both back-ends",
    design_ref="DESIGN.md §5 C29",
)

PROP_MODULE = "EmuVerif.Props.C29"
AUDIT = "Audit/C29.lean"
# ideal propagator exp(-itH): Props/C29Exp.lean (abstract matrices) and Props/C29ExpLink.lean (its instantiation at the modelled
# emu-sv Hamiltonian; imports C29Exp). One stage on every run: building the bridge builds both, the forbidden-token grep follows the
# import closure, and Audit/C29ExpLink.lean lists the theorems of BOTH modules (one Mathlib load; Audit/C29Exp.lean = C29Exp alone).
EXTRA_STAGES = [("EmuVerif.Props.C29ExpLink", "Audit/C29ExpLink.lean")]
TOL_H = 1e-12
# calibrated on the clean tree (72 cases x 3 comparisons, float64 drives): emu-sv pairs differ by <= 2e-15, emu-sv vs expm <= 3e-8,
# emu-mps pairs (precision 1e-10) by <= 5.6e-5, emu-mps vs expm <= 3e-5. (An earlier floor of 1.6e-7 for emu-sv was the float32
# rounding of Python lists in compat.make_sequence_data, not the back-end.)
TOL_SV = 1e-8
TOL_SV_REF = 1e-6
TOL_MPS = 2e-3


def _imports():
    import numpy as np
    import torch
    from harness import compat
    compat.install()
    from harness import treevec_io as tio
    return np, torch, tio, compat


# ------------------------------------------------------------------ Hamiltonian level, real RydbergHamiltonian
def ham_level(rep: Report, rng, count: int) -> None:
    np, torch, tio, compat = _imports()
    from harness.props import c06
    worst = 0.0
    for i in range(count):
        n = rng.randint(1, 8)
        P = dict(n=n, om=[complex(rng.uniform(0, 12), 0) for _ in range(n)], de=[complex(rng.uniform(-20, 20), 0) for _ in range(n)],
                 U=[[0.0] * n for _ in range(n)], table={},
                 phis=(c06.pi_phases(rng, n) if i % 6 == 0 else c06.half_pi_phases(rng, n) if i % 6 == 3 else [rng.choice([0.0, rng.uniform(-3, 3), rng.uniform(-3, 3)]) for _ in range(n)]))
        for a in range(n):
            for b in range(a + 1, n):
                P["U"][a][b] = P["U"][b][a] = rng.uniform(0, 30)
        th = rng.uniform(-3, 3)
        v = torch.tensor([complex(rng.gauss(0, 1), rng.gauss(0, 1)) for _ in range(2 ** n)], dtype=tio.C128)
        # V = tensor diag(1, e^{i theta}): entry s gets e^{i theta popcount(s)}
        pc = torch.tensor([bin(s).count("1") for s in range(2 ** n)], dtype=torch.float64)
        V = torch.exp(1j * th * pc)
        H = c06.build_h(P)
        Hs = c06.build_h(dict(P, phis=[p + th for p in P["phis"]]))
        Hn = c06.build_h(dict(P, phis=[-p for p in P["phis"]]))
        scale = float((H * v).abs().max()) + 1.0
        e1 = float(((Hs * v) - V * (H * (V.conj() * v))).abs().max()) / scale
        e2 = float(((Hn * v) - (H * v.conj()).conj()).abs().max()) / scale
        worst = max(worst, e1, e2)
        rep.case(key=("ham", i), nontrivial=True, trace=False)
        d = dict(kind="ham", n=n, om=[z.real for z in P["om"]], de=[z.real for z in P["de"]], U=P["U"], phis=P["phis"], theta=th,
                 vec=[[z.real, z.imag] for z in v.tolist()])
        if e1 > TOL_H:
            rep.fail(f"RydbergHamiltonian: H(phi+theta) v differs from V H(phi) V^dag v by {e1:.3e} (rel) > {TOL_H:.0e}", d)
        if e2 > TOL_H:
            rep.fail(f"RydbergHamiltonian: H(-phi) v differs from conj(H(phi) conj v) by {e2:.3e} (rel) > {TOL_H:.0e}", d)
    rep.extra["ham_level_max_rel_err"] = worst


# ------------------------------------------------------------------ end to end
def gen_seq(rng, n, steps, pi_mode=None):
    om = [[rng.uniform(2, 12) * rng.choice([1.0, 1.0, 0.0]) for _ in range(n)] for _ in range(steps)]
    de = [[rng.uniform(-12, 12) for _ in range(n)] for _ in range(steps)]
    ph = [[rng.choice([0.0, rng.uniform(-3, 3), rng.uniform(-3, 3)]) for _ in range(n)] for _ in range(steps)]   # exact zeros: real path
    if rng.random() < 0.5:                      # a global, time-dependent phase (what a Pulser global channel gives)
        ph = [[row[0]] * n for row in ph]
    if pi_mode == "echo":                       # echo-type schedule: every phase is 0 or pi, alternating in time
        first = rng.choice([0.0, math.pi])
        ph = [[(first if t % 2 == 0 else math.pi - first)] * n for t in range(steps)]
    elif pi_mode == "atoms":                    # per-atom multiples of pi, e.g. [pi, 0, pi], constant or changing between steps
        from harness.props import c06
        gen = c06.pi_phases if rng.random() < 0.5 else c06.half_pi_phases       # multiples of pi, or of pi/2 (purely sigma-y drive)
        ph = [gen(rng, n) for _ in range(steps)]
        if rng.random() < 0.5:
            ph = [ph[0][:] for _ in range(steps)]
    U = [[0.0] * n for _ in range(n)]
    for a in range(n):
        for b in range(a + 1, n):
            U[a][b] = U[b][a] = rng.uniform(0, 15)
    return dict(n=n, steps=steps, om=om, de=de, ph=ph, U=U, dt=rng.choice([10.0, 20.0]))


JUMPS = {  # jump operators that are covariant under V = tensor diag(1, e^{i theta}) (V L V^dag = phase * L): the gauge symmetry survives
    "relaxation": lambda g: [[0.0, math.sqrt(g)], [0.0, 0.0]],          # sqrt(g) |g><r|
    "dephasing": lambda g: [[math.sqrt(g / 2), 0.0], [0.0, -math.sqrt(g / 2)]],
    "n-dephasing": lambda g: [[0.0, 0.0], [0.0, math.sqrt(g)]],
    "pumping": lambda g: [[0.0, 0.0], [math.sqrt(g), 0.0]],            # sqrt(g) |r><g|
}


def run(backend, case, ph):
    """occupation, correlation matrix, energy at the final time (`case["jumps"]`: Lindblad noise -> density-matrix path of emu-sv)"""
    np, torch, tio, compat = _imports()
    import pulser.backend as pb
    tt = [case["dt"] * k for k in range(case["steps"] + 1)]
    # float64 tensors: `torch.as_tensor` of a Python list is float32, which would round pi to 3.14159274 (sin = -8.7e-8)
    f64 = lambda x: torch.tensor(x, dtype=torch.float64)
    lind = [torch.tensor(JUMPS[name](g), dtype=torch.complex128) for name, g in case.get("jumps", [])]
    data = compat.make_sequence_data(f64(case["om"]), f64(case["de"]), f64(ph), f64(case["U"]), tt, lindblad_ops=lind)
    ev = [1.0]
    obs = [pb.Occupation(evaluation_times=ev), pb.CorrelationMatrix(evaluation_times=ev), pb.Energy(evaluation_times=ev)]
    if backend == "sv":
        r = compat.run_sv(data, compat.sv_config(observables=obs, dt=int(case["dt"]), krylov_tolerance=1e-13))
    else:
        r = compat.run_mps(data, compat.mps_config(observables=obs, dt=int(case["dt"]), precision=1e-10,
                                                   optimize_qubit_ordering=False))
    occ = np.asarray(torch.as_tensor(r.get_result("occupation", 1.0)).tolist())
    cor = np.asarray(torch.as_tensor(r.get_result("correlation_matrix", 1.0)).tolist())
    return occ, cor, float(r.get_result("energy", 1.0))


def reference(case, ph):
    """independent dense reference: product of scipy expm(-i H_t dt) from |g..g>; times in ns, drives in rad/us"""
    np, torch, tio, compat = _imports()
    import scipy.linalg as sl
    n = case["n"]
    psi = np.zeros(2 ** n, dtype=complex)
    psi[0] = 1.0
    Hn = None
    for t in range(case["steps"]):
        Hn = tio.np_dense_h(case["om"][t], case["de"][t], [math.cos(p) for p in ph[t]], [math.sin(p) for p in ph[t]], case["U"], n)
        psi = sl.expm(-1j * Hn * case["dt"] * 1e-3) @ psi
    nk = [tio.np_embed(n, k, tio.NOP) for k in range(n)]
    occ = np.array([np.vdot(psi, nk[k] @ psi).real for k in range(n)])
    cor = np.array([[np.vdot(psi, nk[a] @ (nk[b] @ psi)).real for b in range(n)] for a in range(n)])
    return occ, cor, float(np.vdot(psi, Hn @ psi).real)


def dist(a, b):
    import numpy as np
    return max(float(np.abs(a[0] - b[0]).max()), float(np.abs(a[1] - b[1]).max()), abs(a[2] - b[2]) / (1.0 + abs(b[2])))


def e2e(rep: Report, rng, count: int, with_mps: bool) -> None:
    worst = {"sv": 0.0, "mps": 0.0, "ref": 0.0}
    demo = 0.0
    for i in range(count):
        backend = "mps" if (with_mps and i % 3 == 2) else "sv"
        n = rng.randint(2, 5) if backend == "mps" else rng.randint(1, 6)
        case = gen_seq(rng, n, rng.randint(2, 6), pi_mode=[None, "echo", "atoms"][i % 3] if i % 2 == 0 or backend == "sv" else None)
        tol = TOL_SV if backend == "sv" else TOL_MPS
        th = rng.uniform(-3, 3)
        rep.case(key=("e2e", backend, i), nontrivial=True, trace=False)
        rep.hist("e2e_backend", backend)
        try:
            base = run(backend, case, case["ph"])
            shifted = run(backend, case, [[p + th for p in row] for row in case["ph"]])
            d = dist(shifted, base)
            worst[backend] = max(worst[backend], d)
            if d > tol:
                rep.fail(f"emu-{backend}: results change by {d:.3e} > {tol:.0e} when {th:+.3f} is added to all phases",
                         dict(kind="offset", backend=backend, theta=th, **case))
            # constant phase: negation is the offset -2 phi, results must agree
            c0 = rng.uniform(-3, 3)
            const = [[c0] * n for _ in range(case["steps"])]
            d = dist(run(backend, case, [[-c0] * n for _ in range(case["steps"])]), run(backend, case, const))
            worst[backend] = max(worst[backend], d)
            if d > tol:
                rep.fail(f"emu-{backend}: results change by {d:.3e} > {tol:.0e} when a constant phase {c0:+.3f} is negated",
                         dict(kind="neg-const", backend=backend, phi0=c0, **case))
            # time-varying phase: negation is time reversal — compare with the independent reference instead
            neg = [[-p for p in row] for row in case["ph"]]
            got = run(backend, case, neg)
            d = dist(got, reference(case, neg))
            worst["ref"] = max(worst["ref"], d)
            rtol = TOL_SV_REF if backend == "sv" else 10 * tol
            if d > rtol:
                rep.fail(f"emu-{backend}: run with negated phases differs from the expm reference by {d:.3e} > {rtol:.0e}",
                         dict(kind="neg-ref", backend=backend, **case))
            demo = max(demo, dist(got, base))
        except Exception as e:
            rep.fail(f"emu-{backend} run raised {type(e).__name__}: {e}", dict(kind="raise", backend=backend, **case), klass=None)
    rep.extra["e2e_offset_max_diff"] = {k: max(v, rep.extra.get("e2e_offset_max_diff", {}).get(k, 0.0)) for k, v in worst.items()}
    rep.extra["negation_changes_results_by_up_to"] = max(demo, rep.extra.get("negation_changes_results_by_up_to", 0.0))


def e2e_noisy(rep: Report, rng, count: int) -> None:
    """the same metamorphic pairs on the noisy (density-matrix) path of emu-sv: jump operators from a small gauge-covariant set,
    base phases with exact zeros next to non-zero ones"""
    worst = 0.0
    for i in range(count):
        n = rng.randint(2, 3)
        case = gen_seq(rng, n, rng.randint(2, 4), pi_mode=[None, None, "atoms"][i % 3])
        if i % 3 != 2:                                   # exact zeros mixed with non-zero phases on different atoms
            for row in case["ph"]:
                k = rng.randrange(n)
                row[k] = 0.0
                row[(k + 1) % n] = rng.uniform(0.3, 3.0)
        case["jumps"] = [(name, rng.uniform(0.05, 0.6)) for name in rng.sample(sorted(JUMPS), rng.randint(1, 3))]
        th = rng.uniform(-3, 3)
        rep.case(key=("e2e-noisy", i), nontrivial=True, trace=False)
        rep.hist("e2e_backend", "sv-lindblad")
        try:
            base = run("sv", case, case["ph"])
            d = dist(run("sv", case, [[p + th for p in row] for row in case["ph"]]), base)
            worst = max(worst, d)
            if d > TOL_SV:
                rep.fail(f"emu-sv with Lindblad noise {[j for j, _ in case['jumps']]}: results change by {d:.3e} > {TOL_SV:.0e} when "
                         f"{th:+.3f} is added to all phases", dict(kind="offset", backend="sv", theta=th, **case))
            c0 = rng.uniform(-3, 3)
            d = dist(run("sv", case, [[-c0] * n for _ in range(case["steps"])]), run("sv", case, [[c0] * n for _ in range(case["steps"])]))
            worst = max(worst, d)
            if d > TOL_SV:
                rep.fail(f"emu-sv with Lindblad noise: results change by {d:.3e} > {TOL_SV:.0e} when a constant phase {c0:+.3f} is negated",
                         dict(kind="neg-const", backend="sv", phi0=c0, **case))
        except Exception as e:
            rep.fail(f"noisy emu-sv run raised {type(e).__name__}: {e}", dict(kind="raise", backend="sv", **case), klass=None)
    rep.extra["e2e_noisy_max_diff"] = max(worst, rep.extra.get("e2e_noisy_max_diff", 0.0))


# ------------------------------------------------------------------ through real Pulser objects
def pulser_meta(rep: Report, rng, count: int) -> None:
    """rigid motions of the register and serialise/deserialise, through pulser.Register/Sequence -> PulserData"""
    np, torch, tio, compat = _imports()
    import logging
    import warnings
    import harness.pytest_compat  # noqa: F401  (squeezes the (1,N,N) interaction matrix of pulser-core 1.9.1)
    import pulser
    import pulser.backend as pb
    from pulser.devices import MockDevice
    from emu_base.pulser_adapter import PulserData
    from emu_sv import SVConfig

    def build(coords, pulses):
        reg = pulser.Register({f"q{i}": c for i, c in enumerate(coords)})
        seq = pulser.Sequence(reg, MockDevice)
        seq.declare_channel("ch", "rydberg_global")
        for dur, amp, det, ph in pulses:
            seq.add(pulser.Pulse.ConstantPulse(dur, amp, det, ph), "ch")
        return seq

    def results(seq):
        ev = [1.0]
        obs = [pb.Occupation(evaluation_times=ev), pb.CorrelationMatrix(evaluation_times=ev), pb.Energy(evaluation_times=ev)]
        with warnings.catch_warnings():
            warnings.simplefilter("ignore")
            cfg = SVConfig(gpu=False, log_level=logging.ERROR, dt=10, observables=obs, krylov_tolerance=1e-13)
            pdat = PulserData(sequence=seq, config=cfg, dt=10)
            data = list(pdat.get_sequences())[0]
            r = compat.run_sv(data, cfg)
        U = torch.as_tensor(data.interaction_matrix.full_matrix).numpy()
        return (np.asarray(torch.as_tensor(r.get_result("occupation", 1.0)).tolist()),
                np.asarray(torch.as_tensor(r.get_result("correlation_matrix", 1.0)).tolist()),
                float(r.get_result("energy", 1.0))), U

    worst, worst_u = 0.0, 0.0
    for i in range(count):
        n = rng.randint(2, 5)
        while True:
            coords = np.array([[rng.uniform(-12, 12), rng.uniform(-12, 12)] for _ in range(n)])
            dmin = min(np.linalg.norm(coords[a] - coords[b]) for a in range(n) for b in range(a + 1, n))
            if dmin > 5.0:
                break
        pulses = [(rng.choice([52, 100, 148]), rng.uniform(2, 10), rng.uniform(-8, 8), rng.uniform(0, 6)) for _ in range(rng.randint(1, 3))]
        ang = rng.uniform(0, 2 * math.pi)
        R = np.array([[math.cos(ang), -math.sin(ang)], [math.sin(ang), math.cos(ang)]])
        variants = {
            "rotated": coords @ R.T,
            "translated": coords + np.array([rng.uniform(-5, 5), rng.uniform(-5, 5)]),
            "reflected": coords * np.array([1.0, -1.0]),
            "rotated+reflected+translated": (coords * np.array([-1.0, 1.0])) @ R.T + np.array([1.5, -2.5]),
        }
        rep.case(key=("pulser", i), nontrivial=True, trace=False)
        data = dict(kind="pulser", coords=coords.tolist(), pulses=pulses, angle=ang)
        try:
            seq = build(coords, pulses)
            base, U0 = results(seq)
            for name, c2 in variants.items():
                got, U1 = results(build(c2, pulses))
                du = float(np.abs(U1 - U0).max() / (np.abs(U0).max() + 1e-30))
                d = dist(got, base)
                worst, worst_u = max(worst, d), max(worst_u, du)
                if d > 1e-7 or du > 1e-9:
                    rep.fail(f"register {name}: results differ by {d:.3e}, interaction matrix by {du:.3e} (rel)", dict(data, variant=name))
            seq2 = pulser.Sequence.from_abstract_repr(seq.to_abstract_repr())
            got, U1 = results(seq2)
            d = dist(got, base)
            worst = max(worst, d)
            if d > 1e-9 or float(np.abs(U1 - U0).max()) > 0:
                rep.fail(f"serialise+deserialise: results differ by {d:.3e}", dict(data, variant="abstract_repr round trip"))
        except Exception as e:
            rep.fail(f"pulser path raised {type(e).__name__}: {e}", data, klass=None)
    rep.extra["pulser_meta_max_diff"] = max(worst, rep.extra.get("pulser_meta_max_diff", 0.0))
    rep.extra["pulser_meta_max_U_rel_diff"] = max(worst_u, rep.extra.get("pulser_meta_max_U_rel_diff", 0.0))



def pulser_ids(rep: Report, rng, count: int, replay_cases=None) -> None:
    """per-atom drives (DMM detuning map with distinct weights + a local channel) on registers whose id order differs from the
    sorted order — 11-12 atoms with int / mixed-length string ids, and small ones ('b','a','c' / 10, 9, 2): the drive columns
    of the SequenceData must be the per-atom samples *in register order*, and original, abstract-repr round trip (int ids become
    strings: '10' < '2') and relabelled registers must give the same per-atom occupations"""
    np, torch, tio, compat = _imports()
    import logging
    import warnings
    import harness.pytest_compat  # noqa: F401
    import pulser
    import pulser.backend as pb
    from pulser.devices import MockDevice
    from pulser.sampler import sample
    from emu_base.pulser_adapter import PulserData
    from emu_sv import SVConfig

    def build(ids, coords, weights, local_target, pulses, dmm_det):
        reg = pulser.Register(dict(zip(ids, coords)))
        seq = pulser.Sequence(reg, MockDevice)
        seq.declare_channel("ch", "rydberg_global")
        seq.declare_channel("loc", "rydberg_local", initial_target=ids[local_target])
        seq.config_detuning_map(reg.define_detuning_map(dict(zip(ids, weights))), "dmm_0")
        for dur, amp, det, ph in pulses:
            seq.add(pulser.Pulse.ConstantPulse(dur, amp, det, ph), "ch")
        seq.add_dmm_detuning(pulser.ConstantWaveform(sum(p[0] for p in pulses), dmm_det), "dmm_0")
        seq.add(pulser.Pulse.ConstantPulse(pulses[0][0], 3.0, -4.0, 0.0), "loc", protocol="no-delay")
        return seq

    def evaluate(seq, dt):
        with warnings.catch_warnings():
            warnings.simplefilter("ignore")
            cfg = SVConfig(gpu=False, log_level=logging.ERROR, dt=dt, observables=[pb.Occupation(evaluation_times=[1.0])],
                           krylov_tolerance=1e-12)
            pdat = PulserData(sequence=seq, config=cfg, dt=dt)
            data = list(pdat.get_sequences())[0]
            r = compat.run_sv(data, cfg)
            loc = sample(seq).to_nested_dict(all_local=True, samples_type="tensor")["Local"]["ground-rydberg"]
        occ = np.asarray(torch.as_tensor(r.get_result("occupation", 1.0)).tolist())
        # drive columns vs the per-atom samples, in register order (interior steps of constant pulses: exact)
        tt = data.target_times
        worst = 0.0
        for k, qid in enumerate(seq.register.qubit_ids):
            for name, col in (("amp", data.omega), ("det", data.delta)):
                sig = torch.as_tensor(loc[qid][name]).real
                for st in range(len(tt) - 2):
                    tm = 0.5 * (tt[st] + tt[st + 1])
                    lo, hi = float(sig[int(math.floor(tm))]), float(sig[min(int(math.ceil(tm)), len(sig) - 1)])
                    if lo == hi:                                   # away from the pulse boundaries
                        worst = max(worst, abs(float(col[st, k].real) - lo))
        return occ, worst, [str(a) for a in r.atom_order], [str(q) for q in data.qubit_ids]

    worst_occ, worst_col = 0.0, 0.0
    for i in range(len(replay_cases) if replay_cases is not None else count):
        if replay_cases is not None:
            rc = replay_cases[i]
            ids = [int(x) if t == "int" else x for x, t in zip(rc["ids"], rc["id_types"])]
            n, coords, weights, pulses = len(ids), [tuple(c) for c in rc["coords"]], rc["weights"], [tuple(p_) for p_ in rc["pulses"]]
            dmm_det, target, dt, relabel = rc["dmm_det"], rc["local_target"], rc["dt"], rc["relabel"]
        else:
            big = i == 0
            if big:
                n = rng.choice([11, 12])
                ids = rng.choice([list(range(n)), [str(k) for k in range(n)], ["a", "bb", "10", "2", "c1", "1", "zz", "b", "9", "A", "11", "q"][:n]])
                ids = ids[:]
                rng.shuffle(ids)
            else:
                ids = rng.choice([["b", "a", "c"], [10, 9, 2], ["q10", "q9", "q2", "q1"], [2, 10, 1]])[:]
                n = len(ids)
            cols = 4
            coords = [(6.5 * (k % cols) + rng.uniform(-0.5, 0.5), 6.5 * (k // cols) + rng.uniform(-0.5, 0.5)) for k in range(n)]
            raw = [rng.uniform(0.2, 1.0) for _ in range(n)]
            weights = [x / sum(raw) for x in raw]
            pulses = [(rng.choice([60, 100]), rng.uniform(3, 8), rng.uniform(-5, 5), rng.uniform(0, 3)) for _ in range(rng.randint(1, 2))]
            dmm_det = -rng.uniform(20, 60)
            target = rng.randrange(n)
            dt = 20 if big else 10
            relabel = [f"r{(7 * k + 3) % 13:02d}x"[: rng.choice([3, 4])] + str(k) for k in range(n)]      # new names, another sort order
        data = dict(kind="pulser-ids", ids=[str(x) for x in ids], id_types=[type(x).__name__ for x in ids], coords=coords, weights=weights,
                    pulses=pulses, dmm_det=dmm_det, local_target=target, dt=dt, relabel=relabel)
        rep.case(key=("pulser-ids", i), nontrivial=True, trace=False)
        rep.hist("pulser_ids_n", n)
        try:
            with warnings.catch_warnings():
                warnings.simplefilter("ignore")
                seq = build(ids, coords, weights, target, pulses, dmm_det)
                variants = {"original": seq,
                            "abstract-repr round trip": pulser.Sequence.from_abstract_repr(seq.to_abstract_repr()),
                            "relabelled register": build(relabel, coords, weights, target, pulses, dmm_det)}
            base = None
            for name, sq in variants.items():
                occ, col_err, ao, qids = evaluate(sq, dt)
                worst_col = max(worst_col, col_err)
                if ao != [str(q) for q in sq.register.qubit_ids] or qids != ao:
                    rep.fail(f"{name}: atom order {ao} / SequenceData ids {qids} are not the register order", dict(data, variant=name))
                if col_err > 1e-9:
                    rep.fail(f"{name} ({n} atoms, ids {list(sq.register.qubit_ids)[:6]}...): a drive column of the SequenceData differs from the "
                             f"samples of the atom at that register position by {col_err:.3e} (per-atom drives landed on other atoms)",
                             dict(data, variant=name))
                if base is None:
                    base = occ
                else:
                    d = float(np.abs(occ - base).max())
                    worst_occ = max(worst_occ, d)
                    if d > 1e-7:
                        rep.fail(f"{name}: per-atom occupations differ from the original sequence by {d:.3e}", dict(data, variant=name))
        except Exception as e:
            rep.fail(f"pulser per-atom-drive path raised {type(e).__name__}: {e}", data, klass=None)
    rep.extra["pulser_ids_max_occ_diff"] = max(worst_occ, rep.extra.get("pulser_ids_max_occ_diff", 0.0))
    rep.extra["pulser_ids_max_column_err"] = max(worst_col, rep.extra.get("pulser_ids_max_column_err", 0.0))



def pulser_phases(rep: Report, rng, count: int, replay_cases=None) -> None:
    """real Pulser sequences of 2-4 pulses with >= 2 distinct phases, and the same sequence with a global phase offset that moves
    phases into (pi/2, 3pi/2), beyond 2pi and below 0: (i) the drive the adapter extracts, Omega e^{i phi} per time step, must be
    the sampled one (cos/sin of the extracted phase = cos/sin of the sampled phase: exact, mid-times fall on samples for even dt);
    (ii) all observables are invariant under the offset"""
    np, torch, tio, compat = _imports()
    import logging
    import warnings
    import harness.pytest_compat  # noqa: F401
    import pulser
    import pulser.backend as pb
    from pulser.devices import MockDevice
    from pulser.sampler import sample
    from emu_base.pulser_adapter import PulserData
    from emu_sv import SVConfig

    def build(coords, pulses, theta):
        reg = pulser.Register({f"q{i}": c for i, c in enumerate(coords)})
        seq = pulser.Sequence(reg, MockDevice)
        seq.declare_channel("ch", "rydberg_global")
        for dur, amp, det, ph in pulses:
            seq.add(pulser.Pulse.ConstantPulse(dur, amp, det, ph + theta), "ch")
        return seq

    def evaluate(seq, dt=10):
        ev = [1.0]
        obs = [pb.Occupation(evaluation_times=ev), pb.CorrelationMatrix(evaluation_times=ev), pb.Energy(evaluation_times=ev)]
        with warnings.catch_warnings():
            warnings.simplefilter("ignore")
            cfg = SVConfig(gpu=False, log_level=logging.ERROR, dt=dt, observables=obs, krylov_tolerance=1e-13)
            data = list(PulserData(sequence=seq, config=cfg, dt=dt).get_sequences())[0]
            r = compat.run_sv(data, cfg)
            loc = sample(seq).to_nested_dict(all_local=True, samples_type="tensor")["Local"]["ground-rydberg"]
        tt = data.target_times
        worst = 0.0
        for k, qid in enumerate(seq.register.qubit_ids):
            amp = torch.as_tensor(loc[qid]["amp"]).real
            phs = torch.as_tensor(loc[qid]["phase"]).real
            for st in range(len(tt) - 2):
                tm = 0.5 * (tt[st] + tt[st + 1])
                if tm == int(tm) and 0 < int(tm) < len(phs) - 1 and float(phs[int(tm) - 1]) == float(phs[int(tm) + 1]):
                    want = float(amp[int(tm)]) * complex(math.cos(float(phs[int(tm)])), math.sin(float(phs[int(tm)])))
                    ph_x = float(data.phi[st, k].real)
                    got = float(data.omega[st, k].real) * complex(math.cos(ph_x), math.sin(ph_x))
                    worst = max(worst, abs(got - want))
        res = (np.asarray(torch.as_tensor(r.get_result("occupation", 1.0)).tolist()),
               np.asarray(torch.as_tensor(r.get_result("correlation_matrix", 1.0)).tolist()), float(r.get_result("energy", 1.0)))
        return res, worst

    worst_d, worst_s = 0.0, 0.0
    for i in range(len(replay_cases) if replay_cases is not None else count):
        if replay_cases is not None:
            rc = replay_cases[i]
            coords, pulses, thetas = [tuple(c) for c in rc["coords"]], [tuple(p_) for p_ in rc["pulses"]], rc["thetas"]
            base_ph = [p_[3] for p_ in pulses]
        else:
            n = rng.randint(2, 3)
            coords = [(7.0 * k + rng.uniform(-0.5, 0.5), rng.uniform(-1, 1) + (5.5 if k == 2 else 0.0)) for k in range(n)]
            npul = rng.randint(2, 4)
            base_ph = [rng.choice([0.0, 0.3, 1.2, 2.0, 2.9, 3.6, 4.4, 5.5])]
            while len(base_ph) < npul:
                c = rng.choice([0.0, 0.4, 1.0, 1.9, 2.6, 3.3, 4.0, 4.9, 5.8])
                if c != base_ph[-1]:
                    base_ph.append(c)
            thetas = rng.sample([0.9, 1.7, 2.5, 3.14159, 4.0, 5.2, 7.0, -0.8, -2.0, -4.5], 2)
            if i % 2 == 0:
                # a pulse phase lands EXACTLY on 0, pi/2, pi, 3pi/2 or 2pi (cos or sin ~ 1e-16): base phases b, b + pi/2 (+ b + pi)
                b = rng.choice([0.4, 1.1, 2.3])
                base_ph = [b, b + math.pi / 2] + ([b + math.pi] if npul > 2 else [])
                thetas = [k * math.pi / 2 - b for k in rng.sample([0, 1, 2, 3, 4], 2)] + [rng.choice([math.pi / 2, -math.pi / 2])]
            pulses = [(rng.choice([40, 60, 100]), rng.uniform(3, 9), rng.uniform(-6, 6), ph) for ph in base_ph]
        rep.case(key=("pulser-phases", i), nontrivial=True, trace=False)
        data = dict(kind="pulser-phases", coords=coords, pulses=pulses, thetas=thetas)
        try:
            base, err = evaluate(build(coords, pulses, 0.0))
            worst_s = max(worst_s, err)
            if err > 1e-9:
                rep.fail(f"pulser adapter: the extracted drive Omega e^(i phi) differs from the sampled sequence by {err:.3e} "
                         f"(phases {base_ph})", dict(data, variant="base"))
            for th in thetas:
                got, err = evaluate(build(coords, pulses, th))
                worst_s = max(worst_s, err)
                if err > 1e-9:
                    rep.fail(f"pulser adapter: the extracted drive Omega e^(i phi) differs from the sampled sequence by {err:.3e} "
                             f"(phases {[round(p_ + th, 3) for p_ in base_ph]})", dict(data, variant=f"offset {th}"))
                d = dist(got, base)
                worst_d = max(worst_d, d)
                if d > TOL_SV:
                    rep.fail(f"real Pulser sequence with phases {base_ph}: results change by {d:.3e} > {TOL_SV:.0e} when {th:+.3f} is added to "
                             "the phase of every pulse", dict(data, variant=f"offset {th}"))
        except Exception as e:
            rep.fail(f"pulser multi-phase path raised {type(e).__name__}: {e}", data, klass=None)
    rep.extra["pulser_phases_max_offset_diff"] = max(worst_d, rep.extra.get("pulser_phases_max_offset_diff", 0.0))
    rep.extra["pulser_phases_max_sample_err"] = max(worst_s, rep.extra.get("pulser_phases_max_sample_err", 0.0))


# ------------------------------------------------------------------ check
def check(rep: Report, tier: str, seed: int) -> None:
    import time
    import torch
    torch.manual_seed(seed)
    rep.rule = ("one PRNG; Hamiltonian level: gaussian vectors, n=1..8, random real drives, phases and offsets; end to end: "
                "hand-built SequenceData, 1-6 atoms (emu-sv) / 2-5 (emu-mps, precision 1e-8, no reordering), 2-6 steps of 10/20 ns, "
                "per-atom or global time-dependent phases, amplitudes incl. zeros, offsets in (-3,3); the same pairs on emu-sv with Lindblad noise "
                "(2-3 atoms, 1-3 jump operators out of relaxation / dephasing / n-dephasing / pumping, exact-zero phases next to non-zero "
                "ones); real pulser Registers of 2-5 "
                "atoms (min distance 5 um), 1-3 constant pulses, random rotation/translation/reflection, abstract-repr round trip; per-atom drives "
                "(DMM detuning map with distinct weights + a local channel) on one 11-12 atom register with shuffled int / string / "
                "mixed-length ids and two small registers with non-sorted ids: original vs round trip vs relabelled, drive columns vs samples")
    rep.assumptions = [
        "Props/C29.lean: theorems for every polynomial in the modelled emu-sv H (what a truncated Taylor/Krylov step is); the ideal "
        "matrix exponential is covered by Props/C29Exp.lean for abstract complex matrices H, H' = V H V^-1 and by "
        "Props/C29ExpLink.lean for the modelled Hamiltonian (see EXTRA_STAGES)",
        "register isometries and (de)serialisation are Pulser's computation: metamorphic tests only",
        "the clause 'negating all phases' of the property is false in general (time reversal); checked only where it is an "
        "equivalence (constant phase); otherwise the run is compared with an independent scipy expm reference",
    ]
    t0 = time.time()
    lean_stage(rep, PROP_MODULE, AUDIT, thorough=(tier == "thorough"))
    rep.extra["t_lean_stage_s"] = round(time.time() - t0, 1)
    extra = ExtraLeanStage(rep, EXTRA_STAGES, thorough=(tier == "thorough"))     # concurrent with the Python side
    extra.start()
    quick = tier == "quick"
    ham_level(rep, seeded(seed * 7919 + 29), 60 if quick else 1000)
    e2e(rep, seeded(seed * 104729 + 29), 9 if quick else 150, True)
    e2e_noisy(rep, seeded(seed * 32452843 + 29), 6 if quick else 60)
    pulser_meta(rep, seeded(seed * 1299709 + 29), 3 if quick else 40)
    pulser_ids(rep, seeded(seed * 15485863 + 29), 3 if quick else 30)
    pulser_phases(rep, seeded(seed * 49979687 + 29), 4 if quick else 60)
    extra.merge()
    rep.extra["t_total_s"] = round(time.time() - t0, 1)
    if rep.broken and not rep.unknown_failing():
        search(rep, seed, 30 if quick else 300)


def search(rep: Report, seed: int, count: int) -> None:
    ham_level(rep, seeded(seed * 15485863 + 29), 10 * count)
    e2e(rep, seeded(seed * 32452843 + 29), count, True)
    rep.extra["search_cases"] = count


def replay(rep: Report, path: str) -> int:
    np, torch, tio, compat = _imports()
    data = json.load(open(path))
    bad = 0
    for f in data.get("failing_inputs", []):
        d = f["data"]
        k = d.get("kind")
        if k in ("offset", "neg-const", "neg-ref"):
            case = {x: d[x] for x in ("n", "steps", "om", "de", "ph", "U", "dt", "jumps") if x in d}
            b = d["backend"]
            tol = TOL_SV if b == "sv" else TOL_MPS
            if k == "offset":
                e = dist(run(b, case, [[p + d["theta"] for p in row] for row in case["ph"]]), run(b, case, case["ph"]))
            elif k == "neg-const":
                n, c0 = case["n"], d["phi0"]
                e = dist(run(b, case, [[-c0] * n for _ in range(case["steps"])]), run(b, case, [[c0] * n for _ in range(case["steps"])]))
            else:
                neg = [[-p for p in row] for row in case["ph"]]
                e, tol = dist(run(b, case, neg), reference(case, neg)), (TOL_SV_REF if b == "sv" else 10 * tol)
            print(f"replay: {k} emu-{b}: difference {e:.3e}", "FAILS" if e > tol else "holds now")
            bad += e > tol
        elif k == "ham":
            from harness.props import c06
            n = d["n"]
            P = dict(n=n, om=[complex(x) for x in d["om"]], de=[complex(x) for x in d["de"]], U=d["U"], phis=d["phis"], table={})
            v = torch.tensor([complex(*z) for z in d["vec"]], dtype=tio.C128)
            pc = torch.tensor([bin(s).count("1") for s in range(2 ** n)], dtype=torch.float64)
            V = torch.exp(1j * d["theta"] * pc)
            H, Hs = c06.build_h(P), c06.build_h(dict(P, phis=[p + d["theta"] for p in P["phis"]]))
            Hn = c06.build_h(dict(P, phis=[-p for p in P["phis"]]))
            sc = float((H * v).abs().max()) + 1.0
            e = max(float(((Hs * v) - V * (H * (V.conj() * v))).abs().max()), float(((Hn * v) - (H * v.conj()).conj()).abs().max())) / sc
            print(f"replay: Hamiltonian identities n={n}: {e:.3e}", "FAILS" if e > TOL_H else "holds now")
            bad += e > TOL_H
        elif k == "pulser-phases":
            r2 = Report(rep.prop, "quick", 0)
            pulser_phases(r2, None, 0, replay_cases=[d])
            for x in r2.failing[:3]:
                print("replay:", x["what"][:200], "FAILS")
            if not r2.failing:
                print("replay: extracted drive = sampled drive and offset invariance: holds now")
            bad += bool(r2.failing)
        elif k == "pulser-ids":
            r2 = Report(rep.prop, "quick", 0)
            pulser_ids(r2, None, 0, replay_cases=[d])
            for x in r2.failing[:3]:
                print("replay:", x["what"][:200], "FAILS")
            if not r2.failing:
                print("replay: per-atom drives / occupations agree in register order: holds now")
            bad += bool(r2.failing)
        else:
            print("replay: no stored input for", f["what"][:100])
    return 1 if bad else 0
