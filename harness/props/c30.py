"""C30 — emu-sv gradients equal finite differences of the emulated results. PARTIAL.

Lean: EmuVerif.Props.C30 (each DHD*Sparse @ v is the exact partial derivative of H v; slot bookkeeping). Correspondence:
the real DHDOmegaSparse / DHDDeltaSparse / DHDPhiSparse / DHDUSparse vs Model.SvGrad on dyadic batches — exact (exact
(cos, sin) table for exp(i phi), exp(i(phi+pi/2))). Oracle (always on): torch.autograd vs central finite differences
through EvolveStateVector (1-3 chained steps), a full hand-built emu-sv run, and PCHIP1D (finiteness on flat runs).
The Frechet-derivative / double-Krylov identity: EmuVerif.Props.C30Frechet + harness/props/c30_frechet.py (second Lean stage,
tape correspondence of `double_krylov`, dense Frechet-derivative oracles on `double_krylov` and `EvolveStateVector.backward`).
"""
from __future__ import annotations

import json
import math

from harness.common import Driver, LeanError, Report, lean_stage, seeded
from harness.props import c30_frechet

REGISTRY = dict(
    text=("PARTIAL. Lean 4 theorems for every qubit number, all parameters and vectors: DHDDeltaSparse @ v = -n_k v and "
          "DHDUSparse @ v = n_i n_j v (dense embeds of C06); H is affine in Omega_k, delta_k, U_ij so H(p+eps e) v = H(p) v + "
          "eps (DHDp v) holds exactly for every step eps (real eps for Omega on the complex path) - the hand-written operators "
          "are the exact partial derivatives, no limit involved; for the phase the exact rotation identity H(phi_k+theta) v = "
          "H v + sin(theta) DHDPhi_k v + (cos(theta)-1) (drive block of qubit k) v with the tape contract exp(i(phi+pi/2)) = "
          "-sin+i cos; the backward pass's slot i of each gradient is the trace against the finite difference in parameter i. "
          "Frechet part (Props/C30Frechet.lean, replaces the former assumption FrechetDoubleKrylovContract): [[A,E],[0,B]]^k = "
          "[[A^k, D_k],[0,B^k]], D_k = sum_{j<k} A^j E B^(k-1-j) over any (non-commutative) semiring; (a+t e)^k = a^k + t D_k + t^2 R_k "
          "with explicit R_k, and over the dual numbers; exp [[A,E],[0,B]] = [[exp A, L],[0, exp B]] with L = sum_k D_k/k! (HasSum, "
          "Mathlib's NormedSpace.exp on complex matrices) and d/dt exp(A+tE) at 0 = L (HasDerivAt, non-commuting case); in the code's "
          "convention (rows of Vs, Vg = Lanczos vectors): for anti-Hermitian A = -i dt H, exact Lanczos relations A Vs^T = Vs^T Ts, "
          "A Vg^T = Vg^T Tg, orthonormal Vg, state = ||s|| Vs[0], grad = ||g|| Vg[0]: L(A, |state><grad|) = Vs^T dS Vg* with dS = "
          "top-right block of exp [[Ts, ||s|| ||g|| e0 e0^T],[0, Tg]] (Tg unconjugated BECAUSE A is anti-Hermitian), "
          "<g| L(A, -i dt dH) |psi> = -i dt tr(Vg* dH Vs^T dS) (the number backward stores) and <g|exp(A)x> = <exp(-A)g|x> (state "
          "gradient); bookkeeping model of double_krylov/lanczos (block_diag, corner entry [0,size_s], slice [:size_s,size_s:], sizes, "
          "RecursionError only) tied to the code by an exact tape correspondence. "
          "Assumed (not proved): the Lanczos relations hold exactly (happy breakdown of both runs) - the truncation error of an accepted "
          "error estimate is measured against the dense Frechet derivative on every run; torch.matrix_exp is an oracle; the Krylov "
          "accuracy, PCHIP's reverse-mode gradient. Validated on every run: autograd vs "
          "central finite differences (1-5 atoms, omega/delta/phi/interaction matrix/initial state, zero phases, zero and "
          "constant drives, chained steps, a full emu-sv run) and finite PCHIP1D gradients on flat runs."),
    note=("Trusted: Lean kernel + propext/Classical.choice/Quot.sound; Mathlib; Model.SvGrad tied by exact correspondence; "
          "the end-to-end gradient claim rests on differential testing (relative 1e-5 + 1e-7 absolute, step 1e-6, clean-tree "
          "spread 3e-8), labelled as such; differentiation through real Pulser waveform objects is not exercised."),
    technique="Lean 4 proof (affine dependence, induction on the qubit tree) + exact correspondence + finite-difference oracle",
    design_ref="DESIGN.md §5 C30",
)

PROP_MODULE = "EmuVerif.Props.C30"
AUDIT = "Audit/C30.lean"
FD_STEP = 1e-6
RTOL_FD = 1e-5
ATOL_FD = 1e-7


def _imports():
    import numpy as np
    import torch
    from harness import compat
    compat.install()
    from harness import treevec_io as tio
    return np, torch, tio, compat


# ------------------------------------------------------------------ correspondence: DHD operators, exact
def correspondence(rep: Report, rng, tier: str) -> None:
    np, torch, tio, compat = _imports()
    from emu_sv.time_evolution import DHDOmegaSparse, DHDDeltaSparse, DHDPhiSparse, DHDUSparse
    quick = tier == "quick"
    lines, expect, meta = [], [], []
    dev = torch.device("cpu")
    for i in range(80 if quick else 800):
        n = rng.randint(1, 7)
        B = rng.randint(1, 3)
        rows = torch.tensor([[tio.cdyad(rng, 1, 2) for _ in range(2 ** n)] for _ in range(B)], dtype=tio.C128)
        k = rng.randrange(n)
        kind = rng.choice(["om", "om", "ph", "de", "u"])
        if kind == "u" and n < 2:
            kind = "de"
        phi = rng.choice([0.0, float(rng.randint(1, 9))])
        c, s = (1.0 + 0j, 0.0 + 0j) if phi == 0.0 else (tio.cdyad(rng, 1, 2, real=True), tio.cdyad(rng, 1, 2, real=True))
        table = {phi: (c, s), phi + math.pi / 2: (-s, c)}
        m = dict(what=f"DHD {kind}", n=n, k=k, B=B, phi=phi)
        try:
            with tio.exact_trig(table):
                if kind == "om":
                    got = DHDOmegaSparse(k, dev, n, torch.tensor(phi, dtype=torch.float64)) @ rows
                    line = f"gr.om {n} {k} {1 if phi != 0 else 0};{tio.cs(c)};{tio.cs(s)} {tio.tlist(rows)}"
                elif kind == "ph":
                    om = tio.dyad(rng, 2, 4)
                    got = DHDPhiSparse(k, dev, n, torch.tensor(om, dtype=torch.float64), torch.tensor(phi, dtype=torch.float64)) @ rows
                    line = f"gr.ph {n} {k} {tio.cs(om)} 1;{tio.cs(-s)};{tio.cs(c)} {tio.tlist(rows)}"
                elif kind == "de":
                    got = DHDDeltaSparse(k, n) @ rows
                    line = f"gr.de {n} {k} {tio.tlist(rows)}"
                else:
                    a, b = sorted(rng.sample(range(n), 2))
                    got = DHDUSparse(a, b, n) @ rows
                    line = f"gr.u {n} {a} {b} {tio.tlist(rows)}"
                    m.update(i=a, j=b)
        except AssertionError as e:
            # the code evaluated exp/cos/sin at an angle other than phi or phi + pi/2 (not in the exact table)
            rep.broke(f"correspondence {m['what']}: the implementation asked for a trigonometric value outside the tape: {e}")
            continue
        lines.append(line); expect.append(got); meta.append(m)
        rep.hist("dhd_kind", kind)
    try:
        out = Driver().batch(lines)
    except LeanError as e:
        rep.broke("driver: " + str(e)[-800:])
        return
    dis = 0
    for line, reply, val, m in zip(lines, out, expect, meta):
        rep.case(key=hash(line), nontrivial=True, sample=m)
        bad = tio.compare_exact(reply, val)
        if bad:
            dis += 1
            if dis <= 4:
                rep.broke(f"correspondence {m['what']}: {bad}; input={json.dumps(m)} line={line[:300]}")
    rep.extra["correspondence_cases"] = len(lines)
    rep.extra["correspondence_disagreements"] = dis
    # tape contract: exp(i(phi+pi/2)) = -sin(phi) + i cos(phi)
    ph = torch.tensor([rng.uniform(-3, 3) for _ in range(200)], dtype=torch.float64)
    devn = float((torch.exp(1j * (ph + torch.pi / 2)) - (-torch.sin(ph) + 1j * torch.cos(ph))).abs().max())
    rep.extra["trig_shift_contract_max_dev"] = devn
    if devn > 1e-15:
        rep.broke(f"tape contract exp(i(phi+pi/2)) = -sin+i cos violated: {devn}")


# ------------------------------------------------------------------ oracle: autograd vs central finite differences
def fd_compare(torch, f, params, grads, rng, max_entries=6, full=("U",)):
    """central differences of the real scalar f() in up to `max_entries` random entries of each parameter.
    complex parameters: real and imaginary direction (torch's convention grad = dL/dx + i dL/dy). Returns (worst excess, detail)"""
    worst, detail = 0.0, None
    for name, p in params.items():
        g = grads[name]
        if g is None:
            return float("inf"), f"{name}: no gradient returned"
        if not bool(torch.isfinite(torch.view_as_real(g) if g.is_complex() else g).all()):
            return float("inf"), f"{name}: non-finite gradient {g.reshape(-1)[:6].tolist()}"
        flat = p.detach().reshape(-1)
        idxs = list(range(flat.numel()))
        rng.shuffle(idxs)
        if name in full and p.dim() == 2:
            # every upper-triangle entry of the interaction matrix whose current value is EXACTLY 0 (a coupling that is switched
            # off still has a gradient) + `max_entries` of the other entries; the dense oracle of c30_frechet.oracle_backward
            # compares every entry of the U-gradient in every case
            zeros = [k for k in idxs if k // p.shape[1] < k % p.shape[1] and flat[k].item() == 0.0]
            chosen = zeros + [k for k in idxs if k not in zeros][:max_entries]
        else:
            chosen = idxs[:max_entries]
        for idx in chosen:
            dirs = [(1.0, lambda z: z.real)] if not p.is_complex() else [(1.0, lambda z: z.real), (1j, lambda z: z.imag)]
            for d, part in dirs:
                old = flat[idx].item()
                with torch.no_grad():
                    p.reshape(-1)[idx] = old + FD_STEP * d
                    fp = float(f())
                    p.reshape(-1)[idx] = old - FD_STEP * d
                    fm = float(f())
                    p.reshape(-1)[idx] = old
                fd = (fp - fm) / (2 * FD_STEP)
                ad = float(part(g.reshape(-1)[idx])) if g.is_complex() else float(g.reshape(-1)[idx])
                excess = abs(ad - fd) - (ATOL_FD + RTOL_FD * max(abs(ad), abs(fd)))
                if excess > 0:
                    # the emulated result is only accurate to the Krylov tolerance (1e-12) and not smooth at that level, so a
                    # step of 1e-6 carries noise ~1e-12/1e-6 (seen: thorough seed 0, case 174, 2.3e-7 on a state entry while the
                    # 4th-order difference with step 1e-4 agrees to 3e-10). A discrepancy counts only if it is confirmed by
                    # that second, noise-robust difference quotient.
                    h = 100 * FD_STEP
                    vals = []
                    with torch.no_grad():
                        for mult in (1, -1, 2, -2):
                            p.reshape(-1)[idx] = old + mult * h * d
                            vals.append(float(f()))
                        p.reshape(-1)[idx] = old
                    fd4 = (8 * (vals[0] - vals[1]) - (vals[2] - vals[3])) / (12 * h)
                    ex4 = abs(ad - fd4) - (ATOL_FD + RTOL_FD * max(abs(ad), abs(fd4)))
                    if ex4 < excess:
                        excess, fd = ex4, fd4
                if excess > worst:
                    worst, detail = excess, f"{name}[{idx}]{'(imag)' if d == 1j else ''}: autograd {ad:.9e} vs finite difference {fd:.9e}"
                    if name == "U":
                        detail += f" (current value U[{idx}] = {old!r}; {U_NOTE})"
    return worst, detail


U_NOTE = ("Props.C30.dhd_U_is_n_n / interaction_derivative_exact: dH/dU_ij = n_i n_j for EVERY pair i < j, whatever the current value "
          "of U_ij - an entry U_ij = 0 has a non-zero gradient in general")


def sparse_U(rng, torch, n, scale):
    """symmetric interaction matrix with EXACT zeros: dense / nearest-neighbour chain / random sparsity 30-80 % / all-zero
    (a coupling that is currently 0 - zero-initialised, cut off, not a neighbour - still has a gradient). -> (U, pattern)"""
    pattern = rng.choice(["dense", "chain", "sparse", "sparse", "zero"]) if n > 1 else "dense"
    vals = torch.tensor([abs(rng.gauss(0, 1)) * scale for _ in range(n * n)], dtype=torch.float64).reshape(n, n)
    keep = torch.ones(n, n, dtype=torch.bool)
    if pattern == "chain":
        keep = torch.zeros(n, n, dtype=torch.bool)
        for i in range(n - 1):
            keep[i, i + 1] = True
    elif pattern == "sparse":
        frac = rng.uniform(0.3, 0.8)
        keep = torch.tensor([rng.random() >= frac for _ in range(n * n)]).reshape(n, n)
    elif pattern == "zero":
        keep = torch.zeros(n, n, dtype=torch.bool)
    U = torch.triu(vals * keep, 1)
    return U + U.T, pattern


def evolve_case(rng, n, steps, zero_phase, special):
    """chained EvolveStateVector steps and a real loss; returns params dict and closure"""
    np, torch, tio, compat = _imports()
    from emu_sv.time_evolution import EvolveStateVector
    g = lambda *s: torch.tensor([rng.gauss(0, 1) for _ in range(_prod(s))], dtype=torch.float64).reshape(s)
    om = (g(steps, n).abs() * 4)
    de = g(steps, n) * 5
    ph = torch.zeros(steps, n, dtype=torch.float64) if zero_phase else g(steps, n)
    if special == "zero-omega":
        om[rng.randrange(steps)] = 0.0
    elif special == "constant":
        om[:] = om[0].clone(); de[:] = de[0].clone(); ph[:] = ph[0].clone()
    elif special == "mixed-zero-phase":
        ph[:, rng.randrange(n)] = 0.0
    U, u_pattern = sparse_U(rng, torch, n, 3.0)
    st = torch.complex(g(2 ** n), g(2 ** n))
    st = st / st.norm()
    r = torch.complex(g(2 ** n), g(2 ** n))
    M = torch.complex(g(2 ** n, 2 ** n), g(2 ** n, 2 ** n))
    M = M + M.conj().T
    w = g(n)
    params = dict(omega=om.requires_grad_(True), delta=de.requires_grad_(True), phi=ph.requires_grad_(True),
                  U=U.requires_grad_(True), state=st.requires_grad_(True))
    loss_kind = rng.choice(["overlap", "occupation", "energy"])
    dts = [rng.choice([0.05, 0.2, 0.5]) for _ in range(steps)]

    def f():
        psi = params["state"].clone()            # krylov_exp normalises the tensor it is given *in place*
        for t in range(steps):
            psi, _ = EvolveStateVector.apply(dts[t], params["omega"][t], params["delta"][t], params["phi"][t], params["U"], psi,
                                             1e-12, None)
        if loss_kind == "overlap":
            return torch.vdot(r, psi).abs() ** 2
        if loss_kind == "occupation":
            tot = 0.0
            for k in range(n):
                tot = tot + w[k] * (psi.view(2 ** k, 2, -1)[:, 1].abs() ** 2).sum()
            return tot
        return torch.vdot(psi, M @ psi).real
    return params, f, dict(n=n, steps=steps, loss=loss_kind, special=special, zero_phase=zero_phase, u_pattern=u_pattern)


def _prod(s):
    r = 1
    for x in s:
        r *= x
    return r


def oracle_evolve(rep: Report, rng, count: int) -> None:
    np, torch, tio, compat = _imports()
    worst = 0.0
    for i in range(count):
        n = rng.randint(1, 5 if i % 4 else 4)
        steps = rng.randint(1, 3)
        zero_phase = rng.random() < 0.35
        special = rng.choice(["none", "none", "zero-omega", "constant", "mixed-zero-phase"])
        params, f, info = evolve_case(rng, n, steps, zero_phase, special)
        rep.case(key=("evolve", i), nontrivial=True, trace=False)
        rep.hist("grad_case", f"{info['loss']}/{special}/{'phi0' if zero_phase else 'phi'}")
        rep.hist("grad_case_U_pattern", info["u_pattern"])
        try:
            L = f()
            grads = dict(zip(params, torch.autograd.grad(L, list(params.values()), allow_unused=True)))
            ex, detail = fd_compare(torch, f, params, grads, rng)
        except Exception as e:
            rep.fail(f"EvolveStateVector autograd raised {type(e).__name__}: {e}", dict(kind="evolve-raise", **info), klass=None)
            continue
        worst = max(worst, ex if ex != float("inf") else 0.0)
        if ex > 0:
            rep.fail(f"EvolveStateVector gradient: {detail} (beyond rel {RTOL_FD:.0e} + abs {ATOL_FD:.0e})",
                     dict(kind="evolve", seed_index=i, **info, params={k: _ser(v) for k, v in params.items()}))
    rep.extra["evolve_fd_max_excess"] = worst


def _ser(t):
    t = t.detach()
    if t.is_complex():
        return [[z.real, z.imag] for z in t.reshape(-1).tolist()]
    return t.reshape(-1).tolist()


def oracle_full_run(rep: Report, rng, count: int) -> None:
    """a whole hand-built emu-sv run: gradient of a weighted occupation + energy at the end w.r.t. per-step drives"""
    np, torch, tio, compat = _imports()
    import pulser.backend as pb
    from emu_base import SequenceData
    from emu_base.pulser_adapter import HamiltonianType, _InteractionMatrixCallable
    for i in range(count):
        n, steps = rng.randint(1, 4), rng.randint(2, 4)
        g = lambda *s: torch.tensor([rng.gauss(0, 1) for _ in range(_prod(s))], dtype=torch.float64).reshape(s)
        om = (g(steps, n).abs() * 6 + 1)
        de = g(steps, n) * 6
        zero_ph = rng.random() < 0.4
        ph = torch.zeros(steps, n, dtype=torch.float64) if zero_ph else g(steps, n)
        if rng.random() < 0.5:
            om[1:] = om[0].clone()                # a flat (constant) drive segment
        U, u_pattern = sparse_U(rng, torch, n, 5.0)
        rep.hist("fullrun_U_pattern", u_pattern)
        params = dict(omega=om.requires_grad_(True), delta=de.requires_grad_(True), phi=ph.requires_grad_(True),
                      U=U.requires_grad_(True))
        w = g(n)
        dt = rng.choice([40, 100])

        def f():
            data = SequenceData(params["omega"].to(torch.complex128), params["delta"].to(torch.complex128),
                                params["phi"].to(torch.complex128), _InteractionMatrixCallable(params["U"], params["U"], 0.0),
                                tuple(f"q{q}" for q in range(n)), tuple([False] * n), [], 0.0,
                                [float(dt * k) for k in range(steps + 1)], ["r", "g"], HamiltonianType.Rydberg)
            obs = [pb.Occupation(evaluation_times=[1.0]), pb.CorrelationMatrix(evaluation_times=[1.0])]
            # energy-type results are excluded here: their gradients are findings F-treevec-1 / F-treevec-2 (own probes)
            cfg = compat.sv_config(observables=obs, dt=dt, krylov_tolerance=1e-12)
            res = compat.run_sv(data, cfg)
            tot = (w * res.get_result("occupation", 1.0)).sum() + 0.3 * res.get_result("correlation_matrix", 1.0).sum()
            return tot
        rep.case(key=("fullrun", i), nontrivial=True, trace=False)
        info = dict(n=n, steps=steps, dt=dt, u_pattern=u_pattern)
        try:
            L = f()
            grads = dict(zip(params, torch.autograd.grad(L, list(params.values()), allow_unused=True)))
            ex, detail = fd_compare(torch, f, params, grads, rng, max_entries=3)
        except Exception as e:
            rep.fail(f"emu-sv run autograd raised {type(e).__name__}: {e}", dict(kind="fullrun-raise", **info), klass=None)
            continue
        rep.extra["fullrun_fd_max_excess"] = max(rep.extra.get("fullrun_fd_max_excess", 0.0), ex if ex != float("inf") else 0.0)
        if ex > 0:
            rep.fail(f"emu-sv run gradient: {detail} (beyond rel {RTOL_FD:.0e} + abs {ATOL_FD:.0e})",
                     dict(kind="fullrun", **info, params={k: _ser(v) for k, v in params.items()}))


def oracle_pchip(rep: Report, rng, count: int) -> None:
    """PCHIP1D: gradient w.r.t. the samples is finite everywhere (flat runs included) and matches finite differences on
    strictly monotone data (where the interpolant is differentiable in the samples)"""
    np, torch, tio, compat = _imports()
    from emu_base.math.pchip_torch import PCHIP1D
    for i in range(count):
        m = rng.randint(3, 9)
        x = torch.tensor(sorted(rng.sample(range(0, 40), m)), dtype=torch.float64)
        kind = rng.choice(["flat-run", "constant", "monotone", "generic", "flat-ends"])
        if kind == "monotone":
            y = torch.cumsum(torch.tensor([rng.uniform(0.2, 2) for _ in range(m)], dtype=torch.float64), 0)
        elif kind == "constant":
            y = torch.full((m,), rng.uniform(-2, 2), dtype=torch.float64)
        else:
            y = torch.tensor([rng.uniform(-3, 3) for _ in range(m)], dtype=torch.float64)
            if kind == "flat-run":
                a = rng.randrange(m - 1)
                y[a + 1] = y[a]
                if a + 2 < m and rng.random() < 0.5:
                    y[a + 2] = y[a]
            if kind == "flat-ends":
                y[1] = y[0]; y[-2] = y[-1]
        y.requires_grad_(True)
        xq = torch.tensor([rng.uniform(float(x[0]), float(x[-1])) for _ in range(8)] + [float(x[1])], dtype=torch.float64)
        wq = torch.tensor([rng.gauss(0, 1) for _ in range(9)], dtype=torch.float64)

        def f():
            return (wq * PCHIP1D(x, y)(xq)).sum()
        rep.case(key=("pchip", i), nontrivial=True, trace=False)
        rep.hist("pchip_kind", kind)
        data = dict(kind="pchip", shape=kind, x=x.tolist(), y=y.detach().tolist(), xq=xq.tolist(), wq=wq.tolist())
        try:
            (gy,) = torch.autograd.grad(f(), [y])
        except Exception as e:
            rep.fail(f"PCHIP1D autograd raised {type(e).__name__}: {e}", data, klass=None)
            continue
        if not bool(torch.isfinite(gy).all()):
            rep.fail(f"PCHIP1D: non-finite gradient w.r.t. the samples on a '{kind}' input: {gy.tolist()}", data)
            continue
        if kind == "monotone":
            ex, detail = fd_compare(torch, f, dict(y=y), dict(y=gy), rng)
            if ex > 0:
                rep.fail(f"PCHIP1D gradient: {detail}", data)


def probe_energy_grad(rep: Report, rng) -> None:
    """F-treevec-1: energy-type observables in a differentiable run with non-zero phases"""
    np, torch, tio, compat = _imports()
    import pulser.backend as pb
    from emu_base import SequenceData
    from emu_base.pulser_adapter import HamiltonianType, _InteractionMatrixCallable
    n, steps = 2, 2
    g = lambda *s: torch.tensor([rng.gauss(0, 1) for _ in range(_prod(s))], dtype=torch.float64).reshape(s)
    for name, cls in (("energy", pb.Energy), ("energy_variance", pb.EnergyVariance), ("energy_second_moment", pb.EnergySecondMoment)):
        om = (g(steps, n).abs() * 5 + 1).requires_grad_(True)
        de = g(steps, n).requires_grad_(True)
        ph = (g(steps, n) + 0.5).requires_grad_(True)
        U = torch.tensor([[0.0, 1.5], [1.5, 0.0]], dtype=torch.float64)
        data = SequenceData(om.to(torch.complex128), de.to(torch.complex128), ph.to(torch.complex128),
                            _InteractionMatrixCallable(U, U, 0.0), ("q0", "q1"), (False, False), [], 0.0, [0.0, 40.0, 80.0],
                            ["r", "g"], HamiltonianType.Rydberg)
        d = dict(kind="energy-grad", observable=name, omega=_ser(om), delta=_ser(de), phi=_ser(ph))
        rep.case(key=("energy-grad", name), nontrivial=True, trace=False)
        try:
            res = compat.run_sv(data, compat.sv_config(observables=[cls(evaluation_times=[1.0])], dt=40, krylov_tolerance=1e-12))
            v = torch.as_tensor(res.get_result(name, 1.0)).sum()
            gr = torch.autograd.grad(v, [om, de, ph], allow_unused=True)
            if not all(x is not None and bool(torch.isfinite(x).all()) for x in gr):
                rep.fail(f"emu-sv run: gradient of {name} missing or non-finite with non-zero phases", d)
        except TypeError as e:
            rep.fail(f"emu-sv run with requires_grad drives and non-zero phases: observable {name} raises TypeError: {e}", d,
                     klass="sv-energy-observables-raise-under-autograd-with-phase")
        except Exception as e:
            rep.fail(f"emu-sv run: observable {name} under autograd raised {type(e).__name__}: {e}", d, klass=None)


def probe_zero_phase_energy(rep: Report, rng) -> None:
    """F-treevec-2: explicit dependence of the energy on the drive parameters of the evaluation step (all phases zero)"""
    np, torch, tio, compat = _imports()
    import pulser.backend as pb
    from emu_base import SequenceData
    from emu_base.pulser_adapter import HamiltonianType, _InteractionMatrixCallable
    n, steps = 2, 2
    g = lambda *s: torch.tensor([rng.gauss(0, 1) for _ in range(_prod(s))], dtype=torch.float64).reshape(s)
    params = dict(omega=(g(steps, n).abs() * 5 + 1).requires_grad_(True), delta=g(steps, n).requires_grad_(True),
                  phi=torch.zeros(steps, n, dtype=torch.float64).requires_grad_(True))
    U = torch.tensor([[0.0, 1.5], [1.5, 0.0]], dtype=torch.float64)

    def f():
        data = SequenceData(params["omega"].to(torch.complex128), params["delta"].to(torch.complex128),
                            params["phi"].to(torch.complex128), _InteractionMatrixCallable(U, U, 0.0), ("q0", "q1"), (False, False),
                            [], 0.0, [0.0, 100.0, 200.0], ["r", "g"], HamiltonianType.Rydberg)
        res = compat.run_sv(data, compat.sv_config(observables=[pb.Energy(evaluation_times=[1.0])], dt=100, krylov_tolerance=1e-12))
        return torch.as_tensor(res.get_result("energy", 1.0)).sum()
    rep.case(key=("zero-phase-energy",), nontrivial=True, trace=False)
    d = dict(kind="zero-phase-energy", omega=_ser(params["omega"]), delta=_ser(params["delta"]))
    try:
        gr = torch.autograd.grad(f(), list(params.values()), allow_unused=True)
        grads = {k: (torch.zeros_like(params[k]) if x is None else x) for k, x in zip(params, gr)}
        import random
        ex, detail = fd_compare(torch, f, params, grads, random.Random(0), max_entries=steps * n)
        rep.extra["energy_grad_explicit_term_excess"] = ex
        if ex > 0:
            rep.fail(f"emu-sv run (all phases exactly zero): gradient of the final energy w.r.t. the drive: {detail} - the explicit "
                     "dependence of H on the parameters of the evaluation step is not differentiated", d,
                     klass="sv-energy-grad-missing-explicit-parameter-term")
    except Exception as e:
        rep.fail(f"energy gradient probe raised {type(e).__name__}: {e}", d, klass=None)


def probe_unnormalised(rep: Report, rng) -> None:
    """informational (outside the property: states of a run are normalised): EvolveStateVector normalises its input tensor in
    place and saves the normalised copy, so on an input of norm c the parameter gradients are off by the factor c"""
    np, torch, tio, compat = _imports()
    from emu_sv.time_evolution import EvolveStateVector
    n = 2
    g = lambda *s: torch.tensor([rng.gauss(0, 1) for _ in range(_prod(s))], dtype=torch.float64).reshape(s)
    om = (g(n).abs() * 3 + 0.5).requires_grad_(True)
    de, ph = g(n), g(n)
    U = torch.tensor([[0.0, 1.2], [1.2, 0.0]], dtype=torch.float64)
    st = torch.complex(g(4), g(4))
    st = 2.0 * st / st.norm()
    r = torch.complex(g(4), g(4))

    def f(o):
        out, _ = EvolveStateVector.apply(0.3, o, de, ph, U, st.clone(), 1e-12, None)
        return torch.vdot(r, out).abs() ** 2
    (ad,) = torch.autograd.grad(f(om), [om])
    e = torch.zeros(n, dtype=torch.float64)
    e[0] = FD_STEP
    fd = (float(f(om.detach() + e)) - float(f(om.detach() - e))) / (2 * FD_STEP)
    s2 = st.clone()
    EvolveStateVector.apply(0.3, om.detach(), de, ph, U, s2, 1e-12, None)
    rep.extra["info_unnormalised_input"] = dict(input_norm=2.0, caller_tensor_norm_after_call=float(s2.norm()),
                                                omega_grad_autograd_over_fd=float(ad[0]) / fd)


# ------------------------------------------------------------------ check
def check(rep: Report, tier: str, seed: int) -> None:
    import time
    import torch
    torch.manual_seed(seed)
    rep.rule = ("one PRNG; correspondence: dyadic batches (1-3 rows, 1-7 qubits), every qubit / pair, zero and tabled phases; "
                "oracle: gaussian drives, 1-5 atoms, 1-3 chained EvolveStateVector steps (dt 0.05-0.5), losses = |<r|psi>|^2 / "
                "weighted occupations / <psi|M psi>, zero phases (35 %), a zero-amplitude step, constant drives, one atom with zero "
                "phase; full emu-sv runs of 2-4 steps on 1-4 atoms incl. flat drive segments; PCHIP1D with flat runs, constant and "
                "monotone samples; central differences with step 1e-6 in up to 6 random entries of each parameter")
    rep.assumptions = [
        "Frechet-derivative identity of exp and the double-Lanczos decomposition (backward): proved in Props/C30Frechet.lean for exact "
        "Lanczos relations; truncation error and the torch kernels measured against the dense Frechet derivative",
        "tape contract exp(i(phi+pi/2)) = -sin(phi) + i cos(phi) (validated: deviation < 1e-15)",
        "PCHIP is not differentiable in the samples at flat points: there only finiteness is checked",
        "differentiation through real Pulser waveform objects is not exercised",
        "un-normalised initial states (accepted by StateVector / SVBackend; reachable as soon as the initial state is itself optimised): "
        "parameter gradients are off by 1/||psi|| - finding F-frechet-1, reproduced by c30_frechet.oracle_backward / "
        "oracle_unnormalised_run on every run (info_unnormalised_input keeps the old measurement)",
    ]
    t0 = time.time()
    lean_stage(rep, PROP_MODULE, AUDIT, thorough=(tier == "thorough"))
    rep.extra["t_lean_stage_s"] = round(time.time() - t0, 1)
    stage2 = c30_frechet.LeanStage2(tier, seed)      # Props/C30Frechet.lean: built + audited while the Python side runs
    stage2.start()
    quick = tier == "quick"
    t1 = time.time()
    c30_frechet.run(rep, tier, seed, Driver())
    rep.extra["t_frechet_python_s"] = round(time.time() - t1, 1)
    correspondence(rep, seeded(seed * 7919 + 30), tier)
    oracle_evolve(rep, seeded(seed * 104729 + 30), 30 if quick else 300)
    oracle_full_run(rep, seeded(seed * 1299709 + 30), 4 if quick else 30)
    oracle_pchip(rep, seeded(seed * 15485863 + 30), 40 if quick else 1000)
    probe_energy_grad(rep, seeded(seed * 49979687 + 30))
    probe_zero_phase_energy(rep, seeded(seed * 86028121 + 30))
    probe_unnormalised(rep, seeded(seed * 67867967 + 30))
    t2 = time.time()
    stage2.merge(rep)
    rep.extra["t_lean_stage2_wait_s"] = round(time.time() - t2, 1)
    rep.extra["t_total_s"] = round(time.time() - t0, 1)
    if rep.broken and not rep.unknown_failing():
        search(rep, seed, 40 if quick else 400)


def search(rep: Report, seed: int, count: int) -> None:
    c30_frechet.search(rep, seed, count)
    oracle_evolve(rep, seeded(seed * 32452843 + 30), count)
    rep.extra["search_cases"] = count


def replay(rep: Report, path: str) -> int:
    np, torch, tio, compat = _imports()
    data = json.load(open(path))
    bad = 0
    for f_ in data.get("failing_inputs", []):
        d = f_["data"]
        r = c30_frechet.replay_one(d)
        if r is not None:
            bad += r
            continue
        if d.get("kind") == "pchip":
            from emu_base.math.pchip_torch import PCHIP1D
            x = torch.tensor(d["x"], dtype=torch.float64)
            y = torch.tensor(d["y"], dtype=torch.float64, requires_grad=True)
            xq, wq = torch.tensor(d["xq"], dtype=torch.float64), torch.tensor(d["wq"], dtype=torch.float64)
            (gy,) = torch.autograd.grad((wq * PCHIP1D(x, y)(xq)).sum(), [y])
            ok = bool(torch.isfinite(gy).all())
            print("replay: PCHIP1D gradient", gy.tolist(), "holds now" if ok else "FAILS (non-finite)")
            bad += not ok
        elif d.get("kind") == "evolve":
            from emu_sv.time_evolution import EvolveStateVector
            n, steps = d["n"], d["steps"]
            P = d["params"]
            om = torch.tensor(P["omega"], dtype=torch.float64).reshape(steps, n).requires_grad_(True)
            de = torch.tensor(P["delta"], dtype=torch.float64).reshape(steps, n).requires_grad_(True)
            ph = torch.tensor(P["phi"], dtype=torch.float64).reshape(steps, n).requires_grad_(True)
            U = torch.tensor(P["U"], dtype=torch.float64).reshape(n, n).requires_grad_(True)
            st = torch.tensor([complex(*z) for z in P["state"]], dtype=tio.C128).requires_grad_(True)
            params = dict(omega=om, delta=de, phi=ph, U=U, state=st)

            def f():
                psi = st.clone()                 # krylov_exp normalises the tensor it is given in place (see evolve_case)
                for t in range(steps):
                    psi, _ = EvolveStateVector.apply(0.2, om[t], de[t], ph[t], U, psi, 1e-12, None)
                return (psi.abs() ** 2 * torch.arange(2 ** n, dtype=torch.float64)).sum()
            grads = dict(zip(params, torch.autograd.grad(f(), list(params.values()), allow_unused=True)))
            import random
            ex, detail = fd_compare(torch, f, params, grads, random.Random(0), max_entries=50)
            print(f"replay: EvolveStateVector gradients (index-weighted population loss): excess {ex:.3e} {detail or ''}",
                  "FAILS" if ex > 0 else "holds now")
            bad += ex > 0
        else:
            print("replay: no stored input for", f_["what"][:100])
    return 1 if bad else 0
