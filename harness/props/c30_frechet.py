"""C30 (Frechet part) — `emu_base/math/double_krylov.py` and the contraction in `EvolveStateVector.backward`.

Lean: EmuVerif.Props.C30Frechet (block-triangular powers / exponential, first-order term of exp(A+tE), Krylov compression
in the code's convention `Vs^T dS Vg*`, trace exchange, adjoint state gradient; bookkeeping model `Model.DoubleKrylov`).

run(rep, tier, seed, drv):
  * tape correspondence (`dk.tape`): real `double_krylov` calls with every `norm` / `tensordot` / `matrix_exp` recorded;
    the model replays the control flow and the bookkeeping on that tape. Compared EXACTLY: len(Vs), len(Vg), number of `op`
    evaluations, `Ts`, `Tg` (as returned by the two `lanczos` calls), the matrix handed to `torch.matrix_exp` (block_diag +
    the single corner entry `[0, size_s] = ||state||*||grad||`), `dS` = the `[:size_s, size_s:]` slice of its result, which
    `lanczos` call produced `Vs` / `Vg`, `RecursionError` (patched `max_krylov_dim`).
  * `dk.big`, `dk.slice` vs `torch.block_diag` / slicing on dyadic rectangular inputs - exact.
  * dense correspondence (`dk.dense`, dim <= 12): the model computes every vector itself in binary64 - sizes, `T`s, `Vs`, `Vg`
    compared with tolerance when the decisions of the real run have a margin.
  * numeric oracle on the REAL `double_krylov` (always on): `Vs^T dS Vg*` vs the dense Frechet derivative
    `expm([[A, |s><g|],[0, A]])[:n, n:]` (scipy), A = -i dt H, H random Hermitian / chain / block / degenerate, dim 2-64.
  * numeric oracle on the REAL `EvolveStateVector.backward`: all five gradients vs `Re <g| L(A, -i dt dH/dp) |psi>` with the
    dense Frechet derivative L (scipy `expm_frechet`) and analytic dense dH/dp (numpy kron), state gradient vs `expm(A)^H g`.
  * degenerate Krylov spaces on the REAL `lanczos` / `double_krylov` (op annihilates the start vector exactly: zero operator, vector
    in the kernel; exact eigenvector): must return one vector and the 1x1 T, finite, and the dense Frechet derivative.
  * REAL `EvolveStateVector` forward+backward through a two-step schedule from |g...g> whose first step has amplitude exactly 0
    (N = 1, 2, 4) vs the dense chain (scipy expm / expm_frechet): no exception, finite, equal; the schedule is the replay.
Tolerances (calibrated on the clean tree, 9000 + 2000 cases): see TOL_* below.
"""
from __future__ import annotations

import contextlib
import json
import math
import random
import threading
from unittest import mock

from harness.common import Driver, LeanError, Report, f2b

# |Vs^T dS Vg* - L|_max <= TOL_DK * tolerance * ||s|| * ||g|| * max(1, 0.1/||A||_2).  The factor max(1, 0.1/||A||) is the measured
# behaviour of the unchanged `lanczos` (a copy of krylov_exp_impl's loop): its second error term uses ||op(v_j)|| ~ ||A||, so
# for small ||A|| = dt ||H|| the estimate accepts early and the error is ~ tolerance/||A|| (same mechanism as finding D20-C07;
# irrelevant for C30's finite-difference tolerance 1e-5, recorded in notes/frechet.md).  Clean tree: worst normalised ratio
# observed: see notes (calibration over > 10^4 cases, ||A|| in [1e-3, 6], tolerance 1e-12..1e-6).  Margin >= 10x.
TOL_DK = 100.0
# both Lanczos runs ended with ||w|| <= EXACT_N2 (Krylov space exhausted): the identity is exact, allowance = rounding only
EXACT_N2 = 1e-13
TOL_EXACT = 1e-11
# torch.matrix_exp (complex128, torch 2.10 CPU) deviates from scipy.linalg.expm by up to 8e-9 (relative, per entry of the
# top-right block) when 3e-4 < ||M|| < 5e-2 (error ~ ||M||^5: a degree-4 approximant is used in that window), 1e-15 elsewhere.
# The kernel is an oracle of the model; its measured deviation on the run's own big_mat is allowed, capped:
KERNEL_CAP = 1e-7
# dense-mode correspondence: vectors are compared to DENSE_VEC_TOL as long as every earlier residual norm is >= DENSE_NOISE_N2
# (rounding differences ~1e-15 x growth / ||w||); clean tree: worst deviation of a compared vector 5e-11
DENSE_VEC_TOL = 1e-7
DENSE_NOISE_N2 = 1e-6
# backward: |autograd - dense| <= (TOL_BW * krylov_tolerance * max(1, 0.1/a_eff) + TOL_EXACT + KERNEL_CAP) * dt * ||g|| * ||dH/dp||
# per entry (||dH/dp|| <= 1, omega/2 for phi; state gradient: without dt), a_eff = min(||A psi||, ||A g||/||g||).
TOL_BW = 100.0


def _np():
    import numpy as np
    import torch
    return np, torch


def cx(z) -> str:
    z = complex(z)
    return f"{f2b(z.real)}:{f2b(z.imag)}"


def l1(items) -> str:
    items = list(items)
    return ",".join(items) if items else "-"


def l2(rows) -> str:
    rows = [l1(r) for r in rows]
    return ";".join(rows) if rows else "-"


def l3(blocks) -> str:
    blocks = [l2(b) for b in blocks]
    return "|".join(blocks) if blocks else "-"


def sparse(a) -> str:
    """non-zero entries `i:j:re:im` in row-major order (what Drv.Krylov.showSparse prints)"""
    out = []
    for i, row in enumerate(a):
        for j, z in enumerate(row):
            z = complex(z)
            if not (z.real == 0 and z.imag == 0):
                out.append(f"{i}:{j}:{cx(z)}")
    return l1(out)


def dense_rows(a) -> str:
    rows = [l1(cx(z) for z in row) for row in a]
    return ";".join(rows) if rows else "-"


# ------------------------------------------------------------------------------------------------ recording
class Run:
    """kernel calls of one `lanczos` call, in order"""

    def __init__(self, which):
        self.which = which           # "state" / "grad" / "other"
        self.events = []             # ("norm", x) ("op",) ("dot", z) ("mexp", arg, out)
        self.result = None           # (list, T) or None if it raised

    def parse(self):
        """-> dict(init, ns, n2s, ovs, cols) or None if the call sequence is not the one of `lanczos`"""
        ev = self.events
        if not ev or ev[0][0] != "norm":
            return None
        d = dict(init=ev[0][1], ns=[], n2s=[], ovs=[], cols=[])
        i = 1
        while i < len(ev):
            if ev[i][0] != "op" or i + 1 >= len(ev) or ev[i + 1][0] != "norm":
                return None
            d["ns"].append(ev[i + 1][1])
            i += 2
            dots = []
            while i < len(ev) and ev[i][0] == "dot":
                dots.append(ev[i][1])
                i += 1
            d["ovs"].append(dots)
            if i >= len(ev) or ev[i][0] != "norm":
                return None
            d["n2s"].append(ev[i][1])
            i += 1
            if i < len(ev) and ev[i][0] == "mexp":
                d["cols"].append([complex(z) for z in ev[i][2][:, 0]])
                i += 1
        return d


class Recording:
    def __init__(self):
        self.runs: list[Run] = []
        self.tail = []               # events after the last lanczos call: ("norm", x)… ("bigexp", arg, out)
        self.ops = 0
        self.out = None
        self.raised = None


@contextlib.contextmanager
def _patched(rec: Recording, state, grad, maxdim):
    np, torch = _np()
    import emu_base.math.double_krylov as dkm
    o_norm, o_td = torch.Tensor.norm, torch.tensordot
    o_lme, o_me, o_lan = torch.linalg.matrix_exp, torch.matrix_exp, dkm.lanczos
    cur = {"run": None, "in_op": False}

    def sink():
        return cur["run"].events if cur["run"] is not None else rec.tail

    def norm(self_, *a, **k):
        r = o_norm(self_, *a, **k)
        if not cur["in_op"]:
            sink().append(("norm", float(r)))
        return r

    def tensordot(*a, **k):
        r = o_td(*a, **k)
        if not cur["in_op"]:
            sink().append(("dot", complex(r)))
        return r

    def lme(m):
        arg = m.detach().clone().numpy()
        r = o_lme(m)
        if not cur["in_op"]:
            sink().append(("mexp", arg, r.detach().clone().numpy()))
        return r

    def me(m):
        arg = m.detach().clone().numpy()
        r = o_me(m)
        if not cur["in_op"]:
            sink().append(("bigexp", arg, r.detach().clone().numpy()))
        return r

    def lan(op_, v, tolerance):
        run = Run("state" if v is state else "grad" if v is grad else "other")
        rec.runs.append(run)
        cur["run"] = run
        try:
            run.result = o_lan(op_, v, tolerance)
            return run.result
        finally:
            cur["run"] = None

    patches = [mock.patch.object(torch.Tensor, "norm", norm), mock.patch("torch.tensordot", tensordot),
               mock.patch("torch.linalg.matrix_exp", lme), mock.patch("torch.matrix_exp", me),
               mock.patch.object(dkm, "lanczos", lan)]
    if maxdim is not None:
        patches.append(mock.patch.object(dkm, "max_krylov_dim", maxdim))
    with contextlib.ExitStack() as st:
        for p in patches:
            st.enter_context(p)
        yield cur


def record(op, state, grad, tol, maxdim=None) -> Recording:
    """one real `double_krylov(op, state, grad, tol)` with its kernel calls recorded"""
    import emu_base.math.double_krylov as dkm
    rec = Recording()
    with _patched(rec, state, grad, maxdim) as cur:
        def wop(x):
            rec.ops += 1
            if cur["run"] is not None:
                cur["run"].events.append(("op",))
            cur["in_op"] = True
            try:
                return op(x)
            finally:
                cur["in_op"] = False
        try:
            rec.out = dkm.double_krylov(wop, state, grad, tol)
        except RecursionError as e:
            rec.raised = "recursion"
        except Exception as e:                      # anything else escaping the real code is a candidate finding
            rec.raised = f"{type(e).__name__}: {e}"
    return rec


# ------------------------------------------------------------------------------------------------ generators
def gen_op(rng: random.Random, kind: str, n: int):
    """dense A = -i dt H (numpy), H Hermitian of the given family, ||A||_2 in [0.05, 6]"""
    np, torch = _np()
    g = np.random.default_rng(rng.getrandbits(48))
    if kind == "gue":
        G = g.normal(size=(n, n)) + 1j * g.normal(size=(n, n))
        H = (G + G.conj().T) / 2
    elif kind == "real":
        G = g.normal(size=(n, n))
        H = ((G + G.T) / 2).astype(complex)
    elif kind == "chain":
        H = np.diag(g.normal(size=n)).astype(complex)
        for i in range(n - 1):
            H[i, i + 1] = H[i + 1, i] = g.normal()
    elif kind == "degenerate":           # few distinct eigenvalues: happy breakdown after that many iterations
        k = rng.randint(1, min(4, n))
        ev = g.normal(size=k)
        Q = np.linalg.qr(g.normal(size=(n, n)) + 1j * g.normal(size=(n, n)))[0]
        H = Q @ np.diag(ev[g.integers(0, k, size=n)]) @ Q.conj().T
        H = (H + H.conj().T) / 2
    elif kind == "block":                # block diagonal: a start vector inside a block stays there
        b = rng.randint(1, max(1, n - 1))
        H = np.zeros((n, n), dtype=complex)
        for lo, hi in ((0, b), (b, n)):
            if hi > lo:
                G = g.normal(size=(hi - lo, hi - lo)) + 1j * g.normal(size=(hi - lo, hi - lo))
                H[lo:hi, lo:hi] = (G + G.conj().T) / 2
    elif kind == "weak":                 # two blocks coupled by eps: ||w|| ~ eps when the first block is exhausted
        b = rng.randint(1, min(4, n - 1))
        H = np.zeros((n, n), dtype=complex)
        for lo, hi in ((0, b), (b, n)):
            G = g.normal(size=(hi - lo, hi - lo)) + 1j * g.normal(size=(hi - lo, hi - lo))
            H[lo:hi, lo:hi] = (G + G.conj().T) / 2
        C = (g.normal(size=(b, n - b)) + 1j * g.normal(size=(b, n - b))) * 10.0 ** (-rng.randint(3, 7))
        H[:b, b:] = C
        H[b:, :b] = C.conj().T
        nrm = np.linalg.norm(H, 2)
        return -1j * H / nrm * rng.choice([1.0, 2.0, 4.0]) * rng.uniform(0.5, 1.0)
    else:
        raise ValueError(kind)
    nrm = np.linalg.norm(H, 2)
    if nrm > 0:
        H = H / nrm * rng.choice([0.002, 0.02, 0.1, 0.3, 1.0, 2.0, 4.0, 6.0]) * rng.uniform(0.5, 1.0)
    return -1j * H


def gen_vec(rng: random.Random, n: int, A=None, kind="generic"):
    np, torch = _np()
    g = np.random.default_rng(rng.getrandbits(48))
    v = g.normal(size=n) + 1j * g.normal(size=n)
    if kind == "block" and A is not None:
        # support = first diagonal block of A (found from its zero pattern)
        b = 1
        while b < n and np.any(A[:b, b:] != 0):
            b += 1
        v[b:] = 0
    if kind == "basis":
        v[:] = 0
        v[rng.randrange(n)] = 1.0
    nv = np.linalg.norm(v)
    return v / nv * rng.choice([1.0, 1.0, 0.3, 5.0, 0.01, 30.0])


def gen_case(case_seed: int, small=False):
    """deterministic case from its own seed (so that a replay only needs the seed)"""
    np, torch = _np()
    rng = random.Random(case_seed)
    kind = rng.choice(["gue", "gue", "real", "chain", "degenerate", "block"])
    n = rng.randint(2, 12) if small else rng.choice([2, 3, 4, 8, 16, 32, 64, rng.randint(2, 64), rng.randint(2, 24)])
    A = gen_op(rng, kind, n)
    vk = "block" if kind == "block" and rng.random() < 0.7 else rng.choice(["generic", "generic", "generic", "basis"])
    s = gen_vec(rng, n, A, vk)
    g = gen_vec(rng, n, A, rng.choice(["generic", "generic", vk]))
    tol = 10.0 ** (-rng.randint(6, 12))
    return dict(kind=kind, n=n, A=A, s=s, g=g, tol=tol, vec=vk, case_seed=case_seed)


def frechet_dense(A, E):
    """top-right block of expm([[A, E],[0, A]]) with scipy (independent of torch.matrix_exp)"""
    np, torch = _np()
    import scipy.linalg as sla
    n = A.shape[0]
    M = np.zeros((2 * n, 2 * n), dtype=complex)
    M[:n, :n] = A
    M[n:, n:] = A
    M[:n, n:] = E
    return sla.expm(M)[:n, n:]


def boundary_case(case_seed: int):
    """weakly coupled blocks, start vectors in the first block, and a tolerance placed by a probe run right next to the
    residual norm ||w|| of the iteration that exhausts the block (factor 0.3 … 3): the `n2 < tolerance` decision is hit on
    both sides and close to equality, while the error estimates of the earlier iterations are far above the tolerance"""
    np, torch = _np()
    rng = random.Random(case_seed)
    n = rng.randint(3, 10)
    A = gen_op(rng, "weak", n)
    b = 1
    while b < n and np.abs(A[:b, b:]).max() > 1e-2 * np.abs(A).max():
        b += 1
    s = gen_vec(rng, n)
    s[b:] = 0
    g = gen_vec(rng, n)
    if rng.random() < 0.5:
        g[b:] = 0
    At = torch.tensor(A)
    probe = record(lambda x: At @ x, torch.tensor(s), torch.tensor(g), 1e-15)
    tol = 1e-9
    p = probe.runs[0].parse() if probe.runs else None
    if p is not None and p["n2s"]:
        small = min(x for x in p["n2s"] if x > 1e-12) if any(x > 1e-12 for x in p["n2s"]) else 1e-9
        tol = small * rng.choice([0.3, 0.7, 0.95, 1.05, 1.5, 3.0])
    return dict(kind="weak", n=n, A=A, s=s, g=g, tol=tol, vec="block", case_seed=case_seed)


# ------------------------------------------------------------------------------------------------ tape correspondence
def tape_line(rec: Recording, tol: float, maxdim: int):
    """-> (line, problem). problem != None: the call sequence of the real run is not that of the modelled function"""
    runs = rec.runs
    if len(runs) > 2 or not runs:
        return None, f"{len(runs)} lanczos calls"
    parsed = [r.parse() for r in runs]
    if any(p is None for p in parsed):
        return None, "kernel call sequence inside lanczos not recognised"
    while len(parsed) < 2:
        parsed.append(dict(init=float("nan"), ns=[], n2s=[], ovs=[], cols=[]))
    big = "-"
    for e in rec.tail:
        if e[0] == "bigexp":
            big = dense_rows(e[2])
    line = " ".join([
        "dk.tape", f2b(tol), str(maxdim),
        l1(f2b(p["init"]) for p in parsed),
        l2([[f2b(x) for x in p["ns"]] for p in parsed]),
        l2([[f2b(x) for x in p["n2s"]] for p in parsed]),
        l3([[[cx(z) for z in it] for it in p["ovs"]] for p in parsed]),
        l2([[cx(z) for z in c] for c in parsed[0]["cols"]]),
        l2([[cx(z) for z in c] for c in parsed[1]["cols"]]),
        big])
    return line, None


def expected_reply(rec: Recording):
    """what the model must answer, from the real run's objects"""
    if rec.raised is not None:
        return "err " + rec.raised
    Vs, dS, Vg = rec.out
    Ts, Tg = rec.runs[0].result[1], rec.runs[1].result[1]
    bigarg = next((e[1] for e in rec.tail if e[0] == "bigexp"), None)
    return " ".join(["ok", str(len(Vs)), str(len(Vg)), str(rec.ops), sparse(Ts.numpy()), sparse(Tg.numpy()),
                     sparse(bigarg) if bigarg is not None else "?", dense_rows(dS.numpy()),
                     l1(f"1.0.{k}" for k in range(len(Vs))), l1(f"1.1.{k}" for k in range(len(Vg)))])


FIELDS = ["status", "size_s", "size_g", "op calls", "Ts", "Tg", "big_mat handed to matrix_exp", "dS", "Vs", "Vg"]


def diff_reply(model: str, real: str) -> str:
    a, b = model.split(" "), real.split(" ")
    if a[0] != "ok" or b[0] != "ok":
        return f"model '{model[:60]}' vs implementation '{real[:60]}'"
    bad = [FIELDS[i] for i in range(min(len(a), len(b), len(FIELDS))) if a[i] != b[i]]
    return "differs in: " + ", ".join(bad) + (f" (model size_s={a[1]} size_g={a[2]}, implementation {b[1]} {b[2]})")


def structural_checks(rec: Recording, state, grad):
    """properties of the real run checked directly (they make a disagreement readable)"""
    np, torch = _np()
    msgs = []
    if rec.raised is not None:
        return msgs
    if [r.which for r in rec.runs] != ["state", "grad"]:
        msgs.append(f"lanczos calls on {[r.which for r in rec.runs]} (expected state, grad)")
        return msgs
    Vs, dS, Vg = rec.out
    if Vs is not rec.runs[0].result[0] or Vg is not rec.runs[1].result[0]:
        msgs.append("returned bases are not (Lanczos(state), Lanczos(grad)) in this order")
    big = next((e[1] for e in rec.tail if e[0] == "bigexp"), None)
    out = next((e[2] for e in rec.tail if e[0] == "bigexp"), None)
    if big is None:
        msgs.append("torch.matrix_exp was not called on big_mat")
        return msgs
    ss, sg = len(Vs), len(Vg)
    if big.shape != (ss + sg, ss + sg):
        msgs.append(f"big_mat has shape {big.shape}, expected {(ss + sg, ss + sg)}")
        return msgs
    off = big[:ss, ss:].copy()
    c = float(torch.Tensor.norm(state)) * float(torch.Tensor.norm(grad))
    if off[0, 0] != c:
        msgs.append(f"corner entry big_mat[0, size_s] = {off[0, 0]!r}, expected ||state||*||grad|| = {c!r}")
    off[0, 0] = 0
    if np.any(off != 0) or np.any(big[ss:, :ss] != 0):
        msgs.append("big_mat has further non-zero entries outside the two diagonal blocks")
    if not np.array_equal(dS.numpy(), out[:ss, ss:]):
        msgs.append("dS is not matrix_exp(big_mat)[:size_s, size_s:]")
    return msgs


def correspondence_tape(rep: Report, drv: Driver, seed: int, count: int) -> None:
    np, torch = _np()
    import emu_base.math.double_krylov as dkm
    lines, expect, meta = [], [], []
    for i in range(count):
        case_seed = seed * 1000003 + 7 * i + 1
        boundary = i % 5 == 2
        c = boundary_case(case_seed) if boundary else gen_case(case_seed, small=(i % 3 == 0))
        rng = random.Random(case_seed ^ 0x5EED)
        maxdim = dkm.max_krylov_dim
        if i % 9 == 4:                     # exhaust the loop: RecursionError (in the first or in the second run)
            maxdim = rng.randint(0, 3)
        A = torch.tensor(c["A"])
        st, gr = torch.tensor(c["s"]), torch.tensor(c["g"])
        rec = record(lambda x: A @ x, st, gr, c["tol"], maxdim if maxdim != dkm.max_krylov_dim else None)
        info = dict(kind="dk-tape", family=c["kind"], n=c["n"], tol=c["tol"], maxdim=maxdim, case_seed=case_seed, small=(i % 3 == 0),
                    boundary=boundary)
        rep.case(key=("dk-tape", case_seed), nontrivial=True, sample=dict(info) if i < 2 else None)
        if rec.raised not in (None, "recursion"):
            rep.fail(f"double_krylov raised {rec.raised}", info)
            continue
        for m in structural_checks(rec, st, gr):
            rep.count("dk_bookkeeping_disagreements")
            if rep.extra["dk_bookkeeping_disagreements"] <= 6:
                rep.broke(f"correspondence double_krylov (bookkeeping): {m}; input={json.dumps(info)}")
        line, problem = tape_line(rec, c["tol"], maxdim)
        if problem:
            rep.count("dk_tape_unparsable")
            if rep.extra["dk_tape_unparsable"] <= 4:
                rep.broke(f"correspondence double_krylov: {problem}; input={json.dumps(info)}")
            continue
        exp = expected_reply(rec)
        lines.append(line); expect.append(exp); meta.append(info)
        if rec.raised:
            rep.hist("dk_tape_exit", "RecursionError")
        else:
            hb = [r.parse()["n2s"][-1] < c["tol"] for r in rec.runs]
            rep.hist("dk_tape_exit", "/".join("happy" if h else "estimate" for h in hb))
            rep.hist("dk_tape_sizes", f"{min(len(rec.out[0]), 20)}")
    try:
        out = drv.batch(lines)
    except LeanError as e:
        rep.broke("driver (dk.tape): " + str(e)[-800:])
        return
    dis = 0
    for reply, exp, info in zip(out, expect, meta):
        if reply != exp:
            dis += 1
            if dis <= 4:
                rep.broke(f"correspondence double_krylov (tape): {diff_reply(reply, exp)}; input={json.dumps(info)}")
    rep.extra["dk_tape_cases"] = len(lines)
    rep.extra["dk_tape_disagreements"] = dis


def correspondence_aux(rep: Report, drv: Driver, rng: random.Random, count: int) -> None:
    """block_diag + corner entry and the [:r, c:] slice on arbitrary dyadic (also rectangular) inputs: exact"""
    np, torch = _np()
    lines, expect = [], []
    dy = lambda: complex(rng.randint(-8, 8) / 4, rng.randint(-8, 8) / 4)
    for i in range(count):
        ra, ca, rb, cb = (rng.randint(1, 4) for _ in range(4))
        if i % 2 == 0:
            ca, cb = ra, rb
        Ta = torch.tensor([[dy() for _ in range(ca)] for _ in range(ra)], dtype=torch.complex128)
        Tb = torch.tensor([[dy() for _ in range(cb)] for _ in range(rb)], dtype=torch.complex128)
        c = dy()
        big = torch.block_diag(Ta, Tb)
        col = ca if i % 4 else rng.randrange(ca + cb)
        big[0, col] = c
        lines.append(f"dk.big {dense_rows(Ta.numpy())} {dense_rows(Tb.numpy())} {col} {cx(c)}")
        expect.append(dense_rows(big.numpy()))
        r, cc = rng.randint(0, ra + rb), rng.randint(0, ca + cb - 1)
        lines.append(f"dk.slice {dense_rows(big.numpy())} {r} {cc}")
        expect.append(dense_rows(big[:r, cc:].numpy()))
        rep.case(key=("dk-aux", i), nontrivial=True, trace=True)
    try:
        out = drv.batch(lines)
    except LeanError as e:
        rep.broke("driver (dk.big/dk.slice): " + str(e)[-800:])
        return
    bad = [(l, o, e) for l, o, e in zip(lines, out, expect) if o != e]
    for l, o, e in bad[:3]:
        rep.broke(f"correspondence block_diag/slice: model {o[:120]} vs torch {e[:120]}; line={l[:200]}")
    rep.extra["dk_aux_cases"] = len(lines)


def correspondence_dense(rep: Report, drv: Driver, seed: int, count: int) -> None:
    """the model run on binary64 complex vectors (it computes norms, overlaps, vectors itself; `matrix_exp` from the tape)"""
    np, torch = _np()
    lines, recs, meta = [], [], []
    for i in range(count):
        case_seed = seed * 1000003 + 7 * i + 3
        c = gen_case(case_seed, small=True)
        A = torch.tensor(c["A"])
        st, gr = torch.tensor(c["s"]), torch.tensor(c["g"])
        rec = record(lambda x: A @ x, st, gr, c["tol"])
        if rec.raised is not None or any(r.parse() is None for r in rec.runs) or len(rec.runs) != 2:
            continue                      # reported by the tape correspondence
        p = [r.parse() for r in rec.runs]
        big = next((e[2] for e in rec.tail if e[0] == "bigexp"), None)
        if big is None:
            continue
        # decisions of the real run must have a margin, or binary64 summation order decides: count, don't judge
        margin = min(abs(math.log10(max(x, 1e-300) / c["tol"])) for q in p for x in q["n2s"])
        if margin < 1.0:
            rep.count("dk_dense_near_ties")
            continue
        lines.append(" ".join(["dk.dense", f2b(c["tol"]), "100", dense_rows(c["A"]), l1(cx(z) for z in c["s"]),
                               l1(cx(z) for z in c["g"]), l2([[cx(z) for z in col] for col in p[0]["cols"]]),
                               l2([[cx(z) for z in col] for col in p[1]["cols"]]), dense_rows(big)]))
        recs.append(rec)
        meta.append(dict(kind="dk-dense", family=c["kind"], n=c["n"], tol=c["tol"], case_seed=case_seed))
    try:
        out = drv.batch(lines)
    except LeanError as e:
        rep.broke("driver (dk.dense): " + str(e)[-800:])
        return
    from harness.common import b2f
    def uncx(s):
        a, b = s.split(":")
        return complex(b2f(a), b2f(b))
    worst = 0.0
    for reply, rec, info in zip(out, recs, meta):
        rep.case(key=("dk-dense", info["case_seed"]), nontrivial=True)
        f = reply.split(" ")
        Vs, dS, Vg = rec.out
        if f[0] != "ok" or int(f[1]) != len(Vs) or int(f[2]) != len(Vg):
            # an accepted error estimate within a factor 10 of the tolerance may flip: judged only via the tape mode
            rep.count("dk_dense_size_flips")
            continue
        # Lanczos vector k+1 is w_k / ||w_k||: binary64 differences between the two runs (summation order) are amplified by
        # 1/||w_k||. Once a residual norm falls below DENSE_NOISE_N2 (Krylov space numerically exhausted but ||w|| still above the
        # tolerance - e.g. 1e-10 vs tolerance 1e-11: the next "vector" is normalised rounding noise and the basis can exceed the
        # dimension) that vector and all later ones are legitimately different in the two runs: compare only the prefix before it,
        # count the rest (sizes, T, big_mat, dS of such runs are compared exactly by the tape mode).
        case_worst, ok = 0.0, True
        for got, want, pr in ((f[8], Vs, rec.runs[0].parse()), (f[9], Vg, rec.runs[1].parse())):
            rows = got.split(";")
            limit = 1
            for x in pr["n2s"]:
                if x < DENSE_NOISE_N2:
                    break
                limit += 1
            if limit < len(want):
                rep.count("dk_dense_noise_truncated_runs")
                rep.count("dk_dense_vectors_not_compared", len(want) - limit)
            for r, w in list(zip(rows, want))[:limit]:
                v = np.array([uncx(z) for z in r.split(",")])
                dev = float(np.abs(v - w.numpy()).max())
                case_worst = max(case_worst, dev)
                rep.count("dk_dense_vectors_compared")
                ok &= dev <= DENSE_VEC_TOL
        worst = max(worst, case_worst)
        if not ok:
            rep.broke(f"correspondence double_krylov (dense): Lanczos vectors differ by {case_worst:.2e} (allowed {DENSE_VEC_TOL:.0e}, "
                      f"vectors after a residual norm < {DENSE_NOISE_N2:.0e} excluded); input={json.dumps(info)}")
    rep.extra["dk_dense_cases"] = len(lines)
    rep.extra["dk_dense_max_vector_dev"] = worst


# ------------------------------------------------------------------------------------------------ numeric oracles
def eval_frechet_case(c):
    """(excess over allowance, details, normalised ratio) of the real double_krylov on case c.
    The run is recorded so that the allowance can use what the run itself saw: `a_eff` = the smallest ||op(q_j)|| of the two
    Lanczos runs (see TOL_DK), whether both runs ended in an exact breakdown (then the identity is exact), and the deviation
    of torch.matrix_exp from scipy.linalg.expm on the very matrix it was given (kernel contract, capped by KERNEL_CAP)."""
    np, torch = _np()
    import scipy.linalg as sla
    A = torch.tensor(c["A"])
    st, gr = torch.tensor(c["s"]), torch.tensor(c["g"])
    rec = record(lambda x: A @ x, st, gr, c["tol"])
    if rec.raised is not None:
        return float("inf"), f"raised {rec.raised}", None
    Vs, dS, Vg = rec.out
    try:
        Vst, Vgc = torch.stack(Vs).mT.numpy(), torch.stack(Vg).conj().resolve_conj().numpy()
        dU = Vst @ dS.numpy() @ Vgc
    except Exception as e:
        return float("inf"), f"Vs^T @ dS @ Vg* not defined: {type(e).__name__}: {e}", None
    ref = frechet_dense(c["A"], np.outer(c["s"], c["g"].conj()))
    if dU.shape != ref.shape:
        return float("inf"), f"Vs^T @ dS @ Vg* has shape {dU.shape}", None
    scale = float(np.linalg.norm(c["s"]) * np.linalg.norm(c["g"]))
    if not np.all(np.isfinite(dU)):
        return float("inf"), f"Vs^T dS Vg* has non-finite entries (sizes {len(Vs)}, {len(Vg)})", None
    err = float(np.abs(dU - ref).max())
    parsed = [r.parse() for r in rec.runs]
    a_all = float(np.linalg.norm(c["A"], 2))
    if len(parsed) == 2 and all(p is not None and p["ns"] for p in parsed):
        pos_ns = [x for p in parsed for x in p["ns"] if x > 0]      # ||op(q)|| = 0 exactly: that run is an exact breakdown
        a_eff = min(pos_ns) if pos_ns else a_all
        exact = all(p["n2s"][-1] <= EXACT_N2 for p in parsed)
    else:
        a_eff, exact = a_all, False
    # kernel contract: torch.matrix_exp(big_mat) vs scipy on the same argument, seen through the same contraction
    kdev = 0.0
    big = next((e for e in rec.tail if e[0] == "bigexp"), None)
    if big is not None and big[1].shape[0] == len(Vs) + len(Vg):
        ss = len(Vs)
        kd = (big[2] - sla.expm(big[1]))[:ss, ss:]
        kdev = float(np.abs(Vst @ kd @ Vgc).max())
    kernel = min(10 * kdev, KERNEL_CAP * scale)
    if exact:
        allow = TOL_EXACT * scale + kernel
        how = f"after two exact breakdowns; allowed {TOL_EXACT:.0e} ||s|| ||g|| + kernel {kernel:.1e}"
    else:
        amp = max(1.0, 0.1 / max(a_eff, 1e-300))
        allow = TOL_DK * c["tol"] * scale * amp + TOL_EXACT * scale + kernel
        how = (f"allowed {TOL_DK:.0f} x tolerance x ||s|| ||g|| x max(1, 0.1/min_j||op(q_j)||) + {TOL_EXACT:.0e} ||s|| ||g|| + kernel {kernel:.1e}; "
               f"min_j||op(q_j)|| = {a_eff:.3g}")
    ratio = err / allow * TOL_DK                      # > TOL_DK means failure; calibration: clean tree stays below TOL_DK/10
    return err - allow, (f"|Vs^T dS Vg* - expm([[A,|s><g|],[0,A]])[:n,n:]|_max = {err:.3e} = {err / scale:.2e} ||s|| ||g|| ({how}; "
                         f"sizes {len(Vs)}, {len(Vg)}, ||A|| = {a_all:.3g}, tolerance {c['tol']:.0e})"), ratio


def oracle_frechet(rep: Report, seed: int, count: int) -> None:
    worst = 0.0
    for i in range(count):
        case_seed = seed * 1000003 + 7 * i + 5
        c = gen_case(case_seed)
        info = dict(kind="dk-frechet", family=c["kind"], n=c["n"], tol=c["tol"], vec=c["vec"], case_seed=case_seed)
        rep.case(key=("dk-frechet", case_seed), nontrivial=True, trace=False)
        rep.hist("dk_frechet_family", c["kind"])
        ex, detail, ratio = eval_frechet_case(c)
        if ratio is not None:
            worst = max(worst, ratio)
        if ex > 0:
            rep.fail(f"double_krylov: {detail}", info)
    rep.extra["dk_frechet_cases"] = count
    rep.extra["dk_frechet_worst_ratio"] = worst


U_NOTE = ("Props.C30.dhd_U_is_n_n / interaction_derivative_exact: dH/dU_ij = n_i n_j for EVERY pair i < j, whatever the current value "
          "of U_ij - an entry U_ij = 0 has a non-zero gradient in general")


def sparse_U_np(rng: random.Random, g, n: int, scale: float):
    """symmetric interaction matrix with EXACT zeros: dense / nearest-neighbour chain / random sparsity 30-80 % / all-zero"""
    np, torch = _np()
    pattern = rng.choice(["dense", "chain", "sparse", "sparse", "zero"]) if n > 1 else "dense"
    vals = np.abs(g.normal(size=(n, n))) * scale
    if pattern == "chain":
        keep = np.zeros((n, n), dtype=bool)
        for i in range(n - 1):
            keep[i, i + 1] = True
    elif pattern == "sparse":
        keep = g.random(size=(n, n)) >= rng.uniform(0.3, 0.8)
    elif pattern == "zero":
        keep = np.zeros((n, n), dtype=bool)
    else:
        keep = np.ones((n, n), dtype=bool)
    U = np.triu(vals * keep, 1)
    return U + U.T, pattern


def gen_backward_case(case_seed: int):
    np, torch = _np()
    rng = random.Random(case_seed)
    n = rng.choice([1, 2, 2, 3, 3, 4, 5])
    g = np.random.default_rng(rng.getrandbits(48))
    om = np.abs(g.normal(size=n)) * 4
    de = g.normal(size=n) * 5
    zero_phase = rng.random() < 0.3
    ph = np.zeros(n) if zero_phase else g.normal(size=n)
    if not zero_phase and rng.random() < 0.3:
        ph[rng.randrange(n)] = 0.0
    U, u_pattern = sparse_U_np(rng, g, n, 3.0)
    psi = g.normal(size=2 ** n) + 1j * g.normal(size=2 ** n)
    psi /= np.linalg.norm(psi)
    psi_norm = rng.choice([1.0, 1.0, 1.0, 0.5, 2.0, 1.3])    # un-normalised inputs: the map is linear in psi, gradients must follow
    psi = psi * psi_norm
    gv = (g.normal(size=2 ** n) + 1j * g.normal(size=2 ** n)) * rng.choice([1.0, 0.1, 10.0])
    dt = rng.choice([0.002, 0.01, 0.05, 0.2, 0.5, 1.0])
    tol = 10.0 ** (-rng.randint(8, 12))
    return dict(n=n, om=om, de=de, ph=ph, U=U, psi=psi, g=gv, dt=dt, tol=tol, case_seed=case_seed, zero_phase=zero_phase,
                u_pattern=u_pattern, psi_norm=psi_norm)


def dense_backward(c):
    """gradients of L = Re <g| exp(-i dt H(p)) |psi> from the dense Frechet derivative; H and dH/dp by numpy kron"""
    np, torch = _np()
    import scipy.linalg as sla
    from harness import treevec_io as tio
    n, dt = c["n"], c["dt"]
    H = tio.np_dense_h(c["om"], c["de"], np.cos(c["ph"]), np.sin(c["ph"]), c["U"], n)
    A = -1j * dt * H
    psi, g = c["psi"], c["g"]

    def dirder(dH):
        L = sla.expm_frechet(A, -1j * dt * dH, compute_expm=False)
        return float(np.real(np.vdot(g, L @ psi)))
    out = dict(omega=np.zeros(n), delta=np.zeros(n), phi=np.zeros(n), U=np.zeros((n, n)))
    for k in range(n):
        out["omega"][k] = dirder(tio.np_embed(n, k, 0.5 * (math.cos(c["ph"][k]) * tio.SX + math.sin(c["ph"][k]) * tio.SY)))
        out["delta"][k] = dirder(-tio.np_embed(n, k, tio.NOP))
        out["phi"][k] = dirder(tio.np_embed(n, k, 0.5 * c["om"][k] * (-math.sin(c["ph"][k]) * tio.SX + math.cos(c["ph"][k]) * tio.SY)))
        for j in range(k + 1, n):
            out["U"][k, j] = dirder(tio.np_embed(n, k, tio.NOP) @ tio.np_embed(n, j, tio.NOP))
    out["state"] = sla.expm(A).conj().T @ g
    out["A"] = A
    return out


UNNORM_CLASS = "sv-param-grads-scaled-by-inverse-norm-of-unnormalised-input-state"


def eval_backward_case(c):
    """(excess, detail, ratio, klass). klass = UNNORM_CLASS iff the input state is not normalised, the comparison fails, and the
    failure is EXACTLY the known one: every parameter gradient times ||psi|| passes, and so does the state gradient as it is."""
    np, torch = _np()
    from harness import compat
    compat.install()
    from emu_sv.time_evolution import EvolveStateVector
    t = lambda x: torch.tensor(x, dtype=torch.float64).requires_grad_(True)
    om, de, ph, U = t(c["om"]), t(c["de"]), t(c["ph"]), t(c["U"])
    st = torch.tensor(c["psi"]).requires_grad_(True)
    gv = torch.tensor(c["g"])
    try:
        out, _ = EvolveStateVector.apply(c["dt"], om, de, ph, U, st.clone(), c["tol"], None)
        L = torch.vdot(gv, out).real
        grads = torch.autograd.grad(L, [om, de, ph, U, st], allow_unused=True)
    except Exception as e:
        return float("inf"), f"raised {type(e).__name__}: {e}", None, None
    ref = dense_backward(c)
    gn = float(np.linalg.norm(c["g"]))
    pn = float(np.linalg.norm(c["psi"]))
    A = ref.pop("A")
    a_eff = min(float(np.linalg.norm(A @ c["psi"])) / pn, float(np.linalg.norm(A @ c["g"])) / gn)
    amp = max(1.0, 0.1 / max(a_eff, 1e-300))
    names = ["omega", "delta", "phi", "U", "state"]
    for name, got in zip(names, grads):
        if got is None:
            return float("inf"), f"no gradient for {name}", None, None
        if tuple(got.shape) != ref[name].shape:
            return float("inf"), f"gradient of {name} has shape {tuple(got.shape)}", None, None

    def compare(param_factor):
        worst, detail, wr = -float("inf"), "", 0.0
        for name, got in zip(names, grads):
            got = got.detach().numpy() * (param_factor if name != "state" else 1.0)
            want = ref[name]
            op_norm = max(1.0, float(np.abs(c["om"]).max()) / 2) if name == "phi" else 1.0
            sc = c["dt"] * gn * pn * op_norm if name != "state" else gn
            allow = TOL_BW * c["tol"] * amp * sc + (TOL_EXACT + KERNEL_CAP) * sc
            dev = float(np.abs(got - want).max())
            wr = max(wr, dev / allow * TOL_BW)
            if dev - allow > worst:
                idx = np.unravel_index(int(np.abs(got - want).argmax()), got.shape)
                worst = dev - allow
                detail = (f"d/d{name}{list(map(int, idx))}: backward {complex(got[idx]) if name == 'state' else float(got[idx]):.10e} vs dense "
                          f"Frechet derivative {complex(want[idx]) if name == 'state' else float(want[idx]):.10e} (|diff| {dev:.2e}, allowed {allow:.2e})")
                if name == "U":
                    detail += f" [current value U{list(map(int, idx))} = {float(c['U'][idx])!r}; {U_NOTE}]"
        return worst, detail, wr

    worst, detail, wr = compare(1.0)
    klass = None
    if worst > 0 and abs(pn - 1.0) > 1e-9:
        w2, _, _ = compare(pn)
        if w2 <= 0:
            klass = UNNORM_CLASS
            detail += (f" - input state of norm {pn:.3g}: every parameter gradient is off by exactly the factor 1/||psi|| (times ||psi|| they "
                       "agree), the state gradient is right")
    return worst, detail, wr, klass


def oracle_backward(rep: Report, seed: int, count: int) -> None:
    worst = 0.0
    for i in range(count):
        case_seed = seed * 1000003 + 7 * i + 6
        c = gen_backward_case(case_seed)
        info = dict(kind="dk-backward", n=c["n"], dt=c["dt"], tol=c["tol"], zero_phase=c["zero_phase"], u_pattern=c["u_pattern"],
                    U=c["U"].tolist(), state_norm=c["psi_norm"], case_seed=case_seed)
        rep.hist("dk_backward_U_pattern", c["u_pattern"])
        rep.hist("dk_backward_state_norm", c["psi_norm"])
        rep.case(key=("dk-backward", case_seed), nontrivial=True, trace=False)
        ex, detail, ratio, klass = eval_backward_case(c)
        if ratio is not None and klass is None:
            worst = max(worst, ratio)
        if ex > 0:
            rep.fail(f"EvolveStateVector.backward vs dense Frechet derivative: {detail}", info, klass=klass)
    rep.extra["dk_backward_cases"] = count
    rep.extra["dk_backward_worst_ratio"] = worst


# ------------------------------------------------------------------------------------------------ degenerate Krylov spaces
def gen_degenerate_case(case_seed: int):
    """`op` annihilates a start vector EXACTLY (zero operator; H with an exactly zero row/column and the vector on that basis
    state) or the start vector is an exact eigenvector (1-dimensional Krylov space, n2 = 0 exactly): `lanczos` must return
    one vector and a 1x1 T. Entries of H are exact zeros where needed, the vectors are positive multiples of a basis vector,
    so `op(v)` and `w` are exactly zero in binary64."""
    np, torch = _np()
    rng = random.Random(case_seed)
    sub = rng.choice(["zero-op", "kernel-state", "kernel-grad", "kernel-both", "eigen-state", "eigen-both", "kernel-state-eigen-grad"])
    n = rng.randint(1, 9) if sub in ("zero-op",) else rng.randint(2, 9)
    g_ = np.random.default_rng(rng.getrandbits(48))
    G = g_.normal(size=(n, n)) + 1j * g_.normal(size=(n, n))
    H = (G + G.conj().T) / 2
    H = H / max(np.linalg.norm(H, 2), 1e-300) * rng.choice([0.05, 0.5, 2.0, 5.0])
    k1, k2 = rng.randrange(n), rng.randrange(n)
    if n > 1 and k2 == k1 and rng.random() < 0.5:
        k2 = (k1 + 1) % n
    basis = lambda k: np.eye(n, dtype=complex)[k] * rng.choice([1.0, 0.5, 2.0, 0.01, 30.0])
    s = gen_vec(rng, n)
    g = gen_vec(rng, n)
    exp_s = exp_g = None                 # expected 1x1 T entry (in units of op = -i H), None = generic run
    if sub == "zero-op":
        H = np.zeros((n, n), dtype=complex)
        exp_s = exp_g = 0.0
    else:
        lam1, lam2 = rng.choice([0.0, 0.75, -2.5]), rng.choice([0.0, 1.25])
        if sub.startswith("kernel"):
            lam1 = 0.0
        if sub in ("kernel-both",):
            lam2 = 0.0
        for k, lam in ((k1, lam1), (k2, lam2)):
            H[k, :] = 0
            H[:, k] = 0
        H[k1, k1] = lam1
        if k2 != k1:
            H[k2, k2] = lam2
        if sub in ("kernel-state", "eigen-state", "kernel-both", "eigen-both", "kernel-state-eigen-grad"):
            s = basis(k1)
            exp_s = -1j * lam1
        if sub in ("kernel-grad", "kernel-both", "eigen-both", "kernel-state-eigen-grad"):
            kk = k2 if sub != "kernel-grad" else k1
            g = basis(kk)
            exp_g = -1j * (lam1 if kk == k1 else lam2)
    tol = 10.0 ** (-rng.randint(6, 12))
    return dict(kind="degenerate/" + sub, n=n, A=-1j * H, s=s, g=g, tol=tol, vec=sub, case_seed=case_seed, exp_s=exp_s, exp_g=exp_g)


def eval_degenerate_case(c):
    """problems (list of strings) of the real `lanczos` / `double_krylov` on a degenerate case"""
    np, torch = _np()
    import emu_base.math.double_krylov as dkm
    A = torch.tensor(c["A"])
    probs = []
    for name, v, expT in (("state", c["s"], c["exp_s"]), ("grad", c["g"], c["exp_g"])):
        if expT is None:
            continue
        try:
            qs, T = dkm.lanczos(lambda x: A @ x, torch.tensor(v), c["tol"])
        except Exception as e:
            probs.append(f"lanczos(op, {name}) with op({name}) = {'0' if expT == 0 else 'lambda*' + name} exactly raised {type(e).__name__}: {e}")
            continue
        if len(qs) != 1 or tuple(T.shape) != (1, 1):
            probs.append(f"lanczos(op, {name}): 1-dimensional Krylov space but {len(qs)} vectors, T of shape {tuple(T.shape)}")
        elif not bool(torch.isfinite(torch.view_as_real(T)).all()) or abs(complex(T[0, 0]) - expT) > 1e-13:
            probs.append(f"lanczos(op, {name}): T = {complex(T[0, 0])!r}, expected {expT!r}")
        if not all(bool(torch.isfinite(torch.view_as_real(q)).all()) for q in qs):
            probs.append(f"lanczos(op, {name}): non-finite Lanczos vector")
    ex, detail, _ = eval_frechet_case(c)
    if ex > 0 or ex != ex:
        probs.append("double_krylov: " + detail)
    return probs


def oracle_degenerate(rep: Report, seed: int, count: int) -> None:
    nfail = 0
    for i in range(count):
        case_seed = seed * 1000003 + 7 * i + 2
        c = gen_degenerate_case(case_seed)
        info = dict(kind="dk-degenerate", family=c["kind"], n=c["n"], tol=c["tol"], case_seed=case_seed)
        rep.case(key=("dk-degenerate", case_seed), nontrivial=True, trace=False)
        rep.hist("dk_degenerate_family", c["vec"])
        probs = eval_degenerate_case(c)
        if probs:
            nfail += 1
            rep.fail("; ".join(probs), info)
            if nfail >= 5:               # a broken breakdown test makes every such call run to max_krylov_dim: enough evidence
                rep.extra["dk_degenerate_stopped_after"] = i + 1
                break
    rep.extra["dk_degenerate_cases"] = count


# ------------------------------------------------------------------------------------------------ zero first step
def gen_zero_step_case(case_seed: int):
    """two-step schedule from |g…g>; the FIRST step has amplitude exactly 0 (detuning 0 or arbitrary - n|g> = 0 either way -,
    phase 0 or arbitrary, U arbitrary), so H_1 annihilates the state exactly; the second step is generic"""
    np, torch = _np()
    rng = random.Random(case_seed)
    n = rng.choice([1, 2, 4])
    g_ = np.random.default_rng(rng.getrandbits(48))
    om = np.stack([np.zeros(n), 1.0 + np.abs(g_.normal(size=n)) * 3])
    de = np.stack([np.zeros(n) if rng.random() < 0.5 else g_.normal(size=n) * 4, g_.normal(size=n) * 4])
    ph = np.stack([np.zeros(n) if rng.random() < 0.5 else g_.normal(size=n), np.zeros(n) if rng.random() < 0.3 else g_.normal(size=n)])
    U, _ = sparse_U_np(rng, g_, n, 3.0)
    r = g_.normal(size=2 ** n) + 1j * g_.normal(size=2 ** n)
    w = g_.normal(size=n)
    dts = [rng.choice([0.01, 0.1, 0.5]), rng.choice([0.05, 0.2, 0.5])]
    tol = 10.0 ** (-rng.randint(8, 12))
    return dict(n=n, om=om, de=de, ph=ph, U=U, r=r, w=w, dts=dts, tol=tol, case_seed=case_seed)


def eval_zero_step_case(c):
    """(problem or None, worst ratio) — forward + backward of the real EvolveStateVector through both steps vs the dense chain
    (scipy expm / expm_frechet, numpy-kron H): loss L = Re<r|psi> + sum_k w_k <n_k>"""
    np, torch = _np()
    import scipy.linalg as sla
    from harness import compat, treevec_io as tio
    compat.install()
    from emu_sv.time_evolution import EvolveStateVector
    n = c["n"]
    t = lambda x: torch.tensor(x, dtype=torch.float64).requires_grad_(True)
    om, de, ph, U = t(c["om"]), t(c["de"]), t(c["ph"]), t(c["U"])
    psi0 = np.zeros(2 ** n, dtype=complex)
    psi0[0] = 1.0
    st = torch.tensor(psi0).requires_grad_(True)
    occ = sum(c["w"][k] * tio.np_embed(n, k, tio.NOP) for k in range(n))
    Mt, rt = torch.tensor(occ), torch.tensor(c["r"])
    try:
        psi = st.clone()
        for s_ in range(2):
            psi, _ = EvolveStateVector.apply(c["dts"][s_], om[s_], de[s_], ph[s_], U, psi, c["tol"], None)
        L = torch.vdot(rt, psi).real + torch.vdot(psi, Mt @ psi).real
        grads = torch.autograd.grad(L, [om, de, ph, U, st], allow_unused=True)
    except Exception as e:
        return f"raised {type(e).__name__}: {e}", None
    # dense chain
    Hs = [tio.np_dense_h(c["om"][s_], c["de"][s_], np.cos(c["ph"][s_]), np.sin(c["ph"][s_]), c["U"], n) for s_ in range(2)]
    Us = [sla.expm(-1j * c["dts"][s_] * Hs[s_]) for s_ in range(2)]
    psi1 = Us[0] @ psi0
    psi2 = Us[1] @ psi1
    out_dev = float(np.abs(psi.detach().numpy() - psi2).max())
    g2 = c["r"] + 2 * occ @ psi2
    g1 = Us[1].conj().T @ g2
    refs = [dense_backward(dict(n=n, dt=c["dts"][0], om=c["om"][0], de=c["de"][0], ph=c["ph"][0], U=c["U"], psi=psi0, g=g1)),
            dense_backward(dict(n=n, dt=c["dts"][1], om=c["om"][1], de=c["de"][1], ph=c["ph"][1], U=c["U"], psi=psi1, g=g2))]
    want = dict(omega=np.stack([refs[0]["omega"], refs[1]["omega"]]), delta=np.stack([refs[0]["delta"], refs[1]["delta"]]),
                phi=np.stack([refs[0]["phi"], refs[1]["phi"]]), U=refs[0]["U"] + refs[1]["U"], state=refs[0]["state"])
    gn = float(np.linalg.norm(g2))
    amp = 1.0
    for A_, v in ((refs[0]["A"], psi0), (refs[0]["A"], g1 / gn), (refs[1]["A"], psi1), (refs[1]["A"], g2 / gn)):
        a = float(np.linalg.norm(A_ @ v))
        if a > 0:                                  # a = 0: exact breakdown, no truncation error from that run
            amp = max(amp, 0.1 / a)
    if out_dev > 100 * c["tol"] * amp + 1e-7:
        return f"forward result deviates from expm by {out_dev:.2e}", None
    worst = 0.0
    for name, got in zip(["omega", "delta", "phi", "U", "state"], grads):
        if got is None:
            return f"no gradient for {name}", None
        got = got.detach().numpy()
        if not np.all(np.isfinite(got)):
            return f"non-finite gradient d/d{name}: {got.reshape(-1)[:6].tolist()}", None
        op_norm = max(1.0, float(np.abs(c["om"]).max()) / 2) if name == "phi" else 1.0
        sc = (max(c["dts"]) * gn * op_norm if name != "state" else gn) * 2
        allow = TOL_BW * c["tol"] * amp * sc + (TOL_EXACT + KERNEL_CAP) * sc
        dev = float(np.abs(got - want[name]).max())
        worst = max(worst, dev / allow * TOL_BW)
        if dev > allow:
            idx = np.unravel_index(int(np.abs(got - want[name]).argmax()), got.shape)
            return (f"d/d{name}{list(map(int, idx))}: backward {got[idx]!r} vs dense Frechet chain {want[name][idx]!r} "
                    f"(|diff| {dev:.2e}, allowed {allow:.2e})"
                    + (f" [current value U{list(map(int, idx))} = {float(c['U'][idx])!r}; {U_NOTE}]" if name == "U" else "")), worst
    return None, worst


def _ser_schedule(c):
    return dict(n=c["n"], dts=c["dts"], tol=c["tol"], omega=c["om"].tolist(), delta=c["de"].tolist(), phi=c["ph"].tolist(),
                U=c["U"].tolist(), initial_state="all atoms in |g>")


def oracle_zero_first_step(rep: Report, seed: int, count: int) -> None:
    worst, nfail = 0.0, 0
    for i in range(count):
        case_seed = seed * 1000003 + 7 * i + 4
        c = gen_zero_step_case(case_seed)
        info = dict(kind="dk-zero-step", case_seed=case_seed, schedule=_ser_schedule(c))
        rep.case(key=("dk-zero-step", case_seed), nontrivial=True, trace=False)
        rep.hist("dk_zero_step_n", c["n"])
        prob, ratio = eval_zero_step_case(c)
        if ratio is not None:
            worst = max(worst, ratio)
        if prob is not None:
            nfail += 1
            rep.fail("EvolveStateVector through a zero-amplitude first step from |g…g> (H_1 annihilates the state): " + prob, info)
            if nfail >= 6:
                rep.extra["dk_zero_step_stopped_after"] = i + 1
                break
    rep.extra["dk_zero_step_cases"] = count
    rep.extra["dk_zero_step_worst_ratio"] = worst


# ------------------------------------------------------------------------------------------------ un-normalised initial state, whole run
def gen_unnorm_run_case(case_seed: int):
    np, torch = _np()
    rng = random.Random(case_seed)
    n, steps = rng.choice([1, 2, 3]), rng.randint(2, 3)
    g = np.random.default_rng(rng.getrandbits(48))
    psi = g.normal(size=2 ** n) + 1j * g.normal(size=2 ** n)
    psi /= np.linalg.norm(psi)
    U, _ = sparse_U_np(rng, g, n, 3.0)
    return dict(n=n, steps=steps, dt=rng.choice([40, 100]), norm=rng.choice([0.5, 2.0, 1.3]), psi=psi, U=U,
                om=np.abs(g.normal(size=(steps, n))) * 5 + 1, de=g.normal(size=(steps, n)) * 4, ph=g.normal(size=(steps, n)),
                w=g.normal(size=n), case_seed=case_seed)


def eval_unnorm_run_case(c):
    """a whole emu-sv run (SVBackend, hand-built SequenceData) started from `initial_state = norm * psi`; loss = weighted occupation at
    the end; autograd w.r.t. omega/delta/phi vs the 4th-order central difference (step 1e-4) in two entries each.
    -> (problem or None, klass)"""
    np, torch = _np()
    from harness import compat
    compat.install()
    import pulser.backend as pb
    from emu_base import SequenceData
    from emu_base.pulser_adapter import HamiltonianType, _InteractionMatrixCallable
    from emu_sv import StateVector
    n, steps, dt = c["n"], c["steps"], c["dt"]
    t = lambda x: torch.tensor(x, dtype=torch.float64).requires_grad_(True)
    params = dict(omega=t(c["om"]), delta=t(c["de"]), phi=t(c["ph"]))
    U, w = torch.tensor(c["U"]), torch.tensor(c["w"])
    psi0 = torch.tensor(c["psi"] * c["norm"])

    def f():
        data = SequenceData(params["omega"].to(torch.complex128), params["delta"].to(torch.complex128), params["phi"].to(torch.complex128),
                            _InteractionMatrixCallable(U, U, 0.0), tuple(f"q{q}" for q in range(n)), tuple([False] * n), [], 0.0,
                            [float(dt * k) for k in range(steps + 1)], ["r", "g"], HamiltonianType.Rydberg)
        cfg = compat.sv_config(observables=[pb.Occupation(evaluation_times=[1.0])], dt=dt, krylov_tolerance=1e-12,
                               initial_state=StateVector(psi0.clone(), gpu=False))
        return (w * compat.run_sv(data, cfg).get_result("occupation", 1.0)).sum()
    try:
        grads = dict(zip(params, torch.autograd.grad(f(), list(params.values()), allow_unused=True)))
    except Exception as e:
        return f"raised {type(e).__name__}: {e}", None
    rng = random.Random(c["case_seed"] ^ 0xFD)
    h, bad, bad_scaled, first = 1e-4, 0, 0, None
    for name, p in params.items():
        if grads[name] is None:
            return f"no gradient for {name}", None
        for _ in range(2):
            idx = (rng.randrange(steps), rng.randrange(n))
            old = p[idx].item()
            vals = []
            with torch.no_grad():
                for mult in (1, -1, 2, -2):
                    p[idx] = old + mult * h
                    vals.append(float(f()))
                p[idx] = old
            fd = (8 * (vals[0] - vals[1]) - (vals[2] - vals[3])) / (12 * h)
            ad = float(grads[name][idx])
            tolv = 1e-7 + 1e-5 * max(abs(ad), abs(fd))
            if abs(ad - fd) > tolv:
                bad += 1
                first = first or f"d/d{name}{list(idx)}: autograd {ad:.9e} vs finite difference {fd:.9e}"
            if abs(ad * c["norm"] - fd) > tolv * max(1.0, c["norm"]):
                bad_scaled += 1
    if bad == 0:
        return None, None
    klass = UNNORM_CLASS if bad_scaled == 0 else None
    return (f"{first} ({bad} of 6 entries differ; initial state of norm {c['norm']}"
            + (": every gradient is off by exactly the factor 1/||psi||)" if klass else ")")), klass


def oracle_unnormalised_run(rep: Report, seed: int, count: int) -> None:
    for i in range(count):
        case_seed = seed * 1000003 + 7 * i + 0
        c = gen_unnorm_run_case(case_seed)
        info = dict(kind="dk-unnorm-run", n=c["n"], steps=c["steps"], dt=c["dt"], state_norm=c["norm"], case_seed=case_seed)
        rep.case(key=("dk-unnorm-run", case_seed), nontrivial=True, trace=False)
        prob, klass = eval_unnorm_run_case(c)
        if prob is not None:
            rep.fail("emu-sv run with an un-normalised initial_state (accepted by StateVector and SVBackend): " + prob, info, klass=klass)
    rep.extra["dk_unnorm_run_cases"] = count


# ------------------------------------------------------------------------------------------------ second Lean stage
PROP_MODULE = "EmuVerif.Props.C30Frechet"
AUDIT = "Audit/C30Frechet.lean"


class LeanStage2(threading.Thread):
    """`lean_stage` for Props/C30Frechet.lean + Audit/C30Frechet.lean on a private Report, run while the Python side works
    (pattern of kry_common.LeanStageThread; the two-audit merge is the one of c26.py). `merge(rep)` joins, re-raises, and
    adds obligations / discharged / broken / checker command to the caller's report."""

    def __init__(self, tier: str, seed: int):
        super().__init__(daemon=True)
        self.rep2 = Report("C30", tier, seed)
        self.thorough = tier == "thorough"
        self.exc = None

    def run(self):
        from harness.common import lean_stage
        try:
            lean_stage(self.rep2, PROP_MODULE, AUDIT, thorough=self.thorough)
        except BaseException as e:
            self.exc = e

    def merge(self, rep: Report) -> None:
        self.join()
        if self.exc is not None:
            raise self.exc
        r2 = self.rep2
        if not r2.broken and len(r2.discharged) != len(r2.obligations):
            r2.broke("lean stage (C30Frechet) ended without discharging every obligation")
        rep.obligations = list(rep.obligations) + [o for o in r2.obligations if o not in rep.obligations]
        rep.discharged = list(rep.discharged) + [o for o in r2.discharged if o not in rep.discharged]
        for b in r2.broken:
            rep.broke(b)
        rep.checker_cmd = (rep.checker_cmd + " ; " if rep.checker_cmd else "") + r2.checker_cmd
        rep.extra["axioms_used"] = sorted(set(rep.extra.get("axioms_used", [])) | set(r2.extra.get("axioms_used", [])))
        if "leanchecker_rc" in r2.extra:
            rep.extra["leanchecker_rc_frechet"] = r2.extra["leanchecker_rc"]


# ------------------------------------------------------------------------------------------------ entry points
def run(rep: Report, tier: str, seed: int, drv: Driver | None = None) -> None:
    quick = tier == "quick"
    drv = drv or Driver()
    rep.assumptions += [
        "double_krylov: the Lanczos relations A Va = Va Ta, A Vb = Vb Tb are assumed exact in the theorem "
        "(Props.C30Frechet.double_krylov_identity); the truncation error of the real runs is measured by the dense oracle",
        "torch.matrix_exp / torch.linalg.matrix_exp are oracle tapes of the bookkeeping model (validated against scipy.linalg.expm "
        "through the dense oracle)",
    ]
    correspondence_tape(rep, drv, seed, 60 if quick else 600)
    correspondence_aux(rep, drv, random.Random(seed * 7919 + 31), 30 if quick else 300)
    correspondence_dense(rep, drv, seed, 20 if quick else 200)
    oracle_frechet(rep, seed, 120 if quick else 2000)
    oracle_degenerate(rep, seed, 40 if quick else 400)
    oracle_backward(rep, seed, 40 if quick else 400)
    oracle_zero_first_step(rep, seed, 12 if quick else 120)
    oracle_unnormalised_run(rep, seed, 2 if quick else 12)


def search(rep: Report, seed: int, count: int) -> None:
    oracle_frechet(rep, seed + 7777, count * 4)
    oracle_backward(rep, seed + 7777, count)


def replay_one(d: dict) -> int | None:
    """re-evaluate a stored failing input of this module; None = not one of ours"""
    k = d.get("kind")
    if k == "dk-frechet":
        c = gen_case(d["case_seed"])
        ex, detail, _ = eval_frechet_case(c)
        print(f"replay: double_krylov on case_seed={d['case_seed']} ({c['kind']}, n={c['n']}, tol={c['tol']:.0e}): {detail}",
              "FAILS" if ex > 0 else "holds now")
        return int(ex > 0)
    if k == "dk-backward":
        c = gen_backward_case(d["case_seed"])
        ex, detail, _, _k = eval_backward_case(c)
        # a stored input with an un-normalised state on which ONLY the known 1/||psi|| factor remains is not a new failure
        verdict = "holds now" if ex <= 0 else ("holds now apart from known finding F-frechet-1" if _k == UNNORM_CLASS else "FAILS")
        print(f"replay: EvolveStateVector.backward on case_seed={d['case_seed']} (n={c['n']}, dt={c['dt']}, tol={c['tol']:.0e}, "
              f"||psi|| = {c['psi_norm']}): {detail}", verdict)
        return int(verdict == "FAILS")
    if k == "dk-unnorm-run":
        c = gen_unnorm_run_case(d["case_seed"])
        prob, klass = eval_unnorm_run_case(c)
        print(f"replay: emu-sv run from an initial state of norm {c['norm']} (case_seed={d['case_seed']}, N={c['n']}):",
              prob or "gradients equal finite differences", ("FAILS" + (f" [{klass}]" if klass else "")) if prob else "holds now")
        return int(prob is not None)
    if k == "dk-degenerate":
        c = gen_degenerate_case(d["case_seed"])
        probs = eval_degenerate_case(c)
        print(f"replay: lanczos/double_krylov on degenerate case_seed={d['case_seed']} ({c['kind']}, n={c['n']}, tol={c['tol']:.0e}):",
              "; ".join(probs) if probs else "1x1 T, finite, equals the dense Frechet derivative", "FAILS" if probs else "holds now")
        return int(bool(probs))
    if k == "dk-zero-step":
        c = gen_zero_step_case(d["case_seed"])
        prob, _ = eval_zero_step_case(c)
        print(f"replay: EvolveStateVector, zero-amplitude first step from |g..g>, case_seed={d['case_seed']} (N={c['n']}):",
              prob or "gradients finite and equal to the dense chain", "FAILS" if prob else "holds now")
        return int(prob is not None)
    if k == "dk-tape":
        np, torch = _np()
        c = boundary_case(d["case_seed"]) if d.get("boundary") else gen_case(d["case_seed"], small=d.get("small", False))
        A = torch.tensor(c["A"])
        rec = record(lambda x: A @ x, torch.tensor(c["s"]), torch.tensor(c["g"]), c["tol"])
        print(f"replay: double_krylov on case_seed={d['case_seed']}:", rec.raised or "returned", "FAILS" if rec.raised not in (None, "recursion") else "holds now")
        return int(rec.raised not in (None, "recursion"))
    return None
