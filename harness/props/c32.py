"""C32 — qubit-order optimisation returns a valid, no-worse permutation; helpers consistent
(emu_mps/optimatrix/optimiser.py, permutations.py).

Lean: EmuVerif.Props.C32 (result is a permutation, loop invariant matrix = permute(|M|, acc),
bandwidth no worse, the closing assert is dead, matrix_bandwidth = max |M_ij (j-i)|, helper
consistency) for every n, every matrix and every oracle tape that returns permutations.
Correspondence: exact — `matrix_bandwidth`, `is_symmetric`, `minimize_bandwidth_global`,
`minimize_bandwidth_impl`, `minimize_bandwidth` of the real module against Model.Bandwidth run at
binary64 on the same matrices, with SciPy RCM / torch.randperm recorded (or forced) through
unittest.mock.patch tapes; helper functions against Model.Perm. Oracle on the real code: output is
a permutation, bandwidth no worse, reported bandwidth = bandwidth of the permuted matrix.
"""
from __future__ import annotations

import json
import math

from harness.common import Driver, LeanError, Report, f2b, b2f, lst, lean_stage, seeded
from harness.props import perm_common as pc

REGISTRY = dict(
    text=("Lean 4 theorems over every linear ordered field, every size n, every square matrix and every oracle tape: "
          "matrix_bandwidth is max|M[i][j](j-i)|; the loop of minimize_bandwidth_impl keeps matrix = permute(|M|, acc) with "
          "acc a permutation and only accepts strict improvements; minimize_bandwidth returns a permutation of 0..n-1 whose "
          "bandwidth on |M| (and on M) is <= matrix_bandwidth(M); the closing assert can never fire; permute_list/tuple/"
          "string/tensor are the same gather, inv_permutation is a two-sided inverse, inverting undoes permuting. "
          "Purity (no optimiser function modifies the matrix or permutation it is given) is not a theorem: the model takes |M| as a pure function; it is checked bit-for-bit on every call of the real code. Assumed (contract, validated on every run): SciPy reverse_cuthill_mckee and torch.randperm return permutations "
          "of 0..n-1. Model tied to the code by exact correspondence (bit-identical bandwidths, identical permutations)."),
    note=("Trusted: Lean kernel + propext/Classical.choice/Quot.sound; Mathlib; hand-written Model.Bandwidth/Model.Perm tied by "
          "correspondence only (sizes 0..30); the thresholding inside minimize_bandwidth_above_threshold and RCM itself are an "
          "oracle (any permutation); binary64 rounding of |m*(j-i)| is outside the theorems but identical in model and code; "
          "non-square / NaN / inf inputs and negative indices are outside the modelled domain."),
    technique="Lean 4 proof (induction over the oracle tape and the restart list) + exact model/implementation correspondence",
    design_ref="DESIGN.md §5 C32",
)

PROP_MODULE = "EmuVerif.Props.C32"
AUDIT = "Audit/C32.lean"
ATOL, RTOL = 1e-8, 1e-5
NTHR = 90


# ------------------------------------------------------------------ generators
def gen_matrix(rng, n: int, kind: str | None = None):
    """(kind, symmetric float64 n×n nested list). Ties, zero rows, signs, realistic 1/r^6."""
    kind = kind or rng.choice(["dyadic", "dyadic", "zero_rows", "float", "geom", "chain", "ring", "grid", "zero", "dense_ties"])
    M = [[0.0] * n for _ in range(n)]

    def put(i, j, v):
        M[i][j] = v
        M[j][i] = v
    if kind in ("dyadic", "zero_rows"):
        dens = rng.choice([0.1, 0.3, 0.6, 1.0])
        vals = [1.0, 1.0, 2.0, 0.5, 3.0, 0.25, 4.0]
        for i in range(n):
            for j in range(i, n):
                if rng.random() < dens:
                    put(i, j, rng.choice(vals) * rng.choice([1, 1, -1]))
        if kind == "zero_rows" and n:
            for i in rng.sample(range(n), rng.randint(1, max(1, n // 3))):
                for j in range(n):
                    put(i, j, 0.0)
    elif kind == "float":
        dens = rng.choice([0.2, 0.5, 1.0])
        for i in range(n):
            for j in range(i, n):
                if rng.random() < dens:
                    put(i, j, rng.uniform(-1, 1) * 10 ** rng.uniform(-3, 3))
    elif kind == "geom":
        pts = [(rng.uniform(0, 30), rng.uniform(0, 30)) for _ in range(n)]
        c6 = rng.choice([1.0, 5420158.53, 865723.02])
        for i in range(n):
            for j in range(i + 1, n):
                r = math.dist(pts[i], pts[j]) + 1.0
                put(i, j, c6 / r ** 6 * rng.choice([1, 1, 1, -1]))
    elif kind in ("chain", "ring", "grid"):
        lab = pc.rand_perm(rng, n)          # scrambled labelling: there is something to optimise
        edges = [(k, k + 1) for k in range(n - 1)]
        if kind == "ring" and n > 2:
            edges.append((n - 1, 0))
        if kind == "grid":
            w = max(1, int(math.sqrt(n)))
            edges = [(k, k + 1) for k in range(n - 1) if (k + 1) % w] + [(k, k + w) for k in range(n - w)]
        wgt = rng.choice([1.0, -1.0, 2.5])
        for a, b in edges:
            put(lab[a], lab[b], wgt)
    elif kind == "dense_ties":
        for i in range(n):
            for j in range(i, n):
                put(i, j, rng.choice([1.0, -1.0]))
    return kind, M


def gen_asym(rng, n: int):
    """a matrix for the rejecting branch: symmetric up to one entry, the defect on a lattice around
    the allclose threshold atol + rtol*|b| (so that <= is hit at and next to equality)."""
    kind, M = gen_matrix(rng, n, rng.choice(["dyadic", "float", "geom"]))
    i, j = rng.randrange(n), rng.randrange(n)
    b = M[j][i]
    thr = ATOL + abs(RTOL * b)
    delta = rng.choice([thr, thr * (1 + 2 ** -50), thr * (1 - 2 ** -50), thr * 2, thr / 2, 1.0, 1e-3, 1e-9, 0.0]) * rng.choice([1, -1])
    M[i][j] = b + delta
    return "asym:" + kind, M


def py_bandwidth(M, p=None):
    """max |M[p a][p b] * (b - a)| in plain Python floats (one correctly rounded product per entry,
    like torch); independent of the repo and of torch."""
    n = len(M)
    p = list(range(n)) if p is None else p
    best = None
    for a in range(n):
        for b in range(n):
            w = abs(M[p[a]][p[b]] * (b - a))
            best = w if best is None or w > best else best
    return best


# ------------------------------------------------------------------ tapes around the real code
class Tapes:
    """Interposes on `reverse_cuthill_mckee` (as seen by optimiser.py) and `torch.randperm`.
    mode 'record': the real kernels answer and are recorded; mode 'forced': the harness answers with
    permutations of its own choice (any permutation meets the contract)."""

    def __init__(self, rng, n, mode, flavour="mixed", spy=False, rnd_mode=None):
        self.rng, self.n, self.mode, self.flavour, self.spy = rng, n, mode, flavour, spy
        self.rnd_mode = rnd_mode or mode
        self.rcm, self.rnd, self.candidates = [], [], []

    def _forced(self, real):
        if self.flavour == "identity":          # an RCM that never improves anything (still a permutation)
            return list(range(self.n))
        r = self.rng.random()
        if self.flavour == "random" or r < 0.5:
            return pc.rand_perm(self.rng, self.n)
        if r < 0.6:
            return list(range(self.n))
        if r < 0.75 and self.rcm:
            return list(self.rng.choice(self.rcm))          # repeated candidate: exact key ties
        return [int(i) for i in real()]

    def __enter__(self):
        import numpy as np
        import torch
        from unittest import mock
        import emu_mps.optimatrix.optimiser as opt
        real_rcm, real_rp = opt.reverse_cuthill_mckee, torch.randperm

        def rcm(graph, symmetric_mode=False):
            if self.mode == "record":
                r = real_rcm(graph, symmetric_mode=symmetric_mode)
                self.rcm.append([int(i) for i in r])
                return r
            p = self._forced(lambda: real_rcm(graph, symmetric_mode=symmetric_mode))
            self.rcm.append(p)
            return np.array(p, dtype=np.int32)

        def rp(L, *a, out=None, **kw):
            # faithful to torch.randperm: with `out=` the answer is written INTO the caller's buffer and that
            # very tensor is returned (aliasing is part of the behaviour of the code under test)
            if self.rnd_mode == "record":
                r = real_rp(L, *a, out=out, **kw) if out is not None else real_rp(L, *a, **kw)
            else:
                r = torch.tensor(pc.rand_perm(self.rng, int(L)), dtype=torch.int64)
                if out is not None:
                    out.resize_(r.shape).copy_(r)
                    r = out
            self.rnd.append([int(i) for i in r.tolist()])
            return r

        real_impl = opt.minimize_bandwidth_impl

        def impl_spy(matrix, initial_perm):
            # candidates as they are *at return time* (copies): what `min` is entitled to choose from
            p, bw = real_impl(matrix, initial_perm)
            self.candidates.append(([int(i) for i in p.tolist()], float(bw)))
            return p, bw
        self.candidates = []
        self._cm = [mock.patch.object(opt, "reverse_cuthill_mckee", rcm), mock.patch.object(torch, "randperm", rp)]
        if self.spy:
            self._cm.append(mock.patch.object(opt, "minimize_bandwidth_impl", impl_spy))
        for c in self._cm:
            c.__enter__()
        return self

    def __exit__(self, *exc):
        for c in reversed(self._cm):
            c.__exit__(*exc)
        return False


def contract_ok(n, perms):
    ident = list(range(n))
    return all(sorted(p) == ident for p in perms)


def bits(t):
    """bit-exact snapshot of a tensor (float64 -> int64 view, so that -0.0 vs +0.0 and NaN payloads count)"""
    import torch
    c = t.detach().clone()
    return c.view(torch.int64) if c.dtype == torch.float64 and c.numel() else c


def same_bits(t, snap) -> bool:
    import torch
    return torch.equal(bits(t), snap)


INPLACE_MSG = "{} modified its input {} in place (none of the optimiser functions is documented as in-place)"


def run_minimize(M, samples, tapes: Tapes):
    """-> (status, perm|None); status ok / notsymmetric / notoptimised / toomanysteps / emptymax.
    `tapes.mutated` tells whether the input tensor is bit-identical after the call."""
    import torch
    from emu_mps.optimatrix import optimiser as opt
    t = torch.tensor(M, dtype=torch.float64).reshape(len(M), len(M))
    snap = bits(t)
    with tapes:
        try:
            r = opt.minimize_bandwidth(t, samples=samples)
            out = "ok", [int(i) for i in r.tolist()]
        except AssertionError as e:
            out = ("notsymmetric" if "symmetric" in str(e) else "notoptimised"), None
        except NotImplementedError:
            out = "toomanysteps", None
        except RuntimeError:
            out = "emptymax", None
    tapes.mutated = not same_bits(t, snap)
    return out


def purity_probe(fn: str, M, init=None, samples=1):
    """call one optimiser function of the real module (real RCM) on a fresh tensor of M; failure string
    if the matrix (or the initial permutation) is not bit-identical afterwards, else None."""
    import torch
    from emu_mps.optimatrix import optimiser as opt
    n = len(M)
    t = torch.tensor(M, dtype=torch.float64).reshape(n, n)
    snap = bits(t)
    it = torch.tensor(init if init is not None else list(range(n)), dtype=torch.int64)
    isnap = bits(it)
    try:
        if fn == "minimize_bandwidth":
            opt.minimize_bandwidth(t, samples=samples)
        elif fn == "minimize_bandwidth_impl":
            opt.minimize_bandwidth_impl(t, it)
        elif fn == "minimize_bandwidth_global":
            opt.minimize_bandwidth_global(t)
        elif fn == "matrix_bandwidth":
            opt.matrix_bandwidth(t)
        elif fn == "is_symmetric":
            opt.is_symmetric(t)
        else:
            opt.minimize_bandwidth_above_threshold(t, 0.5)
    except (AssertionError, NotImplementedError, RuntimeError):
        pass
    if not same_bits(t, snap):
        return INPLACE_MSG.format(fn, "matrix")
    if not same_bits(it, isnap):
        return INPLACE_MSG.format(fn, "initial permutation")
    return None


# ------------------------------------------------------------------ property oracle on the real code
def oracle_minimize(M, status, perm):
    """C32 on one real run of minimize_bandwidth (symmetric input). Failure string or None."""
    n = len(M)
    if status == "notoptimised":
        return "minimize_bandwidth raised 'Matrix is not optimised'"
    if status != "ok":
        return None
    if sorted(perm) != list(range(n)):
        return f"returned order {perm} is not a permutation of 0..{n - 1}"
    A = [[abs(x) for x in row] for row in M]
    if py_bandwidth(A, perm) > py_bandwidth(M):
        return f"bandwidth of the returned order {py_bandwidth(A, perm)!r} > original {py_bandwidth(M)!r}"
    return None


def oracle_best(M, perm, candidates):
    """`min(candidates, key=bandwidth)`: the returned order must be (a copy of) the first candidate of
    minimal bandwidth, and its ACTUAL bandwidth on |M| must be that minimum (theorem `choose_best_spec`)."""
    if not candidates:
        return None
    A = [[abs(x) for x in row] for row in M]
    best = min(bw for _, bw in candidates)
    first = next(p for p, bw in candidates if bw == best)
    actual = py_bandwidth(A, perm)
    if actual != best:
        return (f"returned order {perm} has bandwidth {actual!r} but the best candidate {first} has {best!r} "
                f"(original order: {py_bandwidth(M)!r})")
    if perm != first:
        return f"returned order {perm} is not the first best candidate {first} (min(...) keeps the first minimum)"
    return None


def oracle_impl(M, init, perm, bw):
    n = len(M)
    if sorted(perm) != list(range(n)):
        return f"minimize_bandwidth_impl returned {perm}, not a permutation"
    if py_bandwidth(M, perm) != bw:
        return f"reported bandwidth {bw!r} is not the bandwidth {py_bandwidth(M, perm)!r} of permute(M, result)"
    if bw > py_bandwidth(M, init):
        return "minimize_bandwidth_impl made the bandwidth worse than its initial permutation"
    return None


# ------------------------------------------------------------------ correspondence pieces
def sizes(rng, nmax=30):
    return rng.choice([1, 2, 3, 4, 5, 6, 8, rng.randint(1, 12), rng.randint(1, 12), rng.randint(8, 20), rng.randint(1, nmax)])


def corr_bandwidth_sym(rep, rng, ncases):
    import torch
    from emu_mps.optimatrix import optimiser as opt
    lines, exp, meta = [], [], []
    for k in range(ncases):
        n = rng.choice([0, 1, 2, 3, rng.randint(1, 30)])
        if rng.random() < 0.5 and n:
            kind, M = gen_asym(rng, n)
        else:
            kind, M = gen_matrix(rng, n)
        if rng.random() < 0.3 and n:            # arbitrary (also non-symmetric) floats for matrix_bandwidth
            M = [[rng.uniform(-5, 5) * rng.choice([0, 1, 1]) for _ in range(n)] for _ in range(n)]
            kind = "arbitrary"
        t = torch.tensor(M, dtype=torch.float64).reshape(n, n)
        try:
            e = f2b(opt.matrix_bandwidth(t))
        except RuntimeError:
            e = "emptymax"
        lines.append("bw.band " + pc.enc_matF(M)); exp.append(e); meta.append(("matrix_bandwidth", kind, n, M))
        snap = bits(t)
        e2 = "1" if opt.is_symmetric(t) else "0"
        if not same_bits(t, snap):
            rep.fail(INPLACE_MSG.format("matrix_bandwidth/is_symmetric", "matrix"), dict(kind="inplace", fn="matrix_bandwidth", M=M))
        lines.append(f"bw.sym {f2b(ATOL)} {f2b(RTOL)} {pc.enc_matF(M)}"); exp.append(e2); meta.append(("is_symmetric", kind, n, M))
        rep.hist("is_symmetric", e2)
    return lines, exp, meta


def corr_global_impl(rep, rng, ncases):
    """single calls of minimize_bandwidth_global / minimize_bandwidth_impl from arbitrary states
    (any square matrix — symmetry is not needed below minimize_bandwidth), forced oracle."""
    import torch
    from emu_mps.optimatrix import optimiser as opt
    lines, exp, meta = [], [], []
    for k in range(ncases):
        n = sizes(rng, 16)
        if rng.random() < 0.3:
            kind, M = "arbitrary", [[float(rng.randint(-3, 3)) * rng.choice([0, 1]) for _ in range(n)] for _ in range(n)]
        else:
            kind, M = gen_matrix(rng, n)
        t = torch.tensor(M, dtype=torch.float64).reshape(n, n)
        tapes = Tapes(rng, n, "forced", rng.choice(["mixed", "random"]))
        snap = bits(t)
        if rng.random() < 0.4:
            with tapes:
                r = opt.minimize_bandwidth_global(t)
            if not same_bits(t, snap):
                rep.fail(INPLACE_MSG.format("minimize_bandwidth_global", "matrix"), dict(kind="inplace", fn="minimize_bandwidth_global", M=M))
            lines.append(f"bw.global {pc.enc_matF(M)} {pc.enc_perms(tapes.rcm)}")
            perm = [int(i) for i in r.tolist()]
            from emu_mps.optimatrix.permutations import permute_tensor
            exp.append(f"ok {pc.enc_perm(perm)} {f2b(opt.matrix_bandwidth(permute_tensor(t, r)))}")
            meta.append(("global", kind, n, dict(M=M, cands=tapes.rcm)))
            rep.hist("global_pick_index", min(tapes.rcm.index(perm), 10))
        else:
            init = rng.choice([list(range(n)), pc.rand_perm(rng, n)])
            it = torch.tensor(init, dtype=torch.int64)
            with tapes:
                try:
                    r, bw = opt.minimize_bandwidth_impl(t, it)
                    perm = [int(i) for i in r.tolist()]
                    e = f"ok {pc.enc_perm(perm)} {f2b(bw)} {len(tapes.rcm)}"
                    msg = oracle_impl(M, init, perm, bw)
                    if msg:
                        rep.fail(msg, dict(kind="impl", M=M, init=init, rcm=tapes.rcm))
                except NotImplementedError:
                    e = "toomanysteps"
            if not same_bits(t, snap) or it.tolist() != init:
                rep.fail(INPLACE_MSG.format("minimize_bandwidth_impl", "matrix" if not same_bits(t, snap) else "initial permutation"),
                         dict(kind="inplace", fn="minimize_bandwidth_impl", M=M, init=init))
            lines.append(f"bw.impl {NTHR} {pc.enc_matF(M)} {pc.enc_perm(init)} {pc.enc_perms(tapes.rcm)}")
            exp.append(e)
            meta.append(("impl", kind, n, dict(M=M, init=init, rcm=tapes.rcm)))
            rep.hist("impl_accepted_steps", "raise" if e == "toomanysteps" else len(tapes.rcm) // NTHR - 1)
        if len(tapes.rcm) % NTHR:
            rep.broke(f"minimize_bandwidth_global no longer makes {NTHR} oracle calls ({len(tapes.rcm)} recorded)")
    return lines, exp, meta


def corr_minimize(rep, rng, ncases, big):
    """whole runs of minimize_bandwidth: recorded real RCM/randperm and forced tapes; rejecting inputs."""
    lines, exp, meta = [], [], []
    import torch
    for k in range(ncases):
        n = sizes(rng) if k >= big else (rng.choice([6, 8, 10]) if k == 0 else 30)
        if k == big:
            n = 0                                   # torch.max of an empty tensor raises
        mode = rng.choice(["record", "record", "forced"])
        samples = rng.choice([0, 1, 2, 3, 5]) if k >= big else (100 if k == 0 else 10)
        if n > 20 and k >= big:
            samples = min(samples, 2)
        if rng.random() < 0.15 and n:
            kind, M = gen_asym(rng, n)
        else:
            kind, M = gen_matrix(rng, n)
        tapes = Tapes(rng, n, mode, rng.choice(["mixed", "mixed", "identity"]), spy=True)
        torch.manual_seed(rng.randrange(2 ** 31))
        status, perm = run_minimize(M, samples, tapes)
        if status == "ok":
            msg = oracle_best(M, perm, tapes.candidates)
            if msg:
                rep.fail(msg, dict(kind="minimize", M=M, samples=samples, mode="forced", rcm=tapes.rcm, rnd=tapes.rnd, best=True))
        if tapes.mutated:
            rep.fail(INPLACE_MSG.format("minimize_bandwidth", "matrix"), dict(kind="inplace", fn="minimize_bandwidth", M=M, samples=min(samples, 2)))
        rep.hist("input_has_negative_entry", any(x < 0 or (x == 0 and math.copysign(1, x) < 0) for row in M for x in row))
        if not contract_ok(n, tapes.rcm) or not contract_ok(n, tapes.rnd):
            rep.fail("oracle contract violated: reverse_cuthill_mckee / torch.randperm returned a non-permutation",
                     dict(kind="contract", M=M, samples=samples))
        if not kind.startswith("asym") or status != "notsymmetric":
            msg = oracle_minimize(M, status, perm)
            if msg:
                rep.fail(msg, dict(kind="minimize", M=M, samples=samples, mode=mode, rcm=tapes.rcm, rnd=tapes.rnd))
            if status == "toomanysteps" and mode == "record":
                rep.fail("minimize_bandwidth raised NotImplementedError with the real RCM",
                         dict(kind="minimize", M=M, samples=samples, mode=mode, rcm=[], rnd=tapes.rnd))
        lines.append(" ".join(["bw.min", f2b(ATOL), f2b(RTOL), str(NTHR), str(samples), pc.enc_matF(M),
                               pc.enc_perms(tapes.rnd), pc.enc_perms(tapes.rcm)]))
        exp.append("ok " + pc.enc_perm(perm) if status == "ok" else status)
        meta.append(("minimize", kind, n, dict(M=M, samples=samples, mode=mode, n_rcm=len(tapes.rcm))))
        rep.hist("minimize_mode", mode)
        rep.hist("minimize_status", status)
        rep.hist("matrix_kind", kind.split(":")[0])
        rep.hist("n_bucket", f"{(n // 5) * 5}-{(n // 5) * 5 + 4}")
        rep.hist("samples", samples)
        if status == "ok":
            rep.hist("result_is_identity", perm == list(range(n)))
        rep.count("oracle_answers_validated", len(tapes.rcm) + len(tapes.rnd))
    return lines, exp, meta


# ------------------------------------------------------------------ check
def check(rep: Report, tier: str, seed: int) -> None:
    rep.rule = ("cases = one call of matrix_bandwidth / is_symmetric / minimize_bandwidth_global / minimize_bandwidth_impl / "
                "minimize_bandwidth / a permutation helper on inputs from one PRNG: symmetric float64 matrices n=0..30 (dyadic with "
                "ties, zero rows, random floats over 6 decades, 1/r^6 geometries, scrambled chains/rings/grids, all-zero, all-ones, "
                "negative signs), asymmetric ones on a lattice around the allclose threshold; oracle tapes recorded from SciPy "
                "RCM/torch.randperm or forced (random permutations, identity, repeated candidates). non-trivial = n >= 2; distinct = "
                "distinct request lines")
    rep.assumptions = [
        "contract: scipy reverse_cuthill_mckee and torch.randperm return permutations of 0..n-1 (every recorded answer is checked)",
        "binary64 rounding is outside the theorems; model and code perform the same single rounded product per entry (bit-exact compare)",
        "forced tapes stand for 'any RCM that meets the contract'; the thresholding fed to RCM is not modelled",
    ]
    lean_stage(rep, PROP_MODULE, AUDIT, thorough=(tier == "thorough"))
    rng = seeded(seed * 7919 + 32)
    quick = tier == "quick"
    lines, exp, meta = [], [], []
    for part in (corr_bandwidth_sym(rep, rng, 100 if quick else 3000),
                 corr_global_impl(rep, rng, 40 if quick else 1200),
                 corr_minimize(rep, rng, 26 if quick else 600, big=2 if quick else 12)):
        lines += part[0]; exp += part[1]; meta += part[2]
    try:
        out = pc.par_batch(lines, 12)
    except LeanError as e:
        rep.broke("driver: " + str(e)[-800:])
        out = [None] * len(lines)
    dis = 0
    for l, m, e, (fn, kind, n, data) in zip(lines, out, exp, meta):
        rep.case(key=hash(l), nontrivial=n >= 2, sample={"fn": fn, "matrix": kind, "n": n, "reply": e[:60]})
        rep.hist("function", fn)
        if m is not None and m != e:
            dis += 1
            if dis <= 5:
                rep.broke(f"correspondence Model.Bandwidth vs optimiser.py [{fn}] kind={kind} n={n}: model={m[:120]} impl={e[:120]} "
                          f"input={json.dumps(data)[:500]}")
    rep.extra["correspondence_disagreements"] = dis
    pc.helper_correspondence(rep, rng, 200 if quick else 6000)
    laws(rep, rng, 150 if quick else 4000)
    probe_index_dtype(rep)
    restart_search(rep, rng, 120 if quick else 3000)
    if rep.broken and not rep.unknown_failing():
        search(rep, seed, 60 if quick else 1500)


def laws(rep, rng, n_cases):
    for _ in range(n_cases):
        n = rng.randint(0, 30)
        p, q = pc.rand_perm(rng, n), pc.rand_perm(rng, n)
        labels = [f"q{i}" for i in range(n)]
        s = "".join(rng.choice("01") for _ in range(n))
        try:
            msg = pc.helper_laws(p, q, labels, s)
        except Exception as e:
            msg = f"permutation helper raised {type(e).__name__}: {e}"
        if msg:
            rep.fail(msg, dict(kind="helpers", p=p, q=q, s=s))
        rep.case(key=("laws", tuple(p), tuple(q)), nontrivial=n >= 2, trace=False)


def gen_tie_matrix(rng, n):
    """small, partly sparse, equal-weight symmetric matrices: many candidates tie, RCM often cannot improve a
    lucky random start, the identity order is rarely optimal."""
    M = [[0.0] * n for _ in range(n)]
    dens = rng.choice([0.25, 0.4, 0.6])
    w = rng.choice([[1.0], [1.0], [1.0, -1.0], [1.0, 2.0], [0.5, 1.0, -1.0]])
    for i in range(n):
        for j in range(i + 1, n):
            if rng.random() < dens:
                M[i][j] = M[j][i] = rng.choice(w)
    return M


def run_real_rng(M, samples, torch_seed, rcm="real"):
    """minimize_bandwidth with the REAL torch RNG and the real RCM (nothing replaced; only a spy that copies what
    each minimize_bandwidth_impl call returns); rcm="identity": RCM replaced by one that never improves anything
    (every start comes back unchanged — the restarts themselves compete). -> (status, perm, tapes)"""
    import torch
    tapes = Tapes(None, len(M), "record" if rcm == "real" else "forced", "identity", spy=True, rnd_mode="record")
    torch.manual_seed(torch_seed)
    status, perm = run_minimize(M, samples, tapes)
    return status, perm, tapes


def real_rng_oracle(M, samples, torch_seed, rcm="real"):
    status, perm, tapes = run_real_rng(M, samples, torch_seed, rcm)
    msg = oracle_minimize(M, status, perm)
    if not msg and status == "ok":
        msg = oracle_best(M, perm, tapes.candidates)
    if not msg and tapes.mutated:
        msg = INPLACE_MSG.format("minimize_bandwidth", "matrix")
    return msg, status, tapes


def restart_search(rep: Report, rng, ncases: int) -> None:
    """many seeds of the real RNG on tie-rich matrices of size 4..8: the returned order's actual bandwidth against
    the original order's and against the best candidate's."""
    worse = 0
    for k in range(ncases):
        n = rng.randint(4, 8)
        M = gen_tie_matrix(rng, n) if k % 4 else gen_matrix(rng, n, rng.choice(["ring", "grid", "dyadic", "chain"]))[1]
        samples = rng.choice([3, 5, 10, 20])
        seed = rng.randrange(2 ** 31)
        rcm = "real" if k % 3 else "identity"
        try:
            msg, status, tapes = real_rng_oracle(M, samples, seed, rcm)
        except Exception as e:
            msg, status, tapes = f"minimize_bandwidth raised {type(e).__name__}: {e}", "raise", None
        if msg:
            rep.fail(msg, dict(kind="real_rng", M=M, samples=samples, torch_seed=seed, rcm=rcm))
        if tapes is not None and status == "ok":
            best = min(bw for _, bw in tapes.candidates)
            rep.hist("restart_winner", f"rcm={rcm}: " + ("identity start" if tapes.candidates[0][1] == best else "random restart"))
            rep.hist("restart_improves_on_original", best < py_bandwidth(M))
        rep.case(key=("real_rng", seed, n), nontrivial=True, trace=False,
                 sample={"fn": "minimize_bandwidth (real RNG)", "n": n, "samples": samples, "torch_seed": seed})


INT32_CLASS = "inv_permutation-int32-index-dtype"


def int32_probe(p):
    """`inv_permutation` on an int32 permutation tensor — the dtype `reverse_cuthill_mckee` answers (and
    hence `minimize_bandwidth_above_threshold` / `minimize_bandwidth_global`) carry. Failure string or None."""
    import torch
    from emu_mps.optimatrix import permutations as P
    pt = torch.tensor(p, dtype=torch.int32)
    try:
        inv = P.inv_permutation(pt)
    except Exception as e:
        return f"inv_permutation raises {type(e).__name__} on an int32 permutation tensor: {str(e)[:120]}"
    if P.permute_tensor(pt, inv).tolist() != list(range(len(p))):
        return "inv_permutation of an int32 permutation tensor is not its inverse"
    return None


def probe_index_dtype(rep: Report) -> None:
    """every helper must accept both index dtypes torch allows (int32 from RCM, int64 from arange)."""
    for p in ([2, 0, 1], [0], [1, 0, 3, 2]):
        msg = int32_probe(p)
        if msg:
            rep.fail(msg, dict(kind="inv_int32", p=p), klass=INT32_CLASS)
        rep.case(key=("int32", tuple(p)), nontrivial=len(p) >= 2, trace=False)


def search(rep: Report, seed: int, n_cases: int) -> None:
    """Failing-input search on the real code only: the statement of C32 as an executable oracle on
    (a) unpatched runs over the matrix families (b) runs under forced tapes with long accept chains
    (every forced answer is a permutation, i.e. a legal RCM)."""
    import torch
    from emu_mps.optimatrix import optimiser as opt
    rng = seeded(seed * 104729 + 32)
    for k in range(n_cases):
        n = sizes(rng)
        kind, M = gen_matrix(rng, n)
        mode = "record" if k % 2 == 0 else "forced"
        tapes = Tapes(rng, n, mode, "random")
        torch.manual_seed(k)
        try:
            status, perm = run_minimize(M, rng.choice([0, 1, 3, 10]), tapes)
        except Exception as e:
            rep.fail(f"minimize_bandwidth raised {type(e).__name__}: {e}", dict(kind="minimize", M=M, samples=0, mode=mode, rcm=tapes.rcm, rnd=tapes.rnd))
            return
        msg = oracle_minimize(M, status, perm)
        if msg:
            rep.fail(msg, dict(kind="minimize", M=M, samples=len(tapes.rnd), mode=mode, rcm=tapes.rcm, rnd=tapes.rnd))
            return
        for fn in ("minimize_bandwidth", "minimize_bandwidth_impl", "minimize_bandwidth_global", "above_threshold"):
            msg = purity_probe(fn, M, pc.rand_perm(rng, n), 1) if (tapes.mutated or k % 5 == 0) else None
            if msg:
                rep.fail(msg, dict(kind="inplace", fn=fn, M=M, samples=1))
                return
        init = pc.rand_perm(rng, n)
        tapes = Tapes(rng, n, "forced", "random")
        t = torch.tensor(M, dtype=torch.float64).reshape(n, n)
        with tapes:
            try:
                r, bw = opt.minimize_bandwidth_impl(t, torch.tensor(init, dtype=torch.int64))
            except NotImplementedError:
                continue
        msg = oracle_impl(M, init, [int(i) for i in r.tolist()], bw)
        if msg:
            rep.fail(msg, dict(kind="impl", M=M, init=init, rcm=tapes.rcm))
            return
    if not rep.unknown_failing():
        restart_search(rep, rng, 10 * n_cases)
    rep.extra["search_cases"] = n_cases


# ------------------------------------------------------------------ replay
class _Replay:
    """feeds a stored tape back through the same patch points"""

    def __init__(self, rcm, rnd):
        self.rcm, self.rnd = list(rcm), list(rnd)

    def __enter__(self):
        import numpy as np
        import torch
        from unittest import mock
        import emu_mps.optimatrix.optimiser as opt
        real_rcm, real_rp = opt.reverse_cuthill_mckee, torch.randperm

        def rcm(graph, symmetric_mode=False):
            return np.array(self.rcm.pop(0), dtype=np.int32) if self.rcm else real_rcm(graph, symmetric_mode=symmetric_mode)

        def rp(L, *a, out=None, **kw):
            if not self.rnd:
                return real_rp(L, *a, out=out, **kw) if out is not None else real_rp(L, *a, **kw)
            r = torch.tensor(self.rnd.pop(0), dtype=torch.int64)
            if out is not None:
                out.resize_(r.shape).copy_(r)
                r = out
            return r
        self._cm = [mock.patch.object(opt, "reverse_cuthill_mckee", rcm), mock.patch.object(torch, "randperm", rp)]
        for c in self._cm:
            c.__enter__()
        return self

    def __exit__(self, *exc):
        for c in reversed(self._cm):
            c.__exit__(*exc)
        return False


def replay(rep: Report, path: str) -> int:
    import torch
    from emu_mps.optimatrix import optimiser as opt
    data = json.load(open(path))
    bad = 0
    for f in data.get("failing_inputs", []):
        d = f["data"]
        msg = None
        try:
            if d["kind"] == "helpers":
                msg = pc.helper_laws(d["p"], d["q"], [f"q{i}" for i in range(len(d["p"]))], d["s"])
            elif d["kind"] == "real_rng":
                msg = real_rng_oracle(d["M"], d["samples"], d["torch_seed"], d.get("rcm", "real"))[0]
            elif d["kind"] == "inplace":
                msg = purity_probe(d["fn"], d["M"], d.get("init"), d.get("samples", 1))
            elif d["kind"] == "inv_int32":
                msg = int32_probe(d["p"])
            elif d["kind"] == "impl":
                n = len(d["M"])
                with _Replay(d["rcm"], []):
                    r, bw = opt.minimize_bandwidth_impl(torch.tensor(d["M"], dtype=torch.float64).reshape(n, n),
                                                        torch.tensor(d["init"], dtype=torch.int64))
                msg = oracle_impl(d["M"], d["init"], [int(i) for i in r.tolist()], bw)
            elif d["kind"] == "minimize":
                n = len(d["M"])
                with _Replay(d.get("rcm", []) if d.get("mode") == "forced" else [], d.get("rnd", [])):
                    try:
                        r = opt.minimize_bandwidth(torch.tensor(d["M"], dtype=torch.float64).reshape(n, n), samples=d["samples"])
                        status, perm = "ok", [int(i) for i in r.tolist()]
                    except AssertionError as e:
                        status, perm = ("notsymmetric" if "symmetric" in str(e) else "notoptimised"), None
                    except NotImplementedError:
                        status, perm = "toomanysteps", None
                msg = oracle_minimize(d["M"], status, perm)
                if not msg and d.get("best") and status == "ok":
                    # recompute the candidates under the same tape
                    tp = Tapes(None, n, "record", spy=True)
                    with _Replay(d.get("rcm", []), d.get("rnd", [])):
                        import emu_mps.optimatrix.optimiser as _o
                        from unittest import mock as _m
                        real_impl = _o.minimize_bandwidth_impl
                        cands = []

                        def spy(mx, ip):
                            p_, b_ = real_impl(mx, ip)
                            cands.append(([int(i) for i in p_.tolist()], float(b_)))
                            return p_, b_
                        with _m.patch.object(_o, "minimize_bandwidth_impl", spy):
                            r2 = _o.minimize_bandwidth(torch.tensor(d["M"], dtype=torch.float64).reshape(n, n), samples=d["samples"])
                    msg = oracle_best(d["M"], [int(i) for i in r2.tolist()], cands)
                if status == "toomanysteps" and d.get("mode") == "record":
                    msg = "minimize_bandwidth raised NotImplementedError with the real RCM"
            else:
                msg = f"cannot replay kind {d['kind']}"
        except Exception as e:
            msg = f"raised {type(e).__name__}: {e}"
        print("replay:", msg or "property holds on this input now")
        bad += bool(msg)
    return 1 if bad else 0
