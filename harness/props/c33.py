"""C33 — configuration safeguards are always applied (emu_mps/mps_config.py, create_impl,
DMRGBackendImpl.__init__).

Lean: EmuVerif.Props.C33 (tolerance floor over every ordered field, autosave guard, whitelist by
list induction, DMRG refuses noise for every noise-kind list). Correspondence: the real
`MPSConfig(...)` against `Model.Config.mkConfig` at binary64 (bit-exact: one multiplication, one
comparison, one division), the real `create_impl` against `createImpl`, the DMRG pipeline against
`accept`. Oracle: the property itself on every constructed config / implementation.
"""
from __future__ import annotations

import json
import math

from harness.common import Driver, LeanError, Report, lean_stage, seeded, f2b
from harness import config_lib as L

REGISTRY = dict(
    text=("Lean 4 theorems about the model of MPSConfig.__init__/create_impl: over every linear ordered field, "
          "precision>0 => the stored extra_krylov_tolerance exists and precision*extra >= 1e-12 (unchanged when the "
          "request was already >= the floor, exactly the floor otherwise; precision=0 raises ZeroDivisionError); "
          "autosave_dt<=10 is rejected for all values of every other argument; for every observable list (list "
          "induction) a tag outside the 7-tag whitelist switches optimize_qubit_ordering off, and only then; every "
          "config the constructor returns satisfies all three; solver DMRG with Lindblad operators or any configured "
          "noise type raises NotImplementedError, for every noise-kind list through the whole pipeline (kernel-checked "
          "counterexample for the tree before the create_impl fix). Model tied to the code by bit-exact binary64 "
          "correspondence on a boundary-heavy grid; binary64 remark: p*(1e-12/p) may be 1 ulp below 1e-12, the "
          "real-code oracle accepts 4 ulp. The refusal also covers the noise model in effect when it comes from the "
          "device (prefer_device_noise_model; D22, fixed in de798eb): DmrgRefusesEffectiveNoise true is proved, the "
          "pre-fix variant has a kernel-checked counterexample and a regression is reported with the device witness."),
    note=("Trusted: Lean kernel + propext/Classical.choice/Quot.sound; Mathlib; hand-written Model.Config tied by "
          "correspondence only; the tolerance theorem is exact arithmetic (binary64 gap measured, <= 1 ulp observed, "
          "4 ulp allowed); the effective-noise check of run() is modelled by the `fixed` switch of acceptDev and "
          "resolved against the real run() on every run."),
    technique="Lean 4 proof (ordered-field algebra, list induction, finite case analysis) + bit-exact model/implementation correspondence",
    design_ref="DESIGN.md §5 C33",
)

PROP_MODULE = "EmuVerif.Props.C33"
AUDIT = "Audit/C33.lean"

P_GRID = [1e-5, 1e-8, 1e-6, 1e-12, 1e-13, 1.0, 1, 2, 0.5, 3e-7, 1e-300, 1e300, 2.0 ** -20, 2.0 ** -40,
          -1e-5, 0.0, 0, -0.0]
E_GRID = [1e-3, 1e-6, 1e-4, 1e-9, 1.0, 1, 0, 0.0, 1e-12, 1e-7, 1e7, -1e-3, 1e-300,
          1e-12 * 2.0 ** 20, 1e-12 * 2.0 ** 40]
DT_GRID = [float("inf"), 10, 10.0, 10.0000001, math.nextafter(10.0, math.inf), math.nextafter(10.0, -math.inf),
           11, 11.5, 9.999999, 5, 0, -1, 1e9, 100, float("nan"), -float("inf")]
OBS_OK = ["Occupation", "BitStrings", "Energy", "EnergyVariance", "EnergySecondMoment", "CorrelationMatrix"]
OBS_BAD = ["StateResult", "EntanglementEntropy", "Fidelity", "Expectation"]
CUSTOM_TAGS = ["Occupation", "energy ", "", "bitstring", "statistics", "occupation", "entanglement_entropy",
               "énergie", "energy_variance2", "state", "x"]


def gen_obs(rng, mode=None):
    """An observable-set spec: list of (name, suffix) with pairwise distinct full tags."""
    mode = mode or rng.choice(["ok", "ok", "bad", "mixed", "custom", "empty", "many"])
    if mode == "empty":
        return []
    names = []
    if mode in ("ok", "mixed", "many"):
        names += rng.sample(OBS_OK, rng.randint(1, len(OBS_OK) if mode == "many" else 3))
    if mode in ("bad", "mixed"):
        names += rng.sample(OBS_BAD, rng.randint(1, 2))
    if mode == "custom" or (mode == "many" and rng.random() < 0.5):
        names += ["custom:" + t for t in rng.sample(CUSTOM_TAGS, rng.randint(1, 3))]
        if rng.random() < 0.5:
            names += rng.sample(OBS_OK, 1)
    rng.shuffle(names)
    spec = []
    for i, n in enumerate(names):
        spec.append([n, (f"s{i}" if rng.random() < 0.4 else None)])
    if mode == "many" and rng.random() < 0.5:          # the same observable twice under two suffixes
        spec.append([spec[0][0], "dup"])
    seen, uniq = set(), []
    for n, s in spec:                                   # Pulser refuses two observables with the same full tag
        if (n, s) not in seen:
            seen.add((n, s))
            uniq.append([n, s])
    return uniq


def gen_mk(rng, i):
    r = rng.random()
    if r < 0.5:
        p, e = rng.choice(P_GRID), rng.choice(E_GRID)
    elif r < 0.8:      # products scattered around the floor
        p = 10 ** rng.uniform(-14, 0)
        e = (1e-12 / p) * rng.choice([1.0, 1.0, 0.5, 2.0, 1 - 2 ** -52, 1 + 2 ** -52, 10 ** rng.uniform(-3, 3)])
    else:
        p, e = 10 ** rng.uniform(-14, 1), 10 ** rng.uniform(-14, 1)
        if rng.random() < 0.1:
            e = rng.choice([float("nan"), float("inf"), -float("inf")])
        elif rng.random() < 0.05:
            p = rng.choice([float("nan"), float("inf")])
    dt = rng.choice(DT_GRID) if rng.random() < 0.6 else rng.choice([rng.uniform(5, 15), float(rng.randint(8, 12)),
                                                                     rng.randint(8, 12), float("inf")])
    return dict(p=p, e=e, dt=dt, flag=rng.random() < 0.7, obs=gen_obs(rng), solver=rng.choice(["tdvp", "dmrg"]))


def full_grid():
    """Boundary grid: every (precision, extra) pair of the tables, every autosave_dt of the table."""
    out = []
    for p in P_GRID:
        for e in E_GRID:
            out.append(dict(p=p, e=e, dt=float("inf"), flag=True, obs=[["Occupation", None]], solver="tdvp"))
    for dt in DT_GRID:
        for p, e in [(1e-5, 1e-3), (1e-8, 1e-6), (0.0, 1e-3)]:
            out.append(dict(p=p, e=e, dt=dt, flag=True, obs=[["Occupation", None]], solver="dmrg"))
    one = [[[n, None]] for n in OBS_OK + OBS_BAD + ["custom:" + t for t in CUSTOM_TAGS]]
    for obs in one + [[]]:
        for flag in (True, False):
            out.append(dict(p=1e-5, e=1e-3, dt=11, flag=flag, obs=obs, solver="tdvp"))
    return out


def check_mk(rep: Report, specs: list, drv_lines: list, sink: list):
    for spec in specs:
        try:
            out, cfg = L.mk_real(spec)
            line = L.mk_line(spec)
        except Exception as e:   # harness-side construction problem (e.g. Pulser refusing an observable set)
            rep.count("mk_skipped_" + type(e).__name__)
            continue
        if out == "pulser-refused":
            rep.count("mk_pulser_refused")
            continue
        msg, klass, near = L.oracle_mk(spec, out, cfg)
        rep.count("krylov_within_4ulp_below_floor", int(near == 1))
        rep.count("krylov_subnormal_quotient_not_judged", int(near == 2))
        if msg:
            rep.fail(msg, dict(kind="mk", spec=spec), klass=klass)
        drv_lines.append(line)
        sink.append(("mk", spec, out))
        rep.hist("mk_outcome", out.split()[0] + (" " + out.split()[1] if out.startswith("raise") else ""))
        if cfg is not None:
            rep.hist("mk_reorder", f"flag={spec['flag']} -> {cfg.optimize_qubit_ordering}")


def gen_impl_specs(rng, n_random):
    """(data spec, config spec) for `create_impl`: solver × Lindblad operators × configured noise × atoms."""
    out = []
    noises = [s for s in L.NOISE_SPECS if L.try_noise_model(s) is not None]
    for solver in ("tdvp", "dmrg"):
        for form in L.SOLVER_FORMS:          # how the solver is requested: the decision must depend on the value only
            for ops in ([], [2], [2, 2], [3]):
                for noise in noises:
                    for n in ((1, 2, 3) if form == "enum" else (2,)):
                        out.append((dict(ham="Rydberg", eig=["r", "g"], op_dims=ops, n=n),
                                    dict(backend="mps", solver=solver, noise=noise, solver_form=form)))
    for _ in range(n_random):
        dim = rng.choice([2, 2, 3])
        ham = rng.choice(["Rydberg", "XY"])
        n = rng.choice([1, 2, 2, 3, 4])
        bad = [rng.random() < 0.4 for _ in range(n)]
        out.append((dict(ham=ham, eig=L.eigenstates(ham, dim), op_dims=[dim] * rng.choice([0, 0, 1, 2, 4]), n=n,
                         bad=bad, spe=rng.choice([0.0, 0.1]), numseed=rng.randint(1, 10 ** 6), nsteps=rng.choice([2, 3])),
                    dict(backend="mps", solver=rng.choice(["tdvp", "dmrg"]), noise=rng.choice(noises),
                         obs=gen_obs(rng, "ok"), solver_form=rng.choice(L.SOLVER_FORMS))))
    return out


def check_impl(rep: Report, pairs: list, drv_lines: list, sink: list):
    for dspec, cspec in pairs:
        data, cfg = L.build_data(dspec), L.build_config(cspec)
        feat = L.features("mps", data, cfg)
        out = L.impl_real(data, cfg)
        if feat["solver"] == "dmrg" and (feat["op_dims"] or feat["cfg_noise"]) and out.startswith("ok"):
            rep.fail(f"create_impl returned {out.split()[1]} implementation for solver=DMRG (requested as {cfg.solver!r}) "
                     f"with noise (lindblad_ops={len(feat['op_dims'])}, config noise_types={cfg.noise_model.noise_types})",
                     dict(kind="impl", data=dspec, cfg=cspec), klass="dmrg-accepts-noise")
        if out.startswith("ok") and (out == "ok dmrg") != (feat["solver"] == "dmrg"):
            rep.fail(f"create_impl returned {out} for solver={feat['solver']} (requested as {cfg.solver!r})",
                     dict(kind="impl", data=dspec, cfg=cspec), klass="impl-solver-mismatch")
        drv_lines.append(L.impl_line(feat))
        sink.append(("impl", dict(data=dspec, cfg=cspec), out))
        drv_lines.append(L.impl_line(feat, test="identity"))
        sink.append(("impl-identity", dict(data=dspec, cfg=cspec), out))
        rep.hist("impl_outcome", f"{feat['solver']} ops={len(feat['op_dims'])>0} cfgNoise={feat['cfg_noise']} -> {out}")
        rep.hist("solver_requested_as", f"{cspec.get('solver_form', 'enum')} ({cfg.solver!r})")


def check_pipeline(rep: Report, rng, n_random, drv_lines, sink):
    """DMRG (and TDVP for contrast) through PulserData.__init__ + back-end for every noise model."""
    noises = [s for s in L.NOISE_SPECS if L.try_noise_model(s) is not None]
    cases = [(it, dim, nz, s, form) for it in ("ising", "XY") for dim in (2, 3) for nz in noises for s in ("dmrg",)
             for form in (("enum", "str", "repr") if (it, dim) == ("ising", 2) else ("enum",))]
    cases += [(rng.choice(["ising", "XY", "foo"]), rng.choice([2, 3, 4]), rng.choice(noises), rng.choice(["dmrg", "tdvp"]),
               rng.choice(L.SOLVER_FORMS)) for _ in range(n_random)]
    for it, dim, nz, solver, form in cases:
        out, data, cfg, info = L.pipeline_real("mps", it, dim, nz, solver, solver_form=form)
        if data is not None:
            bad = L.oracle_run("mps", data, cfg, out, info)
            if bad and bad[1] == "dmrg-requested-other-impl":
                rep.fail(bad[0], dict(kind="pipeline", it=it, dim=dim, noise=nz, solver=solver, form=form), klass=bad[1])
        nm = L.noise_model(nz)
        if solver == "dmrg" and nm.noise_types != () and out.startswith("emulate"):
            rep.fail(f"DMRG (requested as {cfg.solver!r}) returned Results with noise model {nm.noise_types}",
                     dict(kind="pipeline", it=it, dim=dim, noise=nz, solver=solver, form=form), klass="dmrg-emulates-noise")
        drv_lines.append(" ".join(["config.accept", "repaired", "mps", L.it_token(it), str(dim),
                                   ",".join(L.kinds_of(nm)) or "-", solver]))
        sink.append(("pipeline", dict(it=it, dim=dim, noise=nz, solver=solver, form=form), out))
        rep.hist("pipeline_outcome", f"{solver} noise={bool(nm.noise_types)} -> {out}")


DEV_NOISES = [{"p_false_pos": 0.01, "p_false_neg": 0.02, "state_prep_error": 0.0},
              {"temperature": 30.0, "runs": 1, "samples_per_run": 1},
              {"amp_sigma": 0.05, "runs": 1, "samples_per_run": 1},
              {"relaxation_rate": 0.1}, {"dephasing_rate": 0.2},
              {"relaxation_rate": 0.1, "p_false_pos": 0.01, "p_false_neg": 0.0, "state_prep_error": 0.0}]
CFG_NOISES = [{}, {"p_false_pos": 0.01, "p_false_neg": 0.02, "state_prep_error": 0.0}, {"relaxation_rate": 0.1}]


def device_case(dev, cfgz, prefer, solver, form="enum"):
    """A real ground-rydberg Pulser sequence on a device with default noise model `dev`, run with
    `prefer_device_noise_model=prefer` and `config.noise_model=cfgz`.
    → (outcome, effective noise types, failure message | None)"""
    out, basis, data, cfg, info = L.sequence_real("mps", "gr", cfgz, solver, dev_noise=dev, prefer=prefer,
                                                  solver_form=form)
    eff = L.noise_model(dev if prefer else cfgz)
    msg = None
    if solver == "dmrg" and eff.noise_types != () and out.startswith("emulate"):
        msg = (f"DMRG (requested as {cfg.solver!r}) returned Results although the noise model in effect has {eff.noise_types} "
               f"(prefer_device_noise_model={prefer}, config.noise_model.noise_types="
               f"{L.noise_model(cfgz).noise_types})")
    return out, eff, msg


def check_device_noise(rep: Report, lines, sink):
    """D22 (fixed in /repo de798eb): the DMRG noise refusal must cover the noise model *in effect*
    (device default noise model with prefer_device_noise_model=True), not only config.noise_model."""
    for dev in DEV_NOISES:
        for cfgz in CFG_NOISES:
            for prefer in (False, True):
                for solver, form in (("dmrg", "enum"), ("dmrg", "str"), ("dmrg", "repr"), ("tdvp", "enum")):
                    out, eff, msg = device_case(dev, cfgz, prefer, solver, form)
                    if out == "pulser-refused":
                        rep.count("device_pulser_refused")
                        continue
                    spec = dict(kind="device", dev=dev, cfg=cfgz, prefer=prefer, solver=solver, form=form)
                    if msg:
                        # narrow class: device noise model + prefer_device_noise_model + empty config noise model
                        klass = ("dmrg-ignores-device-noise-model"
                                 if prefer and L.noise_model(cfgz).noise_types == () else "dmrg-emulates-noise")
                        rep.fail(msg, spec, klass=klass)
                    for fixed in ("0", "1"):     # tree before / after the D22 fix (run() checks the effective noise model)
                        lines.append(" ".join(["config.acceptdev", fixed, "mps", "ising", "2", "1" if prefer else "0",
                                               ",".join(L.kinds_of(L.noise_model(cfgz))) or "-",
                                               ",".join(L.kinds_of(L.noise_model(dev))) or "-", solver]))
                        sink.append(("device" if fixed == "0" else "device-fixed", spec, out))
                    rep.hist("device_outcome", f"{solver} prefer={prefer} effective_noise={bool(eff.noise_types)} "
                                               f"cfg_noise={bool(L.noise_model(cfgz).noise_types)} -> {out}")


def check(rep: Report, tier: str, seed: int) -> None:
    rep.rule = ("MPSConfig cases = full boundary grid (18 precisions x 15 tolerances incl. ints, 0, -0.0, negative, "
                "1e-300, exact-floor products; 16 autosave_dt incl. 10, 10.0, nextafter(10,+-inf), 10.0000001, ints, "
                "inf, nan; every observable alone incl. custom tags) + random cases with products scattered around "
                "the floor and mixed observable sets; create_impl cases = solver x Lindblad operators x every "
                "constructible noise model x atom count x HOW THE SOLVER IS REQUESTED (Solver member, the string "
                "'dmrg'/'tdvp', config round-tripped through to_abstract_repr/from_abstract_repr, deep-copied, rebuilt "
                "from _backend_options as autosave does) + random; pipeline cases = interaction type x dim x noise "
                "model x solver. distinct = distinct driver lines; non-trivial = the safeguard acted "
                "(floor applied, reject, reordering switched off, DMRG refusal)")
    rep.assumptions = [
        "binary64 rounding is outside the tolerance-floor theorem (exact arithmetic); measured on every run: "
        "cases up to 4 ulp below 1e-12 are counted under krylov_within_4ulp_below_floor, more is a violation",
        "pulser's EmulationConfig base constructor is outside the model (it only stores the keyword arguments); "
        "observable sets Pulser itself refuses to build are skipped and counted",
    ]
    import time
    t0 = time.time()
    lean_stage(rep, PROP_MODULE, AUDIT, thorough=(tier == "thorough"))
    rep.extra["t_lean_stage_s"] = round(time.time() - t0, 1)
    L.compat.install()
    rng = seeded(seed * 7919 + 33)
    quick = tier == "quick"
    lines: list = ["config.floor"]
    sink: list = [("floor", {}, f2b(L.FLOOR))]
    check_mk(rep, full_grid() + [gen_mk(rng, i) for i in range(1500 if quick else 40000)], lines, sink)
    check_impl(rep, gen_impl_specs(rng, 200 if quick else 5000), lines, sink)
    check_pipeline(rep, rng, 60 if quick else 1500, lines, sink)
    check_device_noise(rep, lines, sink)
    rep.extra["t_real_code_s"] = round(time.time() - t0 - rep.extra["t_lean_stage_s"], 1)
    try:
        model = Driver().batch(lines)
    except LeanError as e:
        rep.broke("driver: " + str(e)[-800:])
        model = [None] * len(lines)
    rep.extra["t_total_s"] = round(time.time() - t0, 1)
    dis = 0
    variant = {"asFound": 0, "repaired": 0}
    pending = None
    last_impl, identity_hits = (None, None), 0
    for line, (kind, spec, out), mo in zip(lines, sink, model):
        if kind == "impl":
            last_impl = (mo, out)
        if kind == "impl-identity":
            # variant resolution: does the real create_impl behave like `is Solver.DMRG` (by identity) here?
            if mo is not None and last_impl[0] != mo and last_impl[1] == mo:
                identity_hits += 1
            continue
        if kind == "device":
            pending = mo
            continue
        if kind == "device-fixed":
            # variant resolution for D22 (fixed): the real code must match the current-tree model or the repaired one
            if mo is not None and pending != mo:
                variant["asFound" if out == pending else ("repaired" if out == mo else "neither")] = \
                    variant.get("asFound" if out == pending else ("repaired" if out == mo else "neither"), 0) + 1
            mo = pending if out == pending else mo
        nontrivial = (out.startswith("raise") or out.endswith(" 0")
                      or (kind == "mk" and out.split()[1] != f2b(float(spec["e"]))))
        rep.case(key=line, nontrivial=nontrivial, sample=dict(kind=kind, spec=spec, outcome=out))
        if mo is not None and mo != out:
            dis += 1
            if dis <= 5:
                rep.broke(f"correspondence Model.Config vs real code ({kind}): spec={L.jd(spec)[:500]} "
                          f"model={mo} impl={out}")
    rep.extra["device_noise_variant_matches"] = variant
    rep.extra["cases_matching_solver_tested_by_identity_only"] = identity_hits
    if identity_hits:
        rep.broke(f"{identity_hits} create_impl case(s) behave like SolverTest.byIdentity (`is Solver.DMRG`: a solver "
                  "requested as the string 'dmrg' or round-tripped through the abstract repr is not recognised), for "
                  "which Props/C33 proves dmrg_identity_counterexample")
    if variant.get("asFound"):
        # D22 (fixed in /repo de798eb): a regression is reported, with the replay of the device witness
        rep.broke(f"{variant['asFound']} device-noise case(s) behave like the tree before the D22 fix (run() does not "
                  "check the noise model in effect): Props/C33.dmrg_device_noise_counterexample applies")
    rep.extra["correspondence_disagreements"] = dis
    if rep.broken and not rep.unknown_failing():
        search(rep, seed, 4000 if quick else 60000)


def search(rep: Report, seed: int, n: int) -> None:
    """Failing-input search on the real code only: the property oracles over a larger random
    stream (configs, create_impl, DMRG pipeline)."""
    rng = seeded(seed * 104729 + 33)
    for i in range(n):
        spec = gen_mk(rng, i)
        try:
            out, cfg = L.mk_real(spec)
        except Exception:
            continue
        msg, klass, _ = L.oracle_mk(spec, out, cfg)
        if msg:
            rep.fail(msg, dict(kind="mk", spec=spec), klass=klass)
            return
    lines, sink = [], []
    check_impl(rep, gen_impl_specs(rng, n // 10), lines, sink)
    if not rep.unknown_failing():
        check_pipeline(rep, rng, n // 40, lines, sink)
    rep.extra["search_cases"] = n


def replay(rep: Report, path: str) -> int:
    L.compat.install()
    data = json.load(open(path))
    bad = 0
    for f in data.get("failing_inputs", []):
        d = f["data"]
        msg = None
        if d["kind"] == "mk":
            out, cfg = L.mk_real(d["spec"])
            msg = L.oracle_mk(d["spec"], out, cfg)[0]
            shown = out
        elif d["kind"] == "impl":
            dd, cc = L.build_data(d["data"]), L.build_config(d["cfg"])
            shown = L.impl_real(dd, cc)
            feat = L.features("mps", dd, cc)
            if feat["solver"] == "dmrg" and (feat["op_dims"] or feat["cfg_noise"]) and shown.startswith("ok"):
                msg = f"create_impl returned {shown} for DMRG with noise"
            elif shown.startswith("ok") and (shown == "ok dmrg") != (feat["solver"] == "dmrg"):
                msg = f"create_impl returned {shown} for solver={feat['solver']}"
        elif d["kind"] == "device":
            shown, _, msg = device_case(d["dev"], d["cfg"], d["prefer"], d["solver"], d.get("form", "enum"))
        else:
            shown, *_ = L.pipeline_real("mps", d["it"], d["dim"], d["noise"], d["solver"], d.get("form", "enum"))
            if d["solver"] == "dmrg" and L.noise_model(d["noise"]).noise_types != () and shown.startswith("emulate"):
                msg = "DMRG returned Results with noise"
        print(f"replay[{d['kind']}]: outcome={shown}:", msg or "property holds on this input now")
        bad += bool(msg)
    return 1 if bad else 0
