"""C34 — multi-trajectory results aggregate all simulated trajectories
(emu_base/pulser_adapter.py:PulserData.get_sequences, emu_mps/mps_backend.py:MPSBackend.run,
emu_sv/sv_backend.py:SVBackend.run).

Lean: EmuVerif.Props.C34 (counting, order, bitstring totals; Pulser's mean is a contract).
Correspondence: the real generator on synthetic `noisy_samples` (reps −1…50) and both real
`run()` loops with a stubbed `_run_from_sequence_data`, against `Model.Aggregate`; Pulser's
`Results.aggregate` (real) is checked against a manual mean / Counter sum.
"""
from __future__ import annotations

import json
import types
from collections import Counter, namedtuple
from unittest import mock

from harness.common import Driver, LeanError, Report, lst, lean_stage, seeded

REGISTRY = dict(
    text=("Lean 4 theorems for every list of (samples, reps), every (stateful) per-trajectory simulation and every "
          "shots: get_sequences yields sum(reps) SequenceData, in the order of noisy_samples, each entry repeated reps "
          "times consecutively; the list handed to Results.aggregate has that length and its k-th element is the "
          "simulation of the k-th yielded item (both back-ends: same loop); aggregate raises iff sum(reps)=0 and returns "
          "a single trajectory unchanged; joined BitStrings counters total sum(reps) x shots and per-key counts add; "
          "under the mean contract a deterministic observable is averaged with weights reps. ASSUMED (Pulser code, "
          "validated numerically each run): sum(reps) = n_trajectories for HamiltonianData.noise_trajectories; "
          "_mean_aggregator = arithmetic mean; Counter sum."),
    note=("Trusted: Lean kernel + propext/Classical.choice/Quot.sound; Mathlib; hand-written Model.Aggregate tied by "
          "correspondence only; pulser-core's Results.aggregate / noise_trajectories are external code (contracts); "
          "back-end simulations are stubbed in the run() loop check (what a trajectory computes is C01/C02/C16/C17)."),
    technique="Lean 4 proof (list induction) + exact model/implementation correspondence",
    design_ref="DESIGN.md §5 C34",
)

PROP_MODULE = "EmuVerif.Props.C34"
AUDIT = "Audit/C34.lean"

Entry = namedtuple("Entry", ["trajectory", "samples", "reps"])   # shape of pulser's SamplesWithReps


# ------------------------------------------------------------------ synthetic PulserData
def make_pulser_data(reps_list, n_atoms=2, use_config_matrix=False):
    """A `PulserData` built without `__init__`: only what `get_sequences` reads."""
    import torch
    from emu_base.pulser_adapter import PulserData, HamiltonianType

    class _IM:
        def __init__(self, k):
            self.k = k

        def as_tensor(self):
            m = torch.zeros(n_atoms, n_atoms, dtype=torch.float64)
            m[0, 1] = m[1, 0] = float(self.k + 1)
            return m

    entries = []
    for k, r in enumerate(reps_list):
        traj = types.SimpleNamespace(interaction_matrix=_IM(k),
                                     bad_atoms={f"q{i}": bool((k >> i) & 1) for i in range(n_atoms)})
        entries.append(Entry(traj, k, r))            # `samples` is the entry index: the stub below reads it
    pd = PulserData.__new__(PulserData)
    pd.hamiltonian = types.SimpleNamespace(noisy_samples=iter(entries))
    pd.full_interaction_matrix = (torch.full((n_atoms, n_atoms), 7.0, dtype=torch.float64)
                                  if use_config_matrix else None)
    pd.interaction_cutoff = 0.0
    pd._sequence = types.SimpleNamespace(_slm_mask_targets=[], register=types.SimpleNamespace(find_indices=lambda t: []))
    pd.qubit_ids = tuple(f"q{i}" for i in range(n_atoms))
    pd.target_times = [0.0, 10.0]
    pd.slm_end_time = 0.0
    pd.lindblad_ops = []
    pd.noise_model = types.SimpleNamespace(state_prep_error=0.0)
    pd.eigenstates = ["r", "g"]
    pd.hamiltonian_type = HamiltonianType.Rydberg
    return pd


def _fake_extract(samples, qubit_ids, target_times):
    import torch
    t = torch.full((1, len(qubit_ids)), float(samples), dtype=torch.complex128)
    return t, t.clone(), t.clone()


def real_expand(reps_list, use_config_matrix=False):
    """indices of the noisy_samples entry behind every SequenceData the real generator yields,
    plus consistency flags (bad_atoms / interaction matrix belong to the same entry)."""
    import emu_base.pulser_adapter as pa
    pd = make_pulser_data(reps_list, use_config_matrix=use_config_matrix)
    idx, ok = [], True
    with mock.patch.object(pa, "_extract_omega_delta_phi", _fake_extract):
        for sd in pd.get_sequences():
            k = int(sd.omega[0, 0].real)
            idx.append(k)
            want_bad = tuple(bool((k >> i) & 1) for i in range(2))
            want_u = 7.0 if use_config_matrix else float(k + 1)
            ok = ok and sd.bad_atoms == want_bad and float(sd.interaction_matrix(0.0)[0, 1]) == want_u
    return idx, ok


# ------------------------------------------------------------------ run() loops with stub back-ends
def _stub_results(call, idx, shots, rng_vals):
    """a real pulser Results with a BitStrings-like counter (BAG_UNION) and a MEAN observable"""
    import uuid
    from pulser.backend.results import Results
    from pulser.backend.observable import AggregationMethod
    r = Results(atom_order=("q0", "q1"), total_duration=10)
    counter = Counter()
    left = shots
    for key in ("00", "01", "10"):
        c = min(left, (call * 7 + idx * 3 + len(key) + ord(key[1])) % (shots + 1))
        if c:
            counter[key] += c
        left -= c
    if left:
        counter["11"] += left
    r._store_raw(uuid=_UU[0], tag="bitstrings", time=1.0, value=counter, aggregation_method=AggregationMethod.BAG_UNION)
    r._store_raw(uuid=_UU[1], tag="occupation", time=1.0, value=[rng_vals[call % len(rng_vals)], float(idx)],
                 aggregation_method=AggregationMethod.MEAN)
    r._store_raw(uuid=_UU[2], tag="energy", time=1.0, value=float(rng_vals[(call + 1) % len(rng_vals)]),
                 aggregation_method=AggregationMethod.MEAN)
    r._verif = (call, idx)
    return r


_UU = []


def real_run(backend: str, reps_list, shots, rng_vals):
    """Run the real `run()` of one back-end with PulserData replaced by the synthetic one and
    `_run_from_sequence_data` by a stub. Returns (shape, handed [(call, idx)], aggregated | None, per-run results)."""
    import uuid
    from harness import compat
    compat.install()
    from pulser.backend.results import Results
    if not _UU:
        _UU.extend([uuid.uuid4(), uuid.uuid4(), uuid.uuid4()])
    if backend == "mps":
        import emu_mps.mps_backend as mod
        cls, cfg = mod.MPSBackend, compat.mps_config(observables=[_bitstrings()])
    else:
        import emu_sv.sv_backend as mod
        cls, cfg = mod.SVBackend, compat.sv_config(observables=[_bitstrings()])
    import emu_base.pulser_adapter as pa
    be = cls.__new__(cls)
    be._config = cfg
    be._sequence = object()
    calls, handed = [], []

    def stub(sequence_data, config):
        k = int(sequence_data.omega[0, 0].real)
        r = _stub_results(len(calls), k, shots, rng_vals)
        calls.append(r)
        return r

    real_aggregate = Results.aggregate.__func__

    def spy(cls_, results_to_aggregate, **kw):
        handed.append(list(results_to_aggregate))
        return real_aggregate(cls_, results_to_aggregate, **kw)

    fake_pd = lambda **kw: make_pulser_data(reps_list)   # noqa: E731
    with mock.patch.object(mod, "PulserData", fake_pd), \
            mock.patch.object(pa, "_extract_omega_delta_phi", _fake_extract), \
            mock.patch.object(cls, "_run_from_sequence_data", staticmethod(stub)), \
            mock.patch.object(Results, "aggregate", classmethod(spy)):
        try:
            agg = be.run()
            shape = "single" if (len(calls) == 1 and agg is calls[0]) else "combine"
        except ValueError as e:
            if "No results to aggregate" not in str(e):
                raise
            agg, shape = None, "none"
    h = handed[0] if handed else []
    return shape, [r._verif for r in h], agg, calls, (len(handed) == 1 and all(a is b for a, b in zip(h, calls)) and len(h) == len(calls))


def _bitstrings():
    from pulser.backend import BitStrings
    return BitStrings(evaluation_times=[1.0])


# ------------------------------------------------------------------ real emu-sv trajectories share nothing
def sv_family_case(sub: int):
    """One real multi-trajectory emu-sv run (no stub): shot-to-shot amplitude noise (one SequenceData per
    trajectory), optional Lindblad operators (density-matrix evolution), optional user initial state
    (state vector / pure or MIXED density matrix). Returns a failure message or None, plus a description."""
    import copy
    import math
    import random as _r
    import torch
    from harness import compat
    compat.install()
    from pulser.backend import Occupation
    from pulser.backend.results import Results
    import emu_sv.sv_backend as mod
    from emu_sv import StateVector, DensityMatrix
    rng = _r.Random(sub)
    N = 2
    nsteps, dt = rng.choice([2, 3, 5]), 10.0
    ntraj = rng.choice([2, 3, 4])
    noise = rng.choice(["none", "relax", "relax+deph", "relax", "relax+deph"])
    init = rng.choice(["none", "pure", "mixed", "mixed"]) if noise != "none" else rng.choice(["none", "pure"])
    ops = []
    if "relax" in noise:
        L = torch.zeros(2, 2, dtype=torch.complex128); L[0, 1] = math.sqrt(rng.uniform(0.1, 0.5)); ops.append(L)
    if "deph" in noise:
        c = math.sqrt(rng.uniform(0.1, 0.5) / 2)
        L = torch.zeros(2, 2, dtype=torch.complex128); L[0, 0], L[1, 1] = c, -c; ops.append(L)
    U = [[0.0, 3.0], [3.0, 0.0]]
    T = [dt * i for i in range(nsteps + 1)]
    amps = [6.0 * (1.0 + 0.1 * rng.gauss(0, 1)) for _ in range(ntraj)]

    def sequences():
        out = []
        for a in amps:
            om = [[a] * N for _ in range(nsteps)]
            z = [[0.0] * N for _ in range(nsteps)]
            out.append(compat.make_sequence_data(om, z, z, U, T, lindblad_ops=[o.clone() for o in ops]))
        return out

    g = torch.Generator().manual_seed(sub % (2 ** 31))
    psi = torch.randn(4, generator=g, dtype=torch.float64) + 1j * torch.randn(4, generator=g, dtype=torch.float64)
    psi = (psi / psi.norm()).to(torch.complex128)
    if init == "none":
        data0 = None
    elif noise == "none":
        data0 = psi
    elif init == "pure":
        data0 = torch.outer(psi, psi.conj())
    else:
        phi = torch.randn(4, generator=g, dtype=torch.float64).to(torch.complex128)
        phi = phi / phi.norm()
        w = rng.uniform(0.3, 0.7)
        data0 = w * torch.outer(psi, psi.conj()) + (1 - w) * torch.outer(phi, phi.conj())

    def config():
        kw = {}
        if data0 is not None:
            kw["initial_state"] = (StateVector(data0.clone(), gpu=False) if noise == "none"
                                   else DensityMatrix(data0.clone(), gpu=False))
        return compat.sv_config(dt=dt, observables=[Occupation(evaluation_times=[0.0, 1.0])], **kw)

    desc = dict(sv_family=sub, noise=noise, initial_state=init, n_trajectories=ntraj, nsteps=nsteps)
    cfg = config()
    seqs = sequences()
    be = mod.SVBackend.__new__(mod.SVBackend)
    be._config, be._sequence = cfg, object()
    captured, snapshots = [], []
    orig = mod.SVBackend._run_from_sequence_data

    def spy(data, config_):
        r = orig(data, config_)
        captured.append(r)
        if config_.initial_state is not None:
            snapshots.append(config_.initial_state.data.clone())
        return r

    fake_pd = lambda **kw: types.SimpleNamespace(get_sequences=lambda: iter(seqs))   # noqa: E731
    with mock.patch.object(mod, "PulserData", fake_pd), \
            mock.patch.object(mod.SVBackend, "_run_from_sequence_data", staticmethod(spy)):
        agg = be.run()
    if len(captured) != ntraj:
        return f"{len(captured)} trajectories simulated instead of {ntraj}", desc
    # (1) the configured initial state is bit-identical after every trajectory
    for k, snap in enumerate(snapshots):
        if not torch.equal(snap, data0):
            tr = float(torch.trace(snap).real) if snap.ndim == 2 else float(snap.norm())
            return (f"config.initial_state was modified by trajectory {k} ({init} {'density matrix' if snap.ndim == 2 else 'state vector'}; "
                    f"trace/norm now {tr:.6f}): later trajectories do not start from the configured state"), desc
    # (2) every trajectory starts from the configured state: t = 0 occupations
    def occ0(r):
        return torch.as_tensor(r.get_result("occupation", 0.0)).real.to(torch.float64)
    if data0 is None:
        want0 = torch.zeros(N, dtype=torch.float64)
    else:
        p = (data0.abs() ** 2) if data0.ndim == 1 else torch.diagonal(data0).real
        want0 = torch.stack([p[[b for b in range(4) if (b >> (N - 1 - q)) & 1]].sum() for q in range(N)]).to(torch.float64)
    for k, r in enumerate(captured):
        if not torch.allclose(occ0(r), want0, atol=1e-10, rtol=0) or not torch.allclose(occ0(r), occ0(captured[0]), atol=1e-10, rtol=0):
            return (f"trajectory {k} starts with occupation {occ0(r).tolist()} at t=0; trajectory 0 / the configured "
                    f"initial state give {occ0(captured[0]).tolist()} / {want0.tolist()}"), desc
    # (3) each trajectory equals the same trajectory simulated on its own with a fresh config
    for k, sd in enumerate(sequences()):
        ref = orig(sd, config())
        for t in (0.0, 1.0):
            a = torch.as_tensor(captured[k].get_result("occupation", t)).real
            b = torch.as_tensor(ref.get_result("occupation", t)).real
            if not torch.allclose(a, b, atol=1e-9, rtol=0):
                return (f"trajectory {k} inside the multi-trajectory run gives occupation {a.tolist()} at t={t}, "
                        f"simulated on its own {b.tolist()}"), desc
    # (4) the aggregate is the mean of the per-trajectory values
    if agg is not captured[0] or ntraj == 1:
        try:
            for t in (0.0, 1.0):
                a = torch.as_tensor(agg.get_result("occupation", t)).real.to(torch.float64)
                m = torch.stack([torch.as_tensor(r.get_result("occupation", t)).real.to(torch.float64) for r in captured]).mean(0)
                if not torch.allclose(a, m, atol=1e-12, rtol=0):
                    return f"aggregated occupation {a.tolist()} at t={t} is not the mean {m.tolist()} of the trajectories", desc
        except (KeyError, ValueError, AttributeError):
            pass   # occupation skipped by the aggregation method in effect: nothing to compare
    return None, desc


def sv_family(rep: Report, rng, n: int) -> None:
    for i in range(n):
        sub = rng.randrange(2 ** 31)
        try:
            msg, desc = sv_family_case(sub)
        except Exception as e:  # noqa: BLE001
            rep.fail(f"real emu-sv multi-trajectory run raised {type(e).__name__}: {str(e)[:160]}", {"sv_family": sub})
            continue
        rep.hist("sv_family", f"{desc['noise']}/{desc['initial_state']}")
        rep.case(key=("sv_family", sub), nontrivial=True, sample=desc)
        if msg:
            rep.fail("emu-sv: " + msg, desc)


# ------------------------------------------------------------------ check
def gen_reps(rng):
    mode = rng.choice(["small", "small", "ones", "wide", "edge"])
    if mode == "ones":
        return [1] * rng.randint(1, 50)
    if mode == "wide":
        return [rng.randint(1, 50) for _ in range(rng.randint(1, 6))]
    if mode == "edge":
        return [rng.choice([0, 0, 1, -1, 2, 50]) for _ in range(rng.randint(0, 5))]
    return [rng.randint(1, 6) for _ in range(rng.randint(1, 8))]


def check(rep: Report, tier: str, seed: int) -> None:
    rep.rule = ("cases = reps lists from one PRNG: all-ones (shot-to-shot noise), 1-8 entries with reps 1-6, 1-6 entries "
                "with reps 1-50 (trajectory-invariant noise), edge lists with 0 / negative reps and the empty list; "
                "shots 1-1000. non-trivial = at least 2 SequenceData yielded; distinct = distinct (reps list, path)")
    rep.assumptions = [
        "pulser-core: sum(reps) over HamiltonianData.noise_trajectories == n_trajectories (validated on real sequences each run)",
        "pulser-core: Results.aggregate MEAN == arithmetic mean over the handed list (validated vs a manual mean, 1e-12), "
        "BAG_UNION == Counter sum (validated exactly)",
        "each per-trajectory BitStrings counter holds `shots` samples (property C15; stubbed here)",
        "hypothesis of handed_independent_if_state_preserved (no trajectory modifies the shared config / initial state): "
        "checked on real emu-sv multi-trajectory runs (bit-identical initial state, t=0 observables, stand-alone re-runs)",
    ]
    lean_stage(rep, PROP_MODULE, AUDIT, thorough=(tier == "thorough"))
    rng = seeded(seed * 7919 + 34)
    n = 150 if tier == "quick" else 4000
    lines, expect, meta = [], [], []

    # ---- get_sequences vs Model.expandIdx -----------------------------------------------
    for i in range(n):
        reps = gen_reps(rng)
        ucm = rng.random() < 0.3
        try:
            idx, ok = real_expand(reps, use_config_matrix=ucm)
        except Exception as e:  # noqa: BLE001
            rep.fail(f"get_sequences raised {type(e).__name__}: {e}", {"reps": reps})
            continue
        if not ok:
            rep.fail("a yielded SequenceData mixes fields of different noisy_samples entries", {"reps": reps})
        want = [k for k, r in enumerate(reps) for _ in range(max(r, 0))]
        if idx != want:
            rep.fail(f"get_sequences yielded {len(idx)} items {idx[:20]}…, expected sum(reps)={len(want)} in order", {"reps": reps})
        lines.append("agg.expand " + lst(map(str, reps)))
        expect.append(lst(map(str, idx)))
        meta.append(("expand", reps))
        rep.hist("sum_reps_bucket", min(sum(max(r, 0) for r in reps) // 10 * 10, 100))

    # ---- both run() loops vs Model.handedToAggregate / aggregate ------------------------
    n_run = 60 if tier == "quick" else 1500
    for i in range(n_run):
        reps = gen_reps(rng)
        if sum(max(r, 0) for r in reps) > 120:
            continue
        shots = rng.choice([1, 10, 100, 1000, rng.randint(1, 1000)])
        vals = [rng.random() for _ in range(7)]
        for backend in ("mps", "sv"):
            try:
                shape, handed, agg, calls, same_objs = real_run(backend, reps, shots, vals)
            except Exception as e:  # noqa: BLE001
                rep.fail(f"{backend} run() raised {type(e).__name__}: {e}", {"reps": reps, "backend": backend})
                continue
            lines.append("agg.run " + lst(map(str, reps)))
            expect.append(f"{shape} {lst(f'{c}:{k}' for c, k in handed)}")
            meta.append((backend, reps))
            rep.hist("aggregate_shape", shape)
            msg = oracle(reps, shots, shape, handed, agg, calls, same_objs)
            if msg:
                rep.fail(f"{backend}: {msg}", {"reps": reps, "shots": shots, "backend": backend, "vals": vals})

    # ---- BAG_UNION vs Model.bagUnion -----------------------------------------------------
    from pulser.backend.aggregators import _bag_union_aggregator
    for i in range(n // 3):
        cs = []
        for _ in range(rng.randint(0, 6)):
            c = Counter()
            for _ in range(rng.randint(0, 4)):
                c["".join(rng.choice("01") for _ in range(rng.choice([1, 2, 3])))] += rng.randint(1, 500)
            cs.append(c)
        u = _bag_union_aggregator(cs)
        lines.append("agg.bag " + lst(("_".join(f"{k}:{v}" for k, v in c.items()) or "e") for c in cs))
        expect.append((sum(u.values()), dict(u)))
        meta.append(("bag", [dict(c) for c in cs]))

    try:
        mo = Driver().batch(lines)
    except LeanError as e:
        rep.broke("driver: " + str(e)[-800:])
        mo = None
    if mo is not None:
        dis = 0
        for l, o, e, m in zip(lines, mo, expect, meta):
            if m[0] == "bag":
                t = o.split()
                got = (int(t[0]), {kv.split(":")[0]: int(kv.split(":")[1]) for kv in t[1].split(",")} if t[1] != "-" else {})
                agree = got == e
            else:
                agree = o == e
            nontriv = m[0] == "bag" or sum(max(r, 0) for r in m[1]) >= 2
            rep.case(key=(m[0], l), nontrivial=nontriv, sample={"path": m[0], "input": str(m[1])[:80], "impl": str(e)[:80]})
            if not agree:
                dis += 1
                if dis <= 4:
                    rep.broke(f"correspondence Model.Aggregate vs {m[0]}: line={l[:200]} model={o[:200]} impl={str(e)[:200]}")
        rep.extra["correspondence_disagreements"] = dis

    real_pulser_contract(rep, rng, 6 if tier == "quick" else 60)
    sv_family(rep, rng, 16 if tier == "quick" else 300)

    if rep.broken and not rep.unknown_failing():
        search(rep, seed, 400 if tier == "quick" else 5000)


def oracle(reps, shots, shape, handed, agg, calls, same_objs):
    """C34 on one real run() (stub trajectories)."""
    n = sum(max(r, 0) for r in reps)
    want = [k for k, r in enumerate(reps) for _ in range(max(r, 0))]
    if len(calls) != n:
        return f"{len(calls)} trajectories simulated, sum(reps) = {n}"
    if [k for _, k in handed] != want or [c for c, _ in handed] != list(range(n)):
        return f"list handed to Results.aggregate is not the per-trajectory results in order: {handed[:10]}"
    if not same_objs:
        return "Results.aggregate was not called exactly once with the very objects the trajectories returned"
    if n == 0:
        return None if shape == "none" else "no trajectory, but run() returned something"
    if agg is None:
        return "run() raised although trajectories were simulated"
    bs = agg.get_result("bitstrings", 1.0)
    if sum(bs.values()) != n * shots:
        return f"bitstring total {sum(bs.values())} != n_trajectories*shots = {n * shots}"
    manual = Counter()
    for r in calls:
        manual.update(r.get_result("bitstrings", 1.0))
    if dict(bs) != dict(manual):
        return "joined bitstring counts differ from the sum of the per-trajectory counters"
    occ = agg.get_result("occupation", 1.0)
    en = agg.get_result("energy", 1.0)
    m_occ = [sum(r.get_result("occupation", 1.0)[j] for r in calls) / n for j in range(2)]
    m_en = sum(r.get_result("energy", 1.0) for r in calls) / n
    # values in [0, 50], n <= 120: summation error <= n * eps * max ~ 1e-12 is generous
    if any(abs(a - b) > 1e-12 * max(1.0, abs(b)) for a, b in zip(list(occ) + [en], m_occ + [m_en])):
        return f"mean-aggregated observable {list(occ)}, {en} != manual mean {m_occ}, {m_en}"
    return None


def real_pulser_contract(rep: Report, rng, n: int) -> None:
    """Pulser's guarantee sum(reps) == n_trajectories and the whole real path
    PulserData.__init__ -> get_sequences on tiny real sequences."""
    try:
        import numpy as np
        import pulser
        from pulser.devices import MockDevice
        from pulser.noise_model import NoiseModel
        from harness import compat
        compat.install()
        from emu_base import PulserData
    except Exception as e:  # noqa: BLE001
        rep.notes.append(f"real-pulser contract check unavailable: {e}")
        return
    done = 0
    for i in range(n):
        ntraj = rng.choice([1, 2, 3, 7, 20, 50, rng.randint(1, 50)])
        kind = rng.choice(["spam", "spam", "amp", "spam+amp", "none"])
        kw = {}
        if "spam" in kind:
            kw["state_prep_error"] = rng.choice([0.0, 0.1, 0.5, 0.9])
        if "amp" in kind:
            kw["amp_sigma"] = 0.05
        np.random.seed(rng.randrange(2 ** 31))
        reg = pulser.Register({"q0": (0, 0), "q1": (6, 0)})
        seq = pulser.Sequence(reg, MockDevice)
        seq.declare_channel("ch", "rydberg_global")
        seq.add(pulser.Pulse.ConstantPulse(40, 3.0, 0.0, 0.0), "ch")
        try:
            import warnings
            with warnings.catch_warnings():
                warnings.simplefilter("ignore")
                cfg = compat.mps_config(noise_model=NoiseModel(**kw), n_trajectories=ntraj, dt=10, observables=[_bitstrings()])
                pd = PulserData(sequence=seq, config=cfg, dt=cfg.dt)
                reps = [int(r) for _, r in pd.hamiltonian.noise_trajectories]
                sds = list(pd.get_sequences())
        except Exception as e:  # noqa: BLE001 — environment (pulser 1.9.1) problem, not the property
            rep.notes.append(f"real-pulser path not drivable here: {type(e).__name__}: {str(e)[:100]}")
            return
        done += 1
        rep.hist("real_pulser_kind", kind)
        if sum(reps) != ntraj:
            rep.fail(f"pulser contract: sum(reps)={sum(reps)} != n_trajectories={ntraj}", {"kind": kind, "ntraj": ntraj})
        if len(sds) != ntraj:
            rep.fail(f"real path: {len(sds)} SequenceData for n_trajectories={ntraj}", {"kind": kind, "ntraj": ntraj, "reps": reps})
        bad = [sd.bad_atoms for sd in sds]
        want = [tuple(t.bad_atoms.values()) for t, r in pd.hamiltonian.noise_trajectories for _ in range(r)]
        if bad != [tuple(bool(b) for b in w) for w in want] and bad != want:
            rep.fail("real path: bad_atoms of the yielded SequenceData are not the trajectories' in order, reps times each",
                     {"kind": kind, "ntraj": ntraj, "reps": reps})
        rep.case(key=("real", kind, ntraj, tuple(reps)), nontrivial=ntraj > 1, trace=True)
    rep.extra["real_pulser_sequences_checked"] = done


def search(rep: Report, seed: int, n: int) -> None:
    """Failing-input search on the real code only: the counting oracle on many more reps lists."""
    rng = seeded(seed * 104729 + 34)
    for i in range(n):
        reps = gen_reps(rng)
        try:
            idx, ok = real_expand(reps)
        except Exception as e:  # noqa: BLE001
            rep.fail(f"get_sequences raised {type(e).__name__}: {e}", {"reps": reps})
            return
        want = [k for k, r in enumerate(reps) for _ in range(max(r, 0))]
        if idx != want or not ok:
            rep.fail(f"get_sequences yielded {idx[:20]}, expected {want[:20]}", {"reps": reps})
            return
        if i % 8 == 0 and len(want) <= 120:
            shots = rng.randint(1, 1000)
            vals = [rng.random() for _ in range(7)]
            for backend in ("mps", "sv"):
                try:
                    shape, handed, agg, calls, same_objs = real_run(backend, reps, shots, vals)
                except Exception as e:  # noqa: BLE001
                    rep.fail(f"{backend} run() raised {type(e).__name__}: {e}", {"reps": reps, "backend": backend})
                    return
                msg = oracle(reps, shots, shape, handed, agg, calls, same_objs)
                if msg:
                    rep.fail(f"{backend}: {msg}", {"reps": reps, "shots": shots, "backend": backend, "vals": vals})
                    return
    rep.extra["search_cases"] = n


def replay(rep: Report, path: str) -> int:
    data = json.load(open(path))
    bad = 0
    for f in data.get("failing_inputs", []):
        d = f["data"]
        msg = None
        if "sv_family" in d:
            msg, _ = sv_family_case(d["sv_family"])
        elif "reps" in d:
            reps = d["reps"]
            idx, ok = real_expand(reps)
            want = [k for k, r in enumerate(reps) for _ in range(max(r, 0))]
            if idx != want or not ok:
                msg = f"get_sequences yields {idx[:20]}, expected {want[:20]}"
            elif "backend" in d and "shots" in d:
                shape, handed, agg, calls, same_objs = real_run(d["backend"], reps, d["shots"], d.get("vals") or [0.5])
                msg = oracle(reps, d["shots"], shape, handed, agg, calls, same_objs)
        print("replay:", msg or "property holds on this input now")
        bad += bool(msg)
    return 1 if bad else 0
