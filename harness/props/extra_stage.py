"""A second (third, …) Lean stage for a property whose theorems live in more than one `Props/*.lean` module
(C29 + C29Exp, C07 + C07Breakdown, C12 + C12Sparse).

`harness.common.lean_stage` overwrites `rep.obligations` / `rep.checker_cmd`, and the extra modules import heavier
parts of Mathlib (matrix exponential, special functions), so their build + forbidden-token grep + `#print axioms`
audit run
  * on a scratch `Report`, in a thread, concurrently with the Python side of the check (the main stage must have
    finished — or be awaited through `after=` — before `start()`: two `lake build`s never run at the same time);
  * `merge()` (main thread) joins, re-raises whatever the stage raised, folds obligations / discharged theorems /
    broken obligations / axioms into the real report and insists that every obligation was discharged or broken.
Kept out of `harness/common.py` on purpose (CONTRIBUTING: do not edit common.py).
"""
from __future__ import annotations

import threading
import time

from harness.common import Report, lean_stage


class ExtraLeanStage(threading.Thread):
    def __init__(self, rep: Report, stages: list[tuple[str, str]], thorough: bool, after: threading.Thread | None = None):
        super().__init__(daemon=True)
        self.rep, self.stages, self.thorough, self.after = rep, stages, thorough, after
        self.scratch = [Report(rep.prop, rep.tier, rep.seed) for _ in stages]
        self.exc: BaseException | None = None
        self.wall = 0.0

    def run(self):
        try:
            if self.after is not None:
                self.after.join()
            t0 = time.time()
            for (module, audit), r in zip(self.stages, self.scratch):
                lean_stage(r, module, audit, thorough=self.thorough)
            self.wall = time.time() - t0
        except BaseException as e:      # re-raised in the main thread
            self.exc = e

    def merge(self) -> None:
        self.join()
        if self.exc is not None:
            raise self.exc
        rep = self.rep
        axioms = set(rep.extra.get("axioms_used", []))
        for (module, audit), r in zip(self.stages, self.scratch):
            rep.obligations = list(rep.obligations) + [o for o in r.obligations if o not in rep.obligations]
            rep.discharged.extend(d for d in r.discharged if d not in rep.discharged)
            for b in r.broken:
                rep.broke(f"[{module}] {b}")
            if not r.broken and len(r.discharged) != len(r.obligations):
                rep.broke(f"[{module}] lean stage ended without discharging every obligation")
            rep.checker_cmd = (rep.checker_cmd + " ; " if rep.checker_cmd else "") + r.checker_cmd
            axioms |= set(r.extra.get("axioms_used", []))
            if "leanchecker_rc" in r.extra:
                rep.extra[f"leanchecker_rc[{module}]"] = r.extra["leanchecker_rc"]
        rep.extra["axioms_used"] = sorted(axioms)
        rep.extra["t_extra_lean_stage_s"] = round(self.wall, 1)
        rep.extra["extra_lean_modules"] = [m for m, _ in self.stages]
