"""Helpers shared by the C07/C08 checks (package `krylov`): recording of the numerical kernels the
two Krylov routines call (`Tensor.norm`, `torch.tensordot`, `torch.vdot`, `torch.linalg.matrix_exp`,
`torch.linalg.eigh`, `_ritz_vector`) with `unittest.mock.patch`, and the line encoding understood by
`lean/EmuVerif/Drv/Krylov.lean`.  (Kept out of harness/common.py on purpose: see CONTRIBUTING.md.)"""
from __future__ import annotations

import contextlib
import threading
from unittest import mock

import numpy as np
import torch

from harness.common import f2b, b2f


class LeanStageThread(threading.Thread):
    """`lean_stage` (lake build, forbidden-token grep, `#print axioms` audit) run concurrently with the
    Python side of a check; `finish()` joins and re-raises whatever the stage raised, and insists that
    every obligation was either discharged or reported broken."""

    def __init__(self, rep, prop_module, audit, thorough):
        super().__init__(daemon=True)
        self.rep, self.args, self.exc = rep, (prop_module, audit, thorough), None

    def run(self):
        from harness.common import lean_stage
        try:
            lean_stage(self.rep, self.args[0], self.args[1], thorough=self.args[2])
        except BaseException as e:      # re-raised in the main thread
            self.exc = e

    def finish(self):
        self.join()
        if self.exc is not None:
            raise self.exc
        rep = self.rep
        if not rep.broken and len(rep.discharged) != len(rep.obligations):
            rep.broke("lean stage ended without discharging every obligation")


def cx(z) -> str:
    z = complex(z)
    return f"{f2b(z.real)}:{f2b(z.imag)}"


def uncx(s: str) -> complex:
    a, b = s.split(":")
    return complex(b2f(a), b2f(b))


def l1(items) -> str:
    items = list(items)
    return ",".join(items) if items else "-"


def l2(rows) -> str:
    rows = [l1(r) for r in rows]
    return ";".join(rows) if rows else "-"


def l3(blocks) -> str:
    blocks = [l2(b) for b in blocks]
    return "|".join(blocks) if blocks else "-"


def mat_line(a: np.ndarray) -> str:
    return l2([[cx(z) for z in row] for row in a])


class Recorder:
    """Event log of one real run: ("op",) ("norm", x) ("dot", z) ("mexp", arg, out) ("eigh", arg, w, v)
    ("ritz", tensor)."""

    def __init__(self):
        self.events: list[tuple] = []

    def wrap_op(self, op):
        def wrapped(x):
            self.events.append(("op",))
            return op(x)
        return wrapped

    @contextlib.contextmanager
    def recording(self):
        ev = self.events
        o_norm = torch.Tensor.norm
        o_td = torch.tensordot
        o_vdot = torch.vdot
        o_mexp = torch.linalg.matrix_exp
        o_eigh = torch.linalg.eigh

        def norm(self_, *a, **k):
            r = o_norm(self_, *a, **k)
            ev.append(("norm", float(r)))
            return r

        def tensordot(*a, **k):
            r = o_td(*a, **k)
            ev.append(("dot", complex(r)))
            return r

        def vdot(*a, **k):
            r = o_vdot(*a, **k)
            ev.append(("dot", complex(r)))
            return r

        def mexp(m):
            arg = m.detach().clone().numpy()
            r = o_mexp(m)
            ev.append(("mexp", arg, r.detach().clone().numpy()))
            return r

        def eigh(m, *a, **k):
            arg = m.detach().clone().numpy()
            r = o_eigh(m, *a, **k)
            ev.append(("eigh", arg, r[0].detach().clone().numpy(), r[1].detach().clone().numpy()))
            return r

        with mock.patch.object(torch.Tensor, "norm", norm), mock.patch("torch.tensordot", tensordot), \
                mock.patch("torch.vdot", vdot), mock.patch("torch.linalg.matrix_exp", mexp), \
                mock.patch("torch.linalg.eigh", eigh):
            yield self


def rel_close(a: complex, b: complex, tol: float, scale: float = 0.0) -> bool:
    return abs(a - b) <= tol * max(abs(a), abs(b), scale)
