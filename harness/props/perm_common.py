"""Shared by c32.py and c03.py (package `perm`): encoders for the `perm.*` / `bw.*` line protocol
(lean/EmuVerif/Drv/Perm.lean, Drv/Bandwidth.lean), generators, the helper-function
correspondence and the helper laws evaluated on the real code.

Not a check by itself (harness/registry.py only loads c<digits>.py)."""
from __future__ import annotations

import json

from harness.common import Driver, LeanError, Report, f2b, lst

ALPHABETS = ["01", "rg", "rgx", "abcdefghij", "01é→𝔸λ"]


# ------------------------------------------------------------------ encoders
def enc_perm(p) -> str:
    return lst(str(int(i)) for i in p)


def enc_perms(ps) -> str:
    ps = list(ps)
    return ";".join(enc_perm(p) for p in ps) if ps else "_"


def enc_rows(rows, tok=str) -> str:
    rows = list(rows)
    return ";".join(lst(tok(x) for x in r) for r in rows) if rows else "_"


def enc_matF(M) -> str:
    """float64 matrix (torch tensor / nested list) as rows of UInt64 bit patterns"""
    rows = M.tolist() if hasattr(M, "tolist") else M
    return enc_rows(rows, f2b)


def enc_cps(s: str) -> str:
    return lst(str(ord(c)) for c in s)


def par_batch(lines: list[str], k: int = 8) -> list[str]:
    """`Driver().batch` over k driver processes (the interpreter is the bottleneck; the replies
    are position-wise, so chunking cannot change them). Chunks are balanced by request size."""
    from concurrent.futures import ThreadPoolExecutor
    if len(lines) < 2 * k or sum(len(l) for l in lines) < 200000:
        return Driver().batch(lines)          # small job: one interpreter start is cheaper than k
    order = sorted(range(len(lines)), key=lambda i: -len(lines[i]))
    chunks, load = [[] for _ in range(k)], [0] * k
    for i in order:
        j = load.index(min(load))
        chunks[j].append(i)
        load[j] += len(lines[i]) + 200
    with ThreadPoolExecutor(k) as ex:
        outs = list(ex.map(lambda c: Driver().batch([lines[i] for i in c]), chunks))
    res: list = [None] * len(lines)
    for c, o in zip(chunks, outs):
        for i, r in zip(c, o):
            res[i] = r
    return res


# ------------------------------------------------------------------ generators
def rand_perm(rng, n: int) -> list[int]:
    p = list(range(n))
    rng.shuffle(p)
    return p


def rand_index_list(rng, n: int):
    """(kind, p): mostly permutations of 0..n-1; also legal gathers that are not permutations and
    index lists that make Python raise IndexError."""
    k = rng.random()
    if k < 0.55 or n == 0:
        kind = "perm"
        p = rand_perm(rng, n)
        if n and rng.random() < 0.15:
            kind, p = "identity", list(range(n))
        elif n and rng.random() < 0.1:
            kind, p = "reverse", list(range(n))[::-1]
        return kind, p
    if k < 0.7:
        return "sub", [rng.randrange(n) for _ in range(rng.randint(0, n))]
    if k < 0.8:
        return "dup", [rng.randrange(n) for _ in range(rng.randint(n, 2 * n))]
    p = rand_perm(rng, n)
    j = rng.randrange(len(p))
    p[j] = n + rng.choice([0, 0, 1, 5])        # n itself is the boundary
    return "oob", p


# ------------------------------------------------------------------ helper correspondence
def helper_cases(rng, ncases: int, nmax: int):
    """(line, expected_reply, meta) triples from the real helper functions."""
    import torch
    from emu_mps.optimatrix import permutations as P

    out = []
    for _ in range(ncases):
        fn = rng.choice(["list", "tuple", "string", "vec", "vecf", "mat", "mat", "inv", "eye"])
        n = rng.choice([0, 1, 2, 3, rng.randint(1, nmax), rng.randint(1, nmax), nmax])
        kind, p = rand_index_list(rng, n)
        # int32 is what RCM answers carry; inv_permutation is only ever called on int64 by the back-end
        # (and raises on int32: finding F-perm-1, probed separately in c32.py)
        pt = torch.tensor(p, dtype=torch.int64 if fn == "inv" else rng.choice([torch.int64, torch.int32]))
        meta = dict(fn=fn, n=n, kind=kind, p=p)
        try:
            if fn in ("list", "tuple"):
                xs = [f"t{rng.randrange(max(n, 1))}" if rng.random() < 0.3 else f"u{i}" for i in range(n)]
                meta["xs"] = xs
                line = f"perm.{fn} {lst(xs)} {enc_perm(p)}"
                r = P.permute_list(xs, pt) if fn == "list" else list(P.permute_tuple(tuple(xs), pt))
                exp = "ok " + lst(r)
            elif fn == "string":
                alpha = rng.choice(ALPHABETS)
                s = "".join(rng.choice(alpha) for _ in range(n))
                meta["s"] = s
                line = f"perm.string {enc_cps(s)} {enc_perm(p)}"
                exp = "ok " + enc_cps(P.permute_string(s, pt))
            elif fn in ("vec", "vecf"):
                if fn == "vec":
                    v = torch.tensor([rng.randint(-9, 9) for _ in range(n)], dtype=torch.int64)
                    tok = lambda x: str(int(x)).replace("-", "m")
                else:
                    v = torch.tensor([rng.uniform(-1, 1) for _ in range(n)], dtype=torch.float64)
                    tok = f2b
                meta["v"] = v.tolist()
                line = f"perm.vec {lst(tok(x) for x in v.tolist())} {enc_perm(p)}"
                exp = "ok " + lst(tok(x) for x in P.permute_tensor(v, pt).tolist())
            elif fn == "mat":
                r_, c_ = (n, n) if rng.random() < 0.8 or n == 0 else (n, rng.choice([max(n - 1, 1), n + 1]))
                m = torch.arange(r_ * c_, dtype=torch.int64).reshape(r_, c_) * rng.choice([1, 3]) + rng.randint(0, 5)
                meta["shape"] = [r_, c_]
                line = f"perm.mat {enc_rows(m.tolist())} {enc_perm(p)}"
                exp = "ok " + enc_rows(P.permute_tensor(m, pt).tolist())
            elif fn == "inv":
                line = f"perm.inv {enc_perm(p)}"
                if sorted(p) != list(range(len(p))):
                    out.append((line, None, meta))        # outside the contract: model says `none`
                    continue
                exp = "ok " + enc_perm(P.inv_permutation(pt).tolist())
            else:
                line = f"perm.eye {n}"
                exp = enc_perm(P.eye_permutation(n).tolist())
        except IndexError:
            exp = "indexerror"
        except ValueError:
            exp = "valueerror"
        out.append((line, exp, meta))
    return out


def run_batched(rep: Report, gens, k: int = 4) -> None:
    """Correspondence pieces written as generators (`replies = yield request_lines`, None = driver failed):
    all their requests go through ONE driver job (interpreter start-up is the dominant cost of a small batch)."""
    live, lines, spans = [], [], []
    for g in gens:
        try:
            ls = next(g)
        except StopIteration:
            continue
        live.append(g)
        spans.append((len(lines), len(lines) + len(ls)))
        lines += ls
    try:
        out = par_batch(lines, k) if lines else []
    except LeanError as e:
        rep.broke("driver: " + str(e)[-800:])
        out = None
    for g, (a, b) in zip(live, spans):
        try:
            g.send(None if out is None else out[a:b])
        except StopIteration:
            pass


def helper_correspondence(rep: Report, rng, ncases: int, nmax: int = 30) -> None:
    run_batched(rep, [helper_correspondence_gen(rep, rng, ncases, nmax)])


def helper_correspondence_gen(rep: Report, rng, ncases: int, nmax: int = 30):
    cases = helper_cases(rng, ncases, nmax)
    mo = yield [c[0] for c in cases]
    if mo is None:
        return
    bad = 0
    for (line, exp, meta), m in zip(cases, mo):
        rep.hist("helper_fn", meta["fn"])
        rep.hist("index_kind", meta["kind"])
        if exp is None:
            rep.count("inv_outside_contract_not_compared")
            if m != "none":
                bad += 1
                rep.broke(f"correspondence inv_permutation: model accepts a non-permutation {meta['p']}")
            continue
        rep.hist("helper_outcome", exp.split()[0] if exp.split()[0] in ("ok", "indexerror", "valueerror") else "ok")
        rep.case(key=line, nontrivial=meta["n"] >= 2,
                 sample={"fn": meta["fn"], "n": meta["n"], "kind": meta["kind"]})
        if m != exp:
            bad += 1
            if bad <= 4:
                rep.broke(f"correspondence Model.Perm vs permutations.py [{meta['fn']}]: {json.dumps(meta)[:400]} "
                          f"model={m[:160]} impl={exp[:160]}")
    rep.extra["helper_disagreements"] = rep.extra.get("helper_disagreements", 0) + bad


# ------------------------------------------------------------------ helper laws on the real code
def helper_laws(p: list[int], q: list[int], labels: list[str], s: str):
    """The helper clauses of C32/C03 evaluated on the real functions for permutations p, q of
    0..n-1. Returns a failure string or None."""
    import torch
    from emu_mps.optimatrix import permutations as P

    n = len(p)
    pt, qt = torch.tensor(p, dtype=torch.int64), torch.tensor(q, dtype=torch.int64)
    ident = list(range(n))
    inv = P.inv_permutation(pt)
    if sorted(inv.tolist()) != ident:
        return "inv_permutation does not return a permutation"
    if P.permute_tensor(pt, inv).tolist() != ident or P.permute_tensor(inv, pt).tolist() != ident:
        return "inv_permutation is not a two-sided inverse"
    if P.inv_permutation(inv).tolist() != p:
        return "inv_permutation(inv_permutation(p)) != p"
    want = [labels[i] for i in p]
    got_l = P.permute_list(labels, pt)
    if got_l != want:
        return "permute_list is not the gather k -> x[p[k]]"
    if list(P.permute_tuple(tuple(labels), pt)) != got_l:
        return "permute_tuple and permute_list move different elements"
    if P.permute_string(s, pt) != "".join(s[i] for i in p):
        return "permute_string and permute_list move different elements"
    v = torch.arange(n, dtype=torch.float64) * 1.5
    if P.permute_tensor(v, pt).tolist() != [v[i].item() for i in p]:
        return "permute_tensor (1-D) and permute_list move different elements"
    m = torch.arange(n * n, dtype=torch.int64).reshape(n, n)
    pm = P.permute_tensor(m, pt)
    if pm.tolist() != [[m[i, j].item() for j in p] for i in p]:
        return "permute_tensor (2-D) is not M[p[a]][p[b]]"
    # inverting undoes permuting
    if P.permute_list(got_l, inv) != labels or P.permute_list(P.permute_list(labels, inv), pt) != labels:
        return "permuting then inverting does not return the list"
    if P.permute_tensor(pm, inv).tolist() != m.tolist():
        return "permuting then inverting does not return the matrix"
    # composition law, direction of the code: permute(permute(x,p),q) = permute(x, permute(p,q))
    pq = P.permute_tensor(pt, qt)
    if P.permute_list(P.permute_list(labels, pt), qt) != P.permute_list(labels, pq):
        return "composition law fails on lists"
    if P.permute_tensor(P.permute_tensor(m, pt), qt).tolist() != P.permute_tensor(m, pq).tolist():
        return "composition law fails on matrices"
    return None
