"""Harness-side tracing of the real emu-mps stepping machine (shared by c18.py and c02.py).

Nothing in /repo is touched: every hook is a `unittest.mock.patch` installed by `traced(...)`
for the duration of one run. The event vocabulary and the record format are those of
`lean/EmuVerif/Model/Stepper.lean` / `Drv/Stepper.lean`:

    W,k,from,to | P,l,dt,cr | S,i,dt | LB,i | RB,i | H0,k | F,t | H,k,q | D,k | J,t   + ,lb,rb,centre

(floats as decimal UInt64 bit patterns). `lb`/`rb`/`centre` are `len(left_baths)`,
`len(right_baths)`, `state.orthogonality_center` when the event is emitted.
"""
from __future__ import annotations

import contextlib
import random
import traceback
from unittest import mock

from harness.common import f2b
from harness import compat


class TapeOut(Exception):
    pass


class Tracer:
    def __init__(self, env_tape=None, stub_evolve=False):
        self.recs: list[str] = []          # model-format records
        self.impl = None
        self.last_query = None             # last time handed to pulser_data.interaction_matrix
        self.queries: list[float] = []
        self.drive_rows: list = []         # (kind, k, omega, delta, phi) seen by the module-level update_H
        self.make_h: list = []             # interaction matrices handed to make_H
        self.env_tape = list(env_tape) if env_tape is not None else None   # [(norm, u, post_norm, choice)]
        self.env_pos = 0
        self.env = None
        self.norm_mode = "real"
        self.norm_value = None
        self.in_jump = False
        self.stub_evolve = stub_evolve
        self.sweeps = 0
        self.last_sweep_mark = 0           # index in recs of the last W record
        self.norm_calls_env = 0

    # -- records
    def snap(self):
        i = self.impl
        lb = len(getattr(i, "left_baths", []) or [])
        rb = len(getattr(i, "right_baths", []) or [])
        st = getattr(i, "state", None)
        c = getattr(st, "orthogonality_center", 0) if st is not None else 0
        return f"{lb},{rb},{'N' if c is None else c}"

    def rec(self, body: str):
        self.recs.append(body + "," + self.snap())

    def next_env(self):
        if self.env_tape is None:
            return
        if self.env_pos >= len(self.env_tape):
            raise TapeOut()
        self.env = self.env_tape[self.env_pos]
        self.env_pos += 1

    def tape_left(self) -> bool:
        return self.env_tape is None or self.env_pos < len(self.env_tape)


@contextlib.contextmanager
def traced(tr: Tracer):
    """Install the hooks. With `tr.env_tape` the state norm, `random.uniform` and
    `random.choices` are taken from the tape (noisy runs); with `tr.stub_evolve` the local
    kernels are replaced by a no-op that only moves the orthogonality centre."""
    compat.install()
    import torch
    import emu_mps.mps_backend_impl as mbi
    from emu_mps.mps import MPS
    from emu_base.pulser_adapter import _InteractionMatrixCallable

    B, NB = mbi.MPSBackendImpl, mbi.NoisyMPSBackendImpl
    o_init, o_progress, o_evolve = B.__init__, B.progress, B._evolve
    o_fill, o_tsc, o_uh, o_uh0, o_ib = B.fill_results, B.timestep_complete, B.update_H, B.update_H_no_noise, B.init_baths
    o_nlb, o_nrb, o_fupd, o_mk = mbi.new_left_bath, mbi.new_right_bath, mbi.update_H, mbi.make_H
    o_jump, o_nsc, o_sjt, o_ninit = NB.do_random_quantum_jump, NB.sweep_complete, NB.set_jump_threshold, NB.init
    o_norm, o_call = MPS.norm, _InteractionMatrixCallable.__call__

    def w_init(self, *a, **k):
        tr.impl = self
        return o_init(self, *a, **k)

    def w_progress(self):
        tr.impl = self
        if not self.is_finished():
            if self.qubit_count <= 2 or (self._swipe_direction is mbi.SwipeDirection.LEFT_TO_RIGHT
                                         and self._sweep_index == 0):
                if not tr.tape_left():
                    raise TapeOut()
                tr.last_sweep_mark = len(tr.recs)
                tr.rec(f"W,{self._timestep_index},{f2b(self.current_time)},{f2b(self.target_time)}")
        return o_progress(self)

    def w_evolve(self, *indices, dt, orth_center_right=None):
        if len(indices) == 2:
            tr.rec(f"P,{indices[0]},{f2b(dt)},{1 if orth_center_right else 0}")
        else:
            tr.rec(f"S,{indices[0]},{f2b(dt)}")
        if tr.stub_evolve:
            # the checks of the real `_evolve`, without the tensor work
            baths = (self.get_current_left_bath(), self.get_current_right_bath())  # noqa: F841
            if len(indices) == 1:
                assert orth_center_right is None
                assert self.state.orthogonality_center == indices[0]
            else:
                assert orth_center_right is not None
                l, r = indices
                assert r == l + 1
                assert self.state.orthogonality_center in {l, r}
                self.state.orthogonality_center = r if orth_center_right else l
            return None
        return o_evolve(self, *indices, dt=dt, orth_center_right=orth_center_right)

    def _site_of(factor):
        for i, f in enumerate(tr.impl.state.factors):
            if f is factor:
                return i
        return -1

    def w_nlb(bath, state_factor, ham_factor):
        tr.rec(f"LB,{_site_of(state_factor)}")
        return o_nlb(bath, state_factor, ham_factor)

    def w_nrb(bath, state_factor, ham_factor):
        tr.rec(f"RB,{_site_of(state_factor)}")
        return o_nrb(bath, state_factor, ham_factor)

    def w_fill(self):
        tr.rec(f"F,{f2b(self.current_time)}")
        mode, tr.norm_mode = tr.norm_mode, "real"
        try:
            return o_fill(self)
        finally:
            tr.norm_mode = mode

    def w_tsc(self):
        k = self._timestep_index
        r = o_tsc(self)
        tr.rec(f"D,{k}")
        return r

    def w_uh(self):
        tr.rec(f"H,{self._timestep_index},{f2b(tr.last_query)}")
        tr._kind = "H"
        return o_uh(self)

    def w_uh0(self):
        tr.rec(f"H0,{self._timestep_index}")
        tr._kind = "H0"
        return o_uh0(self)

    def w_fupd(*a, **k):
        tr.drive_rows.append((getattr(tr, "_kind", "?"), tr.impl._timestep_index,
                              k["omega"].clone(), k["delta"].clone(), k["phi"].clone()))
        return o_fupd(*a, **k)

    def w_mk(*a, **k):
        tr.make_h.append((tr.last_query, k["interaction_matrix"].clone()))
        return o_mk(*a, **k)

    def w_call(self, t):
        tr.last_query = t
        tr.queries.append(t)
        return o_call(self, t)

    def w_ib(self):
        r = o_ib(self)
        if tr.in_jump and tr.env_tape is not None:
            tr.norm_mode, tr.norm_value = "env", tr.env[2]
        return r

    def w_jump(self):
        tr.rec(f"J,{f2b(self.current_time)}")
        tr.in_jump = True
        mode, tr.norm_mode = tr.norm_mode, "real"
        try:
            return o_jump(self)
        finally:
            tr.in_jump = False
            tr.norm_mode = mode

    def w_nsc(self):
        tr.impl = self
        tr.sweeps += 1
        if tr.env_tape is not None:
            tr.next_env()
            tr.norm_mode, tr.norm_value = "env", tr.env[0]
        try:
            return o_nsc(self)
        finally:
            tr.norm_mode = "real"

    def w_ninit(self):
        tr.impl = self
        if tr.env_tape is not None:
            tr.next_env()
        return o_ninit(self)

    def w_sjt(self, bound):
        if tr.env_tape is not None and not tr.in_jump:
            mode, tr.norm_mode, tr.norm_value = tr.norm_mode, "env", tr.env[0]
            try:
                return o_sjt(self, bound)
            finally:
                tr.norm_mode = mode
        return o_sjt(self, bound)

    def w_norm(self):
        if tr.norm_mode == "env":
            tr.norm_calls_env += 1
            return torch.tensor(tr.norm_value, dtype=torch.float64)
        return o_norm(self)

    def w_uniform(a, b):
        return a + (b - a) * tr.env[1]

    def w_choices(population, weights=None, **kw):
        return [population[tr.env[3] % len(population)]]

    with contextlib.ExitStack() as st:
        P = lambda obj, name, new: st.enter_context(mock.patch.object(obj, name, new))
        P(B, "__init__", w_init); P(B, "progress", w_progress); P(B, "_evolve", w_evolve)
        P(B, "fill_results", w_fill); P(B, "timestep_complete", w_tsc)
        P(B, "update_H", w_uh); P(B, "update_H_no_noise", w_uh0); P(B, "init_baths", w_ib)
        P(mbi, "new_left_bath", w_nlb); P(mbi, "new_right_bath", w_nrb)
        P(mbi, "update_H", w_fupd); P(mbi, "make_H", w_mk)
        P(_InteractionMatrixCallable, "__call__", w_call)
        P(NB, "do_random_quantum_jump", w_jump); P(NB, "sweep_complete", w_nsc)
        P(NB, "set_jump_threshold", w_sjt); P(NB, "init", w_ninit)
        if tr.env_tape is not None:
            P(MPS, "norm", w_norm)
            P(random, "uniform", w_uniform); P(random, "choices", w_choices)
        yield tr


def classify_exception(e: BaseException) -> str:
    """Map an exception escaping the real code to the model's error tags."""
    tb = traceback.extract_tb(e.__traceback__)
    last = tb[-1] if tb else None
    fn, name = (last.filename, last.name) if last else ("", "")
    if isinstance(e, ZeroDivisionError):
        return "zeroDiv"
    if isinstance(e, AssertionError):
        if fn.endswith("brents_root_finding.py") and name == "__init__":
            return "brentInit"
        if name in ("_evolve", "w_evolve"):
            return "evolveAssert"
        if name in ("init_baths",):
            return "initBaths"
        if name == "progress":
            return "cornerAssert"
        return "assert:" + name
    if isinstance(e, IndexError):
        if name in ("get_current_left_bath", "get_current_right_bath", "_left_to_right_update_tdvp",
                    "_right_to_left_update_tdvp"):
            return "bathIndex"
        return "timeIndex"
    return type(e).__name__ + ":" + name
