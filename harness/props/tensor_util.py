"""Helpers shared by c11.py / c15.py (package `tensor`): encoding of tensors for the Lean driver,
generators of exactly-representable (Gaussian-integer) matrix products, dense references, exact fake
`qr` oracles. Not a check by itself (no REGISTRY)."""
from __future__ import annotations

import itertools
import math
import struct

import numpy as np
import torch

from harness.common import f2b, b2f

DT = torch.complex128
EXACT_LIMIT = 2.0 ** 40   # every value of an "exact" case must be an integer below this (binary64 exact < 2**53)


# ----------------------------------------------------------------------------- encoding
def enc_z(z) -> str:
    z = complex(z)
    re, im = z.real, z.imag
    assert re == int(re) and im == int(im), z
    return f"{int(re)}@{int(im)}"


def enc_f(z) -> str:
    z = complex(z)
    return f"{f2b(z.real)}@{f2b(z.imag)}"


def dec_z(s: str) -> complex:
    a, b = s.split("@")
    return complex(int(a), int(b))


def dec_f(s: str) -> complex:
    a, b = s.split("@")
    if a == "nan" or b == "nan":
        return complex(float("nan"), float("nan"))
    return complex(b2f(a), b2f(b))


ENC = {"z": enc_z, "f": enc_f}
DEC = {"z": dec_z, "f": dec_f}


def enc_vals(t: torch.Tensor, kind: str) -> str:
    flat = t.detach().reshape(-1).to(DT).tolist()
    return ",".join(ENC[kind](v) for v in flat) if flat else "-"


def enc_site(t: torch.Tensor, kind: str) -> str:
    """MPS factor (dl,d,dr) or MPO factor (dl,do,di,dr) -> `dl:D:dr:vals` (row-major)."""
    dl, dr = t.shape[0], t.shape[-1]
    D = int(np.prod(t.shape[1:-1]))
    return f"{dl}:{D}:{dr}:{enc_vals(t, kind)}"


def enc_chain(fs, kind: str) -> str:
    return " ".join([str(len(fs))] + [enc_site(f, kind) for f in fs])


def dec_site(tok: str, kind: str) -> np.ndarray:
    dl, d, dr, vals = tok.split(":")
    dl, d, dr = int(dl), int(d), int(dr)
    arr = np.array([DEC[kind](v) for v in vals.split(",")] if vals != "-" else [], dtype=complex)
    return arr.reshape(dl, d, dr)


def dec_chain(tokens: list[str], kind: str):
    n = int(tokens[0])
    return [dec_site(t, kind) for t in tokens[1:1 + n]], tokens[1 + n:]


def site_np(t: torch.Tensor) -> np.ndarray:
    return t.detach().reshape(t.shape[0], -1, t.shape[-1]).to(DT).numpy()


def chains_equal_exact(model_sites, real_sites) -> bool:
    if len(model_sites) != len(real_sites):
        return False
    for m, r in zip(model_sites, real_sites):
        rn = site_np(r)
        if m.shape != rn.shape or not np.array_equal(m, rn):
            return False
    return True


def chains_close(model_sites, real_sites, tol: float) -> tuple[bool, float]:
    if len(model_sites) != len(real_sites):
        return False, float("inf")
    worst = 0.0
    for m, r in zip(model_sites, real_sites):
        rn = site_np(r)
        if m.shape != rn.shape:
            return False, float("inf")
        if m.size:
            scale = max(1.0, float(np.abs(rn).max()))
            worst = max(worst, float(np.abs(m - rn).max()) / scale)
    return worst <= tol, worst


def is_exact(*tensors) -> bool:
    for t in tensors:
        a = t.detach().to(DT).reshape(-1)
        if a.numel() == 0:
            continue
        re, im = a.real, a.imag
        if not (torch.all(re == torch.round(re)) and torch.all(im == torch.round(im))):
            return False
        if max(float(re.abs().max()), float(im.abs().max())) >= EXACT_LIMIT:
            return False
    return True


# ----------------------------------------------------------------------------- generators
UNITS = [1, -1, 1j, -1j]


def rand_bonds(rng, n: int, dmax: int, d: int) -> list[int]:
    """bond dimensions b_0=1,…,b_n=1 with b_i <= min(dmax, d**i, d**(n-i)) (what a real MPS can have) or
    unconstrained by the exponential caps with probability 1/3 (rank-deficient chains)."""
    capped = rng.random() < 0.67
    b = [1]
    for i in range(1, n):
        cap = dmax
        if capped:
            cap = min(dmax, d ** min(i, n - i, 12))
        b.append(rng.randint(1, max(1, cap)))
    b.append(1)
    return b


def rand_int_site(rng, dl: int, d_shape: tuple, dr: int, cap: int) -> torch.Tensor:
    """Gaussian-integer tensor of shape (dl, *d_shape, dr); for every left index the absolute row sum
    (|re|+|im| over all (x, r)) is at most `cap`; at least one unit per row."""
    D = int(np.prod(d_shape))
    t = np.zeros((dl, D, dr), dtype=complex)
    for l in range(dl):
        for _ in range(rng.randint(1, max(1, cap))):
            t[l, rng.randrange(D), rng.randrange(dr)] += rng.choice(UNITS)
    return torch.tensor(t, dtype=DT).reshape(dl, *d_shape, dr)


def site_cap(n: int, budget_bits: float, power: float) -> int:
    """per-site absolute row-sum cap c with c**(power*n) <= 2**budget_bits"""
    return max(1, int(2 ** (budget_bits / (power * n))))


def rand_int_chain(rng, n: int, d_shape: tuple, dmax: int, cap: int, bonds=None) -> list[torch.Tensor]:
    d = int(np.prod(d_shape))
    b = bonds or rand_bonds(rng, n, dmax, d if len(d_shape) == 1 else d_shape[0])
    return [rand_int_site(rng, b[i], d_shape, b[i + 1], cap) for i in range(n)]


def rand_float_chain(gen: torch.Generator, n: int, d_shape: tuple, bonds: list[int], scale=None) -> list[torch.Tensor]:
    out = []
    for i in range(n):
        shape = (bonds[i], *d_shape, bonds[i + 1])
        t = torch.randn(shape, dtype=torch.float64, generator=gen) + 1j * torch.randn(shape, dtype=torch.float64, generator=gen)
        s = scale if scale is not None else 1.0 / math.sqrt(max(1, bonds[i] * int(np.prod(d_shape))) )
        out.append((t * s).to(DT))
    return out


# ----------------------------------------------------------------------------- dense references
def dense_state(fs) -> torch.Tensor:
    """contract MPS factors (dl,d,dr) densely -> vector of length d**n (site 0 most significant)"""
    v = fs[0].to(DT)
    for f in fs[1:]:
        v = torch.tensordot(v, f.to(DT), dims=([v.ndim - 1], [0]))
    return v.reshape(-1)


def dense_op(ws) -> torch.Tensor:
    """contract MPO factors (dl,do,di,dr) densely -> matrix (d**n, d**n)"""
    n = len(ws)
    v = ws[0].to(DT)
    for w in ws[1:]:
        v = torch.tensordot(v, w.to(DT), dims=([v.ndim - 1], [0]))
    v = v.reshape(v.shape[1:-1])  # (o0,i0,o1,i1,...)
    perm = list(range(0, 2 * n, 2)) + list(range(1, 2 * n, 2))
    d_out = int(np.prod([w.shape[1] for w in ws]))
    d_in = int(np.prod([w.shape[2] for w in ws]))
    return v.permute(perm).reshape(d_out, d_in)


def embed_1site(op: torch.Tensor, k: int, n: int) -> torch.Tensor:
    d = op.shape[0]
    m = torch.eye(1, dtype=DT)
    for i in range(n):
        m = torch.kron(m, op.to(DT).contiguous() if i == k else torch.eye(d, dtype=DT))
    return m


def apply_1site(psi: torch.Tensor, op: torch.Tensor, k: int, n: int) -> torch.Tensor:
    """(1⊗…⊗op⊗…⊗1)·psi without building the dense operator"""
    d = op.shape[0]
    v = psi.reshape(d ** k, d, -1)
    return torch.einsum("xy,ayb->axb", op.to(DT), v).reshape(-1)


def index_of(levels, d: int) -> int:
    i = 0
    for x in levels:
        i = i * d + x
    return i


# ----------------------------------------------------------------------------- exact fake qr
def unimodular(rng, k: int, steps: int = 3):
    """integer matrix U with integer inverse (product of unit shears)"""
    U = np.eye(k)
    Ui = np.eye(k)
    if k >= 2:
        for _ in range(steps):
            i, j = rng.sample(range(k), 2)
            s = rng.choice([1, -1])
            E = np.eye(k)
            E[i, j] = s
            Ei = np.eye(k)
            Ei[i, j] = -s
            U = U @ E
            Ui = Ei @ Ui
    return torch.tensor(U, dtype=DT), torch.tensor(Ui, dtype=DT)


class QrTape:
    """Replacement for `torch.linalg.qr`: records (m, q, r). mode 'real' calls the real kernel;
    mode 'fake' answers q = m·U, r = U⁻¹ (exact on integer inputs; satisfies the only contract the
    theorems use, q·r = m)."""

    def __init__(self, rng=None, mode="real"):
        self.rng, self.mode, self.calls = rng, mode, []
        self._real = torch.linalg.qr

    def __call__(self, m, *a, **kw):
        if self.mode == "real":
            q, r = self._real(m, *a, **kw)
        else:
            U, Ui = unimodular(self.rng, m.shape[1])
            q, r = m.to(DT) @ U, Ui
        self.calls.append((m.detach().clone(), q.detach().clone(), r.detach().clone()))
        return q, r
