"""Shared helpers of the `timegrid` package (C21, C14, C23): generators of (duration, dt,
evaluation-time) cases, line builders for `Drv/TimeGrid.lean` / `Drv/Interact.lean`, stubbed
back-end runs (evolution replaced by a recorder so that only the bookkeeping of the real
back-ends runs), and a mock-driven call of the real `PulserData.get_sequences`.

Nothing here edits /repo; every interposition is `unittest.mock.patch` in this process.
"""
from __future__ import annotations

import math
from contextlib import ExitStack
from fractions import Fraction as Fr
from types import SimpleNamespace
from unittest import mock

from harness import compat
from harness.common import f2b, b2f, lst, q2s

# the literals of the code under test (passed to the model as bit patterns / rationals)
REL_TOL = 2e-12      # _get_target_times merge threshold (1e-9 in c68c973, 1e-12 in a740bae, 2e-12 since b8e723e)
TOL1 = 1e-10         # _is_evaluation_time tolerance
HALF = 0.5
TINY = 1e-6          # Observable.__call__ time_tol when total_duration == 0
Q_REL_TOL, Q_TOL1, Q_HALF, Q_TINY = Fr(2, 10**12), Fr(1, 10**10), Fr(1, 2), Fr(1, 10**6)

# the pairs found for defect D7 (i*dt/duration*duration != i*dt) — always replayed
D7_PAIRS = [(63, "0.7"), (7, "0.7"), (19, "0.1"), (93, "0.3"), (129, "0.3"), (1000, "0.3"), (57, "0.7"),
            (2000, "1.1"), (1473, "0.9"), (100, "0.1"), (3, "0.1")]

DT_TABLE = ["0.1", "0.2", "0.25", "0.3", "0.5", "0.7", "0.9", "1", "1.1", "1.5", "2", "2.5", "3", "3.3",
            "7", "10", "10.5", "13", "17.3", "33.3", "100", "1000"]


class Seq:
    """Mock of the only thing `_get_target_times` asks of a pulser.Sequence."""

    def __init__(self, d, d_mod=None):
        self.d, self.d_mod = d, d_mod if d_mod is not None else d

    def get_duration(self, include_fall_time=False):
        return self.d_mod if include_fall_time else self.d


# ------------------------------------------------------------------ case generation
def gen_dt(rng, D, max_points):
    """(dt as Fraction, label). Includes non-dividing dts, dt = D, dt > D."""
    while True:
        r = rng.random()
        if r < 0.55:
            q = Fr(rng.choice(DT_TABLE))
        elif r < 0.65:
            q = Fr(D) * rng.choice([1, 2, Fr(1, 3), Fr(1, 7), Fr(3, 2), Fr(1, 2)]) + rng.choice([0, 0, 1, Fr(1, 10)])
        elif r < 0.85:
            q = Fr(rng.randint(1, 400), rng.choice([1, 2, 3, 7, 10, 16, 100]))
        else:
            q = Fr(rng.randint(1, 99), 10)
        if q > 0 and D / q <= max_points:
            return q


def _irrationals():
    return [math.sqrt(2) / 2, math.pi / 4, math.e / 3, math.sqrt(3) - 1, 1 / math.pi, math.log(2)]


def gen_times(rng, D, dtq, n):
    """One observable's evaluation times: list of (Fraction exact value, float handed to the code).
    Rational fractions keep their exact value for the ℚ model; floats that are not meant as a
    rational are taken at their binary value."""
    out = []
    nmult = int(Fr(D) / dtq)
    for _ in range(n):
        k = rng.random()
        if k < 0.25:
            m = rng.choice([2, 3, 4, 5, 7, 8, 10, 16, 100, 1000])
            q = Fr(rng.randint(0, m), m)
            out.append((q, float(q)))
        elif k < 0.4:
            x = rng.choice(_irrationals())
            out.append((Fr(x), x))
        elif k < 0.5:
            out.append(rng.choice([(Fr(0), 0.0), (Fr(1), 1.0)]))
        elif k < 0.65:                      # exactly a dt multiple
            i = rng.randint(0, max(nmult, 0))
            q = min(Fr(i) * dtq / D, Fr(1))
            out.append((q, float(q)))
        elif k < 0.8:                       # absolute time on the ns lattice or half-ns
            q = Fr(rng.randint(0, 2 * D), 2 * D)
            out.append((q, float(q)))
        elif k < 0.9:                       # near a dt multiple / near 1 / near 0 (inside or outside tolerances)
            i = rng.randint(0, max(nmult, 0))
            base = min(Fr(i) * dtq / D, Fr(1))
            delta = rng.choice([-1, 1]) * Fr(rng.choice([1, 2, 5, 9]), 10 ** rng.choice([16, 14, 13, 12, 11, 10, 9, 8, 6]))
            q = min(max(base + delta, Fr(0)), Fr(1))
            x = float(q)
            out.append((Fr(x), x))
        else:
            x = rng.random()
            out.append((Fr(x), x))
    out.sort(key=lambda p: p[1])
    res = []
    for q, x in out:                        # pulser: strictly ascending, >= 1e-12 apart
        if not res or x - res[-1][1] >= 2e-12:
            res.append((q, x))
    return res


def near_dup(rng, times):
    """Another observable's times made of near-duplicates of `times` (cross-observable ties)."""
    out = []
    for q, x in times:
        if rng.random() < 0.6:
            d = rng.choice([-1, 1]) * rng.choice([1e-16, 3e-13, 5e-12, 5e-11, 3e-10, 1e-9, 1e-7])
            y = min(max(x + d, 0.0), 1.0)
            out.append((Fr(y), y))
    out.sort(key=lambda p: p[1])
    res = []
    for q, x in out:
        if not res or x - res[-1][1] >= 2e-12:
            res.append((q, x))
    return res


def gen_case(rng, max_points=1500, small=False):
    """A (duration, dt, default times, observables) case. observables: list of None | times."""
    r = rng.random()
    if small:
        D = rng.choice([1, 2, 3, 5, 7, 10, 19, 63, 100])
    elif r < 0.3:
        D = rng.randint(1, 30)
    elif r < 0.7:
        D = rng.randint(31, 2000)
    else:
        D = rng.randint(2001, 10000)
    dtq = gen_dt(rng, D, max_points)
    nobs = rng.choice([1, 1, 2, 2, 3])
    obs = []
    for j in range(nobs):
        k = rng.random()
        if k < 0.3:
            obs.append(None)
        elif k < 0.45 and obs and obs[-1]:
            nd = near_dup(rng, obs[-1])
            obs.append(nd if nd else None)
        else:
            t = gen_times(rng, D, dtq, rng.choice([1, 1, 2, 3, 5, 8]))
            obs.append(t if t else None)
    k = rng.random()
    if k < 0.5:
        dflt = [(Fr(1), 1.0)]               # the config default (1.0,)
    elif k < 0.6 and all(o is not None for o in obs):
        dflt = "Full"
    else:
        dflt = gen_times(rng, D, dtq, rng.choice([1, 2, 4])) or [(Fr(1), 1.0)]
    return dict(D=D, dtq=dtq, dt=float(dtq), dflt=dflt, obs=obs)


# ------------------------------------------------------------------ line builders
def _fl(xs):
    return lst(f2b(x) for x in xs)


def _ql(xs):
    return lst(q2s(x) for x in xs)


def dflt_arg(dflt, q=False):
    if dflt == "Full":
        return "F"
    return _ql(p[0] for p in dflt) if q else _fl(p[1] for p in dflt)


def obs_arg(obs, q=False):
    if not obs:
        return "_"
    return ";".join("N" if o is None else (_ql(p[0] for p in o) if q else _fl(p[1] for p in o)) for o in obs)


def grid_line(c, q=False, rel_tol=None):
    if q:
        return f"tg.gridq {q2s(Q_REL_TOL if rel_tol is None else rel_tol)} {q2s(Fr(c['D']))} {q2s(c['dtq'])} " \
               f"{dflt_arg(c['dflt'], True)} {obs_arg(c['obs'], True)}"
    return f"tg.grid {f2b(REL_TOL if rel_tol is None else rel_tol)} {f2b(float(c['D']))} {f2b(c['dt'])} " \
           f"{dflt_arg(c['dflt'])} {obs_arg(c['obs'])}"


def run_line(c, mps, nsteps, grid, q=False):
    if q:
        return f"tg.runq {int(mps)} {q2s(Q_TOL1)} {q2s(Q_HALF)} {q2s(Q_TINY)} {dflt_arg(c['dflt'], True)} " \
               f"{obs_arg(c['obs'], True)} {nsteps} {_ql(grid)}"
    return f"tg.run {int(mps)} {f2b(TOL1)} {f2b(HALF)} {f2b(TINY)} {dflt_arg(c['dflt'])} {obs_arg(c['obs'])} " \
           f"{nsteps} {_fl(grid)}"


def parse_grid(reply, q=False):
    """('ok', [values]) or ('err', tag)"""
    head, _, rest = reply.partition(" ")
    if head != "ok":
        return "err", rest
    if rest in ("-", ""):
        return "ok", []
    return "ok", [(Fr(*map(int, s.split("/"))) if q else b2f(s)) for s in rest.split(",")]


def parse_run(reply, q=False):
    """('ok', [[(t, k), …] per observable]) or ('err', None)"""
    head, _, rest = reply.partition(" ")
    if head != "ok":
        return "err", None
    out = []
    for part in rest.split(";"):
        recs = []
        if part not in ("-", ""):
            for item in part.split(","):
                t, k = item.split("@")
                recs.append(((Fr(*map(int, t.split("/"))) if q else b2f(t)), int(k)))
        out.append(recs)
    return "ok", out


# ------------------------------------------------------------------ real code: grid
EXC_TAG = {ZeroDivisionError: "zerodiv", ValueError: "valueerror", IndexError: "indexerror"}


def make_observables(c, kinds=None):
    """Real pulser observables for the case (tag suffixes keep the tags distinct)."""
    compat.install()
    from pulser.backend import BitStrings, Energy, Occupation
    kinds = kinds or [Occupation, Energy, BitStrings]
    out = []
    for j, o in enumerate(c["obs"]):
        cls = kinds[j % len(kinds)]
        kw = dict(evaluation_times=None if o is None else [p[1] for p in o], tag_suffix=f"v{j}")
        if cls is BitStrings:
            kw["num_shots"] = 5
        out.append(cls(**kw))
    return out


def make_config(c, backend, observables, **kw):
    if c["dflt"] != "Full":
        kw["default_evaluation_times"] = [p[1] for p in c["dflt"]]
    else:
        kw["default_evaluation_times"] = "Full"
    if backend == "sv":
        return compat.sv_config(observables=observables, dt=c["dt"], **kw)
    return compat.mps_config(observables=observables, dt=c["dt"], **kw)


def real_grid(c, cfg):
    """('ok', list) or ('err', tag) from the real `_get_target_times`."""
    from emu_base.pulser_adapter import _get_target_times
    try:
        return "ok", _get_target_times(Seq(c["D"]), cfg, c["dt"])
    except (ZeroDivisionError, ValueError, IndexError) as e:
        return "err", EXC_TAG[type(e)]


def exact_candidates(c):
    """Sorted distinct exact candidates (Fractions, absolute) and the set of requested ones."""
    D, dtq = Fr(c["D"]), c["dtq"]
    n = int(D / dtq)  # floor for positive
    cands = {i * dtq for i in range(n + 1)} | {D}
    req = set()
    for o in c["obs"]:
        ts = o if o is not None else (c["dflt"] if c["dflt"] != "Full" else [])
        for q, _ in ts:
            req.add(q * D)
    return sorted(cands | req), req


def min_rel_gap(c, only_requested=False):
    """Smallest relative distance between two distinct exact candidates (optionally only pairs
    involving a requested time)."""
    s, req = exact_candidates(c)
    D = Fr(c["D"])
    best = None
    for a, b in zip(s, s[1:]):
        if only_requested and a not in req and b not in req:
            continue
        g = (b - a) / D
        if best is None or g < best:
            best = g
    return best


def threshold_tie(c, lo=Fr(1, 10**14), hi=Fr(3, 10**10)):
    """True if some pair of neighbouring exact candidates is separated by a relative distance inside
    (lo, hi), i.e. within two decades of the merge threshold 2e-12 or of the evaluation tolerance 1e-10:
    there the float comparisons `> 2e-12*duration` / `<= 1e-10` may legitimately fall either way."""
    s, _ = exact_candidates(c)
    D = Fr(c["D"])
    return any(lo < (b - a) / D < hi for a, b in zip(s, s[1:]))


# ------------------------------------------------------------------ stubbed back-end runs
HOLDER: dict = {}


def _tag_class():
    compat.install()
    from pulser.backend.observable import Observable

    class StateTag(Observable):
        """Reads which state it is given: the stub steppers count evolution steps and accumulate
        the evolved time in HOLDER; `apply` returns that snapshot."""

        @property
        def _base_tag(self):
            return "verif_state_tag"

        def apply(self, *, config, state, hamiltonian=None, **kw):
            return (HOLDER.get("steps", 0), HOLDER.get("acc", 0.0), HOLDER.get("impl_index"))

    return StateTag


_TAG = None


def state_tag(evaluation_times, suffix="tag"):
    global _TAG
    if _TAG is None:
        _TAG = _tag_class()
    return _TAG(evaluation_times=evaluation_times, tag_suffix=suffix)


class RecCallable:
    """`_InteractionMatrixCallable` that records its query times."""

    def __init__(self, inner):
        self.inner = inner

    def __call__(self, t):
        HOLDER.setdefault("queries", []).append(float(t))
        return self.inner(t)


def run_stubbed(backend, data, cfg, jump_plan=None, rate=0.0, force_perm=None):
    """Run a real back-end (`sv`, `mps`, `dmrg`, `noisy`) on `data` with the evolution replaced by a recorder.
    Returns (results, log) where log = dict(steps, acc, queries, step_mats).

    `noisy` = the real NoisyMPSBackendImpl (data must carry Lindblad operators, two atoms): the stub evolution
    scales the state by exp(-rate*dt/2), so the squared norm is exp(-rate*(t - t_last_jump)) exactly as a
    function of time, and `random.uniform` (the jump threshold) is scripted so that the next quantum jump
    falls at the next time of `jump_plan` (absolute ns); the root finder, `do_random_quantum_jump`,
    `sweep_complete`, `timestep_complete` and `fill_results` are the real code."""
    compat.install()
    import dataclasses
    HOLDER.clear()
    HOLDER.update(steps=0, acc=0.0, queries=[], step_mats=[], impl_index=None)
    data = dataclasses.replace(data, interaction_matrix=RecCallable(data.interaction_matrix))
    with ExitStack() as st:
        if backend == "sv":
            import emu_sv.sv_backend_impl as svi
            real = svi.EvolveStateVector

            class StubStepper:
                @staticmethod
                def get_hamiltonian(**kw):
                    return real.get_hamiltonian(**kw)

                @staticmethod
                def apply(dt, omegas, deltas, phis, U, state, tol, lindblads):
                    HOLDER["steps"] += 1
                    HOLDER["acc"] += dt
                    HOLDER["step_mats"].append(U)
                    return state, real.get_hamiltonian(omegas=omegas, deltas=deltas, phis=phis,
                                                       pulser_lindblads=lindblads, interaction_matrix=U,
                                                       device=state.device)

            st.enter_context(mock.patch.object(svi, "EvolveStateVector", StubStepper))
            res = compat.run_sv(data, cfg)
        else:
            import emu_mps.mps_backend_impl as mi

            plan = sorted(jump_plan or [])

            def scripted_uniform(a, b):
                impl = HOLDER.get("impl")
                now = impl.current_time if impl is not None else 0.0
                nxt = next((t for t in plan if t > now + 1e-9), None)
                HOLDER.setdefault("jumps", []).append(now)
                if nxt is None:
                    return 0.0
                return b * math.exp(-rate * (nxt - now))

            def stub_evolve(self, *indices, dt, orth_center_right=None):
                HOLDER["impl"] = self
                if len(indices) == 2:
                    l, r = indices
                    if (l, r) == (0, 1):
                        HOLDER["acc"] += dt
                        if backend == "noisy":
                            self.state.factors[0] = self.state.factors[0] * math.exp(-rate * dt / 2)
                        if self._timestep_index + 1 > HOLDER["steps"]:
                            HOLDER["steps"] = self._timestep_index + 1
                            HOLDER["step_mats"].append(self.current_interaction_matrix)
                    self.state.orthogonality_center = r if orth_center_right else l

            def stub_min(*, state_factors, ham_factors, baths, orth_center_right, config, residual_tolerance):
                HOLDER["min_calls"] = HOLDER.get("min_calls", 0) + 1
                return state_factors[0], state_factors[1], 0.0

            real_fill = mi.MPSBackendImpl.fill_results

            def fill(self):
                # which grid index the state belongs to: 0 before any sweep, else completed steps
                HOLDER["impl_index"] = (self._timestep_index + 1) if HOLDER.get("started") else 0
                HOLDER["started"] = True
                if backend == "dmrg":
                    HOLDER["steps"] = HOLDER["impl_index"]
                    if HOLDER["impl_index"] > 0:      # called at the end of step k, before the matrix is refreshed
                        HOLDER["step_mats"].append(self.current_interaction_matrix)
                return real_fill(self)

            st.enter_context(mock.patch.object(mi.MPSBackendImpl, "_evolve", stub_evolve))
            st.enter_context(mock.patch.object(mi, "minimize_energy_pair", stub_min))
            st.enter_context(mock.patch.object(mi.MPSBackendImpl, "fill_results", fill))
            if backend == "noisy":
                st.enter_context(mock.patch.object(mi.random, "uniform", scripted_uniform))
            if force_perm is not None:
                # the site order is RCM's choice; force it (site k holds atom force_perm[k]) to reach permutations that
                # are not involutions. The matrix is still requested, as `minimize_bandwidth` would.
                import torch
                st.enter_context(mock.patch.object(mi.optimat, "minimize_bandwidth",
                                                   lambda m: torch.tensor(force_perm, dtype=torch.long)))
            res = compat.run_mps(data, cfg)
    return res, dict(HOLDER)


def zero_data(n_steps, n_qubits, target_times, U=None, masked_U=None, slm_end=0.0, bad_atoms=None,
              state_prep_error=0.0, lindblad_ops=None):
    import numpy as np
    z = np.zeros((n_steps, n_qubits))
    U = np.zeros((n_qubits, n_qubits)) if U is None else U
    return compat.make_sequence_data(z, z, z, U, target_times, masked_U=masked_U, slm_end_time=slm_end,
                                     bad_atoms=bad_atoms, state_prep_error=state_prep_error,
                                     lindblad_ops=lindblad_ops)


def result_times(res, observable):
    return res.get_result_times(observable) if observable.tag in res.get_result_tags() else []


# ------------------------------------------------------------------ real `get_sequences` under mocks
def run_get_sequences(reg_mats, reps, user, cutoff, targets, slm_end, n, target_times=(0.0, 1.0), bad=None):
    """Call the real `PulserData.get_sequences` on a PulserData built without its constructor.
    reg_mats: one register matrix (torch, n×n) per noise trajectory; reps: list of ints."""
    compat.install()
    import torch
    import emu_base.pulser_adapter as pa

    self = pa.PulserData.__new__(pa.PulserData)
    samples = []
    for i, (m, r) in enumerate(zip(reg_mats, reps)):
        traj = SimpleNamespace(interaction_matrix=SimpleNamespace(as_tensor=lambda m=m: m),
                               bad_atoms={f"q{j}": (bool(bad[i][j]) if bad is not None else False)
                                          for j in range(n)})
        samples.append(SimpleNamespace(samples=("traj", i), reps=r, trajectory=traj))
    self.hamiltonian = SimpleNamespace(noisy_samples=samples)
    self.full_interaction_matrix = user
    self.interaction_cutoff = cutoff
    self.slm_end_time = slm_end
    self.qubit_ids = tuple(f"q{j}" for j in range(n))
    self.target_times = list(target_times)
    self.lindblad_ops = []
    self.noise_model = SimpleNamespace(state_prep_error=0.0)
    self.eigenstates = ["r", "g"]
    self.hamiltonian_type = pa.HamiltonianType.Rydberg
    self._sequence = SimpleNamespace(
        _slm_mask_targets=[f"q{j}" for j in targets],
        register=SimpleNamespace(find_indices=lambda ids: [int(s[1:]) for s in ids]))

    def fake_extract(smp, qubit_ids, tt):
        t = torch.full((len(tt) - 1, n), float(smp[1]), dtype=torch.complex128)
        return t, t, t

    with mock.patch.object(pa, "_extract_omega_delta_phi", fake_extract):
        return list(self.get_sequences())
