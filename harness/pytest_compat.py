"""pytest plugin (``-p harness.pytest_compat`` with PYTHONPATH=/verif): runs the repository's own tests
with the harness-side pulser-core 1.9.1 shim installed, to see what the 69 permanently red tests say."""
from harness import compat
compat.install()
import torch
import emu_base.pulser_adapter as pa

_orig = pa.PulserData.get_sequences

class _Squeezed:
    def __init__(self, im): self._im = im
    def as_tensor(self):
        t = self._im.as_tensor()
        return t[0] if t.ndim == 3 and t.shape[0] == 1 else t
    def __len__(self): return len(self.as_tensor())

class _Traj:
    def __init__(self, tr): self._tr = tr
    def __getattr__(self, k):
        v = getattr(self._tr, k)
        return _Squeezed(v) if k == "interaction_matrix" else v

class _Samples:
    def __init__(self, s): self._s = s
    def __getattr__(self, k):
        v = getattr(self._s, k)
        return _Traj(v) if k == "trajectory" else v

def get_sequences(self):
    ham = self.hamiltonian
    class H:
        noisy_samples = [_Samples(s) for s in ham.noisy_samples]
    self.hamiltonian = H
    if self.full_interaction_matrix is not None and self.full_interaction_matrix.ndim == 3:
        self.full_interaction_matrix = self.full_interaction_matrix[0]
    try:
        yield from _orig(self)
    finally:
        self.hamiltonian = ham

pa.PulserData.get_sequences = get_sequences
