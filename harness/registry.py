"""Per-property registration data: MANIFEST.json is generated from this table by tools/gen_manifest.py."""

GUARD = "PASQAL_IO_EMULATORS_VERIF"

# property id -> dict(text, note, technique, design_ref)
CHECKS = {
    "C19": dict(
        text=("Lean 4 theorems over every linear ordered field and every ordinate sequence: all queried abscissae lie in "
              "[start,end]; the bracket keeps f(a)f(b)<=0 and never widens; on return |b-a|<tol with a sign change in the "
              "initial interval; the one-at-a-time protocol equals the find_root_brents loop; termination with an explicit "
              "bound whenever bisection is forced (0<start, end-start<2*eps*start: the solver's eps=1 calls away from 0). "
              "PARTIAL: unguarded termination (TerminatesAlways) is stated, not proved. Model tied to the code by bit-exact "
              "binary64 correspondence (whole runs and single steps from arbitrary states)."),
        note=("Trusted: Lean kernel + propext/Classical.choice/Quot.sound; Mathlib; hand-written Model.Brent tied by "
              "correspondence only; binary64 rounding not in the theorems; termination outside the forced-bisection guard is "
              "validated by running the real class, not proved."),
        technique="Lean 4 proof (induction over the ordinate tape) + bit-exact model/implementation correspondence",
        design_ref="DESIGN.md §5 C19",
    ),
}

NOT_APPLICABLE = {
    "C31": ("about which third-party pulser-core releases can execute the package: no executable model can be tied to "
            "anything but the single installed release (1.9.1), and 'runs end to end' is a smoke test, not a theorem "
            "(DESIGN.md §7)"),
}

# properties planned in DESIGN.md but whose check is not built yet: listed under not_applicable with that reason
NOT_YET = {}
