"""Shared helpers of the TreeVec checks (C06, C12): exact complex-rational IO with the Lean
driver (`Drv/TreeVec.lean`, κ = Gaussian rationals), dyadic generators, numpy Kronecker references,
and harness-level patches (exact `torch.exp/cos/sin` table, forced non-CPU path).

Encoding (must match Drv/TreeVec.lean): complex = `re:im`, rationals `num/den`, lists comma
separated, `-` = empty, a phase = `nz;cos;sin`.
"""
from __future__ import annotations

import contextlib
from fractions import Fraction
from unittest import mock

import numpy as np
import torch

C128 = torch.complex128


# ----------------------------------------------------------------------------- scalars / encoding
def qs(x) -> str:
    f = Fraction(x)
    return f"{f.numerator}/{f.denominator}"


def cs(z) -> str:
    """complex (python complex / (Fraction, Fraction) pair) -> `re:im`, exactly"""
    if isinstance(z, tuple):
        return f"{qs(z[0])}:{qs(z[1])}"
    z = complex(z)
    return f"{qs(z.real)}:{qs(z.imag)}"


def clist(zs) -> str:
    zs = list(zs)
    return ",".join(cs(z) for z in zs) if zs else "-"


def tlist(t: torch.Tensor) -> str:
    """flat exact encoding of a tensor (any dtype) in row-major order"""
    return clist(t.detach().to(C128).reshape(-1).tolist())


def parse_c(s: str) -> tuple[Fraction, Fraction]:
    r, i = s.split(":")
    return Fraction(r), Fraction(i)


def parse_clist(s: str) -> list[tuple[Fraction, Fraction]]:
    return [] if s in ("-", "") else [parse_c(t) for t in s.split(",")]


def exact_pairs(t: torch.Tensor) -> list[tuple[Fraction, Fraction]]:
    return [(Fraction(z.real), Fraction(z.imag)) for z in t.detach().to(C128).reshape(-1).tolist()]


def compare_exact(model_reply: str, impl: torch.Tensor):
    """None if the model's `ok …` reply equals the tensor exactly, else a short description."""
    if not model_reply.startswith("ok"):
        return f"model replied {model_reply[:40]!r}"
    body = model_reply[3:] if len(model_reply) > 3 else "-"
    m = parse_clist(body)
    e = exact_pairs(impl)
    if len(m) != len(e):
        return f"length {len(m)} vs {len(e)}"
    for idx, (a, b) in enumerate(zip(m, e)):
        if a != b:
            return f"entry {idx}: model {float(a[0])}+{float(a[1])}j impl {float(b[0])}+{float(b[1])}j"
    return None


def compare_tol(model_reply: str, impl: torch.Tensor, rtol: float):
    """relative to the largest modulus of the implementation's result (plus 1)"""
    if not model_reply.startswith("ok"):
        return f"model replied {model_reply[:40]!r}", 0.0
    m = parse_clist(model_reply[3:])
    e = impl.detach().to(C128).reshape(-1)
    if len(m) != e.numel():
        return f"length {len(m)} vs {e.numel()}", 0.0
    mv = torch.tensor([complex(float(a), float(b)) for a, b in m], dtype=C128)
    scale = float(e.abs().max()) + 1.0
    err = float((mv - e).abs().max()) / scale
    return (None if err <= rtol else f"max rel err {err:.3e} > {rtol:.1e}"), err


# ----------------------------------------------------------------------------- generators
def dyad(rng, bits=3, span=8) -> float:
    """k / 2**bits with |k| <= span * 2**bits — exactly representable, products stay exact"""
    return rng.randint(-span * 2 ** bits, span * 2 ** bits) / 2 ** bits


def cdyad(rng, bits=2, span=4, real=False) -> complex:
    return complex(dyad(rng, bits, span), 0.0 if real else dyad(rng, bits, span))


def rand_m2(rng, kind=None) -> torch.Tensor:
    """a 2x2 jump operator: dense dyadic complex, or one of the structured shapes of the repo"""
    kind = kind or rng.choice(["dense", "dense", "lower", "upper", "diag", "real", "zero"])
    z = lambda: cdyad(rng, 1, 2)
    if kind == "dense":
        m = [[z(), z()], [z(), z()]]
    elif kind == "lower":
        m = [[0, 0], [z(), 0]]
    elif kind == "upper":
        m = [[0, z()], [0, 0]]
    elif kind == "diag":
        m = [[z(), 0], [0, z()]]
    elif kind == "real":
        m = [[dyad(rng, 1, 2), dyad(rng, 1, 2)], [dyad(rng, 1, 2), dyad(rng, 1, 2)]]
    else:
        m = [[0, 0], [0, 0]]
    return torch.tensor(m, dtype=C128)


def hermitian_dyadic(rng, dim: int, bits=1, span=2) -> torch.Tensor:
    a = torch.tensor([[cdyad(rng, bits, span) for _ in range(dim)] for _ in range(dim)], dtype=C128)
    return a + a.conj().T


# ----------------------------------------------------------------------------- numpy references
SX = np.array([[0, 1], [1, 0]], dtype=complex)
SY = np.array([[0, -1j], [1j, 0]], dtype=complex)
NOP = np.array([[0, 0], [0, 1]], dtype=complex)
I2 = np.eye(2, dtype=complex)


def np_embed(n: int, k: int, m: np.ndarray) -> np.ndarray:
    out = np.array([[1.0 + 0j]])
    for q in range(n):
        out = np.kron(out, m if q == k else I2)
    return out


def np_dense_h(omega, delta, cos, sin, U, n: int) -> np.ndarray:
    """Σ_k (Ω_k/2)(cos φ_k σx + sin φ_k σy) − δ_k n_k + Σ_{i<j} U_ij n_i n_j, by np.kron"""
    H = np.zeros((2 ** n, 2 ** n), dtype=complex)
    for k in range(n):
        H += np_embed(n, k, (omega[k] / 2) * (cos[k] * SX + sin[k] * SY) - delta[k] * NOP)
    for i in range(n):
        for j in range(i + 1, n):
            H += U[i][j] * (np_embed(n, i, NOP) @ np_embed(n, j, NOP))
    return H


def np_lindblad(H: np.ndarray, Ls: list[np.ndarray], rho: np.ndarray, n: int) -> np.ndarray:
    """the generator in the code's convention (i·ℒ), textbook form:
    Hρ − ρH − (i/2) Σ (L†L ρ + ρ L†L) + i Σ L ρ L†, sums over qubits and jump operators"""
    out = H @ rho - rho @ H
    for q in range(n):
        for L in Ls:
            Lq = np_embed(n, q, L)
            K = Lq.conj().T @ Lq
            out = out - 0.5j * (K @ rho + rho @ K) + 1j * (Lq @ rho @ Lq.conj().T)
    return out


# ----------------------------------------------------------------------------- patches
@contextlib.contextmanager
def exact_trig(table: dict[float, tuple[complex, complex]]):
    """Replace `torch.exp/cos/sin` (Python-level attributes only) by an exact table
    φ ↦ (c, s): `cos φ := c`, `sin φ := s`, `exp(1j·φ) := c + i·s`. φ = 0 ↦ (1, 0).
    Lets the complex-phase path be compared *exactly* (the theorems hold for any c, s)."""
    tab = dict(table)
    tab.setdefault(0.0, (1.0 + 0j, 0.0 + 0j))

    def look(phi):
        phi = complex(phi)
        assert phi.imag == 0.0 and phi.real in tab, f"phase {phi} not in the table"
        return tab[phi.real]

    def fake(kind):
        def f(x, *a, **k):
            assert not a and not k
            flat = x.reshape(-1).tolist()
            if kind == "exp":
                vals = []
                for z in flat:
                    z = complex(z)
                    c, s = look(complex(z.imag, -z.real))      # z = 1j·φ
                    vals.append(c + 1j * s)
            else:
                vals = [look(z)[0 if kind == "cos" else 1] for z in flat]
            return torch.tensor(vals, dtype=C128).reshape(x.shape)
        return f

    with mock.patch("torch.exp", fake("exp")), mock.patch("torch.cos", fake("cos")), mock.patch("torch.sin", fake("sin")):
        yield


@contextlib.contextmanager
def force_not_cpu():
    """Make `tensor.is_cpu` answer False so that the batched (GPU) branch of
    `apply_local_op_to_density_matrix` / `apply_density_matrix_to_local_op_T` runs on this CPU-only host."""
    with mock.patch.object(torch.Tensor, "is_cpu", property(lambda self: False), create=True):
        yield
