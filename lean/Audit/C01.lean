import EmuVerif.Props.C01

#print axioms EmuVerif.Props.C01.run_schedule
#print axioms EmuVerif.Props.C01.schedule_pointwise
#print axioms EmuVerif.Props.C01.run_short_grid
#print axioms EmuVerif.Props.C01.run_zero_duration
#print axioms EmuVerif.Props.C01.run_empty_grid
#print axioms EmuVerif.Props.C01.error_accumulation
#print axioms EmuVerif.Props.C01.end_to_end_partial
