import EmuVerif.Props.C02

#print axioms EmuVerif.Props.C02.one_step_sequence
#print axioms EmuVerif.Props.C02.two_site_step
#print axioms EmuVerif.Props.C02.run_no_assert
#print axioms EmuVerif.Props.C02.init_installs_row0
#print axioms EmuVerif.Props.C02.step_installs_next_row
#print axioms EmuVerif.Props.C02.last_step_installs_nothing
#print axioms EmuVerif.Props.C02.query_time_later_steps
#print axioms EmuVerif.Props.C02.query_time_first_step
#print axioms EmuVerif.Props.C02.installed_relabelled
#print axioms EmuVerif.Props.C02.repaired_relabelled
#print axioms EmuVerif.Props.C02.asFound_counterexample
#print axioms EmuVerif.Props.C02.installedString_relabelled
#print axioms EmuVerif.Props.C02.same_map
#print axioms EmuVerif.Props.C02.inverse_state_counterexample
