import EmuVerif.Props.C03

#print axioms EmuVerif.Props.C03.same_gather
#print axioms EmuVerif.Props.C03.same_gather_matrix
#print axioms EmuVerif.Props.C03.inverse_two_sided
#print axioms EmuVerif.Props.C03.composition_law
#print axioms EmuVerif.Props.C03.composition_law_matrix
#print axioms EmuVerif.Props.C03.inverse_undoes_permuting
#print axioms EmuVerif.Props.C03.unpermute_results_register_order
#print axioms EmuVerif.Props.C03.atom_order_is_register_order
#print axioms EmuVerif.Props.C03.results_untouched_when_disabled
#print axioms EmuVerif.Props.C03.reordering_only_with_permutable_observables
#print axioms EmuVerif.Props.C03.C03_partial
