import EmuVerif.Props.C04

#print axioms EmuVerif.Props.C04.table_sound
#print axioms EmuVerif.Props.C04.acceptSeq_sound
#print axioms EmuVerif.Props.C04.outcome_depends_only_on_cell
#print axioms EmuVerif.Props.C04.rep_in_cell
#print axioms EmuVerif.Props.C04.table_rep
#print axioms EmuVerif.Props.C04.accept_sound
#print axioms EmuVerif.Props.C04.emulate_or_raise
#print axioms EmuVerif.Props.C04.unsupported_raises
#print axioms EmuVerif.Props.C04.sv_rejects
#print axioms EmuVerif.Props.C04.impl_matches_solver
#print axioms EmuVerif.Props.C04.sequence_sound
#print axioms EmuVerif.Props.C04.digital_never_emulated
#print axioms EmuVerif.Props.C04.sv_xy_asFound_counterexample
#print axioms EmuVerif.Props.C04.impl_solver_asFound_counterexample
#print axioms EmuVerif.Props.C04.run_kind_constant
#print axioms EmuVerif.Props.C04.accept_kind_constant
#print axioms EmuVerif.Props.C04.runTable_sound
#print axioms EmuVerif.Props.C04.run_depends_only_on_cell
#print axioms EmuVerif.Props.C04.run_kind_defaultRydberg_counterexample
#print axioms EmuVerif.Props.C04.unsupported_pulsed_never_emulated
#print axioms EmuVerif.Props.C04.extract_guard_used_counterexample
#print axioms EmuVerif.Props.C04.solver_form_irrelevant
#print axioms EmuVerif.Props.C04.dmrg_any_form
#print axioms EmuVerif.Props.C04.solver_identity_counterexample
