import EmuVerif.Props.C05

#print axioms EmuVerif.Props.C05.mpo_eq_dense
#print axioms EmuVerif.Props.C05.mpo_eq_dense_algHom
#print axioms EmuVerif.Props.C05.mpo_split_independent
#print axioms EmuVerif.Props.C05.rydberg_mpo_eq_dense
#print axioms EmuVerif.Props.C05.xy_mpo_eq_dense
#print axioms EmuVerif.Props.C05.bonds_agree_left
#print axioms EmuVerif.Props.C05.bonds_agree_right
#print axioms EmuVerif.Props.C05.updateH_eq_rebuild
#print axioms EmuVerif.Props.C05.mpo_eq_dense_after_updates
#print axioms EmuVerif.Props.C05.updateH_last_write_wins
#print axioms EmuVerif.Props.C05.updateH_only_slots
#print axioms EmuVerif.Props.C05.updateH_shape
#print axioms EmuVerif.Props.C05.rydberg_mpo_eq_dense_matrix
#print axioms EmuVerif.Props.C05.xy_mpo_eq_dense_matrix
#print axioms EmuVerif.Props.C05.updateSeq_eq_rebuild
#print axioms EmuVerif.Props.C05.mpo_eq_dense_after_update_seq
#print axioms EmuVerif.Props.C05.mpo_eq_dense_after_zero_update
