import EmuVerif.Props.C06

#print axioms EmuVerif.Props.C06.apply_local_eq_kron
#print axioms EmuVerif.Props.C06.matmul_batched_eq_plain
#print axioms EmuVerif.Props.C06.hamiltonian_mul_eq_dense_entries
#print axioms EmuVerif.Props.C06.hamiltonian_mul_eq_denseH
#print axioms EmuVerif.Props.C06.real_path_eq_complex_path
#print axioms EmuVerif.Props.C06.lindbladian_matmul_eq_code
#print axioms EmuVerif.Props.C06.lindbladian_matmul_hermitian
#print axioms EmuVerif.Props.C06.lindbladian_paths_agree
#print axioms EmuVerif.Props.C06.noiseTerm_antihermitian
#print axioms EmuVerif.Props.C06.lindbladian_nonhermitian_counterexample
