import EmuVerif.Props.C07

#print axioms EmuVerif.Props.C07.flag_honest
#print axioms EmuVerif.Props.C07.exit_iteration
#print axioms EmuVerif.Props.C07.iterations_le_max
#print axioms EmuVerif.Props.C07.op_applied_iteration_count_times
#print axioms EmuVerif.Props.C07.happy_implies_converged
#print axioms EmuVerif.Props.C07.impl_raises_only_unbound
#print axioms EmuVerif.Props.C07.krylov_exp_returns_iff
#print axioms EmuVerif.Props.C07.krylov_exp_raises_iff
#print axioms EmuVerif.Props.C07.arnoldi_relation
#print axioms EmuVerif.Props.C07.column_of_T
#print axioms EmuVerif.Props.C07.vectors_orthonormal
#print axioms EmuVerif.Props.C07.orthoN_iff_orthonormal
#print axioms EmuVerif.Props.C07.early_accept_witness
#print axioms EmuVerif.Props.C07.neglected_second_order_term
#print axioms EmuVerif.Props.C07.public_krylov_exp_uses_callers_tolerances
#print axioms EmuVerif.Props.C07.at_least_one_iteration
