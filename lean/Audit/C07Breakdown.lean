import EmuVerif.Props.C07Breakdown

#print axioms EmuVerif.Props.C07Breakdown.pow_intertwine
#print axioms EmuVerif.Props.C07Breakdown.matrix_expSeries_hasSum
#print axioms EmuVerif.Props.C07Breakdown.exp_intertwine
#print axioms EmuVerif.Props.C07Breakdown.exp_intertwine_column
#print axioms EmuVerif.Props.C07Breakdown.pow_krylov_relation
#print axioms EmuVerif.Props.C07Breakdown.exp_krylov_relation
#print axioms EmuVerif.Props.C07Breakdown.krylov_breakdown_exact
#print axioms EmuVerif.Props.C07Breakdown.krylov_breakdown_exact_normalised
#print axioms EmuVerif.Props.C07Breakdown.relation_of_arnoldi_steps
#print axioms EmuVerif.Props.C07Breakdown.breakdown_exact_of_arnoldi_steps
