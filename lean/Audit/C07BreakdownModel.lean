import EmuVerif.Props.C07BreakdownModel

-- the model-level theorems (BreakdownExact)
#print axioms EmuVerif.Props.C07BreakdownModel.lincomb_foldl
#print axioms EmuVerif.Props.C07BreakdownModel.lincomb_ip
#print axioms EmuVerif.Props.C07BreakdownModel.col0_ofMatrix
#print axioms EmuVerif.Props.C07BreakdownModel.wsum_ofFn
#print axioms EmuVerif.Props.C07BreakdownModel.size_ofMatrix
#print axioms EmuVerif.Props.C07BreakdownModel.happy_exit_result
#print axioms EmuVerif.Props.C07BreakdownModel.wsum_nil_right
#print axioms EmuVerif.Props.C07BreakdownModel.wsum_eq_sum_range
#print axioms EmuVerif.Props.C07BreakdownModel.wsum_drop
#print axioms EmuVerif.Props.C07BreakdownModel.shape_sliceM_size
#print axioms EmuVerif.Props.C07BreakdownModel.getM_sliceM
#print axioms EmuVerif.Props.C07BreakdownModel.kStart_le
#print axioms EmuVerif.Props.C07BreakdownModel.ovs_length
#print axioms EmuVerif.Props.C07BreakdownModel.getM_iterT
#print axioms EmuVerif.Props.C07BreakdownModel.shape_iterT
#print axioms EmuVerif.Props.C07BreakdownModel.tInv_init
#print axioms EmuVerif.Props.C07BreakdownModel.col_j_sum
#print axioms EmuVerif.Props.C07BreakdownModel.tInv_step
#print axioms EmuVerif.Props.C07BreakdownModel.tInv_reach
#print axioms EmuVerif.Props.C07BreakdownModel.happy_exit_exact
#print axioms EmuVerif.Props.C07BreakdownModel.expLoop_of_reach
#print axioms EmuVerif.Props.C07BreakdownModel.result_of_breakdown_exit
#print axioms EmuVerif.Props.C07BreakdownModel.breakdownExact_holds

-- Props/C07Breakdown.lean is imported by the model-level file: its theorems are audited in the same Lean process
-- (`Audit/C07Breakdown.lean` is the stand-alone list for that module alone)
#print axioms EmuVerif.Props.C07Breakdown.pow_intertwine
#print axioms EmuVerif.Props.C07Breakdown.matrix_expSeries_hasSum
#print axioms EmuVerif.Props.C07Breakdown.exp_intertwine
#print axioms EmuVerif.Props.C07Breakdown.exp_intertwine_column
#print axioms EmuVerif.Props.C07Breakdown.pow_krylov_relation
#print axioms EmuVerif.Props.C07Breakdown.exp_krylov_relation
#print axioms EmuVerif.Props.C07Breakdown.krylov_breakdown_exact
#print axioms EmuVerif.Props.C07Breakdown.krylov_breakdown_exact_normalised
#print axioms EmuVerif.Props.C07Breakdown.relation_of_arnoldi_steps
#print axioms EmuVerif.Props.C07Breakdown.breakdown_exact_of_arnoldi_steps
