import EmuVerif.Props.C08

#print axioms EmuVerif.Props.C08.restarts_le_max
#print axioms EmuVerif.Props.C08.happy_implies_converged
#print axioms EmuVerif.Props.C08.converged_residual_lt
#print axioms EmuVerif.Props.C08.op_applied_iteration_count_times
#print axioms EmuVerif.Props.C08.impl_raises_only
#print axioms EmuVerif.Props.C08.energy_min_returns_iff
#print axioms EmuVerif.Props.C08.energy_min_raises_iff
#print axioms EmuVerif.Props.C08.returned_state_unit
#print axioms EmuVerif.Props.C08.lanczos_vectors_orthonormal_three_term
#print axioms EmuVerif.Props.C08.ritz_pair_of_iteration
#print axioms EmuVerif.Props.C08.energy_is_rayleigh_and_residual
#print axioms EmuVerif.Props.C08.variational_bound
#print axioms EmuVerif.Props.C08.C08_exact
#print axioms EmuVerif.Props.C08.public_wrapper_uses_callers_tolerances
