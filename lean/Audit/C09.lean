import EmuVerif.Props.C09

#print axioms EmuVerif.Props.C09.variational_bound
#print axioms EmuVerif.Props.C09.variational_bound_unit
#print axioms EmuVerif.Props.C09.sweep_positions
#print axioms EmuVerif.Props.C09.sweep_positions_explicit
#print axioms EmuVerif.Props.C09.call_safe
#print axioms EmuVerif.Props.C09.run_safe
#print axioms EmuVerif.Props.C09.init_inv
#print axioms EmuVerif.Props.C09.whole_run
#print axioms EmuVerif.Props.C09.sweep_converged
#print axioms EmuVerif.Props.C09.sweep_not_converged
#print axioms EmuVerif.Props.C09.sweep_raises
#print axioms EmuVerif.Props.C09.stepDone_iff_converged
#print axioms EmuVerif.Props.C09.steps_complete_once_in_order
#print axioms EmuVerif.Props.C09.sweeps_per_step_bounded
#print axioms EmuVerif.Props.C09.count_ok
#print axioms EmuVerif.Props.C09.completed_step_canonical
#print axioms EmuVerif.Props.C09.first_sweep_compared_with_previous_step
#print axioms EmuVerif.Props.C09.stale_previous_energy_counterexample
#print axioms EmuVerif.Props.C09.repaired_steps_compare_their_own_sweeps
#print axioms EmuVerif.Props.C09.repaired_every_step_compares_its_own_sweeps
