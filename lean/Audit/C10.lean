import EmuVerif.Props.C10

#print axioms EmuVerif.Props.C10.cutoff_rejects_nonpositive
#print axioms EmuVerif.Props.C10.cutoff_prefixes_within
#print axioms EmuVerif.Props.C10.discarded_weight_le
#print axioms EmuVerif.Props.C10.cutoff_first_exceeding
#print axioms EmuVerif.Props.C10.cutoff_longest_prefix
#print axioms EmuVerif.Props.C10.cutoff_all_below_keeps_everything
#print axioms EmuVerif.Props.C10.kept_rank_bounds
#print axioms EmuVerif.Props.C10.discarded_within_precision_unless_cap_binds
#print axioms EmuVerif.Props.C10.cap_binds_kept_eq
#print axioms EmuVerif.Props.C10.preserve_norm_restores_weight
#print axioms EmuVerif.Props.C10.sweep_bonds_within_cap
#print axioms EmuVerif.Props.C10.kept_factor_isometry
#print axioms EmuVerif.Props.C10.split_error_eq_discarded_weight
#print axioms EmuVerif.Props.C10.discarded_prefix_as_list
#print axioms EmuVerif.Props.C10.step_preserves_invariant
#print axioms EmuVerif.Props.C10.history_invariant
#print axioms EmuVerif.Props.C10.history_invariant_public
#print axioms EmuVerif.Props.C10.declared_centre_backed
#print axioms EmuVerif.Props.C10.dmrg_unguarded_counterexample
#print axioms EmuVerif.Props.C10.norm_eq_centre_norm
