import EmuVerif.Props.C10Bridge

#print axioms EmuVerif.Props.C10Bridge.lr_step_bridge
#print axioms EmuVerif.Props.C10Bridge.rl_step_bridge
#print axioms EmuVerif.Props.C10Bridge.trunc_step_bridge
#print axioms EmuVerif.Props.C10Bridge.left_iso_is_leftchain_hypothesis
#print axioms EmuVerif.Props.C10Bridge.right_iso_is_rightchain_hypothesis
#print axioms EmuVerif.Props.C10Bridge.split_iso_of_eigh_contract
#print axioms EmuVerif.Props.C10Bridge.split_of_eigh_contract
#print axioms EmuVerif.Props.C10Bridge.orthogonalize_canonical
#print axioms EmuVerif.Props.C10Bridge.canonical_norm
#print axioms EmuVerif.Props.C10Bridge.canonical_is_isometry_chain
#print axioms EmuVerif.Props.C10Bridge.orthogonalize_amp_norm
#print axioms EmuVerif.Props.C10Bridge.truncate_canonical
#print axioms EmuVerif.Props.C10Bridge.truncate_norm
#print axioms EmuVerif.Props.C10Bridge.truncate_bonds_within_cap
#print axioms EmuVerif.Props.C10Bridge.step_bridge
#print axioms EmuVerif.Props.C10Bridge.history_bridge
#print axioms EmuVerif.Props.C10Bridge.declared_centre_true
#print axioms EmuVerif.Props.C10Bridge.declared_centre_norm
#print axioms EmuVerif.Props.C10Bridge.declared_centre_true_make
#print axioms EmuVerif.Props.C10Bridge.regauging_step_amp
