import EmuVerif.Props.C11

#print axioms EmuVerif.Props.C11.add_factors_amp
#print axioms EmuVerif.Props.C11.add_factors_shape
#print axioms EmuVerif.Props.C11.scale_factors_amp
#print axioms EmuVerif.Props.C11.scale_factors_out_of_range
#print axioms EmuVerif.Props.C11.inner_eq_dense
#print axioms EmuVerif.Props.C11.expect_eq_dense
#print axioms EmuVerif.Props.C11.zip_right_amp
#print axioms EmuVerif.Props.C11.apply_to_amp
#print axioms EmuVerif.Props.C11.regauge_amp
#print axioms EmuVerif.Props.C11.insert_gauge_amp
#print axioms EmuVerif.Props.C11.orthogonalize_amp
#print axioms EmuVerif.Props.C11.apply_site_amp
#print axioms EmuVerif.Props.C11.basis_amp_kronecker
#print axioms EmuVerif.Props.C11.from_state_amplitudes_amp
#print axioms EmuVerif.Props.C11.from_operator_repr_amp
#print axioms EmuVerif.Props.C11.assign_last_wins
#print axioms EmuVerif.Props.C11.inner_eq_dense_cx
#print axioms EmuVerif.Props.C11.corr_offdiag_counterexample
#print axioms EmuVerif.Props.C11.corr_diag_counterexample
#print axioms EmuVerif.Props.C11.corr_offdiag_repaired_witness
#print axioms EmuVerif.Props.C11.rmul_amp
#print axioms EmuVerif.Props.C11.rmul_scales_center
#print axioms EmuVerif.Props.C11.rmul_norm_at_center
