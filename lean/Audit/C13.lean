import EmuVerif.Props.C13

#print axioms EmuVerif.Props.C13.occupation_sv_eq_dense
#print axioms EmuVerif.Props.C13.correlation_sv_eq_dense
#print axioms EmuVerif.Props.C13.correlation_sv_diag
#print axioms EmuVerif.Props.C13.correlation_sv_symm
#print axioms EmuVerif.Props.C13.occupation_dm_eq_trace
#print axioms EmuVerif.Props.C13.correlation_dm_eq_trace
#print axioms EmuVerif.Props.C13.correlation_dm_diag
#print axioms EmuVerif.Props.C13.pure_state_dm_occupation
#print axioms EmuVerif.Props.C13.pure_state_dm_correlation
#print axioms EmuVerif.Props.C13.energy_sv_eq_dense
#print axioms EmuVerif.Props.C13.second_moment_sv_eq_dense
#print axioms EmuVerif.Props.C13.energy_dm_eq_trace
#print axioms EmuVerif.Props.C13.second_moment_dm_eq_trace
#print axioms EmuVerif.Props.C13.occupation_real
#print axioms EmuVerif.Props.C13.correlation_real
#print axioms EmuVerif.Props.C13.occupation_range
#print axioms EmuVerif.Props.C13.correlation_range
#print axioms EmuVerif.Props.C13.cauchy_schwarz
#print axioms EmuVerif.Props.C13.variance_nonneg
