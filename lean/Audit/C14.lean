import EmuVerif.Props.C14

#print axioms EmuVerif.Props.C14.run_is_selection
#print axioms EmuVerif.Props.C14.records_increasing
#print axioms EmuVerif.Props.C14.record_from_its_grid_index
#print axioms EmuVerif.Props.C14.every_record_near_request
#print axioms EmuVerif.Props.C14.every_request_recorded_near
#print axioms EmuVerif.Props.C14.request_in_grid
#print axioms EmuVerif.Props.C14.records_exact
#print axioms EmuVerif.Props.C14.recorded_at_grid_point
#print axioms EmuVerif.Props.C14.sep_needed
#print axioms EmuVerif.Props.C14.lost_before_a740bae
#print axioms EmuVerif.Props.C14.spurious_before_cd44121
