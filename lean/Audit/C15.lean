import EmuVerif.Props.C15

#print axioms EmuVerif.Props.C15.sample_total_count
#print axioms EmuVerif.Props.C15.sample_count_invariant
#print axioms EmuVerif.Props.C15.batch_sizes_spec
#print axioms EmuVerif.Props.C15.bit_of_level
#print axioms EmuVerif.Props.C15.bits_leak_reads_zero
#print axioms EmuVerif.Props.C15.bits_atom_order
#print axioms EmuVerif.Props.C15.bits_injective_qubit
#print axioms EmuVerif.Props.C15.weights_telescope
#print axioms EmuVerif.Props.C15.shot_prob_general
#print axioms EmuVerif.Props.C15.sample_prob_born
#print axioms EmuVerif.Props.C15.sv_weights_born
#print axioms EmuVerif.Props.C15.dm_weights_diag
#print axioms EmuVerif.Props.C15.readout_flip_spec
#print axioms EmuVerif.Props.C15.readout_independent
#print axioms EmuVerif.Props.C15.readout_draws_consumed
#print axioms EmuVerif.Props.C15.readout_total_preserved
#print axioms EmuVerif.Props.C15.readout_rate_zero
#print axioms EmuVerif.Props.C15.readout_rate_one
#print axioms EmuVerif.Props.C15.mps_guard_as_written
#print axioms EmuVerif.Props.C15.mps_raises_iff
#print axioms EmuVerif.Props.C15.mps_readout_qutrit
#print axioms EmuVerif.Props.C15.index_bits_msb_first
#print axioms EmuVerif.Props.C15.index_bits_defined_iff
