import EmuVerif.Props.C16

#print axioms EmuVerif.Props.C16.generator_traceless
#print axioms EmuVerif.Props.C16.generator_adjoint
#print axioms EmuVerif.Props.C16.code_evaluates_generator
#print axioms EmuVerif.Props.C16.code_needs_hermitian_rho
#print axioms EmuVerif.Props.C16.iterate_hermitian
#print axioms EmuVerif.Props.C16.iterate_traceless
#print axioms EmuVerif.Props.C16.flow_preserves_trace
#print axioms EmuVerif.Props.C16.flow_preserves_hermitian
#print axioms EmuVerif.Props.C16.run_preserves
