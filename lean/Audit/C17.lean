import EmuVerif.Props.C17
#print axioms EmuVerif.Props.C17.noise_term_is_minus_half_i_sum
#print axioms EmuVerif.Props.C17.unravelling_generator
#print axioms EmuVerif.Props.C17.aggregated_are_LdagL
#print axioms EmuVerif.Props.C17.weight_nonneg
#print axioms EmuVerif.Props.C17.candidates_match_weights
#print axioms EmuVerif.Props.C17.choose_interval
