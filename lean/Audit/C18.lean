import EmuVerif.Props.C18

#print axioms EmuVerif.Props.C18.fills_and_stepdones
#print axioms EmuVerif.Props.C18.stepdone_in_order
#print axioms EmuVerif.Props.C18.run_from_init
#print axioms EmuVerif.Props.C18.sweep_targets_in_step
#print axioms EmuVerif.Props.C18.search_inside_step
#print axioms EmuVerif.Props.C18.jump_at_sign_change
#print axioms EmuVerif.Props.C18.ninit_inv
#print axioms EmuVerif.Props.C18.terminates_forced_of_jump_budget
#print axioms EmuVerif.Props.C18.search_closes
#print axioms EmuVerif.Props.C18.zeno
#print axioms EmuVerif.Props.C18.unconditional_termination_false
#print axioms EmuVerif.Props.C18.brentInit_only_if_gap_zero
#print axioms EmuVerif.Props.C18.gap_zero_at_boundary_asserts
#print axioms EmuVerif.Props.C18.no_assert_counterexample
