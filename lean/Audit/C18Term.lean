import EmuVerif.Props.C18Term

#print axioms EmuVerif.Props.C18Term.nsc_pos
#print axioms EmuVerif.Props.C18Term.terminates_pos_of_jump_budget
#print axioms EmuVerif.Props.C18Term.search_closes_pos
#print axioms EmuVerif.Props.C18Term.opening_sets_potential
