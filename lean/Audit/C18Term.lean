import EmuVerif.Props.C18Term

#print axioms EmuVerif.Props.C18Term.posGrid_search
#print axioms EmuVerif.Props.C18Term.nonnegGrid_search
#print axioms EmuVerif.Props.C18Term.nsc_search
#print axioms EmuVerif.Props.C18Term.terminates_of_jump_budget
#print axioms EmuVerif.Props.C18Term.terminates_pos_of_jump_budget
#print axioms EmuVerif.Props.C18Term.search_closes
#print axioms EmuVerif.Props.C18Term.search_closes_pos
#print axioms EmuVerif.Props.C18Term.opening_sets_potential
#print axioms EmuVerif.Props.C18Term.run_terminates_of_jump_budget
