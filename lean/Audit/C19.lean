import EmuVerif.Props.C19

#print axioms EmuVerif.Props.C19.queries_in_bracket
#print axioms EmuVerif.Props.C19.bracket_kept
#print axioms EmuVerif.Props.C19.returned_point_at_sign_change
#print axioms EmuVerif.Props.C19.one_at_a_time_same
#print axioms EmuVerif.Props.C19.terminates_forced_bisection
#print axioms EmuVerif.Props.C19.forced_init
