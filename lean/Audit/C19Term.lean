import EmuVerif.Props.C19Term

#print axioms EmuVerif.Brent.interp_needs_small_b
#print axioms EmuVerif.Brent.run_within
#print axioms EmuVerif.Brent.pos_within
#print axioms EmuVerif.Props.C19Term.within_pos_bracket
#print axioms EmuVerif.Props.C19Term.terminates_pos_bracket
#print axioms EmuVerif.Props.C19Term.tape_converges_pos_bracket
#print axioms EmuVerif.Props.C19Term.solver_search_bound
#print axioms EmuVerif.Props.C19Term.terminates_away_from_zero
#print axioms EmuVerif.Brent.nonneg_within
#print axioms EmuVerif.Props.C19Term.within_nonneg_bracket
#print axioms EmuVerif.Props.C19Term.terminates_nonneg_bracket
#print axioms EmuVerif.Props.C19Term.tape_converges_nonneg_bracket
#print axioms EmuVerif.Props.C19Term.solver_search_bound0
#print axioms EmuVerif.Props.C19Term.terminates_nonneg
#print axioms EmuVerif.Props.C19Term.overshoot_run_eps_quarter
#print axioms EmuVerif.Props.C19Term.overshoot_run_eps_quarter_width
#print axioms EmuVerif.Props.C19Term.overshoot_run_eps_one
#print axioms EmuVerif.Props.C19Term.uniformBound_eps_one
#print axioms EmuVerif.Props.C19Term.uniformBound_eps_quarter_false
#print axioms EmuVerif.Brent.over_step
#print axioms EmuVerif.Props.C19Term.no_uniform_bound_eps_quarter
#print axioms EmuVerif.Brent.creep_step
#print axioms EmuVerif.Props.C19Term.creeping_never_terminates
#print axioms EmuVerif.Props.C19Term.terminatesAlways_false
#print axioms EmuVerif.Props.C19Term.creeping_zero_inside
#print axioms EmuVerif.Props.C19Term.creeping_zero_inside_queries
