import EmuVerif.Props.C20

#print axioms EmuVerif.Props.C20.constructs
#print axioms EmuVerif.Props.C20.build_valid
#print axioms EmuVerif.Props.C20.knot_exact
#print axioms EmuVerif.Props.C20.eval_piecewise
#print axioms EmuVerif.Props.C20.hermite_conditions
#print axioms EmuVerif.Props.C20.deriv_is_derivative
#print axioms EmuVerif.Props.C20.c1_at_knots
#print axioms EmuVerif.Props.C20.slopes_standard
#print axioms EmuVerif.Props.C20.equals_standard
#print axioms EmuVerif.Props.C20.stdInterval_exists
#print axioms EmuVerif.Props.C20.cubic_monotone_in_region
#print axioms EmuVerif.Props.C20.cubic_constant_on_flat
#print axioms EmuVerif.Props.C20.slopes_in_region
#print axioms EmuVerif.Props.C20.monotone_on_interval
#print axioms EmuVerif.Props.C20.between_end_values
#print axioms EmuVerif.Props.C20.constant_on_flat_interval
#print axioms EmuVerif.Props.C20.between_neighbours
#print axioms EmuVerif.Props.C20.lower_bound_preserved
#print axioms EmuVerif.Props.C20.upper_bound_preserved
#print axioms EmuVerif.Props.C20.float_mask_underflow_counterexample
#print axioms EmuVerif.Props.C20.mask_variants_agree
