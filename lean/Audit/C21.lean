import EmuVerif.Props.C21

#print axioms EmuVerif.Props.C21.strictly_increasing
#print axioms EmuVerif.Props.C21.first_zero
#print axioms EmuVerif.Props.C21.last_duration
#print axioms EmuVerif.Props.C21.consecutive_gap
#print axioms EmuVerif.Props.C21.covers_dt_multiples
#print axioms EmuVerif.Props.C21.covers_eval_times
#print axioms EmuVerif.Props.C21.only_candidates
#print axioms EmuVerif.Props.C21.exact_of_sep
#print axioms EmuVerif.Props.C21.contains_dt_multiples_of_sep
#print axioms EmuVerif.Props.C21.contains_eval_times_of_sep
#print axioms EmuVerif.Props.C21.steps_eq_rows
#print axioms EmuVerif.Props.C21.visits_sv
#print axioms EmuVerif.Props.C21.visits_mps
#print axioms EmuVerif.Props.C21.config_times
#print axioms EmuVerif.Props.C21.full_rejected
#print axioms EmuVerif.Props.C21.targetTimes_eq
#print axioms EmuVerif.Props.C21.reps_total
#print axioms EmuVerif.Props.C21.reps_each
#print axioms EmuVerif.Props.C21.merge_needed_example
#print axioms EmuVerif.Props.C21.trajectories_requested
#print axioms EmuVerif.Props.C21.simulated_eq_requested
