import EmuVerif.Props.C22

#print axioms EmuVerif.Props.C22.step_values_are_midpoint_pchip
#print axioms EmuVerif.Props.C22.amp_nonneg_inside_before_clamp
#print axioms EmuVerif.Props.C22.amp_nonneg_always
#print axioms EmuVerif.Props.C22.det_phase_not_clamped
#print axioms EmuVerif.Props.C22.extract_ok
#print axioms EmuVerif.Props.C22.extract_columns
#print axioms EmuVerif.Props.C22.extract_amp_nonneg
