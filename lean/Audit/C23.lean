import EmuVerif.Props.C23

#print axioms EmuVerif.Props.C23.entry_formula
#print axioms EmuVerif.Props.C23.symmetric_out
#print axioms EmuVerif.Props.C23.below_cutoff_zero
#print axioms EmuVerif.Props.C23.above_cutoff_unchanged
#print axioms EmuVerif.Props.C23.masked_rows_cols
#print axioms EmuVerif.Props.C23.before_slm_end
#print axioms EmuVerif.Props.C23.after_slm_end
#print axioms EmuVerif.Props.C23.masked_iff
#print axioms EmuVerif.Props.C23.user_wins
#print axioms EmuVerif.Props.C23.register_used_without_user
#print axioms EmuVerif.Props.C23.diag_inherited
#print axioms EmuVerif.Props.C23.diag_zero_of_zero
#print axioms EmuVerif.Props.C23.diag_not_enforced
#print axioms EmuVerif.Props.C23.sv_queries_step_starts
#print axioms EmuVerif.Props.C23.mps_queries
#print axioms EmuVerif.Props.C23.backends_agree_after_step0
#print axioms EmuVerif.Props.C23.step0_differs_iff
#print axioms EmuVerif.Props.C23.masked_steps_prefix
#print axioms EmuVerif.Props.C23.sv_step_matrix
#print axioms EmuVerif.Props.C23.sv_step_entry
#print axioms EmuVerif.Props.C23.sv_full_after_slm_end
#print axioms EmuVerif.Props.C23.sv_step_matrix_no_error
#print axioms EmuVerif.Props.C23.darkSv_symm
#print axioms EmuVerif.Props.C23.mps_step_matrix
#print axioms EmuVerif.Props.C23.mps_step_entry
