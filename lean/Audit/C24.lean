import EmuVerif.Props.C24

#print axioms EmuVerif.Props.C24.relaxation_is_sqrt_gamma_g_r
#print axioms EmuVerif.Props.C24.relaxation_rate
#print axioms EmuVerif.Props.C24.dephasing_op
#print axioms EmuVerif.Props.C24.dephasing_same_dissipator_dim2
#print axioms EmuVerif.Props.C24.dephasing_dim3_partial
#print axioms EmuVerif.Props.C24.dephasing_dim3_counterexample
#print axioms EmuVerif.Props.C24.depolarizing_ops
#print axioms EmuVerif.Props.C24.depolarizing_same_dissipator
#print axioms EmuVerif.Props.C24.effnoise_xy
#print axioms EmuVerif.Props.C24.effnoise_ising_dim2
#print axioms EmuVerif.Props.C24.effnoise_repaired
#print axioms EmuVerif.Props.C24.effnoise_ising_partial
#print axioms EmuVerif.Props.C24.guard_dim3
#print axioms EmuVerif.Props.C24.effnoise_dim3_counterexample
#print axioms EmuVerif.Props.C24.effnoise_branch_dim2
#print axioms EmuVerif.Props.C24.effnoise_shape_rejected
#print axioms EmuVerif.Props.C24.all_lindblad_is_concat
#print axioms EmuVerif.Props.C24.pulserdata_ops_from_effective_model
#print axioms EmuVerif.Props.C24.pulserdata_prefer_device_ignores_config
#print axioms EmuVerif.Props.C24.pulserdata_config_ignores_device
#print axioms EmuVerif.Props.C24.pulserdata_none_no_ops
