import EmuVerif.Props.C25

#print axioms EmuVerif.Props.C25.extended_mps_amp
#print axioms EmuVerif.Props.C25.extended_mps_valid
#print axioms EmuVerif.Props.C25.extended_mpo_amp
#print axioms EmuVerif.Props.C25.extended_mpo_valid
#print axioms EmuVerif.Props.C25.padded_expect_eq_reduced
#print axioms EmuVerif.Props.C25.ext_index_none
#print axioms EmuVerif.Props.C25.ext_index_position
#print axioms EmuVerif.Props.C25.ext_index_raises_iff
#print axioms EmuVerif.Props.C25.filter_good_get
#print axioms EmuVerif.Props.C25.sv_dark_params
#print axioms EmuVerif.Props.C25.sv_dark_hamiltonian
#print axioms EmuVerif.Props.C25.sv_dark_embedding
#print axioms EmuVerif.Props.C25.mps_needs_two_survivors
#print axioms EmuVerif.Props.C25.d2d_counterexample
