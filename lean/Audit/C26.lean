import EmuVerif.Props.C26

#print axioms EmuVerif.Props.C26.iterate_add
#print axioms EmuVerif.Props.C26.resume_eq_run
#print axioms EmuVerif.Props.C26.resume_eq_run_of_terminates
#print axioms EmuVerif.Props.C26.crash_during_autosave_then_resume
#print axioms EmuVerif.Props.C26.autosave_removed_run
#print axioms EmuVerif.Props.C26.autosave_removed_resume
#print axioms EmuVerif.Props.C26.run_results_clock_independent
#print axioms EmuVerif.Props.C26.saved_snapshots_are_iterates
#print axioms EmuVerif.Props.C26.asFound_counterexample
#print axioms EmuVerif.Props.C26.noisy_same_tape
#print axioms EmuVerif.Props.C26.noisy_other_tape_counterexample
#print axioms EmuVerif.Props.C26.noisy_same_law
