import EmuVerif.Props.C26Law

#print axioms EmuVerif.Props.C26.noisy_same_law_pmf
#print axioms EmuVerif.Props.C26.noisy_same_law_deterministic
