import EmuVerif.Props.C27

#print axioms EmuVerif.Props.C27.current_crash_safe
#print axioms EmuVerif.Props.C27.save_completes
#print axioms EmuVerif.Props.C27.autosave_survives_crash
#print axioms EmuVerif.Props.C27.loadable_forever
#print axioms EmuVerif.Props.C27.earlyReplace_counterexample
#print axioms EmuVerif.Props.C27.earlyReplace_not_crash_safe
#print axioms EmuVerif.Props.C27.earlyReplace_completes
#print axioms EmuVerif.Props.C27.current_exception_safe
#print axioms EmuVerif.Props.C27.finallyReplace_counterexample
#print axioms EmuVerif.Props.C27.finallyReplace_same_ops
#print axioms EmuVerif.Props.C27.refused_replace_safe
#print axioms EmuVerif.Props.C27.copyFallback_counterexample
#print axioms EmuVerif.Props.C27.aliased_counterexample
#print axioms EmuVerif.Props.C27.appended_temp_name_distinct
#print axioms EmuVerif.Props.C27.threeStep_counterexample
#print axioms EmuVerif.Props.C27.threeStep_not_crash_safe
#print axioms EmuVerif.Props.C27.threeStep_data_not_lost
