import EmuVerif.Props.C28

#print axioms EmuVerif.Props.C28.propagator_unitary
#print axioms EmuVerif.Props.C28.propagator_mem_unitaryGroup
#print axioms EmuVerif.Props.C28.norm_conserved
#print axioms EmuVerif.Props.C28.norm_conserved_euclid
#print axioms EmuVerif.Props.C28.energy_conserved
#print axioms EmuVerif.Props.C28.second_moment_conserved
#print axioms EmuVerif.Props.C28.window_conservation
#print axioms EmuVerif.Props.C28.fullClaim_ideal
