import EmuVerif.Props.C29

#print axioms EmuVerif.Props.C29.phase_offset_is_conjugation
#print axioms EmuVerif.Props.C29.offset_commutes_with_n
#print axioms EmuVerif.Props.C29.offset_fixes_ground_state
#print axioms EmuVerif.Props.C29.offset_preserves_probabilities
#print axioms EmuVerif.Props.C29.offset_preserves_occupation
#print axioms EmuVerif.Props.C29.offset_preserves_correlation
#print axioms EmuVerif.Props.C29.offset_is_unitary
#print axioms EmuVerif.Props.C29.propagator_conjugation
#print axioms EmuVerif.Props.C29.results_invariant_under_phase_offset
#print axioms EmuVerif.Props.C29.energy_invariant_under_phase_offset
#print axioms EmuVerif.Props.C29.phase_negation_is_conjugation
#print axioms EmuVerif.Props.C29.propagator_under_negation
#print axioms EmuVerif.Props.C29.hamiltonian_depends_on_register_only_through_U
#print axioms EmuVerif.Props.C29.phase_negation_not_an_invariance
