import EmuVerif.Props.C29ExpLink

-- the bridge theorems
#print axioms EmuVerif.Props.C29ExpLink.toFun_add
#print axioms EmuVerif.Props.C29ExpLink.toFun_smul
#print axioms EmuVerif.Props.C29ExpLink.ofFun_toFun
#print axioms EmuVerif.Props.C29ExpLink.toFun_ofFun
#print axioms EmuVerif.Props.C29ExpLink.toFun_apply_matOf
#print axioms EmuVerif.Props.C29ExpLink.matrix_ext_of_toFun
#print axioms EmuVerif.Props.C29ExpLink.toFun_ham
#print axioms EmuVerif.Props.C29ExpLink.toFun_phase
#print axioms EmuVerif.Props.C29ExpLink.phaseDiag_norm
#print axioms EmuVerif.Props.C29ExpLink.phaseDiag_star
#print axioms EmuVerif.Props.C29ExpLink.norm_of_unit
#print axioms EmuVerif.Props.C29ExpLink.hamMatrix_shift
#print axioms EmuVerif.Props.C29ExpLink.idealSteps_shift
#print axioms EmuVerif.Props.C29ExpLink.ground_fixed
#print axioms EmuVerif.Props.C29ExpLink.ideal_results_invariant_under_phase_offset
#print axioms EmuVerif.Props.C29ExpLink.ideal_energy_invariant_under_phase_offset
#print axioms EmuVerif.Props.C29ExpLink.toFun_cj
#print axioms EmuVerif.Props.C29ExpLink.map_star_mulVec
#print axioms EmuVerif.Props.C29ExpLink.hamMatrix_neg
#print axioms EmuVerif.Props.C29ExpLink.toFun_zero
#print axioms EmuVerif.Props.C29ExpLink.groundFun_real
#print axioms EmuVerif.Props.C29ExpLink.ideal_negation_is_time_reversal

-- Props/C29Exp.lean is imported by the bridge: its theorems are audited in the same Lean process (one Mathlib load instead of two;
-- `Audit/C29Exp.lean` is the stand-alone list for that module alone)
#print axioms EmuVerif.Props.C29Exp.exp_smul_conj
#print axioms EmuVerif.Props.C29Exp.exp_smul_conj_inv
#print axioms EmuVerif.Props.C29Exp.left_inverse_of_right
#print axioms EmuVerif.Props.C29Exp.propagator_conj
#print axioms EmuVerif.Props.C29Exp.run_smul
#print axioms EmuVerif.Props.C29Exp.run_conj
#print axioms EmuVerif.Props.C29Exp.prob_smul
#print axioms EmuVerif.Props.C29Exp.prob_diagonal_mulVec
#print axioms EmuVerif.Props.C29Exp.diagonal_unitary
#print axioms EmuVerif.Props.C29Exp.probabilities_invariant
#print axioms EmuVerif.Props.C29Exp.probabilities_invariant_step
#print axioms EmuVerif.Props.C29Exp.expect_conj
#print axioms EmuVerif.Props.C29Exp.expect_smul
#print axioms EmuVerif.Props.C29Exp.energy_invariant
#print axioms EmuVerif.Props.C29Exp.exp_map_conj
#print axioms EmuVerif.Props.C29Exp.propagator_entrywise_conj
#print axioms EmuVerif.Props.C29Exp.run_negSteps
#print axioms EmuVerif.Props.C29Exp.prob_star
#print axioms EmuVerif.Props.C29Exp.negation_is_time_reversal
#print axioms EmuVerif.Props.C29Exp.negation_invariant_of_real_up_to_diagonal
#print axioms EmuVerif.Props.C29Exp.exp_smul_of_mul_self_eq_one
#print axioms EmuVerif.Props.C29Exp.propagator_of_involution
#print axioms EmuVerif.Props.C29Exp.prob_smul_general
#print axioms EmuVerif.Props.C29Exp.K1_sq
#print axioms EmuVerif.Props.C29Exp.K2_sq
#print axioms EmuVerif.Props.C29Exp.K2neg_sq
#print axioms EmuVerif.Props.C29Exp.K1_hermitian
#print axioms EmuVerif.Props.C29Exp.K2_hermitian
#print axioms EmuVerif.Props.C29Exp.K1_conj
#print axioms EmuVerif.Props.C29Exp.K2_conj
#print axioms EmuVerif.Props.C29Exp.two_step_run
#print axioms EmuVerif.Props.C29Exp.half_sqrt_two_normSq
#print axioms EmuVerif.Props.C29Exp.weight_original
#print axioms EmuVerif.Props.C29Exp.weight_negated
#print axioms EmuVerif.Props.C29Exp.negation_not_an_invariance
#print axioms EmuVerif.Props.C29Exp.dEx_norm
#print axioms EmuVerif.Props.C29Exp.dEx_fixes_gnd
