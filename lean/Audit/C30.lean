import EmuVerif.Props.C30

#print axioms EmuVerif.Props.C30.dhd_delta_is_minus_n
#print axioms EmuVerif.Props.C30.dhd_U_is_n_n
#print axioms EmuVerif.Props.C30.omega_derivative_exact
#print axioms EmuVerif.Props.C30.delta_derivative_exact
#print axioms EmuVerif.Props.C30.interaction_derivative_exact
#print axioms EmuVerif.Props.C30.phi_derivative_rotation
#print axioms EmuVerif.Props.C30.omega_slot
#print axioms EmuVerif.Props.C30.delta_slot
#print axioms EmuVerif.Props.C30.interaction_slot
#print axioms EmuVerif.Props.C30.real_path_ignores_phase
#print axioms EmuVerif.Props.C30.zero_phase_energy_counterexample
