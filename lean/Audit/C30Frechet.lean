import EmuVerif.Props.C30Frechet

#print axioms EmuVerif.Props.C30Frechet.block_triangular_pow
#print axioms EmuVerif.Props.C30Frechet.block_triangular_pow_rec
#print axioms EmuVerif.Props.C30Frechet.pow_first_order
#print axioms EmuVerif.Props.C30Frechet.pow_dual_number
#print axioms EmuVerif.Props.C30Frechet.exp_block_triangular
#print axioms EmuVerif.Props.C30Frechet.frechet_first_order_coefficients
#print axioms EmuVerif.Props.C30Frechet.exp_add_smul_hasDerivAt
#print axioms EmuVerif.Props.C30Frechet.exp_add_smul_second_order
#print axioms EmuVerif.Props.C30Frechet.expectation_hasDerivAt
#print axioms EmuVerif.Props.C30Frechet.expectation_hasDerivAt_real
#print axioms EmuVerif.Props.C30Frechet.left_relation_of_skew
#print axioms EmuVerif.Props.C30Frechet.double_krylov_identity
#print axioms EmuVerif.Props.C30Frechet.double_krylov_identity_hermitian
#print axioms EmuVerif.Props.C30Frechet.norm_sq_of_row
#print axioms EmuVerif.Props.C30Frechet.backward_parameter_gradient
#print axioms EmuVerif.Props.C30Frechet.backward_gradient_is_derivative
#print axioms EmuVerif.Props.C30Frechet.backward_state_gradient
#print axioms EmuVerif.Props.C30Frechet.big_mat_is_block_triangular
#print axioms EmuVerif.Props.C30Frechet.dS_is_top_right_block
#print axioms EmuVerif.Props.C30Frechet.lanczos_raises_only_recursion
#print axioms EmuVerif.Props.C30Frechet.lanczos_returns_square_T
#print axioms EmuVerif.Props.C30Frechet.lanczos_iteration_is_krylov_exp_iteration
#print axioms EmuVerif.Props.C30Frechet.model_dS_is_expBlock
