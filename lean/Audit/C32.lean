import EmuVerif.Props.C32

#print axioms EmuVerif.Props.C32.matrix_bandwidth_def
#print axioms EmuVerif.Props.C32.impl_loop_invariant
#print axioms EmuVerif.Props.C32.impl_spec
#print axioms EmuVerif.Props.C32.result_is_permutation
#print axioms EmuVerif.Props.C32.result_no_worse
#print axioms EmuVerif.Props.C32.final_assert_never_fails
#print axioms EmuVerif.Props.C32.contract_respected
#print axioms EmuVerif.Props.C32.helpers_mutually_consistent
