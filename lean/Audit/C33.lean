import EmuVerif.Props.C33

#print axioms EmuVerif.Props.C33.krylov_floor
#print axioms EmuVerif.Props.C33.krylov_floor_literal
#print axioms EmuVerif.Props.C33.krylov_zero_precision
#print axioms EmuVerif.Props.C33.autosave_rejected
#print axioms EmuVerif.Props.C33.autosave_accepted_iff
#print axioms EmuVerif.Props.C33.reorder_off
#print axioms EmuVerif.Props.C33.reorder_kept
#print axioms EmuVerif.Props.C33.constructed_config_safe
#print axioms EmuVerif.Props.C33.dmrg_refuses_noise_impl
#print axioms EmuVerif.Props.C33.dmrg_refuses_noise_seq
#print axioms EmuVerif.Props.C33.dmrg_refuses_noise
#print axioms EmuVerif.Props.C33.dmrg_noise_asFound_counterexample
#print axioms EmuVerif.Props.C33.dmrg_refuses_effective_noise_partial
#print axioms EmuVerif.Props.C33.dmrg_device_noise_counterexample
#print axioms EmuVerif.Props.C33.dmrg_refuses_effective_noise_fixed
#print axioms EmuVerif.Props.C33.dmrg_refuses_noise_any_form
#print axioms EmuVerif.Props.C33.dmrg_identity_counterexample
