import EmuVerif.Props.C34

#print axioms EmuVerif.Props.C34.yields_sum_reps
#print axioms EmuVerif.Props.C34.yields_in_order
#print axioms EmuVerif.Props.C34.expandIdx_length
#print axioms EmuVerif.Props.C34.handed_length
#print axioms EmuVerif.Props.C34.handed_kth
#print axioms EmuVerif.Props.C34.handed_stateless
#print axioms EmuVerif.Props.C34.aggregate_defined
#print axioms EmuVerif.Props.C34.aggregate_many
#print axioms EmuVerif.Props.C34.bitstring_totals
#print axioms EmuVerif.Props.C34.bitstring_counts_add
#print axioms EmuVerif.Props.C34.mean_weights_reps
#print axioms EmuVerif.Props.C34.full_statement
#print axioms EmuVerif.Props.C34.handed_independent_if_state_preserved
