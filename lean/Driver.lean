/-
  Line-protocol driver: one request per stdin line `cmd arg …`, one reply per line.
  Run with `lake env lean --run Driver.lean < ops.txt`. Imports models only (no Mathlib).
  Unknown command or unparsable arguments → `bad-op` (never a default value).
-/
import EmuVerif.Drv.All
open EmuVerif

def dispatch (line : String) : String :=
  match (line.trimAscii.toString.splitOn " ").filter (· ≠ "") with
  | [] => "bad-op"
  | cmd :: args =>
    match Drv.allHandlers.lookup cmd with
    | none => "bad-op"
    | some h => (h args).getD "bad-op"

partial def loop (h : IO.FS.Stream) (out : IO.FS.Stream) : IO Unit := do
  let line ← h.getLine
  if line.isEmpty then return ()
  out.putStrLn (dispatch line)
  loop h out

def main : IO Unit := do
  let out ← IO.getStdout
  loop (← IO.getStdin) out
  out.flush
