-- Root of the `EmuVerif` library: models, driver front ends, proofs, property theorems.
import EmuVerif.Drv.All
