/- Line-protocol front end for `Model.Aggregate`. -/
import EmuVerif.Model.Scalar
import EmuVerif.Model.Aggregate
namespace EmuVerif.Drv.Aggregate
open EmuVerif EmuVerif.Aggregate

/-- `agg.expand r1,r2,…` → indices of the `noisy_samples` entry behind each yielded item. -/
def expandF (args : List String) : Option String := do
  match args with
  | [rs] =>
    let rs ← parseList String.toInt? rs
    some (showList toString (expandIdx rs))
  | _ => none

/-- `agg.run r1,r2,…` — the `run()` loop with the stub back-end "result = (call number, entry
index)", state = call counter → `shape call:idx,call:idx,…` with shape ∈ none/single/combine. -/
def runF (args : List String) : Option String := do
  match args with
  | [rs] =>
    let rs ← parseList String.toInt? rs
    let samples := (List.zipIdx rs).map (fun (r, k) => (k, r))
    let handed := handedToAggregate (fun (st : Nat) (sd : Nat) => ((st, sd), st + 1)) 0 samples
    let shape := match aggregate (fun _ => (0, 0)) handed with
      | none => "none"
      | some _ => if handed.length = 1 then "single" else "combine"
    some s!"{shape} {showList (fun (p : Nat × Nat) => s!"{p.1}:{p.2}") handed}"
  | _ => none

def parseCounter (s : String) : Option Counter :=
  if s = "e" then some [] else
  (s.splitOn "_").mapM (fun kv => match kv.splitOn ":" with
    | [k, v] => do pure (k, ← v.toNat?)
    | _ => none)

/-- `agg.bag c1,c2,…` with `c = key:count_key:count…` (`e` = empty counter)
→ `total key:count,…` of the joined counter. -/
def bagF (args : List String) : Option String := do
  match args with
  | [cs] =>
    let cs ← parseList parseCounter cs
    let u := bagUnion cs
    some s!"{u.total} {showList (fun (p : String × Nat) => s!"{p.1}:{p.2}") u}"
  | _ => none

def handlers : List (String × (List String → Option String)) :=
  [("agg.expand", expandF), ("agg.run", runF), ("agg.bag", bagF)]

end EmuVerif.Drv.Aggregate
