/- Dispatch table of the line-protocol driver: one entry list per model front end. -/
import EmuVerif.Drv.Brent
namespace EmuVerif.Drv

def allHandlers : List (String × (List String → Option String)) :=
  Brent.handlers

end EmuVerif.Drv
