/- Line-protocol front end for `Model.Autosave` (snapshots are natural numbers: the number of
   `progress` calls done when the snapshot was pickled). -/
import EmuVerif.Model.Scalar
import EmuVerif.Model.Autosave
namespace EmuVerif.Drv.Autosave
open EmuVerif EmuVerif.Autosave

def parseFile (s : String) : Option (FileSt Nat) :=
  if s = "a" then some .absent
  else if s = "p" then some .part
  else if s.startsWith "c" then (s.drop 1).toNat?.map .complete
  else none

def showFile : FileSt Nat → String
  | .absent => "a"
  | .part => "p"
  | .complete v => s!"c{v}"

def showFS (fs : FS Nat) : String := s!"{showFile fs.base}/{showFile fs.new}/{showFile fs.bak}"

def showName : Name → String
  | .base => "base"
  | .new => "new"
  | .bak => "bak"

def showOp : Op Nat → String
  | .openW n => s!"open:{showName n}"
  | .write n v => s!"write:{showName n}:{v}"
  | .close n v => s!"close:{showName n}:{v}"
  | .replace a b => s!"replace:{showName a}:{showName b}"
  | .rename a b => s!"rename:{showName a}:{showName b}"
  | .remove n => s!"remove:{showName n}"

def parseVariant (s : String) : Option Variant :=
  if s = "current" then some .current else if s = "threeStep" then some .threeStep
  else if s = "earlyReplace" then some .earlyReplace else none

def parseFS (b n k : String) : Option (FS Nat) := do
  some ⟨← parseFile b, ← parseFile n, ← parseFile k⟩

/-- `autosave.ops variant base new bak w` → the operations of one `save_simulation`. -/
def opsH (args : List String) : Option String := do
  match args with
  | [var, b, n, k, w] =>
    let fs ← parseFS b n k
    some (showList showOp (saveOps (← parseVariant var) fs (← w.toNat?)))
  | _ => none

/-- `autosave.crash variant base new bak w` → `label=base/new/bak;…` for every crash state. -/
def crashH (args : List String) : Option String := do
  match args with
  | [var, b, n, k, w] =>
    let fs ← parseFS b n k
    let l := crashStatesL fs 0 (saveOps (← parseVariant var) fs (← w.toNat?))
    some (";".intercalate (l.map (fun (lab, s) => s!"{lab}={showFS s}")))
  | _ => none

/-- `autosave.unwind base new bak w` → labelled states after an exception at each crash point of the
`try: … finally: os.replace(.new, base)` variant (handler run on the directory left behind). -/
def unwindH (args : List String) : Option String := do
  match args with
  | [b, n, k, w] =>
    let fs ← parseFS b n k
    let l := unwindStatesL fs (finallyBody (← w.toNat?)) finallyCleanup
    some (";".intercalate (l.map (fun (lab, s) => s!"{lab}={showFS s}")))
  | _ => none

/-- `autosave.aliased base w` → labelled crash states of an in-place save (`.new` == advertised). -/
def aliasedH (args : List String) : Option String := do
  match args with
  | [b, w] =>
    let fs ← parseFS b "a" "a"
    let l := crashStatesL fs 0 (saveAliased (← w.toNat?))
    some (";".intercalate (l.map (fun (lab, s) => s!"{lab}={showFS s}")))
  | _ => none

/-- Counter machine: state = number of progress calls done, finished at `nsteps`. -/
def counter (nsteps : Nat) : Machine Nat Nat := ⟨(· + 1), (· ≥ nsteps), id, fun _ r => r⟩

def parseInt (s : String) : Option Int := s.toInt?

def showRun (M : Machine Nat Nat) (dt : Int) (clock : List Int) (p : Proc Nat) (fs : FS Nat) :
    String :=
  match runTrace M dt clock p, runW M dt clock p fs with
  | some (s, ops), some (_, fs') =>
    let fs1 := runOps fs ops
    s!"ok {s} {showList showOp (ops ++ finalOps fs1)} {showFS fs'}"
  | _, _ => "nofuel"

/-- `autosave.run dt last0 start nsteps clock base new bak` → `ok final ops finalfs`. -/
def runH (args : List String) : Option String := do
  match args with
  | [dt, last0, start, nsteps, clock, b, n, k] =>
    let fs ← parseFS b n k
    let clock ← parseList parseInt clock
    some (showRun (counter (← nsteps.toNat?)) (← parseInt dt) clock
      { st := ← start.toNat?, last := ← parseInt last0 } fs)
  | _ => none

/-- `autosave.resume dt now0 nsteps clock base new bak` → `noload` or as `autosave.run`. -/
def resumeH (args : List String) : Option String := do
  match args with
  | [dt, now0, nsteps, clock, b, n, k] =>
    let fs ← parseFS b n k
    let clock ← parseList parseInt clock
    match load fs with
    | none => some "noload"
    | some v =>
      some (showRun (counter (← nsteps.toNat?)) (← parseInt dt) clock
        { st := v, last := ← parseInt now0 } fs)
  | _ => none

/-- `autosave.sched dt last0 now1,now2,…` → per call `1`/`0` (was `save_simulation` due?). -/
def schedH (args : List String) : Option String := do
  match args with
  | [dt, last0, clock] =>
    let dt ← parseInt dt
    let clock ← parseList parseInt clock
    let step := fun (acc : Int × List Bool) (now : Int) =>
      if saveDue acc.1 now dt then (now, true :: acc.2) else (acc.1, false :: acc.2)
    let r := clock.foldl step (← parseInt last0, [])
    some s!"{showList showB r.2.reverse} {r.1}"
  | _ => none

def handlers : List (String × (List String → Option String)) :=
  [("autosave.ops", opsH), ("autosave.crash", crashH), ("autosave.unwind", unwindH), ("autosave.aliased", aliasedH), ("autosave.run", runH),
   ("autosave.resume", resumeH), ("autosave.sched", schedH)]

end EmuVerif.Drv.Autosave
