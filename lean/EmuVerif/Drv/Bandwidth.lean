/- Line-protocol front end for `Model.Bandwidth`, run at binary64.
   Matrices: rows `;`-separated, entries `,`-separated UInt64 bit patterns, `_` = 0×0.
   Permutation lists (tapes): `;`-separated permutations, `_` = empty tape. -/
import EmuVerif.Model.Bandwidth
import EmuVerif.Drv.Perm
namespace EmuVerif.Drv.Bandwidth
open EmuVerif EmuVerif.Perm EmuVerif.Bandwidth EmuVerif.Drv.Perm

/-- torch promotes the int64 tensor `j_arr - i_arr` to the matrix dtype (exact for |j-i| < 2^53). -/
local instance : IntCast Float := ⟨Float.ofInt⟩

def parseMatF (s : String) : Option (Mat Float) := parseSep ";" (parseList parseF) s
def parseTape (s : String) : Option (List (List Nat)) := parseSep ";" parsePerm s

/-- Bandwidths are printed with `-0.0` canonicalised to `+0.0`: `absv (-0.0) = -0.0` while
`torch.abs(-0.0) = +0.0`; the two are equal for every comparison the code makes. -/
def showBw (x : Float) : String := if x == 0 then showF 0 else showFc x

def showIErr : IErr → String
  | .emptyMax => "emptymax"
  | .tape => "tape"
  | .contract => "contract"
  | .tooManySteps => "toomanysteps"

def showErr : Err → String
  | .shape => "shape"
  | .notSymmetric => "notsymmetric"
  | .inner e => showIErr e
  | .notOptimised => "notoptimised"

/-- `bw.band M` → bandwidth bits | `emptymax`. -/
def bandH (args : List String) : Option String := do
  match args with
  | [m] =>
    match matrixBandwidth (← parseMatF m) with
    | none => some "emptymax"
    | some b => some (showBw b)
  | _ => none

/-- `bw.sym atol rtol M` → 0/1. -/
def symH (args : List String) : Option String := do
  match args with
  | [a, r, m] => some (showB (isSymmetric (← parseF a) (← parseF r) (← parseMatF m)))
  | _ => none

/-- `bw.global M cands` → `ok perm bw` | error tag (`minimize_bandwidth_global`). -/
def globalH (args : List String) : Option String := do
  match args with
  | [m, cands] =>
    match globalStep (← parseMatF m) (← parseTape cands) with
    | .error e => some (showIErr e)
    | .ok (p, b) => some s!"ok {showNats p} {showBw b}"
  | _ => none

/-- `bw.impl nThr M init tape` → `ok perm bw consumed` | error tag (`minimize_bandwidth_impl`). -/
def implH (args : List String) : Option String := do
  match args with
  | [k, m, init, tape] =>
    let tape ← parseTape tape
    match minimizeBandwidthImpl (← parseNat k) (← parseMatF m) (← parsePerm init) tape with
    | .error e => some (showIErr e)
    | .ok (p, b, rest) => some s!"ok {showNats p} {showBw b} {tape.length - rest.length}"
  | _ => none

/-- `bw.min atol rtol nThr samples M rnd tape` → `ok perm` | error tag (`minimize_bandwidth`). -/
def minH (args : List String) : Option String := do
  match args with
  | [a, r, k, s, m, rnd, tape] =>
    match minimizeBandwidth (← parseF a) (← parseF r) (← parseNat k) (← parseNat s) (← parseMatF m)
        (← parseTape rnd) (← parseTape tape) with
    | .error e => some (showErr e)
    | .ok p => some s!"ok {showNats p}"
  | _ => none

def handlers : List (String × (List String → Option String)) :=
  [("bw.band", bandH), ("bw.sym", symH), ("bw.global", globalH), ("bw.impl", implH), ("bw.min", minH)]

end EmuVerif.Drv.Bandwidth
