/- Line-protocol front end for `Model.Brent`. -/
import EmuVerif.Model.Brent
namespace EmuVerif.Drv.Brent
open EmuVerif EmuVerif.Brent

variable {α : Type} [Add α] [Sub α] [Mul α] [Div α] [Neg α] [LT α] [DecidableLT α]
  [LE α] [DecidableLE α] [OfNat α 0] [OfNat α 1] [OfNat α 2] [OfNat α 3] [OfNat α 4]

/-- `runTape` that stops where Python would raise `ZeroDivisionError`. The third component is
0 = tape exhausted, not converged; 1 = converged; 2 = zero division at the next step. -/
def runTapeZ (tol : α) : List α → St α → List α → (St α × List α × Nat)
  | [], s, acc => (s, acc.reverse, if isConverged s tol then 1 else 0)
  | y :: ys, s, acc =>
    if isConverged s tol then (s, acc.reverse, 1)
    else if divZero s then (s, acc.reverse, 2)
    else
      let (s', x) := getNext s
      runTapeZ tol ys (provide s' x y) (x :: acc)

/-- `brent.tape start end fstart fend eps tol y1,y2,…` (binary64 bit patterns)
    → `ok x1,x2,… a b fa fb bisection converged` or `reject`. -/
def tapeF (args : List String) : Option String := do
  match args with
  | [st, en, fs, fe, ep, tl, ys] =>
    let st ← parseF st; let en ← parseF en; let fs ← parseF fs; let fe ← parseF fe
    let ep ← parseF ep; let tl ← parseF tl; let ys ← parseList parseF ys
    match init st en fs fe ep with
    | none => some "reject"
    | some s0 =>
      let (s, xs, conv) := runTapeZ tl ys s0 []
      some s!"ok {showList showF xs} {showF s.a} {showF s.b} {showF s.fa} {showF s.fb} {showB s.bisection} {conv}"
  | _ => none

def tapeQ (args : List String) : Option String := do
  match args with
  | [st, en, fs, fe, ep, tl, ys] =>
    let st ← parseQ st; let en ← parseQ en; let fs ← parseQ fs; let fe ← parseQ fe
    let ep ← parseQ ep; let tl ← parseQ tl; let ys ← parseList parseQ ys
    match init st en fs fe ep with
    | none => some "reject"
    | some s0 =>
      let (s, xs, conv) := runTapeZ tl ys s0 []
      some s!"ok {showList showQ xs} {showQ s.a} {showQ s.b} {showQ s.fa} {showQ s.fb} {showB s.bisection} {conv}"
  | _ => none

/-- `brent.next eps a b fa fb c d fc bis` — one `get_next_abscissa` from an arbitrary
(not necessarily reachable) state → `x bisection' c' d' fc'` or `zerodiv`. -/
def nextF (args : List String) : Option String := do
  match args with
  | [ep, a, b, fa, fb, c, d, fc, bis] =>
    let s : St Float := { eps := ← parseF ep, a := ← parseF a, b := ← parseF b, fa := ← parseF fa,
                          fb := ← parseF fb, c := ← parseF c, d := ← parseF d, fc := ← parseF fc,
                          bisection := ← parseB bis, next := none }
    if divZero s then some "zerodiv"
    else
      let (s', x) := getNext s
      some s!"{showF x} {showB s'.bisection} {showF s'.c} {showF s'.d} {showF s'.fc}"
  | _ => none

/-- `brent.provide a b fa fb x y` → `a' b' fa' fb'` -/
def provideF (args : List String) : Option String := do
  match args with
  | [a, b, fa, fb, x, y] =>
    let s : St Float := { eps := 0, a := ← parseF a, b := ← parseF b, fa := ← parseF fa,
                          fb := ← parseF fb, c := 0, d := 0, fc := 0, bisection := true, next := none }
    let s' := provide s (← parseF x) (← parseF y)
    some s!"{showF s'.a} {showF s'.b} {showF s'.fa} {showF s'.fb}"
  | _ => none

def handlers : List (String × (List String → Option String)) :=
  [("brent.tape", tapeF), ("brent.tapeq", tapeQ), ("brent.next", nextF), ("brent.provide", provideF)]

end EmuVerif.Drv.Brent
