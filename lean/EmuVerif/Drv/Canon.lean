/- Line-protocol front end for `Model.Canon`. -/
import EmuVerif.Model.Scalar
import EmuVerif.Model.Canon
namespace EmuVerif.Drv.Canon
open EmuVerif EmuVerif.Canon

def flagChar : Flag → Char
  | .L => 'L' | .R => 'R' | .B => 'B' | .U => 'U'

def parseFlag : Char → Option Flag
  | 'L' => some .L | 'R' => some .R | 'B' => some .B | 'U' => some .U | _ => none

def showSt (s : St) : String :=
  let c := match s.centre with
    | none => "-"
    | some c => toString c
  c ++ ":" ++ String.ofList ((List.range s.n).map (fun i => flagChar (s.flags i)))

def showOSt : Option St → String
  | none => "x"
  | some s => showSt s

/-- `fresh` | `make` | `<centre or ->:<flags>` (an arbitrary, possibly unreachable state). -/
def parseInit (n : Nat) (s : String) : Option St :=
  if s = "fresh" then some (fresh n)
  else if s = "make" then some (make n)
  else
    match s.splitOn ":" with
    | [c, fs] => do
      let centre ← if c = "-" then some none else c.toNat?.map some
      let fl ← fs.toList.mapM parseFlag
      if fl.length ≠ n then none
      else some { n := n, flags := fun i => fl.getD i .U, centre := centre }
    | _ => none

def parseDir (c : Char) : Option Bool :=
  if c = 'r' then some true else if c = 'l' then some false else none

def parseOp (s : String) : Option Op :=
  match s.toList with
  | ['t'] => some .truncate
  | ['a'] => some .add
  | ['s'] => some .scale
  | ['z'] => some .applyTo
  | ['e'] => some .expectBatch
  | ['n'] => some .norm
  | ['i'] => some .inner
  | ['c'] => some .correlation
  | ['m'] => some .sample
  | 'o' :: r => (String.ofList r).toNat?.map .orthogonalize
  | 'p' :: r => (String.ofList r).toNat?.map .apply
  | 'y' :: r => (String.ofList r).toNat?.map .entropy
  | 'v' :: r => (String.ofList r).toNat?.map .evolveSingle
  | 'j' :: r => (String.ofList r).toNat?.map .jump
  | 'w' :: d :: r => do
    let b ← parseDir d
    let l ← (String.ofList r).toNat?
    some (.evolvePair l b)
  | 'd' :: d :: r => do
    let b ← parseDir d
    let l ← (String.ofList r).toNat?
    some (.dmrgPair l b)
  | _ => none

/-- `canon.run n init op op …` → one state per op (`centre:flags`, `x` once Python has raised). -/
def runH (args : List String) : Option String := do
  match args with
  | n :: init :: ops =>
    let n ← n.toNat?
    let s0 ← parseInit n init
    let ops ← ops.mapM parseOp
    some (showList showOSt (trace s0 ops))
  | _ => none

def handlers : List (String × (List String → Option String)) := [("canon.run", runH)]

end EmuVerif.Drv.Canon
