/-
  Line-protocol front end for `Model.CanonOps` (tensor-level canonical-form machine).
  Scalar kinds, sites, chains and `qr` records are those of `Drv/Tensor.lean`.

  split record (kept block already cut out):   `k:d:dr|qkvals`   `qk` of torch shape `(d·dr, k)` row-major
  eigh record (rank decided by the model):     `<d1,d2,…> n:dr|qvals`   spectrum as binary64 bit patterns,
                                                `q` of torch shape `(n, n)`, `n = d·dr`
  otape := `nl <qrl>*nl nr <qrr>*nr`       stape := `ns <split>*ns`
-/
import EmuVerif.Model.CanonOps
import EmuVerif.Drv.Tensor
namespace EmuVerif.Drv.CanonOps
open EmuVerif EmuVerif.Tensor EmuVerif.CanonOps EmuVerif.Drv.Tensor

variable {α : Type} [Add α] [Mul α] [OfNat α 0] [OfNat α 1] [Conj α]

def split (c : Codec α) : P (Split α) := do
  let t ← tok
  match t.splitOn "|" with
  | [dims, qv] =>
    match dims.splitOn ":" with
    | [k, d, dr] =>
      let k ← (k.toNat? : Option Nat); let d ← (d.toNat? : Option Nat); let dr ← (dr.toNat? : Option Nat)
      let q ← (parseVals c qv : Option (Array α))
      if q.size ≠ d * dr * k then failure
      else pure { k := k, qk := fun x r j => q.getD ((x * dr + r) * k + j) 0 }
    | _ => failure
  | _ => failure

/-- recorded `eigh` answer: spectrum and the full eigenvector matrix, un-flattened -/
def eighRec (c : Codec α) : P (List Float × (Nat → Nat → Nat → α)) := do
  let ds ← tok
  let ds ← (parseList parseF ds : Option (List Float))
  let t ← tok
  match t.splitOn "|" with
  | [dims, qv] =>
    match dims.splitOn ":" with
    | [n, dr] =>
      let n ← (n.toNat? : Option Nat); let dr ← (dr.toNat? : Option Nat)
      let q ← (parseVals c qv : Option (Array α))
      if q.size ≠ n * n then failure
      else pure (ds, fun x r col => q.getD ((x * dr + r) * n + col) 0)
    | _ => failure
  | _ => failure

def otape (c : Codec α) : P (OTape α) := do
  let nl ← nat; let lt ← rep nl (qrl c); let nr ← nat; let rt ← rep nr (qrr c)
  pure { lt := lt, rt := rt }

def stape (c : Codec α) : P (List (Split α)) := do let ns ← nat; rep ns (split c)

def centreTok : P (Option Nat) := do
  let ct ← tok
  (if ct = "-" then some none else ct.toNat?.map some : Option (Option Nat))

def showCentre : Option Nat → String
  | none => "-"
  | some c => toString c

/-- `cb.trunc K <chain> <stape>` → `ok <chain>` : `truncate_impl` with the kept blocks supplied -/
def cmdTrunc (c : Codec α) : P String := do
  let fs ← chain c; let st ← stape c; done
  match truncateImpl fs st with
  | none => pure "none"
  | some fs' => pure ("ok " ++ showChain c fs')

/-- `cb.truncd K precision cap <chain> ns <eighRec>*ns` → `ok k1,k2,… <chain>` | `reject` (assert) | `none`:
`truncate_impl` with the rank decided by `Model/Cutoff.splitPlan` on the recorded spectra -/
def cmdTruncD (c : Codec α) : P String := do
  let ep ← tok; let ep ← (parseF ep : Option Float)
  let cap ← tok; let cap ← (cap.toInt? : Option Int)
  let fs ← chain c; let ns ← nat; let recs ← rep ns (eighRec c); done
  match recs.mapM (fun r => splitOf ep cap r.1 r.2) with
  | none => pure "reject"
  | some st =>
    match truncateImpl fs st with
    | none => pure "none"
    | some fs' => pure ("ok " ++ showList (fun (g : Split α) => toString g.k) st ++ " " ++ showChain c fs')

def opMat (c : Codec α) : P (Nat → Nat → α) := do
  let d ← nat; let t ← tok; let op ← (parseVals c t : Option (Array α))
  pure (fun x y => op.getD (x * d + y) 0)

/-- one operation of the machine with its tapes -/
def top (c : Codec α) : P (TOp α) := do
  let o ← tok
  if o = "o" then do let k ← nat; let ot ← otape c; pure (.orthogonalize k ot)
  else if o = "t" then do let ot ← otape c; let st ← stape c; pure (.truncate ot st)
  else if o = "a" then do let other ← chain c; let ot ← otape c; let st ← stape c; pure (.add other ot st)
  else if o = "s" then do let s ← tok; let s ← (c.parse s : Option α); pure (.scale s)
  else if o = "p" then do let k ← nat; let op ← opMat c; let ot ← otape c; pure (.apply k op ot)
  else if o = "z" then do
    let mpo ← chain c; let nz ← nat; let zt ← rep nz (qr3 c); let st ← stape c; pure (.applyTo mpo zt st)
  else if o = "e" then do let ot ← otape c; pure (.expectBatch ot)
  else if o = "n" then do let ot ← otape c; pure (.norm ot)
  else if o = "i" then pure .inner
  else if o = "c" then do let m ← nat; let os ← rep m (otape c); pure (.correlation os)
  else if o = "m" then do let ot ← otape c; pure (.sample ot)
  else if o = "y" then do let k ← nat; let o1 ← otape c; let o2 ← otape c; pure (.entropy k o1 o2)
  else if o = "j" then do
    let k ← nat; let op ← opMat c; let o1 ← otape c; let o2 ← otape c
    let s ← tok; let s ← (c.parse s : Option α); pure (.jump k op o1 o2 s)
  else failure

/-- states after each operation (for locating a disagreement), `none` from the first failure on -/
def ttrace : TSt α → List (TOp α) → List (Option (TSt α))
  | _, [] => []
  | t, op :: ops =>
    match tstep t op with
    | none => none :: ops.map (fun _ => none)
    | some t' => some t' :: ttrace t' ops

/-- `cb.run K <centre|-> <chain> nops <op>*` → per operation `<centre|N>` (`N` = `None`) or `x`, then the final chain:
`ok c1,c2,… <chain>` (the chain of the last state reached) -/
def cmdRun (c : Codec α) : P String := do
  let ctr ← centreTok; let fs ← chain c; let nops ← nat; let ops ← rep nops (top c); done
  let t0 : TSt α := { fs := fs, centre := ctr }
  let tr := ttrace t0 ops
  let last := tr.foldl (fun acc x => match x with | some t => t | none => acc) t0
  let cs := showList (fun (x : Option (TSt α)) => match x with
    | some t => (match t.centre with | none => "N" | some c => toString c)
    | none => "x") tr
  pure ("ok " ++ cs ++ " " ++ showChain c last.fs)

/-- `cb.frob K <site>` → `frobSite` -/
def cmdFrob (c : Codec α) : P String := do
  let A ← site c; done
  pure (c.render (frobSite A))

def handlers : List (String × (List String → Option String)) :=
  [("cb.trunc", withKind (cmdTrunc codecZ) (cmdTrunc codecF)),
   ("cb.truncd", withKind (cmdTruncD codecZ) (cmdTruncD codecF)),
   ("cb.run", withKind (cmdRun codecZ) (cmdRun codecF)),
   ("cb.frob", withKind (cmdFrob codecZ) (cmdFrob codecF))]

end EmuVerif.Drv.CanonOps
