/- Line-protocol front end for `Model.Config` (C33, C04). -/
import EmuVerif.Model.Config
namespace EmuVerif.Drv.Config
open EmuVerif EmuVerif.Config

/-! ### token parsers / printers -/

def pBackend : String → Option Backend
  | "sv" => some .sv | "mps" => some .mps | _ => none
def pSolver : String → Option Solver
  | "tdvp" => some .tdvp | "dmrg" => some .dmrg | _ => none
def pIntType : String → Option IntType
  | "ising" => some .ising | "xy" => some .xy | "other" => some .other | _ => none
def pHam : String → Option HamType
  | "rydberg" => some .rydberg | "xy" => some .xy | _ => none
def pVariant : String → Option Variant
  | "asfound" => some .asFound | "repaired" => some .repaired | _ => none
def pChan : String → Option ChanBasis
  | "gr" => some .groundRydberg | "dig" => some .digital | "xy" => some .xy | _ => none
def pNat (s : String) : Option Nat := s.toNat?

/-- `rel deph0 deph1 depol eff[:d1:d2…] leak nonl unk` -/
def pKind (s : String) : Option NoiseKind :=
  match s.splitOn ":" with
  | ["rel"] => some .relaxation
  | ["deph0"] => some (.dephasing false)
  | ["deph1"] => some (.dephasing true)
  | ["depol"] => some .depolarizing
  | ["leak"] => some .leakage
  | ["nonl"] => some .nonLindblad
  | ["unk"] => some .unknown
  | "eff" :: ds => (ds.mapM pNat).map .effNoise
  | _ => none

/-- A tag crosses as `t` followed by its code points joined by `.` (`t` alone = empty string). -/
def pTag (s : String) : Option String :=
  match s.toList with
  | 't' :: cs =>
    if cs.isEmpty then some ""
    else (((String.ofList cs).splitOn ".").mapM (fun (w : String) => w.toNat?.map Char.ofNat)).map String.ofList
  | _ => none

def sErr : Err → String
  | .value => "value" | .notImpl => "notImpl" | .assertion => "assertion"
  | .runtime => "runtime" | .zeroDiv => "zeroDiv"
def sHamKind : HamKind → String
  | .rydberg2 => "rydberg2" | .rydberg3 => "rydberg3" | .xy2 => "xy2" | .xy3 => "xy3"
def sOutcome : Outcome → String
  | .emulate k => s!"emulate {sHamKind k}"
  | .raise e => s!"raise {sErr e}"
def sImpl : Impl → String
  | .plain => "plain" | .noisy => "noisy" | .dmrg => "dmrg"
def sR {β} (sh : β → String) : R β → String
  | .ok b => s!"ok {sh b}"
  | .err e => s!"raise {sErr e}"

/-! ### handlers -/

/-- `config.floor` → bit pattern of `MIN_KRYLOV_TOL` at binary64. -/
def floorF (args : List String) : Option String :=
  match args with
  | [] => some (showF (minKrylovTol : Float))
  | _ => none

/-- `config.mk p e dt flag tags solver` (binary64 bit patterns) →
`ok extra' tol reorder` | `raise assertion` | `raise zeroDiv`. -/
def mkF (args : List String) : Option String := do
  match args with
  | [p, e, dt, flag, tags, s] =>
    let p ← parseF p; let e ← parseF e; let dt ← parseF dt
    let flag ← parseB flag; let tags ← parseList pTag tags; let s ← pSolver s
    match mkConfig p e dt flag tags s with
    | .err er => some s!"raise {sErr er}"
    | .ok c => some s!"ok {showFc c.extraKrylovTol} {showFc (c.precision * c.extraKrylovTol)} {showB c.reorder}"
  | _ => none

/-- `config.lind dim kinds` → `ok n` | `raise e` (`_get_all_lindblad_noise_operators`). -/
def lindH (args : List String) : Option String := do
  match args with
  | [d, ks] =>
    let d ← pNat d; let ks ← parseList pKind ks
    some (sR toString (allLindblad d ks))
  | _ => none

/-- `config.detect it` → `ok rydberg|xy` | `raise value`. -/
def detectH (args : List String) : Option String := do
  match args with
  | [it] =>
    let it ← pIntType it
    some (sR (fun | HamType.rydberg => "rydberg" | .xy => "xy") (detectHam it))
  | _ => none

/-- `config.extract bases` → `ok` | `raise value`. -/
def extractH (args : List String) : Option String := do
  match args with
  | [bs] =>
    let bs ← parseList pChan bs
    some (match extractOk bs with | .ok () => "ok" | .err e => s!"raise {sErr e}")
  | _ => none

/-- `config.basis declared pulsed leak` → `some ising|xy|other dim` | `none`. -/
def basisH (args : List String) : Option String := do
  match args with
  | [bs, ps, l] =>
    let bs ← parseList pChan bs; let ps ← parseList pChan ps; let l ← parseB l
    some (match pulserBasis bs ps l with
      | none => "none"
      | some (.ising, d) => s!"some ising {d}"
      | some (.xy, d) => s!"some xy {d}"
      | some (.other, d) => s!"some other {d}")
  | _ => none

/-- `config.seq variant backend ham dim opDims nAtoms nGood solver cfgNoise` → outcome. -/
def seqH (args : List String) : Option String := do
  match args with
  | [v, b, h, d, ops, na, ng, s, cn] =>
    let v ← pVariant v; let b ← pBackend b; let h ← pHam h; let d ← pNat d
    let ops ← parseList pNat ops; let na ← pNat na; let ng ← pNat ng
    let s ← pSolver s; let cn ← parseB cn
    some (sOutcome (acceptSeq v b { ham := h, dim := d, opDims := ops, nAtoms := na, nGood := ng } s cn))
  | _ => none

def pGuard : String → Option ExtractGuard
  | "declared" => some .declared | "used" => some .used | _ => none
def pForm : String → Option SolverForm
  | "member" => some .member | "string" => some .string | "roundtrip" => some .roundTrip | _ => none
def pTest : String → Option SolverTest
  | "value" => some .byValue | "identity" => some .byIdentity | _ => none

/-- `config.implf test form variant solver nOps cfgNoise nAtoms` → `ok plain|noisy|dmrg` | `raise e`. -/
def implFH (args : List String) : Option String := do
  match args with
  | [t, f, v, s, n, cn, na] =>
    let t ← pTest t; let f ← pForm f
    let v ← pVariant v; let s ← pSolver s; let n ← pNat n; let cn ← parseB cn; let na ← pNat na
    some (sR sImpl (createImplF t f v s n cn na))
  | _ => none

/-- `config.extractg guard declared pulsed` → `ok` | `raise value`. -/
def extractGH (args : List String) : Option String := do
  match args with
  | [g, bs, ps] =>
    let g ← pGuard g; let bs ← parseList pChan bs; let ps ← parseList pChan ps
    some (match extractOkG g bs ps with | .ok () => "ok" | .err e => s!"raise {sErr e}")
  | _ => none

def pRebuild : String → Option Rebuild
  | "passes" => some .passesType | "default" => some .defaultRydberg | _ => none

def sRun : RunOutcome → String
  | .emulate ks => "emulate " ++ ">".intercalate (ks.map sHamKind)
  | .raise e => s!"raise {sErr e}"

/-- `config.run rebuild variant backend ham dim opDims nAtoms nGood solver cfgNoise changes` →
`emulate k1>k2…` (consecutive duplicates removed) | `raise e`. -/
def runH (args : List String) : Option String := do
  match args with
  | [rb, v, b, h, d, ops, na, ng, s, cn, ch] =>
    let rb ← pRebuild rb; let v ← pVariant v; let b ← pBackend b; let h ← pHam h; let d ← pNat d
    let ops ← parseList pNat ops; let na ← pNat na; let ng ← pNat ng
    let s ← pSolver s; let cn ← parseB cn; let ch ← parseList parseB ch
    some (sRun (collapseRun (acceptRun rb v b { ham := h, dim := d, opDims := ops, nAtoms := na, nGood := ng } s cn ch)))
  | _ => none

/-- `config.impl variant solver nOps cfgNoise nAtoms` → `ok plain|noisy|dmrg` | `raise e`. -/
def implH (args : List String) : Option String := do
  match args with
  | [v, s, n, cn, na] =>
    let v ← pVariant v; let s ← pSolver s; let n ← pNat n; let cn ← parseB cn; let na ← pNat na
    some (sR sImpl (createImpl v s n cn na))
  | _ => none

/-- `config.accept variant backend it dim kinds solver` → outcome. -/
def acceptH (args : List String) : Option String := do
  match args with
  | [v, b, it, d, ks, s] =>
    let v ← pVariant v; let b ← pBackend b; let it ← pIntType it; let d ← pNat d
    let ks ← parseList pKind ks; let s ← pSolver s
    some (sOutcome (acceptV v b it d ks s))
  | _ => none

/-- `config.acceptdev fixed backend it dim prefer cfgKinds devKinds solver` → outcome. -/
def acceptDevH (args : List String) : Option String := do
  match args with
  | [fx, b, it, d, pr, ck, dk, s] =>
    let fx ← parseB fx; let b ← pBackend b; let it ← pIntType it; let d ← pNat d; let pr ← parseB pr
    let ck ← parseList pKind ck; let dk ← parseList pKind dk; let s ← pSolver s
    some (sOutcome (acceptDev fx b it d pr ck dk s))
  | _ => none

/-- `config.sequence guard variant fixed backend declared pulsed leak kinds solver` → outcome | `none`. -/
def sequenceH (args : List String) : Option String := do
  match args with
  | [g, v, fx, b, bs, ps, l, ks, s] =>
    let g ← pGuard g; let ps ← parseList pChan ps
    let v ← pVariant v; let fx ← parseB fx; let b ← pBackend b; let bs ← parseList pChan bs; let l ← parseB l
    let ks ← parseList pKind ks; let s ← pSolver s
    some (match acceptSequenceG g v fx b bs ps l ks s with | none => "none" | some o => sOutcome o)
  | _ => none

def handlers : List (String × (List String → Option String)) :=
  [("config.floor", floorF), ("config.mk", mkF), ("config.lind", lindH), ("config.detect", detectH),
   ("config.extract", extractH), ("config.basis", basisH), ("config.seq", seqH), ("config.run", runH),
   ("config.impl", implH), ("config.implf", implFH), ("config.extractg", extractGH), ("config.accept", acceptH), ("config.acceptdev", acceptDevH),
   ("config.sequence", sequenceH)]

end EmuVerif.Drv.Config
