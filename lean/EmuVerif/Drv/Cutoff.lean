/- Line-protocol front end for `Model.Cutoff`. -/
import EmuVerif.Model.Cutoff
namespace EmuVerif.Drv.Cutoff
open EmuVerif EmuVerif.Cutoff

/-- `cutoff.index eps d1,d2,…` (binary64 bit patterns) → index or `reject` (assert). -/
def indexF (args : List String) : Option String := do
  match args with
  | [ep, ds] =>
    let ep ← parseF ep; let ds ← parseList parseF ds
    match cutoffIndex ds ep with
    | none => some "reject"
    | some i => some (toString i)
  | _ => none

/-- Same over ℚ (exact reading). -/
def indexQ (args : List String) : Option String := do
  match args with
  | [ep, ds] =>
    let ep ← parseQ ep; let ds ← parseList parseQ ds
    match cutoffIndex ds ep with
    | none => some "reject"
    | some i => some (toString i)
  | _ => none

def showPlan (p : Plan) : String :=
  s!"{p.cut} {p.maxBond} {p.kept} {if p.iso = Side.left then "L" else "R"} {showB p.rescaled}"

/-- `cutoff.plan eps max_rank orth_center_right preserve_norm d…` → `cut max_bond kept iso rescaled`. -/
def planF (args : List String) : Option String := do
  match args with
  | [ep, mr, ocr, pn, ds] =>
    let ep ← parseF ep; let mr ← mr.toInt?; let ocr ← parseB ocr; let pn ← parseB pn
    let ds ← parseList parseF ds
    match splitPlan ds ep mr ocr pn with
    | none => some "reject"
    | some p => some (showPlan p)
  | _ => none

/-- `cutoff.sweep precision max_bond_dim d_last d_prev …` → new bond dims, right-most first. -/
def sweepF (args : List String) : Option String := do
  match args with
  | ep :: mr :: dss =>
    let ep ← parseF ep; let mr ← mr.toInt?
    let dss ← dss.mapM (parseList parseF)
    match sweepBonds ep mr dss with
    | none => some "reject"
    | some l => some (showList toString l)
  | _ => none

def handlers : List (String × (List String → Option String)) :=
  [("cutoff.index", indexF), ("cutoff.indexq", indexQ), ("cutoff.plan", planF), ("cutoff.sweep", sweepF)]

end EmuVerif.Drv.Cutoff
