/-
  Line-protocol front end for `Model.Dark` (same scalar kinds / site encoding as `Drv/Tensor.lean`).
  A mask is one token of `0`/`1` characters (`1` = good atom, `-` = empty mask).
-/
import EmuVerif.Model.Dark
import EmuVerif.Drv.Tensor
namespace EmuVerif.Drv.Dark
open EmuVerif EmuVerif.Tensor EmuVerif.Dark EmuVerif.Drv.Tensor

def mask : P (List Bool) := do
  let t ← tok
  if t = "-" then pure []
  else (t.toList.mapM (fun c => if c = '1' then some true else if c = '0' then some false else none) : Option (List Bool))

section
variable {α : Type} [Add α] [Mul α] [OfNat α 0] [OfNat α 1] [Conj α]

/-- `d.extmps K <chain> mask` -/
def cmdExtMps (c : Codec α) : P String := do
  let fs ← chain c; let w ← mask; done
  match extendedMps fs w with
  | none => pure "none"
  | some gs => pure ("ok " ++ showChain c gs)

/-- `d.extmpo K <chain> mask` -/
def cmdExtMpo (c : Codec α) : P String := do
  let ws ← chain c; let w ← mask; done
  match extendedMpo ws w with
  | none => pure "none"
  | some gs => pure ("ok " ++ showChain c gs)
end

/-- `d.extidx mask k|-` → `None`, the index, or `raise` -/
def cmdExtIdx : P String := do
  let w ← mask; let t ← tok; done
  let desired ← (if t = "-" then some none else t.toNat?.map some : Option (Option Nat))
  match getExtendedSiteIndex w desired with
  | none => pure "raise"
  | some none => pure "None"
  | some (some p) => pure (toString p)

/-- `d.init mask` → number of sites handed to `MPS.make`, or `raise` -/
def cmdInit : P String := do
  let w ← mask; done
  match mpsInitialSites w with
  | none => pure "raise"
  | some n => pure (toString n)

def handlers : List (String × (List String → Option String)) :=
  [("d.extmps", withKind (cmdExtMps codecZ) (cmdExtMps codecF)),
   ("d.extmpo", withKind (cmdExtMpo codecZ) (cmdExtMpo codecF)),
   ("d.extidx", run cmdExtIdx), ("d.init", run cmdInit)]

end EmuVerif.Drv.Dark
