/- Line-protocol front end for `Model.Dmrg` (energies and times are binary64 bit patterns). -/
import EmuVerif.Model.Dmrg
namespace EmuVerif.Drv.Dmrg
open EmuVerif EmuVerif.Dmrg

def showEv : Event → String
  | .min i b => s!"m{i}:{showB b}"
  | .sweepDone b => s!"s{showB b}"
  | .stepDone k => s!"d{k}"
  | .raise => "R"

def showHalt : Option Halt → String
  | none => "ok"
  | some .notConverged => "RuntimeError"
  | some .index => "IndexError"
  | some .assertion => "AssertionError"

def showO (o : Option Float) : String := match o with | none => "-" | some x => showF x

def parseO (s : String) : Option (Option Float) :=
  if s = "-" then some none else (parseF s).map some

def parseDir (s : String) : Option Dir :=
  if s = "L" then some .l2r else if s = "R" then some .r2l else none

def showDir : Dir → String
  | .l2r => "L"
  | .r2l => "R"

def showSt (s : St Float) : String :=
  s!"{showDir s.dir} {s.idx} {s.left} {s.right} {s.centre} {showO s.prevE} {showO s.curE} {s.sweepCount} {s.tsIndex} {showF s.curT} {showF s.tgtT}"

def showRes (r : Res Float) : String :=
  s!"{showHalt r.halt} {showList showEv r.evs} {showSt r.st}"

/-- `dmrg.run variant n steps tol maxSweeps times energies` (variant 0 = as found, 1 = repaired)
    → `reject` | `<halt> <events> <state> <finished>` -/
def runF (args : List String) : Option String := do
  match args with
  | [v, n, steps, tol, ms, times, es] =>
    let cfg : Cfg Float := { n := ← n.toNat?, steps := ← steps.toNat?, tol := ← parseF tol,
                             maxSweeps := ← ms.toNat?, times := ← parseList parseF times,
                             resetPrev := ← parseB v }
    let es ← parseList parseF es
    match init cfg with
    | none => some "reject"
    | some s0 =>
      let r := runTape cfg es s0
      some s!"{showRes r} {showB (finished cfg r.st)}"
  | _ => none

/-- `dmrg.step variant n steps tol maxSweeps times dir idx left right centre prev cur sweepCount tsIndex curT tgtT e`
    — one `progress()` from an arbitrary (not necessarily reachable) unfinished object. -/
def stepF (args : List String) : Option String := do
  match args with
  | [v, n, steps, tol, ms, times, dir, idx, left, right, centre, prev, cur, sc, ts, curT, tgtT, e] =>
    let cfg : Cfg Float := { n := ← n.toNat?, steps := ← steps.toNat?, tol := ← parseF tol,
                             maxSweeps := ← ms.toNat?, times := ← parseList parseF times,
                             resetPrev := ← parseB v }
    let s : St Float := { dir := ← parseDir dir, idx := ← idx.toNat?, left := ← left.toNat?,
                          right := ← right.toNat?, centre := ← centre.toNat?, prevE := ← parseO prev,
                          curE := ← parseO cur, sweepCount := ← sc.toNat?, tsIndex := ← ts.toNat?,
                          curT := ← parseF curT, tgtT := ← parseF tgtT }
    if finished cfg s then some "finished"
    else some (showRes (progress cfg s (← parseF e)))
  | _ => none

/-- `dmrg.positions n` → the `(idx, orth_center_right)` pairs of one sweep -/
def positionsF (args : List String) : Option String := do
  match args with
  | [n] =>
    let n ← n.toNat?
    some (showList (fun p : Nat × Bool => s!"m{p.1}:{showB p.2}") (sweepPositions n))
  | _ => none

def handlers : List (String × (List String → Option String)) :=
  [("dmrg.run", runF), ("dmrg.step", stepF), ("dmrg.positions", positionsF)]

end EmuVerif.Drv.Dmrg
