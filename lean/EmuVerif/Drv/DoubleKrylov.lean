/-
  Line-protocol front end for `Model.DoubleKrylov` (parsing, `CxF`, `denseOps`, `showSparse` come from `Drv/Krylov.lean`).

  * `dk.tape`  – tensors are handles; every `norm` / `tensordot` / `matrix_exp` value comes from the tape of the real
                 `double_krylov` call (`c = 0`: the `state` run, `c = 1`: the `grad` run). What the model does itself:
                 control flow, `T` bookkeeping and slicing, `block_diag`, the corner entry (one binary64 product), the
                 slice of `matrix_exp(big_mat)`.
  * `dk.dense` – tensors are binary64 complex vectors, `op` a dense matrix; only `matrix_exp` comes from the tape.
  Reply: `ok sizeS sizeG opCalls Ts Tg big dS [Vs Vg]` (matrices sparse `i:j:re:im`, `dS` dense rows) or `err <kind>`.
-/
import EmuVerif.Model.DoubleKrylov
import EmuVerif.Drv.Krylov
namespace EmuVerif.Drv.DoubleKrylov
open EmuVerif EmuVerif.Krylov EmuVerif.DoubleKrylov EmuVerif.Drv.Krylov

/-- two-run variant of `Drv.Krylov.tapeOps`: the input handle `(0, c, 0, 0)` keeps its run number `c` -/
def tapeOps2 (tp : Tape) : VecOps CxF Float Hd :=
  { tapeOps tp with
    norm := fun h =>
      match h.kind with
      | 0 => tp.initNorms.getD h.c nan
      | 2 => if h.m = 0 then get2 tp.ns h.c h.j else get2 tp.n2s h.c h.j
      | _ => nan
    divR := fun h _ =>
      match h.kind with
      | 0 => ⟨1, h.c, 0, 0⟩
      | 2 => ⟨1, h.c, h.j + 1, 0⟩
      | _ => ⟨5, 0, 0, 0⟩ }

def showDense (M : Mat CxF) : String :=
  if M.isEmpty then "-" else ";".intercalate (M.toList.map (fun r => showList showC r.toList))

def showDK {V} (r : Except Err (DKResult CxF V)) (sv : List V → String) : String :=
  match r with
  | .error e => s!"err {showErr e}"
  | .ok r =>
    s!"ok {r.sizeS} {r.sizeG} {r.opCalls} {showSparse r.Ts} {showSparse r.Tg} {showSparse r.big} {showDense r.dS} {sv r.Vs} {sv r.Vg}"

def hdName (h : Hd) : String := s!"{h.kind}.{h.c}.{h.j}"

/-- `dk.tape tol maxDim norms ns n2s ovs colsS colsG bigexp` -/
def dkTape (args : List String) : Option String := do
  match args with
  | [tol, md, norms, ns, n2s, ovs, colsS, colsG, big] =>
    let tp : Tape := { initNorms := ← parse1 parseF norms, ns := ← parse2 parseF ns, n2s := ← parse2 parseF n2s,
                       ovs := ← parse3 parseC ovs, ritzNorms := #[] }
    let cS ← parse2 parseC colsS
    let cG ← parse2 parseC colsG
    let bigexp ← parse2 parseC big
    some (showDK (doubleKrylov (tapeOps2 tp) (tapeMexp cS) (tapeMexp cG) (fun _ => bigexp) (← parseF tol) (← md.toNat?)
      ⟨0, 0, 0, 0⟩ ⟨0, 1, 0, 0⟩) (fun l => showList hdName l))
  | _ => none

/-- `dk.dense tol maxDim matrix state grad colsS colsG bigexp` -/
def dkDense (args : List String) : Option String := do
  match args with
  | [tol, md, mat, st, gr, colsS, colsG, big] =>
    let m ← parse2 parseC mat
    let st ← parse1 parseC st
    let gr ← parse1 parseC gr
    let cS ← parse2 parseC colsS
    let cG ← parse2 parseC colsG
    let bigexp ← parse2 parseC big
    some (showDK (doubleKrylov (denseOps m st.size) (tapeMexp cS) (tapeMexp cG) (fun _ => bigexp) (← parseF tol)
      (← md.toNat?) st gr) (fun l => if l.isEmpty then "-" else ";".intercalate (l.map showVec)))
  | _ => none

/-- `dk.big Ts Tg sizeS c` — `block_diag` + corner entry on arbitrary (also non-square / mismatched) inputs -/
def dkBig (args : List String) : Option String := do
  match args with
  | [ts, tg, ss, c] =>
    let Ts ← parse2 parseC ts
    let Tg ← parse2 parseC tg
    some (showDense (bigMat Ts Tg (← ss.toNat?) (← parseC c)))
  | _ => none

/-- `dk.slice M r c` — `M[:r, c:]` -/
def dkSlice (args : List String) : Option String := do
  match args with
  | [m, r, c] => some (showDense (sliceTR (← parse2 parseC m) (← r.toNat?) (← c.toNat?)))
  | _ => none

def handlers : List (String × (List String → Option String)) :=
  [("dk.tape", dkTape), ("dk.dense", dkDense), ("dk.big", dkBig), ("dk.slice", dkSlice)]

end EmuVerif.Drv.DoubleKrylov
