/-
  Line-protocol front end for `Model.HamBridge` (run at `α = Rat`, `A = LMat d`, scalars `Cx Rat`):
  the Hamiltonian factors of `Model.HamMPO` converted to Tensor-model MPO factors, `MPO.expect` of
  `Model.Tensor` on them, and the dense reference `Σ conj(amp s)·⟨s|H_dense|t⟩·amp t`.
-/
import EmuVerif.Model.Scalar
import EmuVerif.Model.HamBridge
import EmuVerif.Drv.Tensor
import EmuVerif.Drv.HamMPO
namespace EmuVerif.Drv.HamBridge
open EmuVerif EmuVerif.HamMPO EmuVerif.Tensor EmuVerif.HamBridge

/-- Gaussian rationals `re@im`, each part `n` or `n/d` -/
def codecQ : Drv.Tensor.Codec (Cx Rat) :=
  ⟨Drv.Tensor.parseCx parseQ, fun z => s!"{Drv.HamMPO.shQ z.re}@{Drv.HamMPO.shQ z.im}"⟩

def parseChain (toks : List String) : Option (List (Site (Cx Rat))) :=
  match ((do let c ← Drv.Tensor.chain codecQ; Drv.Tensor.done; pure c) : Drv.Tensor.P _).run toks with
  | some (c, _) => some c
  | none => none

/-- `hb.energy typ d N U sites₁;sites₂;…|make noise₁;noise₂;…|- <chain>`
  * `typ`, `d`, `N`, `U`, `sites`, `noise` as in `hammpo.updseq`; `make` = no `update_H` call at all;
  * `<chain>` = an MPS in the format of `Drv.Tensor` (`n dl:d:dr:vals …`, values `re@im` rationals).
  The model's `make_H` factors, the `update_H` calls folded over them IN SEQUENCE, converted by `toTensor`;
  → `V=<validChain> E=<MPO.expect of Model.Tensor> D=<dense ⟨ψ|H|ψ⟩ with the last single-site terms>`. -/
def energyCmd (args : List String) : Option String := do
  match args with
  | typ :: d :: n :: us :: sitesL :: noiseL :: rest =>
    let d ← d.toNat?
    let n ← n.toNat?
    let us ← parseList parseQ us
    if us.length ≠ n * n then none
    let U : Nat → Nat → Rat := fun i j => if i < n ∧ j < n then us.getD (i * n + j) 0 else 0
    let h0 : Nat → LMat d := fun _ => 0
    let P ← if typ = "ryd" then some (rydParams d n U h0)
             else if typ = "xy" then some (xyParams d n U h0) else none
    let hs : List (Nat → LMat d) ←
      if sitesL = "make" then some []
      else do
        let sL ← (sitesL.splitOn ";").mapM (parseList parseQ)
        let nL ← (noiseL.splitOn ";").mapM (parseList parseQ)
        if sL.length ≠ nL.length then none
        some ((sL.zip nL).map fun (sites, noise) =>
          fun k => LMat.singleTerm (sites.getD (6 * k) 0, sites.getD (6 * k + 1) 0)
            (sites.getD (6 * k + 2) 0, sites.getD (6 * k + 3) 0)
            (sites.getD (6 * k + 4) 0, sites.getD (6 * k + 5) 0) (Drv.HamMPO.matOfList d noise))
    let As ← parseChain rest
    let fs := hs.foldl updateH (factors P)
    let W := toTensor d lmatEnt fs
    let Plast : Params Rat (LMat d) := { P with h := hs.getLastD h0 }
    let e := match expect As W with
      | none => "none"
      | some z => codecQ.render z
    let D := denseEnergy d n (denseElem Plast lmatEnt castQ) As
    some s!"V={if validChain (d * d) W then 1 else 0} E={e} D={codecQ.render D}"
  | _ => none

def handlers : List (String × (List String → Option String)) :=
  [("hb.energy", energyCmd)]

end EmuVerif.Drv.HamBridge
