/- Line-protocol front end for `Model.HamMPO` (run at `α = Rat`, `A = LMat d`). -/
import EmuVerif.Model.Scalar
import EmuVerif.Model.HamMPO
namespace EmuVerif.Drv.HamMPO
open EmuVerif EmuVerif.HamMPO

/-- compact exact rational: `n` or `n/d` -/
def shQ (q : Rat) : String := if q.den = 1 then toString q.num else s!"{q.num}/{q.den}"

/-- sparse dump of one factor: `dl dr a.p.q.b=re_im,…` in row-major `(a, p, q, b)` order. -/
def showFactor (d : Nat) (F : Factor (LMat d)) : String :=
  let ents : List String :=
    (List.range F.dl).flatMap fun a =>
      let row := F.rows.getD a []
      (List.range d).flatMap fun p =>
        (List.range d).flatMap fun q =>
          (List.range F.dr).filterMap fun b =>
            let z := ((row.getD b 0).e p q)
            if z.1 = 0 ∧ z.2 = 0 then none
            else some s!"{a}.{p}.{q}.{b}={shQ z.1}_{shQ z.2}"
  let wellShaped := F.rows.length = F.dl ∧ F.rows.all (fun r => r.length = F.dr)
  s!"{F.dl} {F.dr} {if wellShaped then "" else "ILLSHAPED "}{showList id ents}"

def matOfList (d : Nat) (l : List Rat) : LMat d :=
  ⟨fun p q => if p < d ∧ q < d then (l.getD (2 * (p * d + q)) 0, l.getD (2 * (p * d + q) + 1) 0) else (0, 0)⟩

/-- `hammpo.factors typ d N U mode sites noise`
  * `typ` = `ryd` | `xy`; `U` = `N*N` rationals, row-major (need not be symmetric);
  * `mode` = `make` (single-site slots zero), `direct` (model factors with the single-site terms
    in place), `upd` (`updateH` applied to the `make` factors), `upd2` (`updateH` twice: first with
    the negated/garbage terms, then with the real ones);
  * `sites` = `6N` rationals `oc.re,oc.im,os.re,os.im,delta.re,delta.im` per site; `noise` = `2d²`
    rationals (row-major, re,im).
  → factors separated by ` | `. -/
def factorsCmd (args : List String) : Option String := do
  match args with
  | [typ, d, n, us, mode, sites, noise] =>
    let d ← d.toNat?
    let n ← n.toNat?
    let us ← parseList parseQ us
    if us.length ≠ n * n then none
    let U : Nat → Nat → Rat := fun i j => if i < n ∧ j < n then us.getD (i * n + j) 0 else 0
    let sites ← parseList parseQ sites
    let noise ← parseList parseQ noise
    let nm : LMat d := matOfList d noise
    let h : Nat → LMat d := fun k =>
      LMat.singleTerm (sites.getD (6 * k) 0, sites.getD (6 * k + 1) 0)
        (sites.getD (6 * k + 2) 0, sites.getD (6 * k + 3) 0)
        (sites.getD (6 * k + 4) 0, sites.getD (6 * k + 5) 0) nm
    let h0 : Nat → LMat d := fun _ => 0
    let mk : (Nat → LMat d) → Option (Params Rat (LMat d)) := fun hh =>
      if typ = "ryd" then some (rydParams d n U hh)
      else if typ = "xy" then some (xyParams d n U hh) else none
    let fs ←
      if mode = "make" then (mk h0).map factors
      else if mode = "direct" then (mk h).map factors
      else if mode = "upd" then (mk h0).map (fun P => updateH (factors P) h)
      else if mode = "upd2" then
        (mk h0).map (fun P => updateH (updateH (factors P) (fun k => LMat.cmul (3, -1) (h (k + 1)))) h)
      else none
    some (" | ".intercalate (fs.map (showFactor d)))
  | _ => none

/-- `hammpo.updseq typ d N U sites₁;sites₂;… noise₁;noise₂;…` — `make_H` followed by the given
`update_H` calls applied IN SEQUENCE to the same factor list (`updateH` folded, nothing rebuilt);
prints the factors after the last one. `sites`/`noise` as in `hammpo.factors` (`-` = all zero). -/
def updSeqCmd (args : List String) : Option String := do
  match args with
  | [typ, d, n, us, sitesL, noiseL] =>
    let d ← d.toNat?
    let n ← n.toNat?
    let us ← parseList parseQ us
    if us.length ≠ n * n then none
    let U : Nat → Nat → Rat := fun i j => if i < n ∧ j < n then us.getD (i * n + j) 0 else 0
    let sitesL ← (sitesL.splitOn ";").mapM (parseList parseQ)
    let noiseL ← (noiseL.splitOn ";").mapM (parseList parseQ)
    if sitesL.length ≠ noiseL.length then none
    let h0 : Nat → LMat d := fun _ => 0
    let P ← if typ = "ryd" then some (rydParams d n U h0)
             else if typ = "xy" then some (xyParams d n U h0) else none
    let hs : List (Nat → LMat d) := (sitesL.zip noiseL).map fun (sites, noise) =>
      fun k => LMat.singleTerm (sites.getD (6 * k) 0, sites.getD (6 * k + 1) 0)
        (sites.getD (6 * k + 2) 0, sites.getD (6 * k + 3) 0)
        (sites.getD (6 * k + 4) 0, sites.getD (6 * k + 5) 0) (matOfList d noise)
    let fs := hs.foldl updateH (factors P)
    some (" | ".intercalate (fs.map (showFactor d)))
  | _ => none

def handlers : List (String × (List String → Option String)) :=
  [("hammpo.factors", factorsCmd), ("hammpo.updseq", updSeqCmd)]

end EmuVerif.Drv.HamMPO
