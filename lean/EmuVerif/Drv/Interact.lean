/- Line-protocol front end for `Model.Interact` (binary64; inputs are dyadic so it is exact). -/
import EmuVerif.Model.Interact
namespace EmuVerif.Drv.Interact
open EmuVerif EmuVerif.Interact

def toMat (n : Nat) (l : List Float) : Mat Float := fun i j => l.getD (i * n + j) 0

def ofMat (n : Nat) (m : Mat Float) : List Float :=
  (List.range n).flatMap (fun i => (List.range n).map (fun j => m i j))

/-- `ia.seq n user|N reg cutoff targets slmEnd t` → row-major matrix returned by the callable
that `get_sequences` builds. -/
def seq (args : List String) : Option String := do
  match args with
  | [n, us, rg, co, tg, se, t] =>
    let n ← n.toNat?
    let user ← (if us = "N" then some none else (parseList parseF us).map some)
    let reg ← parseList parseF rg
    let tg ← parseList String.toNat? tg
    let m := sequenceInteraction (user.map (toMat n)) (toMat n reg) (← parseF co) tg (← parseF se) (← parseF t)
    some (showList showFc (ofMat n m))
  | _ => none

/-- `ia.sv half g nsteps obsAt0` / `ia.mps half g nsteps reorder` → query times in call order. -/
def sv (args : List String) : Option String := do
  match args with
  | [hf, g, ns, o] =>
    some (showList showF (svQueries (← parseF hf) (← parseList parseF g) (← ns.toNat?) (← parseB o)))
  | _ => none

def mps (args : List String) : Option String := do
  match args with
  | [hf, g, ns, o] =>
    some (showList showF (mpsQueries (← parseF hf) (← parseList parseF g) (← ns.toNat?) (← parseB o)))
  | _ => none

/-- `ia.steps backend half n full masked slmEnd dark nsteps g perm` (`perm` = `N` or the qubit permutation,
emu-mps only) — the matrix used in every step
(`backend` = sv|mps; `dark` = `N` (no state-preparation error) or the 0/1 bad-atom mask) →
row-major matrices separated by `;` (emu-mps: of the size of the well prepared atoms). -/
def steps (args : List String) : Option String := do
  match args with
  | [be, hf, n, fu, ma, se, dk, ns, g, pm] =>
    let n ← n.toNat?; let hf ← parseF hf; let se ← parseF se; let ns ← ns.toNat?
    let full := toMat n (← parseList parseF fu); let masked := toMat n (← parseList parseF ma)
    let g ← parseList parseF g
    let bad ← (if dk = "N" then some none else (parseList parseB dk).map some)
    let perm ← (if pm = "N" then some none else (parseList String.toNat? pm).map some)
    let mats ← (List.range ns).mapM (fun k =>
      if be = "sv" then
        (svStepMat full masked se (bad.map (fun b i => b.getD i false)) g k).map (fun m => ofMat n m)
      else
        let keep : Option (List Nat) :=
          if bad.isNone && perm.isNone then none
          else some (siteAtoms n perm (fun i => (bad.getD []).getD i false))
        let sz := match keep with
          | some kp => kp.length
          | none => n
        (mpsStepMat hf full masked se keep g k).map (fun m => ofMat sz m))
    some (";".intercalate (mats.map (showList showFc)))
  | _ => none

def handlers : List (String × (List String → Option String)) :=
  [("ia.seq", seq), ("ia.sv", sv), ("ia.mps", mps), ("ia.steps", steps)]

end EmuVerif.Drv.Interact
