/- Line-protocol front end for `Model.Jump`. -/
import EmuVerif.Model.Jump
namespace EmuVerif.Drv.Jump
open EmuVerif EmuVerif.Jump

def parseC (s : String) : Option (Cx Rat) :=
  match s.splitOn ":" with
  | [a, b] => do some ⟨← parseQ a, ← parseQ b⟩
  | _ => none

def showC (c : Cx Rat) : String := s!"{showQ c.re}:{showQ c.im}"

def toMat (d : Nat) (l : List (Cx Rat)) : Option (Mat d (Cx Rat)) :=
  if l.length = d * d then some (fun i j => l.getD (i.val * d + j.val) 0) else none

def showMat {d : Nat} (m : Mat d (Cx Rat)) : String :=
  showList showC ((List.finRange d).flatMap fun i => (List.finRange d).map fun j => m i j)

/-- `jump.noise d L1;L2;…` (each `L` = `d*d` row-major entries `re:im`, rationals)
    → `<noise entries> | <L1†L1>;<L2†L2>;…` with `noise = -0.5j·Σ L†L`. -/
def noise (args : List String) : Option String := do
  match args with
  | [ds, ls] =>
    let d ← ds.toNat?
    let mats ← (if ls = "-" then some [] else (ls.splitOn ";").mapM fun s => do toMat d (← parseList parseC s))
    let nz := noiseTerm (⟨0, -1/2⟩ : Cx Rat) mats
    some s!"{showMat nz} | {";".intercalate ((aggregated mats).map showMat)}"
  | _ => none

/-- `jump.cands n m` → `q:k,q:k,…` in the order of the code's list comprehension, followed by the
    flat index of each pair in `weights.view(-1)`. -/
def cands (args : List String) : Option String := do
  match args with
  | [ns, ms] =>
    let n ← ns.toNat?; let m ← ms.toNat?
    let cs := candidates n m
    some s!"{showList (fun (p : Nat × Nat) => s!"{p.1}:{p.2}") cs} {showList (fun (p : Nat × Nat) => toString (flatIndex m p.1 p.2)) cs}"
  | _ => none

/-- `jump.choose w1,w2,… u` (binary64) → index chosen by `random.choices` or `raise`. -/
def chooseF (args : List String) : Option String := do
  match args with
  | [ws, u] =>
    let ws ← parseList parseF ws; let u ← parseF u
    match choose ws u with
    | some i => some (toString i)
    | none => some "raise"
  | _ => none

def handlers : List (String × (List String → Option String)) :=
  [("jump.noise", noise), ("jump.cands", cands), ("jump.choose", chooseF)]

end EmuVerif.Drv.Jump
