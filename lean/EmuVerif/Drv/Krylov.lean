/-
  Line-protocol front end for `Model.Krylov`.

  Two instances of `VecOps` run the *same* model definitions the theorems are about:
  * `tapeOps`  – tensors are handles `(kind, cycle, j, m)`; every `norm`/`inner` is looked up in
                 the tape recorded from the real run (so all arithmetic left to the model is the
                 `T`/`alphas`/`betas` bookkeeping, `abs`, the `err` formula and the comparisons);
  * `denseOps` – tensors are binary64 complex vectors, `op` a dense matrix (end-to-end, including
                 the returned vector; only `matrix_exp`/`eigh` come from the tape).
  Lists: level 1 `,`  level 2 `;`  level 3 `|`; `-` = empty; complex = `re:im` bit patterns.
-/
import EmuVerif.Model.Krylov
namespace EmuVerif.Drv.Krylov
open EmuVerif EmuVerif.Krylov

structure CxF where
  re : Float
  im : Float

instance : OfNat CxF 0 := ⟨⟨0, 0⟩⟩
instance : OfNat CxF 1 := ⟨⟨1, 0⟩⟩
instance : Mul CxF := ⟨fun a b => ⟨a.re * b.re - a.im * b.im, a.re * b.im + a.im * b.re⟩⟩
instance : Add CxF := ⟨fun a b => ⟨a.re + b.re, a.im + b.im⟩⟩
instance : Sub CxF := ⟨fun a b => ⟨a.re - b.re, a.im - b.im⟩⟩

def nan : Float := 0.0 / 0.0
def cnan : CxF := ⟨nan, nan⟩
def cabsF (z : CxF) : Float := Float.sqrt (z.re * z.re + z.im * z.im)

/-! ### parsing -/
def splitL (sep : String) (s : String) : List String :=
  if s = "" || s = "-" then [] else s.splitOn sep

def parseC (s : String) : Option CxF :=
  match s.splitOn ":" with
  | [a, b] => do some ⟨← parseF a, ← parseF b⟩
  | _ => none

def showC (z : CxF) : String := s!"{showF z.re}:{showF z.im}"

def parse1 {β} (p : String → Option β) (s : String) : Option (Array β) :=
  ((splitL "," s).mapM p).map List.toArray
def parse2 {β} (p : String → Option β) (s : String) : Option (Array (Array β)) :=
  ((splitL ";" s).mapM (parse1 p)).map List.toArray
def parse3 {β} (p : String → Option β) (s : String) : Option (Array (Array (Array β))) :=
  ((splitL "|" s).mapM (parse2 p)).map List.toArray

/-! ### tape instance -/

/-- kinds: 0 input, 1 Lanczos vector `q_j`, 2 work vector `w` of iteration `j` after `m`
subtractions, 3 unnormalised Ritz vector, 4 normalised Ritz vector, 5 anything else. -/
structure Hd where
  kind : Nat
  c : Nat
  j : Nat
  m : Nat

structure Tape where
  initNorms : Array Float                 -- [cycle]  norm of the cycle's start vector
  ns : Array (Array Float)                -- [cycle][j] norm of op(q_j)            (exp only)
  n2s : Array (Array Float)               -- [cycle][j] norm of w after orthogonalisation
  ovs : Array (Array (Array CxF))         -- [cycle][j][m] m-th overlap of iteration j
  ritzNorms : Array (Array Float)         -- [cycle][j]                           (energy only)

def get2 (a : Array (Array Float)) (c j : Nat) : Float := (a.getD c #[]).getD j nan

def tapeOps (tp : Tape) : VecOps CxF Float Hd where
  op h := ⟨2, h.c, h.j, 0⟩
  inner _ w := ((tp.ovs.getD w.c #[]).getD w.j #[]).getD w.m cnan
  norm h :=
    match h.kind with
    | 0 => tp.initNorms.getD 0 nan
    | 2 => if h.m = 0 then get2 tp.ns h.c h.j else get2 tp.n2s h.c h.j
    | 3 => get2 tp.ritzNorms h.c h.j
    | 4 => tp.initNorms.getD (h.c + 1) nan
    | 1 => tp.initNorms.getD (h.c + 1) nan   -- a cycle that ran no iteration returns its `q_0`
    | _ => nan
  axpy _ _ w := { w with m := w.m + 1 }
  divR h _ :=
    match h.kind with
    | 0 => ⟨1, 0, 0, 0⟩
    | 2 => ⟨1, h.c, h.j + 1, 0⟩
    | 3 => ⟨4, h.c, h.j, 0⟩
    | 4 => ⟨1, h.c + 1, 0, 0⟩
    | 1 => ⟨1, h.c + 1, 0, 0⟩
    | _ => ⟨5, 0, 0, 0⟩
  zero := ⟨5, 0, 0, 0⟩
  add _ x := ⟨3, x.c, x.j, 0⟩
  smul _ h := ⟨5, h.c, h.j, 0⟩
  ofReal r := ⟨r, 0⟩
  re z := z.re
  cabs := cabsF

/-- `matrix_exp` oracle from the recorded first columns (one call per iteration). -/
def tapeMexp (cols : Array (Array CxF)) (j : Nat) (_ : Mat CxF) : Mat CxF :=
  (cols.getD j #[]).map (fun z => #[z])

/-- `eigh` oracle from the recorded `(θ, y)` (flat `θ,y0,y1,…`), indexed by (cycle, iteration). -/
def tapeEigh (t : Array (Array (Array Float))) (c j : Nat) (_ _ : List Float) : Float × List Float :=
  match ((t.getD c #[]).getD j #[]).toList with
  | [] => (nan, [])
  | th :: y => (th, y)

def showErr : Err → String
  | .unboundLocal => "unbound" | .recursion => "recursion"
  | .valueError => "value" | .indexError => "index"

def isZeroC (z : CxF) : Bool := z.re == 0 && z.im == 0

/-- non-zero entries of a matrix as `i:j:re:im` -/
def showSparse (T : Mat CxF) : String :=
  let es := T.toList.zipIdx.flatMap (fun ri =>
    ri.1.toList.zipIdx.filterMap (fun ci =>
      if isZeroC ci.1 then none else some s!"{ri.2}:{ci.2}:{showC ci.1}"))
  showList id es

def showExp {V} (r : Except Err (ExpResult CxF Float V)) (sv : V → String) : String :=
  match r with
  | .error e => s!"err {showErr e}"
  | .ok r =>
    let errs := showList (fun (e : Float × Float) => s!"{showFc e.1}:{showFc e.2}") r.ghost.errs
    s!"ok {showB r.converged} {showB r.happyBreakdown} {r.iterationCount} {r.ghost.opCalls} {errs} {showSparse r.ghost.T} {sv r.result}"

/-- `kry.exp herm expTol normTol maxDim n0 ns n2s ovs expdCols` -/
def expTape (args : List String) : Option String := do
  match args with
  | [herm, et, nt, md, n0, ns, n2s, ovs, cols] =>
    let cfg : ExpCfg Float := { isHermitian := ← parseB herm, expTol := ← parseF et,
                                normTol := ← parseF nt, maxDim := ← md.toNat? }
    let tp : Tape := { initNorms := #[← parseF n0], ns := #[← parse1 parseF ns],
                       n2s := #[← parse1 parseF n2s], ovs := #[← parse2 parseC ovs], ritzNorms := #[] }
    let cols ← parse2 parseC cols
    some (showExp (expImpl (tapeOps tp) (tapeMexp cols) cfg ⟨0, 0, 0, 0⟩) (fun _ => "-"))
  | _ => none

/-- `kry.exppub expTol normTol herm maxDim n0 ns n2s ovs expdCols` — the PUBLIC `krylov_exp`, arguments in
the order of its own signature, on the tape of a run made through it: `ret` / `raise <kind>`. -/
def expTapePub (args : List String) : Option String := do
  match args with
  | [et, nt, herm, md, n0, ns, n2s, ovs, cols] =>
    let tp : Tape := { initNorms := #[← parseF n0], ns := #[← parse1 parseF ns],
                       n2s := #[← parse1 parseF n2s], ovs := #[← parse2 parseC ovs], ritzNorms := #[] }
    let cols ← parse2 parseC cols
    match krylovExpPublic (tapeOps tp) (tapeMexp cols) ⟨0, 0, 0, 0⟩ (← parseF et) (← parseF nt)
        (← parseB herm) (← md.toNat?) with
    | .ok _ => some "ret"
    | .error e => some s!"raise {showErr e}"
  | _ => none

def showOptF : Option Float → String
  | none => "inf"
  | some x => showFc x

def showEnergy {V} (r : Except Err (EnergyResult Float V)) (sv : V → String) : String :=
  match r with
  | .error e => s!"err {showErr e}"
  | .ok r =>
    s!"ok {showB r.converged} {showB r.happyBreakdown} {r.iterationCount} {r.restartCount} {r.ghost.opCalls} {showOptF r.groundEnergy} {showOptF r.residualNorm} {showList showFc r.ghost.alphas} {showList showFc r.ghost.betas} {sv r.groundState}"

def parseECfg (rt nt md mr : String) : Option (EnergyCfg Float) := do
  some { residTol := ← parseF rt, normTol := ← parseF nt, maxDim := ← md.toNat?,
         maxRestarts := ← mr.toNat?, numTol := 1e-12 }

def svHd (h : Hd) : String :=
  if h.kind = 4 then s!"ritz:{h.c}:{h.j}" else if h.kind = 1 then s!"q:{h.c}" else
  if h.kind = 0 then "input" else "other"

def parseETape (ins ovs betas rns : String) : Option Tape := do
  let ov2 ← parse2 parseC ovs
  some { initNorms := ← parse1 parseF ins, ns := #[], n2s := ← parse2 parseF betas,
         ovs := ov2.map (fun a => a.map (fun z => #[z])), ritzNorms := ← parse2 parseF rns }

/-- `kry.emin residTol normTol maxDim maxRestarts initNorms ovs betas ritzNorms eighs`
    (`ovs`,`betas`,`ritzNorms` = `[cycle][j]`, `eighs` = `[cycle][j][θ,y…]`); the reply's last
    field names the returned state: `q:c` (start vector of cycle `c`) or `ritz:c:j`. -/
def eminTape (args : List String) : Option String := do
  match args with
  | [rt, nt, md, mr, ins, ovs, betas, rns, eighs] =>
    let cfg ← parseECfg rt nt md mr
    let tp ← parseETape ins ovs betas rns
    let eg ← parse3 parseF eighs
    some (showEnergy (energyImpl (tapeOps tp) (tapeEigh eg) cfg ⟨0, 0, 0, 0⟩) svHd)
  | _ => none

/-- `kry.eminpub normTol residTol maxDim initNorms ovs betas ritzNorms eighs` — the PUBLIC
`krylov_energy_minimization`, arguments in the order of its own signature, on the tape of a run made
through it: `ret energy state` / `raise <kind>`. -/
def eminTapePub (args : List String) : Option String := do
  match args with
  | [nt, rt, md, ins, ovs, betas, rns, eighs] =>
    let tp ← parseETape ins ovs betas rns
    let eg ← parse3 parseF eighs
    match energyMinPublic (tapeOps tp) (tapeEigh eg) (1e-12 : Float) ⟨0, 0, 0, 0⟩ (← parseF nt) (← parseF rt)
        (← md.toNat?) with
    | .ok (h, e) => some s!"ret {showOptF e} {svHd h}"
    | .error e => some s!"raise {showErr e}"
  | _ => none

/-! ### dense instance -/

abbrev CVec := Array CxF

def cconj (z : CxF) : CxF := ⟨z.re, -z.im⟩

def vdot (a b : CVec) : CxF := (a.zip b).foldl (fun acc p => acc + cconj p.1 * p.2) 0

def denseOps (m : Array CVec) (dim : Nat) : VecOps CxF Float CVec where
  op x := m.map (fun row => (row.zip x).foldl (fun acc p => acc + p.1 * p.2) 0)
  inner := vdot
  norm x := Float.sqrt (x.foldl (fun acc z => acc + (z.re * z.re + z.im * z.im)) 0)
  axpy c q w := (w.zip q).map (fun p => p.1 - c * p.2)
  divR v r := v.map (fun z => ⟨z.re / r, z.im / r⟩)
  zero := Array.replicate dim 0
  add a b := (a.zip b).map (fun p => p.1 + p.2)
  smul c v := v.map (fun z => c * z)
  ofReal r := ⟨r, 0⟩
  re z := z.re
  cabs := cabsF

def showVec (v : CVec) : String := showList showC v.toList

/-- `kry.expd herm expTol normTol maxDim matrix(rows;) v expdCols` -/
def expDense (args : List String) : Option String := do
  match args with
  | [herm, et, nt, md, mat, v, cols] =>
    let cfg : ExpCfg Float := { isHermitian := ← parseB herm, expTol := ← parseF et,
                                normTol := ← parseF nt, maxDim := ← md.toNat? }
    let m ← parse2 parseC mat
    let v ← parse1 parseC v
    let cols ← parse2 parseC cols
    some (showExp (expImpl (denseOps m v.size) (tapeMexp cols) cfg v) showVec)
  | _ => none

/-- `kry.emind residTol normTol maxDim maxRestarts matrix v eighs` -/
def eminDense (args : List String) : Option String := do
  match args with
  | [rt, nt, md, mr, mat, v, eighs] =>
    let cfg ← parseECfg rt nt md mr
    let m ← parse2 parseC mat
    let v ← parse1 parseC v
    let eg ← parse3 parseF eighs
    some (showEnergy (energyImpl (denseOps m v.size) (tapeEigh eg) cfg v) showVec)
  | _ => none

/-- `kry.ritz y qs(rows;)` — one `_ritz_vector(coefficients, basis)` on arbitrary inputs -/
def ritzDense (args : List String) : Option String := do
  match args with
  | [y, qs] =>
    let y ← parse1 parseF y
    let qs ← parse2 parseC qs
    let dim := (qs.getD 0 #[]).size
    match ritzVector (denseOps #[] dim) (1e-12 : Float) y.toList qs.toList with
    | .ok v => some s!"ok {showVec v}"
    | .error e => some s!"err {showErr e}"
  | _ => none

/-- `kry.lanczos matrix qs(rows;) betas` — one `_next_lanczos_iteration` from an arbitrary
(not necessarily reachable) state: `alpha beta w`. -/
def lanczosDense (args : List String) : Option String := do
  match args with
  | [mat, qs, betas] =>
    let m ← parse2 parseC mat
    let qs ← parse2 parseC qs
    let betas ← parse1 parseF betas
    let cur ← qs.back?
    let prev := if qs.size ≥ 2 then qs[qs.size - 2]? else none
    let st : CycSt Float CVec := { qs := qs.toList, cur := cur, prev := prev, alphas := [],
                                   betas := betas.toList, best := cur, bestE := none, bestR := none, nIter := 0 }
    let r := lanczosNext (denseOps m cur.size) st
    some s!"{showF r.2.1} {showF r.2.2} {showVec r.1}"
  | _ => none

/-- `kry.errok tol err1 err2` → the decision `err < tol` -/
def errOkF (args : List String) : Option String := do
  match args with
  | [t, a, b] => some (showB (errOk (← parseF t) (← parseF a) (← parseF b)))
  | _ => none

def handlers : List (String × (List String → Option String)) :=
  [("kry.exp", expTape), ("kry.exppub", expTapePub), ("kry.emin", eminTape),
   ("kry.eminpub", eminTapePub), ("kry.expd", expDense), ("kry.emind", eminDense),
   ("kry.errok", errOkF), ("kry.ritz", ritzDense), ("kry.lanczos", lanczosDense)]

end EmuVerif.Drv.Krylov
