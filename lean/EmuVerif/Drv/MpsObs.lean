/-
  Line-protocol front end for `Model.MpsObs` (commands `mo.*`).  Scalar kinds, site and chain tokens as in
  `Drv/Tensor.lean` (`z` = Gaussian integers, `f` = binary64 bit patterns).
  A recorded `r` is one token `k:cols|vals` (torch shape `(k, cols)`, row-major); an operator is one token of
  `d·d` values (row-major `op[x, y]`).
-/
import EmuVerif.Model.MpsObs
import EmuVerif.Drv.Tensor
namespace EmuVerif.Drv.MpsObs
open EmuVerif EmuVerif.Tensor EmuVerif.MpsObs EmuVerif.Drv.Tensor

variable {α : Type} [Add α] [Mul α] [OfNat α 0] [OfNat α 1] [Conj α]

def rmat (c : Codec α) : P (RMat α) := do
  let t ← tok
  match t.splitOn "|" with
  | [dims, vals] =>
    match dims.splitOn ":" with
    | [k, cols] =>
      let k ← (k.toNat? : Option Nat); let cols ← (cols.toNat? : Option Nat)
      let a ← (parseVals c vals : Option (Array α))
      if a.size ≠ k * cols then failure else pure { k := k, r := fun kk j => a.getD (kk * cols + j) 0 }
    | _ => failure
  | _ => failure

def opTok (c : Codec α) (d : Nat) : P (Nat → Nat → α) := do
  let t ← tok
  let a ← (parseVals c t : Option (Array α))
  if a.size ≠ d * d then failure else pure (fun x y => a.getD (x * d + y) 0)

def showRows (c : Codec α) (rows : List (List α)) : String :=
  if rows.isEmpty then "-" else ";".intercalate (rows.map (fun r => showList c.render r))

/-- `mo.eb K d c <chain> nops <op>* nrt <rmat>* nlt <rmat>*` → `ok row;row;…` (one row per site) | `none` -/
def cmdEb (c : Codec α) : P String := do
  let d ← nat; let ctr ← nat; let fs ← chain c
  let no ← nat; let ops ← rep no (opTok c d)
  let nr ← nat; let rt ← rep nr (rmat c); let nl ← nat; let lt ← rep nl (rmat c); done
  match expectBatchAt d ops fs ctr rt lt with
  | none => pure "none"
  | some res => pure ("ok " ++ showRows c res)

/-- `mo.occ K d c <chain> nrt <rmat>* nlt <rmat>*` → `ok v,v,…` (before `.real`) -/
def cmdOcc (c : Codec α) : P String := do
  let d ← nat; let ctr ← nat; let fs ← chain c
  let nr ← nat; let rt ← rep nr (rmat c); let nl ← nat; let lt ← rep nl (rmat c); done
  match occupationMps d fs ctr rt lt with
  | none => pure "none"
  | some occ => pure ("ok " ++ showList c.render occ)

/-- `mo.norm K d c <chain>` → `Σ|factors[c]|²` -/
def cmdNorm (c : Codec α) : P String := do
  let d ← nat; let ctr ← nat; let fs ← chain c; done
  match normSqAt d fs ctr with
  | none => pure "none"
  | some v => pure ("ok " ++ c.render v)

/-- `mo.corr K d <op> ns <chain>*ns` → the `n×n` table (rows `;`-separated) from the snapshots after each `orthogonalize(left)` -/
def cmdCorr (c : Codec α) : P String := do
  let d ← nat; let op ← opTok c d; let ns ← nat; let snaps ← rep ns (chain c); done
  let n := snaps.length
  pure ("ok " ++ showRows c ((List.range n).map (fun i => (List.range n).map (fun j => corrMatrix d op snaps i j))))

/-- `mo.dense1 K d <chain> nops <op>*` → rows of `⟨ψ|(O_j)_i|ψ⟩` (the dense side of `expect_batch_eq_dense`) -/
def cmdDense1 (c : Codec α) : P String := do
  let d ← nat; let fs ← chain c; let no ← nat; let ops ← rep no (opTok c d); done
  let n := fs.length
  pure ("ok " ++ showRows c ((List.range n).map (fun i => ops.map (fun O => denseProd d (oneSiteOps n i O) fs))))

/-- `mo.dense2 K d <op> <chain>` → table with `⟨O_i O_j⟩` off the diagonal (`i<j`, mirrored) and `⟨O_i⟩` on it -/
def cmdDense2 (c : Codec α) : P String := do
  let d ← nat; let op ← opTok c d; let fs ← chain c; done
  let n := fs.length
  let entry := fun (i j : Nat) =>
    if i = j then denseProd d (oneSiteOps n i op) fs
    else denseProd d (twoSiteOps n (min i j) (max i j) op) fs
  pure ("ok " ++ showRows c ((List.range n).map (fun i => (List.range n).map (fun j => entry i j))))

/-- `mo.diag K d <chain>` → `norm² | occupations | table of Σ_s [s_i=1][s_j=1]|amp s|²` -/
def cmdDiag (c : Codec α) : P String := do
  let d ← nat; let fs ← chain c; done
  let n := fs.length
  let occ := (List.range n).map (fun i => denseDiag d (bitW i) fs)
  let tab := (List.range n).map (fun i => (List.range n).map (fun j =>
    denseDiag d (fun s => bitW i s * bitW j s) fs))
  pure ("ok " ++ c.render (denseNormSq d fs) ++ " " ++ showList c.render occ ++ " " ++ showRows c tab)

def handlers : List (String × (List String → Option String)) :=
  [("mo.eb", withKind (cmdEb codecZ) (cmdEb codecF)),
   ("mo.occ", withKind (cmdOcc codecZ) (cmdOcc codecF)),
   ("mo.norm", withKind (cmdNorm codecZ) (cmdNorm codecF)),
   ("mo.corr", withKind (cmdCorr codecZ) (cmdCorr codecF)),
   ("mo.dense1", withKind (cmdDense1 codecZ) (cmdDense1 codecF)),
   ("mo.dense2", withKind (cmdDense2 codecZ) (cmdDense2 codecF)),
   ("mo.diag", withKind (cmdDiag codecZ) (cmdDiag codecF))]

end EmuVerif.Drv.MpsObs
