/- Line-protocol front end for `Model.Noise` (run at binary64). -/
import EmuVerif.Model.Scalar
import EmuVerif.Model.Noise
namespace EmuVerif.Drv.Noise
open EmuVerif EmuVerif.Noise

def parseNT (s : String) : Option NoiseType :=
  match s with
  | "0" => some .relaxation | "1" => some .dephasing | "2" => some .depolarizing
  | "3" => some .effNoise | "4" => some .leakage
  | _ => match s.splitOn ":" with
    | ["5", k] => k.toNat?.map .nonLindblad
    | ["6", k] => k.toNat?.map .unknown
    | _ => none

def parseIT (s : String) : Option Interact :=
  match s with
  | "0" => some .ising | "1" => some .xy | _ => none

def parseV (s : String) : Option Variant :=
  match s with
  | "0" => some .asFound | "1" => some .repaired | _ => none

def showErr : Err → String
  | .assertion => "assertion" | .notImplemented => "notimplemented" | .valueShape => "valueshape"
  | .valueUnknown => "valueunknown" | .indexError => "indexerror"

/-- `in:out` pairs of the recorded `math.sqrt` calls; an argument that was never recorded gives NaN. -/
def parseTape (s : String) : Option (List (Float × Float)) :=
  parseList (fun p => match p.splitOn ":" with
    | [a, b] => do pure (← parseF a, ← parseF b)
    | _ => none) s

def sqOf (tape : List (Float × Float)) (x : Float) : Float :=
  match tape.find? (fun p => p.1.toBits == x.toBits) with
  | some p => p.2
  | none => 0.0 / 0.0

/-- one operator: `rows:cols:re_im_re_im…` (row major) -/
def parseOp (s : String) : Option (EffOp Float) :=
  match s.splitOn ":" with
  | [r, c, es] => do
    let r ← r.toNat?; let c ← c.toNat?
    let es ← (if es = "" then some [] else (es.splitOn "_").mapM parseF)
    if es.length ≠ 2 * r * c then none
    else
      let arr := es.toArray
      some { rows := r, cols := c,
             m := fun i j => ⟨arr.getD (2 * (i * c + j)) 0, arr.getD (2 * (i * c + j) + 1) 0⟩ }
  | _ => none

def showMat {n : Nat} (m : Mat n Float) : String :=
  ",".intercalate ((List.finRange n).flatMap (fun i => (List.finRange n).flatMap (fun j =>
    [showFc (m i j).re, showFc (m i j).im])))

def showRes {n : Nat} (r : Except Err (List (Mat n Float))) : String :=
  match r with
  | .error e => "err " ++ showErr e
  | .ok ops => s!"ok {ops.length} " ++ (if ops.isEmpty || n = 0 then "-" else ";".intercalate (ops.map showMat))

def parseModel (types relax deph depol hyper effrates effops : String) : Option (NoiseModel Float) := do
  pure { types := ← parseList parseNT types, relaxRate := ← parseF relax, dephRate := ← parseF deph,
         depolRate := ← parseF depol, hyperfineNonzero := ← parseB hyper,
         effRates := ← parseList parseF effrates, effOps := ← parseList parseOp effops }

/-- `noise.get variant nt it n types relax deph depol hyper sqtape effrates effops` -/
def getF (args : List String) : Option String := do
  match args with
  | [v, nt, it, n, types, relax, deph, depol, hyper, tape, effrates, effops] =>
    let nm ← parseModel types relax deph depol hyper effrates effops
    let tape ← parseTape tape
    let n ← n.toNat?
    some (showRes (getLindblad (← parseV v) (sqOf tape) (← parseNT nt) nm (← parseIT it) n))
  | _ => none

/-- `noise.all variant it n present types relax deph depol hyper sqtape effrates effops` -/
def allF (args : List String) : Option String := do
  match args with
  | [v, it, n, present, types, relax, deph, depol, hyper, tape, effrates, effops] =>
    let nm ← parseModel types relax deph depol hyper effrates effops
    let tape ← parseTape tape
    let n ← n.toNat?
    let nm? := if (← parseB present) then some nm else none
    some (showRes (allLindblad (← parseV v) (sqOf tape) nm? n (← parseIT it)))
  | _ => none

/-- `noise.pdata variant it n prefer sqtape dpresent <7 model fields> cpresent <7 model fields>` with
model fields `types relax deph depol hyper effrates effops` (device default model, config model). -/
def pdataF (args : List String) : Option String := do
  match args with
  | [v, it, n, prefer, tape, dp, dt, dr, dd, ddp, dh, der, deo, cp, ct, cr, cd, cdp, ch, cer, ceo] =>
    let dm ← parseModel dt dr dd ddp dh der deo
    let cm ← parseModel ct cr cd cdp ch cer ceo
    let tape ← parseTape tape
    let n ← n.toNat?
    let dev := if (← parseB dp) then some dm else none
    let cfg := if (← parseB cp) then some cm else none
    some (showRes (pulserDataLindblad (← parseV v) (sqOf tape) (← parseB prefer) dev cfg n (← parseIT it)))
  | _ => none

/-- `noise.topulser it n` → the index map emulator → Pulser. -/
def toPulserF (args : List String) : Option String := do
  match args with
  | [it, n] =>
    let it ← parseIT it
    let n ← n.toNat?
    some (showList (fun (i : Fin n) => toString (toPulser it i).val) (List.finRange n))
  | _ => none

def handlers : List (String × (List String → Option String)) :=
  [("noise.get", getF), ("noise.all", allF), ("noise.pdata", pdataF), ("noise.topulser", toPulserF)]

end EmuVerif.Drv.Noise
