/- Line-protocol front end for `Model.Pchip` and `Model.Extract`. -/
import EmuVerif.Model.Extract
namespace EmuVerif.Drv.Pchip
open EmuVerif EmuVerif.Pchip EmuVerif.Extract

variable {α : Type} [Add α] [Sub α] [Mul α] [Div α] [Neg α] [LT α] [DecidableLT α]
  [LE α] [DecidableLE α] [OfNat α 0] [OfNat α 1] [OfNat α 2] [OfNat α 3]

def showOpts (sh : α → String) (l : List (Option α)) : String :=
  showList (fun o => match o with | some v => sh v | none => "none") l

/-- `x y q` → `ok d | whmL | whmR | idx | vals` or `reject`. -/
def evalGen (p : String → Option α) (sh : α → String) (args : List String) : Option String := do
  match args with
  | [xs, ys, qs] =>
    let x ← parseList p xs
    let y ← parseList p ys
    let q ← parseList p qs
    match build x y with
    | none => some "reject"
    | some P =>
      let h := diffs x
      let delta := secants y h
      let d := (derivs h delta).getD []
      let wa := if h.length = 1 then [] else whmArgs delta
      let idx := q.map (fun v => toString (intervalIndex x v))
      some s!"ok {showList sh d} {showList sh (wa.map (·.1))} {showList sh (wa.map (·.2))} {showList id idx} {showOpts sh (q.map P.eval)}"
  | _ => none

/-- `_pchip_derivatives` alone on arbitrary `h`, `delta` → `ok d` or `raise`. -/
def derivGen (p : String → Option α) (sh : α → String) (args : List String) : Option String := do
  match args with
  | [hs, ds] =>
    let h ← parseList p hs
    let d ← parseList p ds
    match derivs h d with
    | none => some "raise"
    | some r => some s!"ok {showList sh r}"
  | _ => none

/-- `_limit_endpoint d sl sr` → value. -/
def limitGen (p : String → Option α) (sh : α → String) (args : List String) : Option String := do
  match args with
  | [d, sl, sr] => some (sh (limitEndpoint (← p d) (← p sl) (← p sr)))
  | _ => none

def parseKind (s : String) : Option Kind :=
  if s = "amp" then some .amp else if s = "det" then some .det else if s = "phase" then some .phase else none

/-- `kind T samples tt` → `ok raw | col` or `reject`. -/
def colGen (p : String → Option α) (sh : α → String) (args : List String) : Option String := do
  match args with
  | [k, t, ss, tts] =>
    let k ← parseKind k
    let T ← t.toNat?
    let s ← parseList p ss
    let tt ← parseList p tts
    match rawColumn T s tt, column k T s tt with
    | some r, some c => some s!"ok {showList sh r} {showList sh c}"
    | _, _ => some "reject"
  | _ => none

def parseIm (p : String → Option α) (s : String) : Option (Option (List α)) :=
  if s = "r" then some none else (parseList p s).map some

def parseQubits (p : String → Option α) : List String → Option (List (String × QS α))
  | [] => some []
  | id :: a :: ai :: d :: di :: f :: fi :: rest => do
    let q : QS α := { amp := ← parseList p a, det := ← parseList p d, phase := ← parseList p f,
                      ampIm := ← parseIm p ai, detIm := ← parseIm p di, phaseIm := ← parseIm p fi }
    let r ← parseQubits p rest
    some ((id, q) :: r)
  | _ => none

def showKind : Kind → String
  | .amp => "amp" | .det => "det" | .phase => "phase"

/-- `ncols:col;col;…` (a column with no rows prints as `-`). -/
def showCols (sh : α → String) (c : List (List α)) : String :=
  s!"{c.length}:" ++ ";".intercalate (c.map (showList sh))

/-- `localKeys qubitIds T tt atol [id amp ampIm det detIm phase phaseIm]*`; the qubit entries are
those of the first key of `Local` → `ok A D P` / `err …`. -/
def runGen (p : String → Option α) (sh : α → String) (args : List String) : Option String := do
  match args with
  | keys :: qids :: t :: tts :: atol :: rest =>
    let keys ← parseList some keys
    let qids ← parseList some qids
    let T ← t.toNat?
    let tt ← parseList p tts
    let atol ← p atol
    let qs ← parseQubits p rest
    let localD := match keys with
      | [] => []
      | k :: ks => (k, qs) :: ks.map (fun k' => (k', []))
    match extract localD qids tt T atol with
    | .ok a d f => some s!"ok {showCols sh a} {showCols sh d} {showCols sh f}"
    | .errSingle => some "err single"
    | .errChannel => some "err channel"
    | .errIndex => some "err index"
    | .errAssert => some "err assert"
    | .errImag k => some s!"err imag {showKind k}"
    | .errPchip k => some s!"err pchip {showKind k}"
  | _ => none

def handlers : List (String × (List String → Option String)) :=
  [("pchip.evalf", evalGen parseF showFc), ("pchip.evalq", evalGen parseQ showQ),
   ("pchip.derivf", derivGen parseF showFc), ("pchip.derivq", derivGen parseQ showQ),
   ("pchip.limitf", limitGen parseF showFc), ("pchip.limitq", limitGen parseQ showQ),
   ("extract.colf", colGen parseF showFc), ("extract.colq", colGen parseQ showQ),
   ("extract.runf", runGen parseF showFc), ("extract.runq", runGen parseQ showQ)]

end EmuVerif.Drv.Pchip
