/- Line-protocol front end for `Model.Perm`.
   Lists: comma separated, `-` = empty. Lists of lists: `;` separated, `_` = no element.
   Lists over evaluation times: `|` separated. Values are opaque tokens (never computed with). -/
import EmuVerif.Model.Perm
import EmuVerif.Model.Scalar
namespace EmuVerif.Drv.Perm
open EmuVerif EmuVerif.Perm

def parseNat (s : String) : Option Nat := s.toNat?
def parseTok (s : String) : Option String := if s.isEmpty then none else some s
def parsePerm (s : String) : Option (List Nat) := parseList parseNat s

/-- `a;b;c` with `_` for the empty outer list. -/
def parseSep {β} (sep : String) (p : String → Option β) (s : String) : Option (List β) :=
  if s = "_" then some [] else (s.splitOn sep).mapM p

def showSep {β} (sep : String) (sh : β → String) (l : List β) : String :=
  if l.isEmpty then "_" else sep.intercalate (l.map sh)

def showNats (l : List Nat) : String := showList toString l
def showToks (l : List String) : String := showList id l

/-- `perm.list xs p` → `ok …` | `indexerror` (`permute_list`, `permute_tuple`). -/
def listH (args : List String) : Option String := do
  match args with
  | [xs, p] =>
    let xs ← parseList parseTok xs; let p ← parsePerm p
    match permuteList xs p with
    | none => some "indexerror"
    | some r => some s!"ok {showToks r}"
  | _ => none

def tupleH (args : List String) : Option String := do
  match args with
  | [xs, p] =>
    let xs ← parseList parseTok xs; let p ← parsePerm p
    match permuteTuple xs p with
    | none => some "indexerror"
    | some r => some s!"ok {showToks r}"
  | _ => none

/-- `perm.string codepoints p` → `ok codepoints` | `indexerror`. -/
def stringH (args : List String) : Option String := do
  match args with
  | [cs, p] =>
    let cs ← parseList parseNat cs; let p ← parsePerm p
    let s := String.ofList (cs.map Char.ofNat)
    match permuteString s p with
    | none => some "indexerror"
    | some r => some s!"ok {showNats (r.toList.map Char.toNat)}"
  | _ => none

/-- `perm.vec v p` (1-D `permute_tensor`). -/
def vecH (args : List String) : Option String := do
  match args with
  | [v, p] =>
    let v ← parseList parseTok v; let p ← parsePerm p
    match permuteVec v p with
    | none => some "indexerror"
    | some r => some s!"ok {showToks r}"
  | _ => none

/-- `perm.mat rows p` (2-D `permute_tensor`; rows `;`-separated). -/
def matH (args : List String) : Option String := do
  match args with
  | [m, p] =>
    let m ← parseSep ";" (parseList parseTok) m; let p ← parsePerm p
    match permuteMat m p with
    | .error .valueError => some "valueerror"
    | .error .indexError => some "indexerror"
    | .ok r => some s!"ok {showSep ";" showToks r}"
  | _ => none

/-- `perm.inv p` → `ok …` | `none` (not a permutation: nothing claimed). -/
def invH (args : List String) : Option String := do
  match args with
  | [p] =>
    let p ← parsePerm p
    match invPermutation p with
    | none => some "none"
    | some r => some s!"ok {showNats r}"
  | _ => none

def eyeH (args : List String) : Option String := do
  match args with
  | [n] => some (showNats (eyePermutation (← parseNat n)))
  | _ => none

def ispermH (args : List String) : Option String := do
  match args with
  | [n, p] => some (showB (isPermOf (← parseNat n) (← parsePerm p)))
  | _ => none

/-! `perm.results p permute atom_order bitstrings occupation correlation` -/

def parseCounter (s : String) : Option (Counter (List Char)) :=
  parseSep ";" (fun e => match e.splitOn ":" with
    | [k, c] => do
        let c ← c.toNat?
        some ((if k = "-" then [] else k.toList), c)
    | _ => none) s

def showCounter (c : Counter (List Char)) : String :=
  showSep ";" (fun kv => s!"{if kv.1.isEmpty then "-" else String.ofList kv.1}:{kv.2}") c

def parseTag {β} (p : String → Option β) (s : String) : Option (Option (List β)) :=
  if s = "none" then some none else (parseSep "|" p s).map some

def showTag {β} (sh : β → String) (t : Option (List β)) : String :=
  match t with
  | none => "none"
  | some l => showSep "|" sh l

def resultsH (args : List String) : Option String := do
  match args with
  | [p, permute, ao, bs, oc, co] =>
    let p ← parsePerm p; let permute ← parseB permute
    let r : Res String :=
      { atomOrder := ← parseList parseTok ao
        bitstrings := ← parseTag parseCounter bs
        occupation := ← parseTag (parseList parseTok) oc
        correlation := ← parseTag (parseSep ";" (parseList parseTok)) co
        others := [] }
    match permuteResults p r permute with
    | none => some "raise"
    | some r' =>
      some s!"ok {showToks r'.atomOrder} {showTag showCounter r'.bitstrings} {showTag showToks r'.occupation} {showTag (showSep ";" showToks) r'.correlation}"
  | _ => none

/-- `perm.site p atom_order bitstrings occupation correlation` → the site-order view. -/
def siteH (args : List String) : Option String := do
  match args with
  | [p, ao, bs, oc, co] =>
    let p ← parsePerm p
    let r : Res String :=
      { atomOrder := ← parseList parseTok ao
        bitstrings := ← parseTag parseCounter bs
        occupation := ← parseTag (parseList parseTok) oc
        correlation := ← parseTag (parseSep ";" (parseList parseTok)) co
        others := [] }
    let r' := siteView p r
    some s!"ok {showToks r'.atomOrder} {showTag showCounter r'.bitstrings} {showTag showToks r'.occupation} {showTag (showSep ";" showToks) r'.correlation}"
  | _ => none

/-- `perm.obs requested tags` → effective `optimize_qubit_ordering`. -/
def obsH (args : List String) : Option String := do
  match args with
  | [rq, tags] => some (showB (effectiveOrdering (← parseB rq) (← parseList parseTok tags)))
  | _ => none

def handlers : List (String × (List String → Option String)) :=
  [("perm.list", listH), ("perm.tuple", tupleH), ("perm.string", stringH), ("perm.vec", vecH),
   ("perm.mat", matH), ("perm.inv", invH), ("perm.eye", eyeH), ("perm.isperm", ispermH),
   ("perm.results", resultsH), ("perm.site", siteH), ("perm.obs", obsH)]

end EmuVerif.Drv.Perm
