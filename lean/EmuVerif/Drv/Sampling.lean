/-
  Line-protocol front end for `Model.Sampling`. Probabilities / uniform draws cross as binary64 bit
  patterns; multinomial answers as comma lists of naturals; counters as `key:count,…` in insertion order.
-/
import EmuVerif.Model.Sampling
import EmuVerif.Drv.Tensor
namespace EmuVerif.Drv.Sampling
open EmuVerif EmuVerif.Tensor EmuVerif.Sampling EmuVerif.Drv.Tensor

def showCounter (c : Counter) : String := showList (fun p => s!"{p.1}:{p.2}") c

def parseCounter (s : String) : Option Counter :=
  parseList (fun t => match t.splitOn ":" with
    | [k, n] => n.toNat?.map (fun n => (k, n))
    | _ => none) s

def showRes : Res → String
  | .ok c => "ok " ++ showCounter c
  | .notImplemented => "notimpl"
  | .tapeError => "tape"

def flt : P Float := do let t ← tok; (parseF t : Option Float)
def floats : P (List Float) := do let t ← tok; (parseList parseF t : Option (List Float))

/-- `s.loop maxB nSites numShots ncalls call*` -/
def cmdLoop : P String := do
  let maxB ← nat; let nS ← nat; let N ← nat; let nc ← nat; let calls ← rep nc levels; done
  match sampleLoop maxB nS N 0 calls [] with
  | none => pure "none"
  | some c => pure ("ok " ++ showCounter c)

def cmdBatches : P String := do
  let maxB ← nat; let N ← nat; done
  pure (showList toString (batchSizes maxB N 0))

/-- `s.mps dim nSites numShots pfp pfn ncalls call* us` -/
def cmdMps : P String := do
  let dim ← nat; let nS ← nat; let N ← nat; let pfp ← flt; let pfn ← flt
  let nc ← nat; let calls ← rep nc levels; let us ← floats; done
  pure (showRes (mpsSample dim nS N pfp pfn calls us))

/-- `s.sv n pfp pfn outcomes us` -/
def cmdSv : P String := do
  let n ← nat; let pfp ← flt; let pfn ← flt; let outs ← levels; let us ← floats; done
  pure (showRes (svSample n pfp pfn outs us))

/-- `s.errors pfp pfn counter us` -/
def cmdErrors : P String := do
  let pfp ← flt; let pfn ← flt; let t ← tok; let c ← (parseCounter t : Option Counter); let us ← floats; done
  match applyErrors pfp pfn c us with
  | none => pure "tape"
  | some c' => pure ("ok " ++ showCounter c')

def cmdBits : P String := do
  let n ← nat; let idx ← nat; done
  pure ((indexToBits n idx).getD "assert")

section
variable {α : Type} [Add α] [Mul α] [OfNat α 0] [OfNat α 1] [Conj α]

/-- `s.weights K <chain> nshots row*` → per shot `w,w;w,w;…` joined by `|` -/
def cmdWeights (c : Codec α) : P String := do
  let fs ← chain c; let ns ← nat; let rows ← rep ns levels; done
  let one : List String := rows.map (fun row =>
    ";".intercalate ((shotWeights fs row ones1).map (fun w => showList c.render w)))
  pure ("|".intercalate one)

/-- `s.svw K vals` -/
def cmdSvWeights (c : Codec α) : P String := do
  let t ← tok; let a ← (parseVals c t : Option (Array α)); done
  pure (showList c.render (svWeights a.toList))
end

def handlers : List (String × (List String → Option String)) :=
  [("s.loop", run cmdLoop), ("s.batches", run cmdBatches), ("s.mps", run cmdMps), ("s.sv", run cmdSv),
   ("s.errors", run cmdErrors), ("s.bits", run cmdBits),
   ("s.weights", withKind (cmdWeights codecZ) (cmdWeights codecF)),
   ("s.svw", withKind (cmdSvWeights codecZ) (cmdSvWeights codecF))]

end EmuVerif.Drv.Sampling
