/- Line-protocol front end for `Model.Stepper` (binary64 reading). -/
import EmuVerif.Model.Stepper
namespace EmuVerif.Drv.Stepper
open EmuVerif EmuVerif.Stepper

def showEv (sh : Float → String) : Ev Float → String
  | .sweep k a b => s!"W,{k},{sh a},{sh b}"
  | .pair l dt cr => s!"P,{l},{sh dt},{showB cr}"
  | .single i dt => s!"S,{i},{sh dt}"
  | .leftBath i => s!"LB,{i}"
  | .rightBath i => s!"RB,{i}"
  | .hNoNoise k => s!"H0,{k}"
  | .fill t => s!"F,{sh t}"
  | .newH k q => s!"H,{k},{sh q}"
  | .stepDone k => s!"D,{k}"
  | .jump t => s!"J,{sh t}"

def showRec (r : Rec Float) : String := s!"{showEv showF r.ev},{r.lb},{r.rb},{r.centre}"

def showRecs (l : List (Rec Float)) : String :=
  if l.isEmpty then "-" else " ".intercalate (l.map showRec)

def showErr : Err → String
  | .qubitCount => "qubitCount" | .cornerAssert => "cornerAssert" | .bathIndex => "bathIndex"
  | .evolveAssert => "evolveAssert" | .timeIndex => "timeIndex" | .initBaths => "initBaths"
  | .brentInit => "brentInit" | .zeroDiv => "zeroDiv" | .fuel => "fuel"

def showStatus : Status → String
  | .done => "done" | .tapeOut => "tapeOut" | .err e => s!"err:{showErr e}"

/-- `stepper.run n nsteps noisy t0,t1,… k` — `init()` then `k` calls of `progress()` →
    `status finished rec rec …`. -/
def runF (args : List String) : Option String := do
  match args with
  | [n, ns, noisy, ts, k] =>
    let c : Cfg Float := { n := ← n.toNat?, nsteps := ← ns.toNat?, times := ← parseList parseF ts,
                           noisy := ← parseB noisy }
    let k ← k.toNat?
    match init c with
    | .error e => some s!"err:{showErr e} 0 -"
    | .ok (s, evs) =>
      let (s1, recs, err) := progressN c k s evs
      let st := match err with | none => "ok" | some e => s!"err:{showErr e}"
      some s!"{st} {showB (finished c s1)} {showRecs recs}"
  | _ => none

def parseEnv (s : String) : Option (Env Float) :=
  match s.splitOn ":" with
  | [a, b, c] => do pure { sq := ← parseF a, u := ← parseF b, psq := ← parseF c }
  | _ => none

/-- `stepper.noisy n nsteps t0,t1,… sq:u:psq,sq:u:psq,…` — noisy `init()` (head of the tape) and
    one tape entry per sweep → `status rec rec …`. -/
def noisyF (args : List String) : Option String := do
  match args with
  | [n, ns, ts, tape] =>
    let c : Cfg Float := { n := ← n.toNat?, nsteps := ← ns.toNat?, times := ← parseList parseF ts,
                           noisy := true }
    let tape ← parseList parseEnv tape
    let (recs, st) := nrunFromInit c tape
    some s!"{showStatus st} {showRecs recs}"
  | _ => none

def parseOptF (s : String) : Option (Option Float) :=
  if s = "n" then some none else (parseF s).map some

/-- `stepper.nsc n nsteps t0,… l2r sweep step lb rb centre cur tgt rf thr gap sq:u:psq` with
    `rf` = `n` or `a:b:fa:fb:c:d:fc:bis` — one `NoisyMPSBackendImpl.sweep_complete` from an
    arbitrary state → `ok cur tgt step thr gap rf | recs` or `err:…`. -/
def nscF (args : List String) : Option String := do
  match args with
  | [n, ns, ts, l2r, sw, st, lb, rb, ce, cur, tgt, rf, thr, gap, env] =>
    let c : Cfg Float := { n := ← n.toNat?, nsteps := ← ns.toNat?, times := ← parseList parseF ts,
                           noisy := true }
    let b : St Float := { l2r := ← parseB l2r, sweep := ← sw.toNat?, step := ← st.toNat?,
                          lb := ← lb.toNat?, rb := ← rb.toNat?, centre := ← ce.toNat?,
                          cur := ← parseF cur, tgt := ← parseF tgt }
    let rf : Option (Brent.St Float) ←
      (if rf = "n" then some none else
        match rf.splitOn ":" with
        | [a, bb, fa, fb, cc, d, fc, bis] => do
          pure (some { eps := 1, a := ← parseF a, b := ← parseF bb, fa := ← parseF fa, fb := ← parseF fb,
                       c := ← parseF cc, d := ← parseF d, fc := ← parseF fc, bisection := ← parseB bis,
                       next := none })
        | _ => none)
    let s : NSt Float := { base := b, rf := rf, thr := ← parseF thr, gap := ← parseF gap }
    match nsweepComplete c s (← parseEnv env) with
    | .error e => some s!"err:{showErr e}"
    | .ok (s1, recs) =>
      let rfs := match s1.rf with
        | none => "n"
        | some r => ":".intercalate [showF r.a, showF r.b, showF r.fa, showF r.fb, showF r.c, showF r.d,
                                     showF r.fc, showB r.bisection]
      some s!"ok {showF s1.base.cur} {showF s1.base.tgt} {s1.base.step} {showF s1.thr} {showF s1.gap} {rfs} {s1.base.lb} {s1.base.rb} {s1.base.centre} | {showRecs recs}"
  | _ => none

def parseVariant (s : String) : Option Variant :=
  if s = "repaired" then some .repaired else if s = "asFound" then some .asFound else none

/-- `stepper.drive variant perm k nrows row0;row1;…` (rows comma-separated bit patterns, `;` between
    rows) → installed row or `none`. -/
def driveF (args : List String) : Option String := do
  match args with
  | [v, perm, k, rows] =>
    let rows ← (rows.splitOn ";").mapM (parseList parseF)
    match installedDrive (← parseVariant v) (← parseList String.toNat? perm) rows (← k.toNat?) with
    | none => some "none"
    | some r => some (showList showF r)
  | _ => none

/-- `stepper.inter perm row0;row1;…` → permuted matrix or `none`. -/
def interF (args : List String) : Option String := do
  match args with
  | [perm, rows] =>
    let rows ← (rows.splitOn ";").mapM (parseList parseF)
    match installedInteraction (← parseList String.toNat? perm) rows with
    | none => some "none"
    | some m => some (";".intercalate (m.map (showList showF)))
  | _ => none

/-- `stepper.statemap direct|inverse perm b0,b1,…` (symbols as naturals) → site-order string or `none`. -/
def stateMapF (args : List String) : Option String := do
  match args with
  | [m, perm, b] =>
    let m ← (if m = "direct" then some StateMap.direct else if m = "inverse" then some StateMap.inverse else none)
    match installedString m (← parseList String.toNat? perm) (← parseList String.toNat? b) with
    | none => some "none"
    | some r => some (showList (fun (n : Nat) => toString n) r)
  | _ => none

def handlers : List (String × (List String → Option String)) :=
  [("stepper.run", runF), ("stepper.noisy", noisyF), ("stepper.nsc", nscF),
   ("stepper.drive", driveF), ("stepper.inter", interF), ("stepper.statemap", stateMapF)]

end EmuVerif.Drv.Stepper
