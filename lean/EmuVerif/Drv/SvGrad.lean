/- Line-protocol front end for `Model.SvGrad` (C30), at `κ := Cx Rat`; `rows` is the flattened `(B, 2ⁿ)` batch. -/
import EmuVerif.Drv.TreeVec
import EmuVerif.Model.SvGrad
namespace EmuVerif.Drv.SvGrad
open EmuVerif EmuVerif.TreeVec EmuVerif.SvOps EmuVerif.SvGrad EmuVerif.Drv.TreeVec

def rowsOf (n : Nat) (l : List K) : Option (List (Vec K n)) :=
  if l.length % 2 ^ n ≠ 0 then none else (chunks (2 ^ n) (l.length / 2 ^ n) l).mapM (Vec.ofList n)

def showRows {n : Nat} (rs : List (Vec K n)) : String := showCs (rs.map Vec.toList).flatten

def withRows (n : String) (rows : String) (f : (n : Nat) → List (Vec K n) → Option String) : Option String := do
  let n ← n.toNat?
  match rowsOf n (← parseCs rows) with
  | none => some "err"
  | some rs => f n rs

/-- `gr.om n k phase rows` → `DHDOmegaSparse(k, …, phi_k) @ rows` -/
def grOm (args : List String) : Option String :=
  match args with
  | [n, k, p, rows] => do
    let k ← k.toNat?; let p ← parsePhase p
    withRows n rows (fun n rs => if k ≥ n then some "err" else some s!"ok {showRows (rs.map (dhdOmega p k))}")
  | _ => none

/-- `gr.ph n k omega phaseShifted rows` → `DHDPhiSparse(k, …, omega_k, phi_k) @ rows` -/
def grPh (args : List String) : Option String :=
  match args with
  | [n, k, om, q, rows] => do
    let k ← k.toNat?; let om ← parseC om; let q ← parsePhase q
    withRows n rows (fun n rs => if k ≥ n then some "err" else some s!"ok {showRows (rs.map (dhdPhi om q k))}")
  | _ => none

/-- `gr.de n k rows` → `DHDDeltaSparse(k, n) @ rows` -/
def grDe (args : List String) : Option String :=
  match args with
  | [n, k, rows] => do
    let k ← k.toNat?
    withRows n rows (fun n rs => if k ≥ n then some "err" else some s!"ok {showRows (rs.map (dhdDelta k))}")
  | _ => none

/-- `gr.u n i j rows` → `DHDUSparse(i, j, n) @ rows` -/
def grU (args : List String) : Option String :=
  match args with
  | [n, i, j, rows] => do
    let i ← i.toNat?; let j ← j.toNat?
    withRows n rows (fun n rs => if ¬ (i < j ∧ j < n) then some "err" else some s!"ok {showRows (rs.map (dhdU i j))}")
  | _ => none

def handlers : List (String × (List String → Option String)) :=
  [("gr.om", grOm), ("gr.ph", grPh), ("gr.de", grDe), ("gr.u", grU)]

end EmuVerif.Drv.SvGrad
