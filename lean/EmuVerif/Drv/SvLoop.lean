/- Line-protocol front end for `Model.SvLoop` (binary64 scalars; drive row = its index;
   interaction matrix = (masked?, query time); state = the list of rows exponentiated so far). -/
import EmuVerif.Model.SvLoop
namespace EmuVerif.Drv.SvLoop
open EmuVerif EmuVerif.SvLoop

def showErr : Err → String
  | .index => "err:index"
  | .zerodiv => "err:zerodiv"

def showU (u : Bool × Float) : String := s!"{showB u.1}:{showF u.2}"

def showEv : Ev Float Nat (Bool × Float) → String
  | .obs i t => s!"o:{i}:{showF t}"
  | .step a => s!"s:{a.idx}:{showF a.dt}:{a.row}:{showU a.u}"

/-- `svloop.run coeff half slmEnd t0,t1,… nrows`
    → `ok <events ;-separated> <final state = rows applied, in order> <obs0 hamiltonian | err:index>`
    or `err:index` / `err:zerodiv`. -/
def runF (args : List String) : Option String := do
  match args with
  | [cf, hf, se, ts, nr] =>
    let coeff ← parseF cf; let half ← parseF hf; let slmEnd ← parseF se
    let times ← parseList parseF ts
    let n ← nr.toNat?
    let rows := List.range n
    let umat : Float → Bool × Float := fun t => (slmMasked slmEnd t, t)
    let expStep : Float → Nat → Bool × Float → List Nat → List Nat := fun _ r _ s => s ++ [r]
    match run coeff times rows umat expStep [] with
    | .error e => some (showErr e)
    | .ok (s, evs) =>
      let h := match obs0Ham half times rows umat with
        | .error e => showErr e
        | .ok (r, u) => s!"h:{r}:{showU u}"
      some s!"ok {";".intercalate (evs.map showEv)} {showList toString s} {h}"
  | _ => none

/-- `svloop.step coeff slmEnd t0,t1,… nrows k` — one `step(k)` from an arbitrary index (not
necessarily the next one; possibly out of range) → `ok <step event>;<obs event>` or an error tag. -/
def stepF (args : List String) : Option String := do
  match args with
  | [cf, se, ts, nr, ks] =>
    let coeff ← parseF cf; let slmEnd ← parseF se
    let times ← parseList parseF ts
    let n ← nr.toNat?
    let k ← ks.toNat?
    let rows := List.range n
    let umat : Float → Bool × Float := fun t => (slmMasked slmEnd t, t)
    let expStep : Float → Nat → Bool × Float → List Nat → List Nat := fun _ r _ s => s ++ [r]
    match initLast times with
    | .error e => some (showErr e)
    | .ok tl =>
      match step coeff tl times rows umat expStep ([], []) k with
      | .error e => some (showErr e)
      | .ok (_, evs) => some s!"ok {";".intercalate (evs.reverse.map showEv)}"
  | _ => none

def handlers : List (String × (List String → Option String)) :=
  [("svloop.run", runF), ("svloop.step", stepF)]

end EmuVerif.Drv.SvLoop
