/- Line-protocol front end for `Model.SvObs` (C13), at `κ := Cx Rat`. Encoding as in `Drv/TreeVec.lean`. -/
import EmuVerif.Drv.TreeVec
import EmuVerif.Model.SvObs
namespace EmuVerif.Drv.SvObs
open EmuVerif EmuVerif.TreeVec EmuVerif.SvOps EmuVerif.SvState EmuVerif.SvObs EmuVerif.Drv.TreeVec

def pairsOf (n : Nat) : List (Nat × Nat) := (List.range n).flatMap (fun i => (List.range n).map (fun j => (i, j)))

/-- `ob.sv n ψ` → occupations (n), then the correlation matrix row-major (n²) -/
def obSv (args : List String) : Option String := do
  match args with
  | [n, v] =>
    let n ← n.toNat?
    match ← vecOf n v with
    | none => some "err"
    | some ψ =>
      let occ := (List.range n).map (fun k => (⟨occSvR ψ k, 0⟩ : K))
      let cor := (pairsOf n).map (fun p => (⟨corrSvR ψ p.1 p.2, 0⟩ : K))
      some s!"ok {showCs (occ ++ cor)}"
  | _ => none

/-- `ob.dm n ρ` → density-matrix occupations, then correlations (complex, before `.real`) -/
def obDm (args : List String) : Option String := do
  match args with
  | [n, r] =>
    let n ← n.toNat?
    match rmatOfList n (← parseCs r) with
    | none => some "err"
    | some ρ =>
      let occ := (List.range n).map (fun k => occDm ρ k)
      let cor := (pairsOf n).map (fun p => corrDm ρ p.1 p.2)
      some s!"ok {showCs (occ ++ cor)}"
  | _ => none

/-- `ob.en n Ω δ phases U ψ` → `⟨ψ|Hψ⟩`, `⟨Hψ|Hψ⟩`, variance -/
def obEn (args : List String) : Option String := do
  match args with
  | [n, om, de, ph, u, v] =>
    let n ← n.toNat?
    let om ← parseCs om; let de ← parseCs de; let ph ← parseList parsePhase ph; let u ← parseCs u
    match ← vecOf n v with
    | none => some "err"
    | some ψ =>
      let e := energySv (fn om) (fn de) (phFn ph) (fn2 n u) ψ
      let s := secondSv (fn om) (fn de) (phFn ph) (fn2 n u) ψ
      let var : Rat := varianceSv (fn om) (fn de) (phFn ph) (fn2 n u) ψ
      some s!"ok {showCs [e, s, ⟨var, 0⟩]}"
  | _ => none

/-- `ob.endm batched n Ω δ phases U ρ` → `tr(Hρ)`, `tr(H·Hρ)`, variance -/
def obEnDm (args : List String) : Option String := do
  match args with
  | [b, n, om, de, ph, u, r] =>
    let n ← n.toNat?
    let b ← parseB b
    let om ← parseCs om; let de ← parseCs de; let ph ← parseList parsePhase ph; let u ← parseCs u
    match rmatOfList n (← parseCs r) with
    | none => some "err"
    | some ρ =>
      let e := energyDm b (fn om) (fn de) (phFn ph) (fn2 n u) ρ
      let s := secondDm b (fn om) (fn de) (phFn ph) (fn2 n u) ρ
      let var : Rat := varianceDm b (fn om) (fn de) (phFn ph) (fn2 n u) ρ
      some s!"ok {showCs [e, s, ⟨var, 0⟩]}"
  | _ => none

def handlers : List (String × (List String → Option String)) :=
  [("ob.sv", obSv), ("ob.dm", obDm), ("ob.en", obEn), ("ob.endm", obEnDm)]

end EmuVerif.Drv.SvObs
