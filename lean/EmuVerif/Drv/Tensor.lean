/-
  Line-protocol front end for `Model.Tensor`.  First argument of every command: scalar kind
  `z` (Gaussian integers `re@im`, exact) or `f` (binary64 bit patterns `re@im`).
  A site is one token `dl:d:dr:v,v,…` with the entries in torch row-major order of shape `(dl, d, dr)`
  (an MPO factor `(dl, do, di, dr)` has `d = do·di`).
-/
import EmuVerif.Model.Tensor
namespace EmuVerif.Drv.Tensor
open EmuVerif EmuVerif.Tensor

/-- scalar codec -/
structure Codec (α : Type) where
  parse : String → Option α
  render : α → String

def parseCx {β : Type} (p : String → Option β) (s : String) : Option (Cx β) :=
  match s.splitOn "@" with
  | [a, b] => do pure ⟨← p a, ← p b⟩
  | _ => none

def codecZ : Codec (Cx Int) := ⟨parseCx String.toInt?, fun z => s!"{z.re}@{z.im}"⟩
def codecF : Codec (Cx Float) := ⟨parseCx parseF, fun z => s!"{showFc z.re}@{showFc z.im}"⟩

/-- token-stream parser -/
abbrev P := StateT (List String) Option

def tok : P String := fun s => match s with | [] => none | t :: ts => some (t, ts)
def nat : P Nat := do let t ← tok; (t.toNat? : Option Nat)
def rep {β : Type} (n : Nat) (p : P β) : P (List β) :=
  match n with
  | 0 => pure []
  | n + 1 => do let x ← p; let xs ← rep n p; pure (x :: xs)
def done : P Unit := fun s => match s with | [] => some ((), []) | _ => none

variable {α : Type} [Add α] [Mul α] [OfNat α 0] [OfNat α 1] [Conj α]

def parseVals (c : Codec α) (s : String) : Option (Array α) := (parseList c.parse s).map List.toArray

def siteOfArray (dl d dr : Nat) (a : Array α) : Site α :=
  { dl := dl, d := d, dr := dr, t := fun x l r => a.getD ((l * d + x) * dr + r) 0 }

def site (c : Codec α) : P (Site α) := do
  let t ← tok
  match t.splitOn ":" with
  | [dl, d, dr, vals] =>
    let dl ← (dl.toNat? : Option Nat); let d ← (d.toNat? : Option Nat); let dr ← (dr.toNat? : Option Nat)
    let a ← (parseVals c vals : Option (Array α))
    if a.size ≠ dl * d * dr then failure else pure (siteOfArray dl d dr a)
  | _ => failure

def chain (c : Codec α) : P (List (Site α)) := do let n ← nat; rep n (site c)

def showSite (c : Codec α) (A : Site α) : String :=
  let vals := (List.range A.dl).flatMap (fun l => (List.range A.d).flatMap (fun x =>
    (List.range A.dr).map (fun r => c.render (A.t x l r))))
  s!"{A.dl}:{A.d}:{A.dr}:{showList id vals}"

def showChain (c : Codec α) (fs : List (Site α)) : String :=
  " ".intercalate (toString fs.length :: fs.map (showSite c))

def levels : P (List Nat) := do let t ← tok; (parseList String.toNat? t : Option (List Nat))

/-- `t.amp K <chain> m <string>*m` → amplitudes -/
def cmdAmp (c : Codec α) : P String := do
  let fs ← chain c; let m ← nat; let ss ← rep m levels; done
  pure (" ".intercalate (ss.map (fun s => c.render (amp fs s))))

def cmdAdd (c : Codec α) : P String := do
  let L ← chain c; let R ← chain c; done
  match addFactors L R with
  | none => pure "none"
  | some S => pure ("ok " ++ showChain c S)

def cmdScale (c : Codec α) : P String := do
  let s ← tok; let s ← (c.parse s : Option α); let which ← nat; let fs ← chain c; done
  pure (showChain c (scaleFactors s which fs))

/-- `t.rmul K scalar center|- <chain>` → `<center|-> <chain>` -/
def cmdRmul (c : Codec α) : P String := do
  let s ← tok; let s ← (c.parse s : Option α)
  let ct ← tok
  let center ← (if ct = "-" then some none else ct.toNat?.map some : Option (Option Nat))
  let fs ← chain c; done
  let (gs, ctr) := rmulFactors s center fs
  pure ((match ctr with | none => "-" | some k => toString k) ++ " " ++ showChain c gs)

def cmdInner (c : Codec α) : P String := do
  let A ← chain c; let B ← chain c; done
  match inner A B with
  | none => pure "none"
  | some z => pure (c.render z)

def cmdExpect (c : Codec α) : P String := do
  let A ← chain c; let W ← chain c; done
  match expect A W with
  | none => pure "none"
  | some z => pure (c.render z)

/-- qr record of a zip step: token `a:D:k:bt:rb|qvals|rvals`, `q` of torch shape `(a, D, k)`, `r` of `(k, bt, rb)` -/
def qr3 (c : Codec α) : P (QR3 α) := do
  let t ← tok
  match t.splitOn "|" with
  | [dims, qv, rv] =>
    match dims.splitOn ":" with
    | [a, dd, k, bt, rb] =>
      let a ← (a.toNat? : Option Nat); let dd ← (dd.toNat? : Option Nat); let k ← (k.toNat? : Option Nat)
      let bt ← (bt.toNat? : Option Nat); let rb ← (rb.toNat? : Option Nat)
      let q ← (parseVals c qv : Option (Array α)); let r ← (parseVals c rv : Option (Array α))
      if q.size ≠ a * dd * k ∨ r.size ≠ k * bt * rb then failure
      else pure { k := k, q := fun lev a' kk => q.getD ((a' * dd + lev) * k + kk) 0,
                  r := fun kk b' c' => r.getD ((kk * bt + b') * rb + c') 0 }
    | _ => failure
  | _ => failure

/-- merged matrices handed to `qr`, step by step (torch order: rows `(a, o, j)`, columns `(bt, rb)`) -/
def zipTrace (c : Codec α) (d m : Nat) : List (Site α) → List (Site α) → List (QR3 α) → Slider α → List String
  | top :: tops, bot :: bots, f :: tape, S =>
    let vals := (List.range S.sa).flatMap (fun a => (List.range d).flatMap (fun o => (List.range m).flatMap (fun j =>
      (List.range top.dr).flatMap (fun bt => (List.range bot.dr).map (fun rb =>
        c.render (zipMerged d m S.s top bot a o j bt rb))))))
    match zipStep d m S top bot f with
    | none => ["shape"]
    | some (_, S') => showList id vals :: zipTrace c d m tops bots tape S'
  | _, _, _, _ => []

/-- `t.zip K d m <tops> <bots> <qr3>*n` → `ok <merged>*n <chain>` -/
def cmdZip (c : Codec α) : P String := do
  let d ← nat; let m ← nat; let tops ← chain c; let bots ← chain c
  let tape ← rep tops.length (qr3 c); done
  match zipRight d m tops bots tape with
  | none => pure "none"
  | some fs =>
    pure ("ok " ++ " ".intercalate (zipTrace c d m tops bots tape slider0) ++ " " ++ showChain c fs)

/-- left-to-right qr record: `dl:d:k:dr|qvals|rvals`, `q` of shape `(dl, d, k)`, `r` of `(k, dr)` -/
def qrl (c : Codec α) : P (QRl α) := do
  let t ← tok
  match t.splitOn "|" with
  | [dims, qv, rv] =>
    match dims.splitOn ":" with
    | [dl, d, k, dr] =>
      let dl ← (dl.toNat? : Option Nat); let d ← (d.toNat? : Option Nat); let k ← (k.toNat? : Option Nat)
      let dr ← (dr.toNat? : Option Nat)
      let q ← (parseVals c qv : Option (Array α)); let r ← (parseVals c rv : Option (Array α))
      if q.size ≠ dl * d * k ∨ r.size ≠ k * dr then failure
      else pure { k := k, q := fun x l kk => q.getD ((l * d + x) * k + kk) 0, r := fun kk j => r.getD (kk * dr + j) 0 }
    | _ => failure
  | _ => failure

/-- right-to-left qr record: `k:d:dr:dl|qvals|rvals`, `q.mT` of shape `(k, d, dr)`, `r` of `(k, dl)` -/
def qrr (c : Codec α) : P (QRr α) := do
  let t ← tok
  match t.splitOn "|" with
  | [dims, qv, rv] =>
    match dims.splitOn ":" with
    | [k, d, dr, dl] =>
      let k ← (k.toNat? : Option Nat); let d ← (d.toNat? : Option Nat); let dr ← (dr.toNat? : Option Nat)
      let dl ← (dl.toNat? : Option Nat)
      let q ← (parseVals c qv : Option (Array α)); let r ← (parseVals c rv : Option (Array α))
      if q.size ≠ k * d * dr ∨ r.size ≠ k * dl then failure
      else pure { k := k, q := fun x kk rr => q.getD ((kk * d + x) * dr + rr) 0, r := fun kk l => r.getD (kk * dl + l) 0 }
    | _ => failure
  | _ => failure

/-- `t.orth K center|- desired <chain> nl <qrl>* nr <qrr>*` -/
def cmdOrth (c : Codec α) : P String := do
  let ct ← tok
  let center ← (if ct = "-" then some none else ct.toNat?.map some : Option (Option Nat))
  let desired ← nat; let fs ← chain c
  let nl ← nat; let lt ← rep nl (qrl c); let nr ← nat; let rt ← rep nr (qrr c); done
  match orthogonalize fs center desired lt rt with
  | none => pure "none"
  | some fs' => pure ("ok " ++ showChain c fs')

/-- `t.apply1 K d opvals site` -/
def cmdApply1 (c : Codec α) : P String := do
  let d ← nat; let t ← tok; let op ← (parseVals c t : Option (Array α)); let A ← site c; done
  pure (showSite c (applySite d (fun x y => op.getD (x * d + y) 0) A))

/-- `t.corr K r|a d opvals <chain from left>` → the numbers whose real parts fill `result[left, left:]`
(`r` = repaired variant = current code, `a` = as found before 7ffda71) -/
def cmdCorr (c : Codec α) : P String := do
  let v ← tok
  let d ← nat; let t ← tok; let op ← (parseVals c t : Option (Array α)); let fs ← chain c; done
  let opf : Nat → Nat → α := fun x y => op.getD (x * d + y) 0
  if v = "r" then pure (showList c.render (corrRow d opf fs))
  else if v = "a" then pure (showList c.render (corrRowAsFound d opf fs))
  else failure

def basis : P Basis := do
  let t ← tok
  if t = "rg" then pure .rg else if t = "zo" then pure .zo else if t = "rgx" then pure .rgx else failure

/-- `t.fromamps K basis n ne (string amp)*` -/
def cmdFromAmps (c : Codec α) : P String := do
  let b ← basis; let n ← nat; let ne ← nat
  let es ← rep ne (do let s ← tok; let a ← tok; let a ← (c.parse a : Option α); pure (s, a)); done
  match fromAmplitudes b n es with
  | none => pure "none"
  | some fs => pure ("ok " ++ showChain c fs)

/-- one `(op, targets)`: `nkeys (key coeff)* targets` -/
def opEntry (c : Codec α) (b : Basis) : P (Option ((Nat → Nat → α) × List Nat)) := do
  let nk ← nat
  let ks ← rep nk (do let s ← tok; let a ← tok; let a ← (c.parse a : Option α); pure (s, a))
  let ts ← levels
  pure ((resolveOp b ks).map (fun f => (f, ts)))

/-- `t.fromop K basis n nterms (coeff nops opEntry*)*`; an unknown operator key is a `KeyError` -/
def cmdFromOp (c : Codec α) : P String := do
  let b ← basis; let n ← nat; let nt ← nat
  let terms ← rep nt (do
    let a ← tok; let a ← (c.parse a : Option α); let no ← nat; let ops ← rep no (opEntry c b); pure (a, ops))
  done
  match terms.mapM (fun t => (t.2.mapM id).map (fun ops => (t.1, ops))) with
  | none => pure "keyerror"
  | some terms =>
    match fromOperatorRepr b.dim n terms with
    | none => pure "none"
    | some fs => pure ("ok " ++ showChain c fs)

def run {β : Type} (p : P β) (args : List String) : Option β := (p args).map (·.1)

def withKind (fz : P String) (ff : P String) (args : List String) : Option String :=
  match args with
  | "z" :: rest => run fz rest
  | "f" :: rest => run ff rest
  | _ => none

def handlers : List (String × (List String → Option String)) :=
  [("t.amp", withKind (cmdAmp codecZ) (cmdAmp codecF)),
   ("t.add", withKind (cmdAdd codecZ) (cmdAdd codecF)),
   ("t.scale", withKind (cmdScale codecZ) (cmdScale codecF)),
   ("t.rmul", withKind (cmdRmul codecZ) (cmdRmul codecF)),
   ("t.inner", withKind (cmdInner codecZ) (cmdInner codecF)),
   ("t.expect", withKind (cmdExpect codecZ) (cmdExpect codecF)),
   ("t.zip", withKind (cmdZip codecZ) (cmdZip codecF)),
   ("t.orth", withKind (cmdOrth codecZ) (cmdOrth codecF)),
   ("t.apply1", withKind (cmdApply1 codecZ) (cmdApply1 codecF)),
   ("t.corr", withKind (cmdCorr codecZ) (cmdCorr codecF)),
   ("t.fromamps", withKind (cmdFromAmps codecZ) (cmdFromAmps codecF)),
   ("t.fromop", withKind (cmdFromOp codecZ) (cmdFromOp codecF))]

end EmuVerif.Drv.Tensor
