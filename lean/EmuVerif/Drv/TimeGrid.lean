/- Line-protocol front end for `Model.TimeGrid` (binary64 and ℚ readings). -/
import EmuVerif.Model.TimeGrid
namespace EmuVerif.Drv.TimeGrid
open EmuVerif EmuVerif.TimeGrid

/-- Scalar plumbing of one reading. -/
structure Rd (α : Type) where
  parse : String → Option α
  shw : α → String
  nat : Nat → α
  fl : α → Int

def rdF : Rd Float :=
  { parse := parseF, shw := showF, nat := Float.ofNat, fl := fun x => (Float.floor x).toInt64.toInt }

def rdQ : Rd Rat :=
  { parse := parseQ, shw := showQ, nat := fun n => (n : Rat), fl := Rat.floor }

/-- `F` = the string "Full", otherwise a list. -/
def parseDflt {α} (p : String → Option α) (s : String) : Option (Option (List α)) :=
  if s = "F" then some none else (parseList p s).map some

/-- `N` = `evaluation_times is None`, otherwise a list. -/
def parseOwn {α} (p : String → Option α) (s : String) : Option (Option (List α)) :=
  if s = "N" then some none else (parseList p s).map some

/-- observables separated by `;` -/
def parseObs {α} (p : String → Option α) (s : String) : Option (List (Option (List α))) :=
  if s = "_" then some [] else (s.splitOn ";").mapM (parseOwn p)

def showRec {α} (sh : α → String) (r : List (α × Nat)) : String :=
  if r.isEmpty then "-" else ",".intercalate (r.map (fun p => s!"{sh p.1}@{p.2}"))

def showExc {β} (sh : β → String) : Except Err β → String
  | .ok v => "ok " ++ sh v
  | .error e => "err " ++ e.tag

section
variable {α : Type} [Add α] [Sub α] [Mul α] [Div α] [Neg α] [LT α] [DecidableLT α]
  [LE α] [DecidableLE α] [OfNat α 0] [OfNat α 1]

/-- `tg.grid relTol duration dt dflt observables` → `ok t0,t1,…` / `err tag`. -/
def grid (r : Rd α) (args : List String) : Option String := do
  match args with
  | [rt, du, dt, df, ob] =>
    let rt ← r.parse rt; let du ← r.parse du; let dt ← r.parse dt
    let df ← parseDflt r.parse df; let ob ← parseObs r.parse ob
    some (showExc (showList r.shw) (targetTimes r.nat r.fl rt du dt df ob))
  | _ => none

/-- `tg.merge tol s0,s1,…` (sorted candidates) → merged grid. -/
def merge (r : Rd α) (args : List String) : Option String := do
  match args with
  | [tl, s] =>
    let tl ← r.parse tl; let s ← parseList r.parse s
    match mergeGrid tl s with
    | none => some "err indexerror"
    | some g => some ("ok " ++ showList r.shw g)
  | _ => none

/-- `tg.sortset l` → `sorted(set(l))`. -/
def sset (r : Rd α) (args : List String) : Option String := do
  match args with
  | [s] => some (showList r.shw (sortedSet (← parseList r.parse s)))
  | _ => none

/-- `tg.pass1 tol dflt own t` → `ok 0|1` / `err tag` -/
def p1 (r : Rd α) (args : List String) : Option String := do
  match args with
  | [tl, df, ow, t] =>
    some (showExc showB (pass1 (← r.parse tl) (← parseDflt r.parse df) (← parseOwn r.parse ow) (← r.parse t)))
  | _ => none

/-- `tg.cfg tol dflt t` → `is_evaluation_time`; `tg.intimes tol ts t`. -/
def cfg (r : Rd α) (args : List String) : Option String := do
  match args with
  | [tl, df, t] => some (showExc showB (isEvalTimeCfg (← parseDflt r.parse df) (← r.parse tl) (← r.parse t)))
  | _ => none

def intimes (r : Rd α) (args : List String) : Option String := do
  match args with
  | [tl, ts, t] => some (showB (inTimes (← r.parse tl) (← parseList r.parse ts) (← r.parse t)))
  | _ => none

/-- `tg.call half tiny td dflt own times t` — `Observable.__call__` + `_store_raw` from an
arbitrary stored list → `ok times'` / `err tag`. -/
def call (r : Rd α) (args : List String) : Option String := do
  match args with
  | [hf, ty, td, df, ow, ts, t] =>
    let tol2 := timeTol r.nat (← r.parse hf) (← r.parse ty) (← td.toInt?)
    let ts ← parseList r.parse ts
    let rec0 : List (α × Nat) := ts.map (fun x => (x, 0))
    let res := callObs tol2 (← parseDflt r.parse df) (← parseOwn r.parse ow) rec0 (← r.parse t) 0
    some (showExc (fun l => showList r.shw (l.map Prod.fst)) res)
  | _ => none

/-- `tg.run mps tol1 half tiny dflt observables nsteps g0,g1,…` — the bookkeeping of a whole
run for every observable → `ok rec;rec;…` with `rec = t@k,…`, or `err` (some observable raised). -/
def run (r : Rd α) (args : List String) : Option String := do
  match args with
  | [mp, t1, hf, ty, df, ob, ns, g] =>
    let mp ← parseB mp; let t1 ← r.parse t1; let hf ← r.parse hf; let ty ← r.parse ty
    let df ← parseDflt r.parse df; let ob ← parseObs r.parse ob; let ns ← ns.toNat?
    let g ← parseList r.parse g
    let td : Int := match g.getLast? with
      | some l => r.fl l
      | none => 0
    let tol2 := timeTol r.nat hf ty td
    let res := ob.map (fun own => runObs false mp t1 tol2 df own g ns)
    if res.any (fun x => match x with | .error _ => true | .ok _ => false) then some "err"
    else some ("ok " ++ ";".intercalate (res.map (fun x => match x with
      | .ok l => showRec r.shw l
      | .error _ => "")))
  | _ => none

/-- `tg.chain relTol mps tol1 half tiny duration dt dflt observables` — `_get_target_times` followed by
a whole run with `len − 1` steps → `ok npoints rec;rec;…` / `err tag`. -/
def chain (r : Rd α) (args : List String) : Option String := do
  match args with
  | [rt, mp, t1, hf, ty, du, dt, df, ob] =>
    let rt ← r.parse rt; let mp ← parseB mp; let t1 ← r.parse t1; let hf ← r.parse hf; let ty ← r.parse ty
    let du ← r.parse du; let dt ← r.parse dt
    let df ← parseDflt r.parse df; let ob ← parseObs r.parse ob
    match targetTimes r.nat r.fl rt du dt df ob with
    | .error e => some ("err " ++ e.tag)
    | .ok g =>
      let td : Int := match g.getLast? with
        | some l => r.fl l
        | none => 0
      let tol2 := timeTol r.nat hf ty td
      let res := ob.map (fun own => runObs false mp t1 tol2 df own g (g.length - 1))
      if res.any (fun x => match x with | .error _ => true | .ok _ => false) then some "err run"
      else some (s!"ok {g.length} " ++ ";".intercalate (res.map (fun x => match x with
        | .ok l => showRec r.shw l
        | .error _ => "")))
  | _ => none

/-- `tg.valid eps ts` → `_validate_eval_times` accepts? -/
def valid (r : Rd α) (args : List String) : Option String := do
  match args with
  | [ep, ts] => some (showB (validTimes (← r.parse ep) (← parseList r.parse ts)))
  | _ => none

/-- `tg.mid half g` → mid-points (rows of Ω). -/
def mid (r : Rd α) (args : List String) : Option String := do
  match args with
  | [hf, g] => some (showList r.shw (midpoints (← r.parse hf) (← parseList r.parse g)))
  | _ => none
end

/-- `tg.reps r1,r2,…` → the trajectory index of every yielded SequenceData. -/
def reps (args : List String) : Option String := do
  match args with
  | [rs] =>
    let rs ← parseList String.toNat? rs
    some (showList toString (expandReps (fun (i : Nat) => i) (List.zip (List.range rs.length) rs)))
  | _ => none

/-- `tg.traj prefer n` → which noise model (`dev`/`cfg`) and how many trajectories Pulser is asked for. -/
def traj (args : List String) : Option String := do
  match args with
  | [p, n] =>
    let r := trajectoryRequest (← parseB p) "dev" "cfg" (← n.toNat?)
    some s!"{r.1} {r.2}"
  | _ => none

def handlers : List (String × (List String → Option String)) :=
  [("tg.grid", grid rdF), ("tg.gridq", grid rdQ), ("tg.merge", merge rdF), ("tg.mergeq", merge rdQ),
   ("tg.sortset", sset rdF), ("tg.pass1", p1 rdF), ("tg.pass1q", p1 rdQ), ("tg.cfg", cfg rdF),
   ("tg.intimes", intimes rdF), ("tg.call", call rdF), ("tg.callq", call rdQ),
   ("tg.run", run rdF), ("tg.runq", run rdQ), ("tg.chain", chain rdF), ("tg.chainq", chain rdQ), ("tg.valid", valid rdF), ("tg.mid", mid rdF),
   ("tg.reps", reps), ("tg.traj", traj)]

end EmuVerif.Drv.TimeGrid
