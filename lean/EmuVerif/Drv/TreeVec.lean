/-
  Line-protocol front end for `Model.TreeVec` / `Model.SvOps` / `Model.SvState`, run at
  `κ := Cx Rat` (Gaussian rationals: exact for every dyadic complex128 value).

  Encoding: a complex number is `re:im` with `re`, `im` rationals `num/den` (or integers); lists are
  comma separated (`-` = empty); a `2ⁿ`-vector is its flat list, a `2ⁿ×2ⁿ` matrix its row-major flat
  list; a 2×2 operator is 4 consecutive entries `a,b,c,d`; a phase is `nz;cos;sin`.
  Replies start with `ok ` or are `err` (where the Python code raises).
-/
import EmuVerif.Model.Scalar
import EmuVerif.Model.SvOps
import EmuVerif.Model.SvState
namespace EmuVerif.Drv.TreeVec
open EmuVerif EmuVerif.TreeVec EmuVerif.SvOps EmuVerif.SvState

abbrev K := Cx Rat

def parseC (s : String) : Option K :=
  match s.splitOn ":" with
  | [r] => (parseQ r).map (fun x => ⟨x, 0⟩)
  | [r, i] => do some ⟨← parseQ r, ← parseQ i⟩
  | _ => none

def showC (z : K) : String := s!"{showQ z.re}:{showQ z.im}"

def parseCs (s : String) : Option (List K) := parseList parseC s
def showCs (l : List K) : String := showList showC l

def fn (l : List K) : Nat → K := fun k => l.getD k 0
def fn2 (n : Nat) (l : List K) : Nat → Nat → K := fun i j => l.getD (i * n + j) 0

def parsePhase (s : String) : Option (Phase K) :=
  match s.splitOn ";" with
  | [b, c, d] => do some ⟨← parseB b, ← parseC c, ← parseC d⟩
  | _ => none

def phFn (l : List (Phase K)) : Nat → Phase K := fun k => l.getD k ⟨false, 1, 0⟩

def chunks {α : Type} (k : Nat) : Nat → List α → List (List α)
  | 0, _ => []
  | c + 1, l => l.take k :: chunks k c (l.drop k)

/-- row-major flat list → `RMat` -/
def rmatOfList (n : Nat) (l : List K) : Option (RMat K n) :=
  if l.length ≠ 2 ^ n * 2 ^ n then none
  else do
    let rows ← (chunks (2 ^ n) (2 ^ n) l).mapM (Vec.ofList n)
    Vec.ofList n rows

def rmatToList {n : Nat} (X : RMat K n) : List K := (X.toList.map Vec.toList).flatten

def m2s : List K → Option (List (M2 K))
  | [] => some []
  | a :: b :: c :: d :: rest => (m2s rest).map (⟨a, b, c, d⟩ :: ·)
  | _ => none

/-- `tv.ham forced n Ω δ phases U vec`; forced ∈ {a (as the code decides), 0 (real path), 1 (complex path)} -/
def ham (args : List String) : Option String := do
  match args with
  | [forced, n, om, de, ph, u, v] =>
    let n ← n.toNat?
    let om ← parseCs om; let de ← parseCs de; let ph ← parseList parsePhase ph; let u ← parseCs u
    let v ← parseCs v
    if om.length ≠ n || de.length ≠ n || ph.length ≠ n || u.length ≠ n * n then none
    else
      match Vec.ofList n v with
      | none => some "err"           -- `vec.view(2**k, 2, -1)` cannot be formed
      | some v =>
        let r : Vec K n :=
          if forced = "a" then hamMul (fn om) (fn de) (phFn ph) (fn2 n u) v
          else hamMulWith (forced = "1") (fn om) (fn de) (phFn ph) (fn2 n u) v
        some s!"ok {showCs r.toList}"
  | _ => none

/-- `tv.diag withDet n δ U` → `_create_diagonal()` -/
def diag (args : List String) : Option String := do
  match args with
  | [wd, n, de, u] =>
    let n ← n.toNat?
    let de ← parseCs de; let u ← parseCs u
    let d : Vec K n := createDiagonal (← parseB wd) (fn de) (fn2 n u) n
    some s!"ok {showCs d.toList}"
  | _ => none

/-- `tv.denseH n Ω δ phases U` → the dense reference, row-major -/
def denseHCmd (args : List String) : Option String := do
  match args with
  | [n, om, de, ph, u] =>
    let n ← n.toNat?
    let om ← parseCs om; let de ← parseCs de; let ph ← parseList parsePhase ph; let u ← parseCs u
    let H : Mat K n := denseH (fn om) (fn de) (phFn ph) (fn2 n u) n
    some s!"ok {showCs (rmatToList H.toRows)}"
  | _ => none

/-- `tv.bmm batched k n m x` → `matmul_2x2_with_batched(m, x.view(2**k,2,-1))` resp. `m @ x.view(...)` -/
def bmm (args : List String) : Option String := do
  match args with
  | [b, k, n, mm, x] =>
    let n ← n.toNat?; let k ← k.toNat?
    let mm ← parseCs mm; let x ← parseCs x
    match mm, Vec.ofList n x with
    | [a, b', c, d], some x =>
      if k ≥ n then some "err"
      else
        let r : Vec K n := applyLocal (← parseB b) k ⟨a, b', c, d⟩ x
        some s!"ok {showCs r.toList}"
    | _, _ => some "err"
  | _ => none

/-- `tv.lind batched n Ω δ phases U Ls ρ` → `RydbergLindbladian @ ρ`, row-major -/
def lind (args : List String) : Option String := do
  match args with
  | [b, n, om, de, ph, u, ls, rho] =>
    let n ← n.toNat?
    let om ← parseCs om; let de ← parseCs de; let ph ← parseList parsePhase ph; let u ← parseCs u
    let ls ← m2s (← parseCs ls)
    match rmatOfList n (← parseCs rho) with
    | none => some "err"
    | some ρ =>
      let r := lindMatmul (← parseB b) (fn om) (fn de) (phFn ph) (fn2 n u) ls ρ
      some s!"ok {showCs (rmatToList r)}"
  | _ => none

/-- `tv.denseLind code n Ω δ phases U Ls ρ` → dense generator applied to `ρ` (`code = 1`: the formula
valid for every input, `0`: the Hermitian-input generator), row-major -/
def denseLindCmd (args : List String) : Option String := do
  match args with
  | [c, n, om, de, ph, u, ls, rho] =>
    let n ← n.toNat?
    let om ← parseCs om; let de ← parseCs de; let ph ← parseList parsePhase ph; let u ← parseCs u
    let ls ← m2s (← parseCs ls)
    match rmatOfList n (← parseCs rho) with
    | none => some "err"
    | some ρ =>
      let R := Mat.ofRows ρ
      let r := if (← parseB c) then denseLindCode (fn om) (fn de) (phFn ph) (fn2 n u) ls R
               else denseLind (fn om) (fn de) (phFn ph) (fn2 n u) ls R
      some s!"ok {showCs (rmatToList r.toRows)}"
  | _ => none

/-! ### C12 -/

def vecOf (n : Nat) (s : String) : Option (Option (Vec K n)) := (parseCs s).map (Vec.ofList n)

def parseAmp (s : String) : Option (String × K) :=
  match s.splitOn "=" with
  | [k, v] => (parseC v).map (fun z => (k, z))
  | _ => none

/-- `sv.amps n eigenstates amps tol nrm` → `_from_state_amplitudes` (`nrm` = recorded `vector_norm`) -/
def amps (args : List String) : Option String := do
  match args with
  | [n, eig, am, tol, nrm] =>
    let n ← n.toNat?
    let am ← parseList parseAmp am
    let tol ← parseQ tol; let nrm ← parseQ nrm
    let eig := if eig = "-" then [] else eig.splitOn ","
    match (fromAmplitudes tol (fun _ => nrm) eig am : Option (Vec K n)) with
    | none => some "err"
    | some v => some s!"ok {showCs v.toList}"
  | _ => none

/-- `sv.raw n amps` → the vector before `_normalize` -/
def raw (args : List String) : Option String := do
  match args with
  | [n, am] =>
    let n ← n.toNat?
    let am ← parseList parseAmp am
    match (rawAmplitudes n am : Option (Vec K n)) with
    | none => some "err"
    | some v => some s!"ok {showCs v.toList}"
  | _ => none

/-- `sv.lin n c a b` → `inner(a,b)`, `|inner|²`, `Σ|a|²`, then `c*a + b` -/
def lin (args : List String) : Option String := do
  match args with
  | [n, c, a, b] =>
    let n ← n.toNat?
    let c ← parseC c
    match ← vecOf n a, ← vecOf n b with
    | some a, some b =>
      let r : Vec K n := c • a + b
      some s!"ok {showC (Vec.vdot a b)},{showC ⟨overlap a b, 0⟩},{showC ⟨normSqV a, 0⟩},{showCs r.toList}"
    | _, _ => some "err"
  | _ => none

/-- `op.alg n A B v` → `A @ v`, `expect(A, v)`, then `A @ B` (row-major) -/
def opAlg (args : List String) : Option String := do
  match args with
  | [n, a, b, v] =>
    let n ← n.toNat?
    match rmatOfList n (← parseCs a), rmatOfList n (← parseCs b), ← vecOf n v with
    | some A, some B, some v =>
      some s!"ok {showCs (applyTo A v).toList},{showC (expect A v)},{showCs (rmatToList (rmatMul A B))}"
    | _, _, _ => some "err"
  | _ => none

/-- `dm.fromsv n ψ φ` → `from_state_vector(ψ)` row-major, then `overlap(ρ_ψ, ρ_φ)`, then `trace(ρ_ψ)` -/
def dmFromSv (args : List String) : Option String := do
  match args with
  | [n, a, b] =>
    let n ← n.toNat?
    match ← vecOf n a, ← vecOf n b with
    | some a, some b =>
      let ρ := fromStateVector a
      some s!"ok {showCs (rmatToList ρ)},{showC (dmOverlap ρ (fromStateVector b))},{showC (rtrace ρ)}"
    | _, _ => some "err"
  | _ => none

def parseSym (s : String) : Option (Sym K) :=
  if s.startsWith "T" then
    match parseCs (s.drop 1).toString with
    | some [a, b, c, d] => some (.tensor ⟨a, b, c, d⟩)
    | _ => none
  else if s.startsWith "E" then
    let body := (s.drop 1).toString
    if body = "" then some (.expr []) else (body.splitOn "+").mapM parseAmp |>.map .expr
  else none

def parseFactor (s : String) : Option (Sym K × List Int) :=
  match s.splitOn "~" with
  | [sy, ts] => do
    let sy ← parseSym sy
    let ts ← if ts = "" then some [] else (ts.splitOn ".").mapM String.toInt?
    some (sy, ts)
  | _ => none

def parseTerm (s : String) : Option (K × List (Sym K × List Int)) :=
  match s.splitOn "@" with
  | [c, fs] => do
    let c ← parseC c
    let fs ← if fs = "" then some [] else (fs.splitOn "&").mapM parseFactor
    some (c, fs)
  | _ => none

def parseOps (s : String) : Option (List (K × List (Sym K × List Int))) :=
  if s = "-" then some [] else (s.splitOn "|").mapM parseTerm

def showCoo (l : Coo K) : String := showList (fun e => s!"{e.1};{e.2.1};{showC e.2.2}") l

def parseCoo (s : String) : Option (Coo K) :=
  parseList (fun t => match t.splitOn ";" with
    | [r, c, v] => do some (← r.toNat?, ← c.toNat?, ← parseC v)
    | _ => none) s

/-- `op.repr n ops` → dense `_from_operator_repr`, row-major -/
def opRepr (args : List String) : Option String := do
  match args with
  | [n, ops] =>
    let n ← n.toNat?
    match (fromOperatorRepr basisTable 4 n (← parseOps ops) : Option (Mat K n)) with
    | none => some "err"
    | some A => some s!"ok {showCs (rmatToList A.toRows)}"
  | _ => none

/-- `op.reprs n ops` → sparse `_from_operator_repr`: coalesced `(row;col;value)` entries -/
def opReprS (args : List String) : Option String := do
  match args with
  | [n, ops] =>
    let n ← n.toNat?
    match (fromOperatorReprS basisTable 4 n (← parseOps ops) : Option (Coo K)) with
    | none => some "err"
    | some l => some s!"ok {showCoo (coalesce l)}"
  | _ => none

/-- `sp.kron sbr sbc a b` / `sp.add a b` → coalesced entries -/
def spKron (args : List String) : Option String := do
  match args with
  | [sbr, sbc, a, b] =>
    some s!"ok {showCoo (coalesce (sparseKron (← sbr.toNat?) (← sbc.toNat?) (← parseCoo a) (← parseCoo b)))}"
  | _ => none

def spAdd (args : List String) : Option String := do
  match args with
  | [a, b] => some s!"ok {showCoo (sparseAdd (← parseCoo a) (← parseCoo b))}"
  | _ => none

/-- `sv.bits s` → `int(s.replace("r","1").replace("g","0"), 2)` -/
def bits (args : List String) : Option String :=
  match args with
  | [s] => some (match binToInt s with | none => "err" | some k => s!"ok {k}")
  | _ => none

def handlers : List (String × (List String → Option String)) :=
  [("tv.ham", ham), ("tv.diag", diag), ("tv.denseH", denseHCmd), ("tv.bmm", bmm), ("tv.lind", lind),
   ("tv.denseLind", denseLindCmd), ("sv.amps", amps), ("sv.raw", raw), ("sv.lin", lin), ("op.alg", opAlg),
   ("dm.fromsv", dmFromSv), ("op.repr", opRepr), ("op.reprs", opReprS), ("sp.kron", spKron), ("sp.add", spAdd),
   ("sv.bits", bits)]

end EmuVerif.Drv.TreeVec
