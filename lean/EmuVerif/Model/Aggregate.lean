/-
  Model of the multi-trajectory bookkeeping:

  * `emu_base/pulser_adapter.py:PulserData.get_sequences` — the generator walks
    `hamiltonian.noisy_samples` (a list of `(trajectory, samples, reps)`), builds the drive
    tensors once per entry and yields one `SequenceData` `reps` times (`for _ in range(reps)`);
  * `emu_mps/mps_backend.py:MPSBackend.run` and `emu_sv/sv_backend.py:SVBackend.run` — the same
    loop in both back-ends: `results = []; for sd in get_sequences(): results.append(run(sd))`,
    then `Results.aggregate(results)`;
  * the part of Pulser's `Results.aggregate` that is pure counting: 0 results raise, 1 result is
    returned as is, `BitStrings` counters are joined (`Counter` sum).

  Pure `Nat`/`Int`/`List` — no scalars. The per-trajectory simulation is a parameter
  (`run : S → σ → ρ × S`, state = RNG / anything the back-end mutates).
-/
namespace EmuVerif.Aggregate

/-- `for s in noisy_samples: for _ in range(s.reps): yield f(s)` — `range` of a negative
number is empty, hence `toNat`. -/
def expand {σ : Type} (l : List (σ × Int)) : List σ :=
  match l with
  | [] => []
  | (s, r) :: rest => List.replicate r.toNat s ++ expand rest

/-- The same on indices: which `noisy_samples` entry each yielded `SequenceData` comes from. -/
def expandIdx (reps : List Int) : List Nat := expand (List.zipIdx reps |>.map (fun (r, k) => (k, r)))

/-- The `run()` loop with the list being appended to; `st` is whatever
`_run_from_sequence_data` mutates between trajectories. -/
def runLoop {S σ ρ : Type} (run : S → σ → ρ × S) : S → List σ → List ρ → List ρ × S
  | st, [], acc => (acc, st)
  | st, sd :: rest, acc =>
    let (r, st') := run st sd
    runLoop run st' rest (acc ++ [r])

/-- `run()` up to the call of `Results.aggregate`: the list that is handed over. -/
def handedToAggregate {S σ ρ : Type} (run : S → σ → ρ × S) (st : S) (samples : List (σ × Int)) :
    List ρ :=
  (runLoop run st (expand samples) []).1

/-- Shape of `Results.aggregate`: `none` = `ValueError("No results to aggregate.")`, a single
result is returned unchanged, otherwise the combining function (Pulser code — contract). -/
def aggregate {ρ : Type} (combine : List ρ → ρ) : List ρ → Option ρ
  | [] => none
  | [r] => some r
  | rs => some (combine rs)

/-- A `collections.Counter` of bitstrings as an association list with distinct keys. -/
abbrev Counter := List (String × Nat)

def Counter.total (c : Counter) : Nat := (c.map (·.2)).sum

def Counter.get (c : Counter) (k : String) : Nat :=
  match c.lookup k with
  | some v => v
  | none => 0

/-- `c[k] += v` -/
def Counter.bump (c : Counter) (k : String) (v : Nat) : Counter :=
  match c with
  | [] => [(k, v)]
  | (k', v') :: rest => if k' = k then (k', v' + v) :: rest else (k', v') :: Counter.bump rest k v

/-- `a + b` for Counters (all counts here are positive, so nothing is dropped). -/
def Counter.add (a b : Counter) : Counter := b.foldl (fun acc kv => Counter.bump acc kv.1 kv.2) a

/-- `sum(counters, Counter())` — the BAG_UNION aggregator. -/
def bagUnion (cs : List Counter) : Counter := cs.foldl Counter.add []

end EmuVerif.Aggregate
