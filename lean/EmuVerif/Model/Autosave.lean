/-
  Model of the autosave / resume glue of emu-mps:

    * `MPSBackendImpl.save_simulation`            (emu_mps/mps_backend_impl.py)
    * `MPSBackend._run`, `MPSBackend.resume`,
      `MPSBackend._run_from_sequence_data`        (emu_mps/mps_backend.py)

  File system = the three names the code ever touches (`<uuid>.dat` = `base`, `.new`, `.bak`),
  each `absent | partial | complete v` where `v` is the pickled snapshot. `save_simulation` is a
  list of primitive operations; a crash stops after any prefix of the list, or inside the
  (non-atomic) write. The numerical work of a run is an abstract deterministic
  `progress : σ → σ` with `finished`; the post-processing is `post` (= `permute_results`).
  No Mathlib; everything is executable (driver: `Drv/Autosave.lean`).
-/
namespace EmuVerif.Autosave

/-! ### File system -/

inductive FileSt (σ : Type) where
  | absent
  | part               -- "partial": exists; what is on disk is only guaranteed to be a prefix of a pickle
                       -- (torn write, or bytes still sitting in the process' write buffer)
  | complete (v : σ)   -- exists, closed, `pickle.load` gives back snapshot `v`
  deriving DecidableEq, Repr

inductive Name where
  | base | new | bak
  deriving DecidableEq, Repr

structure FS (σ : Type) where
  base : FileSt σ
  new : FileSt σ
  bak : FileSt σ
  deriving DecidableEq, Repr

variable {σ : Type}

def FileSt.present : FileSt σ → Bool
  | .absent => false
  | _ => true

def FS.get (fs : FS σ) : Name → FileSt σ
  | .base => fs.base
  | .new => fs.new
  | .bak => fs.bak

def FS.set (fs : FS σ) (n : Name) (x : FileSt σ) : FS σ :=
  match n with
  | .base => { fs with base := x }
  | .new => { fs with new := x }
  | .bak => { fs with bak := x }

def FS.empty : FS σ := ⟨.absent, .absent, .absent⟩

/-- Primitive operations issued by `save_simulation` / `_run`. -/
inductive Op (σ : Type) where
  | openW (n : Name)              -- `open(n, "wb")`: creates / truncates
  | write (n : Name) (v : σ)      -- `pickle.dump(self, fh)`: NOT atomic, and BUFFERED: on return the disk holds a prefix
  | close (n : Name) (v : σ)      -- leaving the `with` block: flush + close of the handle whose file is now named `n`
  | replace (src dst : Name)      -- `os.replace(src, dst)`: atomic, overwrites
  | rename (src dst : Name)       -- `os.rename(src, dst)` (POSIX: atomic, overwrites)
  | remove (n : Name)             -- `os.remove(n)`
  deriving DecidableEq, Repr

/-- Move `src` over `dst`. `none` = Python raises `FileNotFoundError`, nothing changes. -/
def move (fs : FS σ) (src dst : Name) : Option (FS σ) :=
  match fs.get src with
  | .absent => none
  | x => if src = dst then some fs else some ((fs.set dst x).set src .absent)

/-- Effect of a *completed* operation; `none` = the call raises and the state is unchanged. -/
def applyOp (fs : FS σ) : Op σ → Option (FS σ)
  | .openW n => some (fs.set n .part)
  | .write n _ =>
    match fs.get n with
    | .absent => none
    | _ => some (fs.set n .part)
  | .close n v =>
    match fs.get n with
    | .absent => none
    | _ => some (fs.set n (.complete v))
  | .replace s d => move fs s d
  | .rename s d => move fs s d
  | .remove n =>
    match fs.get n with
    | .absent => none
    | _ => some (fs.set n .absent)

/-- States visible if the process dies *inside* an operation (only the write is not atomic:
any strict prefix of the bytes). -/
def midStates (fs : FS σ) : Op σ → List (FS σ)
  | .write n _ => [fs.set n .part]
  | _ => []

/-- Run the operations in order; an operation that raises aborts the rest (exception propagates). -/
def runOps (fs : FS σ) : List (Op σ) → FS σ
  | [] => fs
  | op :: ops =>
    match applyOp fs op with
    | some fs' => runOps fs' ops
    | none => fs

/-- Every file-system state in which a crash during `ops` can leave the directory: before the first
operation, inside a write, after each completed operation. Semantics = *process kill* (SIGKILL,
`os._exit`, power loss to the process): nothing else runs, in particular the write buffer of an open
handle is lost (that is why `write` leaves `part` and only `close` makes the file `complete`). An
exception is milder: unwinding leaves the `with` block, which flushes. -/
def crashStates (fs : FS σ) : List (Op σ) → List (FS σ)
  | [] => [fs]
  | op :: ops =>
    fs :: (midStates fs op ++
      (match applyOp fs op with
       | some fs' => crashStates fs' ops
       | none => []))

/-- The same list with labels (`b k` = before operation `k`, `m k` = inside operation `k`);
`b ops.length` is the state after everything completed. Used by the driver. -/
def crashStatesL (fs : FS σ) (k : Nat) : List (Op σ) → List (String × FS σ)
  | [] => [(s!"b{k}", fs)]
  | op :: ops =>
    (s!"b{k}", fs) :: ((midStates fs op).map (fun s => (s!"m{k}", s)) ++
      (match applyOp fs op with
       | some fs' => crashStatesL fs' (k + 1) ops
       | none => []))

/-! ### `save_simulation`, the file part -/

/-- Current code: `with open(.new,"wb") as fh: pickle.dump(self, fh)`; `os.replace(.new, base)`:
the handle is flushed and closed (end of the `with` block) BEFORE the rename. -/
def saveNew (w : σ) : List (Op σ) :=
  [.openW .new, .write .new w, .close .new w, .replace .new .base]

/-- Variant with the rename inside the `with` block (`os.replace` indented one level too deep): the
rename happens while the handle is open; the flush then goes into the inode now called `base`. -/
def saveEarlyReplace (w : σ) : List (Op σ) :=
  [.openW .new, .write .new w, .replace .new .base, .close .base w]

/-- Exception-style crash: a Python exception raised at the point where `ops` was interrupted
propagates; every state a kill could leave is a state the exception can leave (the `with` block only
closes the handle: a truncated file stays truncated), and then the handler `cleanup` (a `finally:`
clause) runs on that directory (its first failing operation raises and ends it). -/
def unwindStates (fs : FS σ) (ops cleanup : List (Op σ)) : List (FS σ) :=
  (crashStates fs ops).map (fun s => runOps s cleanup)

def unwindStatesL (fs : FS σ) (ops cleanup : List (Op σ)) : List (String × FS σ) :=
  (crashStatesL fs 0 ops).map (fun (l, s) => (l, runOps s cleanup))

/-- Variant `try: with open(.new) …: dump  finally: os.replace(.new, base)`: protected body and
handler. Its undisturbed path is `saveNew`. -/
def finallyBody (w : σ) : List (Op σ) := [.openW .new, .write .new w, .close .new w]
def finallyCleanup : List (Op σ) := [.replace .new .base]

/-- `save_simulation` of a back-end resumed from a file whose suffix is already `.new`:
`basename.with_suffix(".new") == basename`, all four operations act on the advertised file. -/
def saveAliased (w : σ) : List (Op σ) :=
  [.openW .base, .write .base w, .close .base w, .replace .base .base]

/-- Directory at the moment `os.replace(.new, base)` is REFUSED (raises `OSError`/`PermissionError` without
doing anything): the temporary file is written and closed. The current code lets the error propagate. -/
def refusedAt (fs : FS σ) (w : σ) : FS σ :=
  runOps fs [.openW .new, .write .new w, .close .new w]

/-- Variant with a "portability" fallback `except OSError: shutil.copyfile(.new, base); os.remove(.new)`:
operations issued after the refusal — the copy truncates and rewrites the advertised file in place. -/
def copyFallback (w : σ) : List (Op σ) :=
  [.openW .base, .write .base w, .close .base w, .remove .new]

/-- The code before commit 3262c67: write `.new`; `if base.is_file(): rename(base, .bak)`;
`rename(.new, base)`; `if .bak.is_file(): remove(.bak)`. The two `is_file()` tests are resolved
from the directory state at entry (`.bak` exists afterwards iff `base` or `.bak` existed). -/
def saveOld (fs : FS σ) (w : σ) : List (Op σ) :=
  [.openW .new, .write .new w, .close .new w]
    ++ (if fs.base.present then [.rename .base .bak] else [])
    ++ [.rename .new .base]
    ++ (if fs.base.present || fs.bak.present then [.remove .bak] else [])

inductive Variant where
  | current | threeStep | earlyReplace
  deriving DecidableEq, Repr

def saveOps (var : Variant) (fs : FS σ) (w : σ) : List (Op σ) :=
  match var with
  | .current => saveNew w
  | .threeStep => saveOld fs w
  | .earlyReplace => saveEarlyReplace w

/-- Directory after a sequence of completed autosaves of the snapshots `vs` (current code). -/
def afterSaves (fs : FS σ) (vs : List σ) : FS σ :=
  vs.foldl (fun fs v => runOps fs (saveNew v)) fs

/-- First half of `MPSBackend.resume`: `is_file()` + `pickle.load`. `none` = it raises
(`ValueError: Not a file` / `UnpicklingError` / `EOFError`). -/
def load (fs : FS σ) : Option σ :=
  match fs.base with
  | .complete v => some v
  | _ => none

/-- End of `_run`: `if autosave_file.is_file(): os.remove(autosave_file)`. -/
def finalOps (fs : FS σ) : List (Op σ) :=
  if fs.base.present then [.remove .base] else []

/-! ### The run loop -/

/-- What the glue code sees of a back-end implementation. `σ` = everything that is pickled
(MPS, baths, sweep position, time-step index, root finder, results so far, permutation, …),
`ρ` = the `Results` object. -/
structure Machine (σ ρ : Type) where
  progress : σ → σ
  finished : σ → Bool
  results : σ → ρ
  /-- `impl.permute_results(result, config.optimize_qubit_ordering)` -/
  post : σ → ρ → ρ

variable {ρ : Type}

def iter (f : σ → σ) : Nat → σ → σ
  | 0, s => s
  | n + 1, s => iter f n (f s)

/-- `while not impl.is_finished(): impl.progress()`; `none` = out of fuel. -/
def loop (M : Machine σ ρ) : Nat → σ → Option σ
  | 0, s => if M.finished s then some s else none
  | fuel + 1, s => if M.finished s then some s else loop M fuel (M.progress s)

/-- `_run_from_sequence_data` from the initialised state: `_run` then `permute_results`. -/
def run (M : Machine σ ρ) (fuel : Nat) (s0 : σ) : Option ρ :=
  (loop M fuel s0).map (fun s => M.post s (M.results s))

/-- `MPSBackend.resume` (current code) from the unpickled snapshot: `_run` then `permute_results`. -/
def resume (M : Machine σ ρ) (fuel : Nat) (snap : σ) : Option ρ :=
  (loop M fuel snap).map (fun s => M.post s (M.results s))

/-- `MPSBackend.resume` before commit ae5e263: `return MPSBackend._run(impl)`. -/
def resumeAsFound (M : Machine σ ρ) (fuel : Nat) (snap : σ) : Option ρ :=
  (loop M fuel snap).map (fun s => M.results s)

/-- `resume` from the directory: load, then run. -/
def resumeFS (M : Machine σ ρ) (fuel : Nat) (fs : FS σ) : Option ρ :=
  (load fs).bind (resume M fuel)

/-! ### The run loop together with the clock and the directory -/

/-- The part of the process that is not the numerical state: `last_save_time`. -/
structure Proc (σ : Type) where
  st : σ
  last : Int

/-- Guard of `save_simulation`: `if self.last_save_time > time.time() - autosave_dt: return`. -/
def saveDue (last now dt : Int) : Bool := !decide (last > now - dt)

/-- One `progress()` call of the real code under clock reading `now`: the numerical step, then
`save_simulation`. Returns the new process and the file operations issued. -/
def progressW (M : Machine σ ρ) (dt now : Int) (p : Proc σ) : Proc σ × List (Op σ) :=
  let s' := M.progress p.st
  if saveDue p.last now dt then ({ st := s', last := now }, saveNew s')
  else ({ st := s', last := p.last }, [])

/-- `_run` with one clock reading per `progress` call: returns the final state and the whole
sequence of file operations of the loop (without the final remove). `none` = clock exhausted. -/
def runTrace (M : Machine σ ρ) (dt : Int) : List Int → Proc σ → Option (σ × List (Op σ))
  | [], p => if M.finished p.st then some (p.st, []) else none
  | now :: clock, p =>
    if M.finished p.st then some (p.st, [])
    else
      let (p', ops) := progressW M dt now p
      match runTrace M dt clock p' with
      | some (s, rest) => some (s, ops ++ rest)
      | none => none

/-- A whole `_run` + `permute_results` on a directory: results and final directory. -/
def runW (M : Machine σ ρ) (dt : Int) (clock : List Int) (p : Proc σ) (fs : FS σ) :
    Option (ρ × FS σ) :=
  match runTrace M dt clock p with
  | none => none
  | some (s, ops) =>
    let fs1 := runOps fs ops
    some (M.post s (M.results s), runOps fs1 (finalOps fs1))

/-- `MPSBackend.resume(base)` on a directory at clock reading `now0`. -/
def resumeW (M : Machine σ ρ) (dt : Int) (now0 : Int) (clock : List Int) (fs : FS σ) :
    Option (ρ × FS σ) :=
  match load fs with
  | none => none
  | some v => runW M dt clock { st := v, last := now0 } fs

/-! ### Noisy runs: `progress` draws from an RNG that is *not* part of the pickle -/

/-- `n` steps of a monadic `progress` (`StateM tape` = explicit RNG tape, `PMF` = law). -/
def iterM {m : Type → Type} [Monad m] (f : σ → m σ) : Nat → σ → m σ
  | 0, s => pure s
  | n + 1, s => f s >>= iterM f n

/-- The real `progress` starts with `if self.is_finished(): return`. -/
def stepM {m : Type → Type} [Monad m] (finished : σ → Bool) (f : σ → m σ) (s : σ) : m σ :=
  if finished s then pure s else f s

/-- Deterministic-given-the-tape progress: consumes a prefix of the tape. -/
abbrev TapeStep (τ σ : Type) := σ → StateM (List τ) σ

/-- `fuel` progress calls from `s` reading the RNG tape `t`: final state and unread tape. -/
def runTape {τ : Type} (finished : σ → Bool) (f : TapeStep τ σ) (fuel : Nat) (s : σ)
    (t : List τ) : σ × List τ :=
  (iterM (stepM finished f) fuel s).run t

end EmuVerif.Autosave
