/-
  Model of `emu_mps/optimatrix/optimiser.py`: `is_symmetric`, `matrix_bandwidth`,
  `minimize_bandwidth_global` (90 thresholds, `min` by key, first minimum wins),
  `minimize_bandwidth_impl` (accept-only-strict-improvement loop with accumulated
  permutation, 100-step guard) and `minimize_bandwidth` (identity start + `samples` random
  restarts, `min` by bandwidth, final assert), statement by statement, polymorphic in the scalar.

  Oracles (not modelled, consumed from tapes, contract "returns a permutation of 0..n-1"):
    * `minimize_bandwidth_above_threshold` = thresholding + SciPy `reverse_cuthill_mckee`:
      one tape entry per call, `nThr` calls per `minimize_bandwidth_global`;
    * `torch.randperm(L)`: one entry per restart.
  A tape entry that is not a permutation of `0..n-1` ends the run with `IErr.contract`
  (outside the contract nothing is claimed); an exhausted tape with `IErr.tape`.
-/
import EmuVerif.Model.Scalar
import EmuVerif.Model.Perm

namespace EmuVerif.Bandwidth
open EmuVerif EmuVerif.Perm

variable {α : Type} [Add α] [Sub α] [Mul α] [Neg α] [LT α] [DecidableLT α]
  [LE α] [DecidableLE α] [OfNat α 0] [IntCast α]

abbrev Mat (α : Type) := List (List α)

/-- What can end a run below the top level. -/
inductive IErr where
  | emptyMax       -- `torch.max` of an empty tensor (RuntimeError)
  | tape           -- oracle tape exhausted (harness error, never a verdict)
  | contract       -- an oracle answer is not a permutation of 0..n-1
  | tooManySteps   -- `NotImplementedError("The algorithm takes too many steps…")`
  deriving DecidableEq, Repr

inductive Err where
  | shape          -- not a square 2-D tensor (outside the modelled domain)
  | notSymmetric   -- `assert is_symmetric(input_matrix)`
  | inner (e : IErr)
  | notOptimised   -- `assert best_bandwidth <= matrix_bandwidth(input_matrix)`
  deriving DecidableEq, Repr

/-- `abs(mat[i, j] * (j - i))`. -/
def weight (i j : Nat) (m : α) : α := absv (m * (((j : Int) - (i : Int) : Int) : α))

def weightRow (i : Nat) (row : List α) : List α :=
  row.zipIdx.map (fun mj => weight i mj.2 mj.1)

/-- All entries of `torch.abs(mat * (j_arr - i_arr))`, row-major. -/
def weights (m : Mat α) : List α :=
  (m.zipIdx.map (fun ri => weightRow ri.2 ri.1)).flatten

/-- `torch.max` of a flat tensor; `none` on an empty one. -/
def maxOf : List α → Option α
  | [] => none
  | x :: xs => some (xs.foldl pmax x)

/-- `matrix_bandwidth`. -/
def matrixBandwidth (m : Mat α) : Option α := maxOf (weights m)

def absMat (m : Mat α) : Mat α := m.map (fun row => row.map absv)

/-- `torch.isclose(a, b, rtol, atol)` on finite scalars: `|a − b| ≤ atol + |rtol·b|`. -/
def isClose (atol rtol a b : α) : Bool := decide (absv (a - b) ≤ atol + absv (rtol * b))

/-- `is_symmetric`: `torch.allclose(matrix, matrix.T, atol=tol)` (rtol = 1e-5) on a square matrix. -/
def isSymmetric (atol rtol : α) (m : Mat α) : Bool :=
  m.zipIdx.all (fun ri => ri.1.zipIdx.all (fun aj =>
    match m[aj.2]? with
    | none => false
    | some r => match r[ri.2]? with
      | none => false
      | some b => isClose atol rtol aj.1 b))

/-- Bandwidth of `permute_tensor(mat, perm)` — the `key` of `min` in `minimize_bandwidth_global`. -/
def bwOf (m : Mat α) (p : List Nat) : Option α := matrixBandwidth (permuteMatT m p)

/-- Python's `min(candidates, key=…)` continued from a current best `(b, kb)`:
a later candidate replaces the best only if its key is strictly smaller. -/
def scanMin (m : Mat α) : List Nat → α → List (List Nat) → Except IErr (List Nat × α)
  | b, kb, [] => .ok (b, kb)
  | b, kb, c :: cs =>
    match bwOf m c with
    | none => .error .emptyMax
    | some k => if k < kb then scanMin m c k cs else scanMin m b kb cs

/-- `minimize_bandwidth_global` given the oracle answers for its thresholds
(`min` of an empty sequence raises `ValueError`: reported as `Err.tape`, `nThr = 0` is not a run
of the code). Returns the chosen permutation and the bandwidth it gives. -/
def globalStep (m : Mat α) : List (List Nat) → Except IErr (List Nat × α)
  | [] => .error .tape
  | c :: cs =>
    match bwOf m c with
    | none => .error .emptyMax
    | some k => scanMin m c k cs

/-- Take the next `k` oracle answers; all must be permutations of `0..n-1`. -/
def takeChunk (n k : Nat) (tape : List (List Nat)) : Except IErr (List (List Nat) × List (List Nat)) :=
  if tape.length < k then .error .tape
  else if !(tape.take k).all (isPermOf n) then .error .contract
  else .ok (tape.take k, tape.drop k)

/-- The `for counter in range(101)` loop of `minimize_bandwidth_impl`; `fuel` = iterations left
before `counter == 100`. State: current matrix, accumulated permutation, current bandwidth. -/
def implLoop (nThr n : Nat) : Nat → Mat α → List Nat → α → List (List Nat) →
    Except IErr (List Nat × α × List (List Nat))
  | 0, _, _, _, _ => .error .tooManySteps
  | fuel + 1, m, acc, bw, tape =>
    match takeChunk n nThr tape with
    | .error e => .error e
    | .ok (cands, tape') =>
      match globalStep m cands with
      | .error e => .error e
      | .ok (opt, _) =>
        let test := permuteMatT m opt
        match matrixBandwidth test with
        | none => .error .emptyMax
        | some newBw =>
          if bw ≤ newBw then .ok (acc, bw, tape')
          else implLoop nThr n fuel test (gatherT acc opt) newBw tape'

/-- `minimize_bandwidth_impl(matrix, initial_perm)` (+ the unread rest of the oracle tape). -/
def minimizeBandwidthImpl (nThr : Nat) (m : Mat α) (init : List Nat) (tape : List (List Nat)) :
    Except IErr (List Nat × α × List (List Nat)) :=
  let n := m.length
  let m0 := if init = List.range n then m else permuteMatT m init
  match matrixBandwidth m0 with
  | none => .error .emptyMax
  | some bw => implLoop nThr n 100 m0 init bw tape

/-- The lazy `min(…, key=bandwidth)` over the restarts, continued from a current best. -/
def runStarts (nThr : Nat) (m : Mat α) : List (List Nat) → List (List Nat) → List Nat → α →
    Except IErr (List Nat × α)
  | [], _, b, kb => .ok (b, kb)
  | s :: ss, tape, b, kb =>
    match minimizeBandwidthImpl nThr m s tape with
    | .error e => .error e
    | .ok (p, bw, tape') =>
      if bw < kb then runStarts nThr m ss tape' p bw else runStarts nThr m ss tape' b kb

/-- The lazy `min` over identity start + restarts. -/
def chooseBest (nThr : Nat) (a : Mat α) (starts tape : List (List Nat)) :
    Except IErr (List Nat × α) :=
  match minimizeBandwidthImpl nThr a (List.range a.length) tape with
  | .error e => .error e
  | .ok (p0, bw0, tape0) => runStarts nThr a starts tape0 p0 bw0

/-- `assert best_bandwidth <= matrix_bandwidth(input_matrix); return best_perm`. -/
def finalAssert (m : Mat α) (r : List Nat × α) : Except Err (List Nat) :=
  match matrixBandwidth m with
  | none => .error (.inner .emptyMax)
  | some orig => if r.2 ≤ orig then .ok r.1 else .error .notOptimised

/-- `minimize_bandwidth(input_matrix, samples)`. Remark (purity): `absMat m` is a *new* value — the model
cannot express `input_matrix.abs_()` (in-place) vs `torch.abs(input_matrix)`; that the real functions
leave their argument tensors bit-identical is checked on every call by harness/props/c32.py and, end to
end on `SequenceData.interaction_matrix`, by c03.py. `rnd` = the answers of `torch.randperm`,
`tape` = the answers of `minimize_bandwidth_above_threshold`, in call order. -/
def minimizeBandwidth (atol rtol : α) (nThr samples : Nat) (m : Mat α)
    (rnd tape : List (List Nat)) : Except Err (List Nat) :=
  if !isSquare m then .error .shape
  else if !isSymmetric atol rtol m then .error .notSymmetric
  else if rnd.length < samples then .error (.inner .tape)
  else if !(rnd.take samples).all (isPermOf m.length) then .error (.inner .contract)
  else
    match chooseBest nThr (absMat m) (rnd.take samples) tape with
    | .error e => .error (.inner e)
    | .ok r => finalAssert m r

end EmuVerif.Bandwidth
