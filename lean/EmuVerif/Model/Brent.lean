/-
  Model of `emu_base/math/brents_root_finding.py`
  (`BrentsRootFinder.{__init__, get_next_abscissa, provide_ordinate, is_converged}` and
  `find_root_brents`), statement by statement, polymorphic in the scalar.
-/
import EmuVerif.Model.Scalar

namespace EmuVerif.Brent

variable {α : Type} [Add α] [Sub α] [Mul α] [Div α] [Neg α] [LT α] [DecidableLT α]
  [LE α] [DecidableLE α] [OfNat α 0] [OfNat α 1] [OfNat α 2] [OfNat α 3] [OfNat α 4]

/-- Fields of `BrentsRootFinder` (`current_guess` is always `b`). -/
structure St (α : Type) where
  eps : α
  a : α
  b : α
  fa : α
  fb : α
  c : α
  d : α
  fc : α
  bisection : Bool
  next : Option α

/-- "b has to be the better guess": swap when `abs(fa) < abs(fb)`. -/
def swapIfNeeded (s : St α) : St α :=
  if absv s.fa < absv s.fb then { s with a := s.b, b := s.a, fa := s.fb, fb := s.fa } else s

/-- `_opposite_signs(x, y)`: `(x < 0 < y) or (y < 0 < x)` — the sign test that replaced `x * y < 0`
(whose product underflows in binary64 when both ordinates are tiny). -/
def oppSign (x y : α) : Bool :=
  (decide (x < 0) && decide (0 < y)) || (decide (y < 0) && decide (0 < x))

/-- `__init__`; `none` = one of the two `assert`s fails. -/
def init (start stop fStart fEnd eps : α) : Option (St α) :=
  if ¬ (start ≤ stop) then none
  else if ¬ (oppSign fStart fEnd = true) then none
  else
    let s0 : St α := { eps := eps, a := start, b := stop, fa := fStart, fb := fEnd,
                       c := start, d := start, fc := fStart, bisection := true, next := none }
    let s1 := swapIfNeeded s0
    some { s1 with c := s1.a, d := s1.a, fc := s1.fa }

/-- Does the code take the secant branch? -/
def useSecant (s : St α) : Bool :=
  decide (absv (s.fc - s.fa) < s.eps) || decide (absv (s.fc - s.fb) < s.eps)

def secantDx (s : St α) : α := s.fb * (s.b - s.a) / (s.fa - s.fb)

def iqiDx (s : St α) : α :=
  let sv := s.fb / s.fa
  let r := s.fb / s.fc
  let t := s.fa / s.fc
  let q := (t - 1) * (sv - 1) * (r - 1)
  let p := sv * (t * (r - t) * (s.c - s.b) + (r - 1) * (s.b - s.a))
  p / q

/-- `x == 0.0` without asking for `BEq` (models never see NaN: generators exclude it). -/
def isZero (x : α) : Bool := !decide (x < 0) && !decide (0 < x)

/-- Would Python raise `ZeroDivisionError` in `get_next_abscissa`? (Lean's `x / 0` is total,
Python's is not; the driver reports `zerodiv` instead of continuing.) -/
def divZero (s : St α) : Bool :=
  if useSecant s then isZero (s.fa - s.fb)
  else
    isZero s.fa || isZero s.fc ||
      isZero ((s.fa / s.fc - 1) * (s.fb / s.fa - 1) * (s.fb / s.fc - 1))

def interpDx (s : St α) : α := if useSecant s then secantDx s else iqiDx s

/-- The five-clause test that rejects the interpolated step. -/
def useBisect5 (s : St α) (dx : α) : Bool :=
  let delta := absv (2 * s.eps * s.b)
  let adx := absv dx
  let deltaBC := absv (s.b - s.c)
  let deltaCD := absv (s.c - s.d)
  let deltaAB := s.a - s.b
  (decide (adx ≥ absv (3 * deltaAB / 4)) || decide (dx * deltaAB < 0))
  || (s.bisection && decide (adx ≥ deltaBC / 2))
  || (!s.bisection && decide (adx ≥ deltaCD / 2))
  || (s.bisection && decide (deltaBC < delta))
  || (!s.bisection && decide (deltaCD < delta))

/-- `math.isnan(dx)`: the only binary64 value that is not `≤` itself (never true in an ordered field). -/
def isNan (dx : α) : Bool := !decide (dx ≤ dx)

/-- The whole test of `get_next_abscissa`: a NaN interpolation (overflow) or one of the five clauses. -/
def useBisect (s : St α) (dx : α) : Bool := isNan dx || useBisect5 s dx

/-- The step actually taken from `b`. -/
def stepDx (s : St α) : α :=
  let dx := interpDx s
  if useBisect s dx then (s.a - s.b) / 2 else dx

/-- `get_next_abscissa`: returns the new state and the abscissa. -/
def getNext (s : St α) : St α × α :=
  let dx := interpDx s
  let bis := useBisect s dx
  let x := s.b + (if bis then (s.a - s.b) / 2 else dx)
  ({ s with bisection := bis, next := some x, d := s.c, c := s.b, fc := s.fb }, x)

/-- Interval update of `provide_ordinate` (before the swap). -/
def updateInterval (s : St α) (x y : α) : St α :=
  if oppSign s.fa y then { s with b := x, fb := y } else { s with a := x, fa := y }

/-- `provide_ordinate` (the equality assert is on the caller side: the model is always
called with the abscissa it handed out). -/
def provide (s : St α) (x y : α) : St α := swapIfNeeded (updateInterval s x y)

def isConverged (s : St α) (tol : α) : Bool := decide (absv (s.b - s.a) < tol)

/-- One iteration of the loop of `find_root_brents`, with the ordinate supplied by the
environment. -/
def iter (s : St α) (y : α → α) : St α :=
  let (s', x) := getNext s
  provide s' x (y x)

/-- `find_root_brents` with fuel; `none` = fuel exhausted. Returns the final state
(`current_guess = b`) and the list of queried abscissae (oldest first). -/
def findRoot (f : α → α) (tol : α) : Nat → St α → List α → Option (St α × List α)
  | 0, _, _ => none
  | fuel + 1, s, acc =>
    if isConverged s tol then some (s, acc.reverse)
    else
      let (s', x) := getNext s
      findRoot f tol fuel (provide s' x (f x)) (x :: acc)

/-- The same loop driven by a tape of ordinates (what the noisy solver does: one
`get_next_abscissa` / `provide_ordinate` pair per outer iteration). -/
def runTape (tol : α) : List α → St α → List α → (St α × List α × Bool)
  | [], s, acc => (s, acc.reverse, isConverged s tol)
  | y :: ys, s, acc =>
    if isConverged s tol then (s, acc.reverse, true)
    else
      let (s', x) := getNext s
      runTape tol ys (provide s' x y) (x :: acc)

end EmuVerif.Brent
