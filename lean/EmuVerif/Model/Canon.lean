/-
  Orthogonality-flag state machine of `emu_mps.MPS` (`emu_mps/mps.py`, plus the writes to
  `state.orthogonality_center` in `mps_backend_impl.py` and the constructors in `mpo.py`).

  State of one MPS object: the number of sites, a flag per factor recording what the *last
  write to that factor* made of it, and the declared `orthogonality_center : Optional[int]`.

    L  the factor was written by `q` of a left-to-right QR or is `q[:, mb:]` of `split_matrix`
       (`orth_center_right=True`): as a `(χ_l·d) × χ_r` matrix it has orthonormal columns;
    R  written by `q.mT` of a right-to-left QR or `q[:, mb:]†` of `split_matrix`
       (`orth_center_right=False`): as `χ_l × (d·χ_r)` it has orthonormal rows;
    B  both (the `|0⟩` product factors of `MPS.make`);
    U  no claim (absorbed an `r`, was scaled, hit by an operator, came from `add_factors`, …).

  The flags are *what the code did*; the declared centre is *what the code claims*. The history
  invariant (Props/C10) says the claim always follows from what was done.
  `step` returns `none` exactly where Python raises (`assert`).
-/
namespace EmuVerif.Canon

inductive Flag | L | R | B | U
  deriving DecidableEq, Repr

def Flag.isL : Flag → Bool
  | .L => true | .B => true | _ => false
def Flag.isR : Flag → Bool
  | .R => true | .B => true | _ => false

structure St where
  n : Nat
  flags : Nat → Flag
  centre : Option Nat

/-- `factors[i] = …` -/
def upd (fl : Nat → Flag) (i : Nat) (f : Flag) : Nat → Flag := fun j => if j = i then f else fl j

/-- `for i in range(a, a+k)`: `factors[i] = q` (L), `factors[i+1] = r · factors[i+1]` (U). -/
def lrSweep (fl : Nat → Flag) (a : Nat) : Nat → (Nat → Flag)
  | 0 => fl
  | k + 1 => lrSweep (upd (upd fl a .L) (a + 1) .U) (a + 1) k

/-- `for i in range(a, a-k, -1)`: `factors[i] = q.mT` / `q[:, mb:]†` (R),
`factors[i-1] = factors[i-1] · r` / `· l` (U). Shared by `orthogonalize` and `truncate_impl`. -/
def rlSweep (fl : Nat → Flag) (a : Nat) : Nat → (Nat → Flag)
  | 0 => fl
  | k + 1 => rlSweep (upd (upd fl a .R) (a - 1) .U) (a - 1) k

/-- `MPS.orthogonalize(k)`. `range(start, k)` is empty when `start ≥ k` (truncated subtraction). -/
def orthogonalize (s : St) (k : Nat) : Option St :=
  if k < s.n then
    let lrStart := s.centre.getD 0
    let fl1 := lrSweep s.flags lrStart (k - lrStart)
    let rlStart := s.centre.getD (s.n - 1)
    let fl2 := rlSweep fl1 rlStart (rlStart - k)
    some { s with flags := fl2, centre := some k }
  else none

/-- `truncate_impl(factors)`: `for i in range(n-1, 0, -1)`. -/
def truncateImpl (n : Nat) (fl : Nat → Flag) : Nat → Flag := rlSweep fl (n - 1) (n - 1)

/-- `MPS.truncate()`. -/
def truncate (s : St) : Option St :=
  match orthogonalize s (s.n - 1) with
  | none => none
  | some s1 => some { s1 with flags := truncateImpl s1.n s1.flags, centre := some 0 }

/-- A fresh `MPS(factors, orthogonality_center=None)` about whose factors nothing is known. -/
def fresh (n : Nat) : St := { n := n, flags := fun _ => .U, centre := none }

/-- `MPS.make(n)`: product state, `orthogonality_center=0`. -/
def make (n : Nat) : St := { n := n, flags := fun _ => .B, centre := some 0 }

/-- `__rmul__`: `scale_factors(which = centre or 0)`, same declared centre. -/
def scale (s : St) : St := { s with flags := upd s.flags (s.centre.getD 0) .U }

/-- `norm()` / `expect_batch()`: `orthogonalize(0)` only when the centre is `None`. -/
def ensureCentre (s : St) : Option St :=
  match s.centre with
  | some _ => some s
  | none => orthogonalize s 0

/-- `get_correlation_matrix`: `for left in range(n): orthogonalize(left)`. -/
def corrLoop : Nat → Nat → St → Option St
  | 0, _, s => some s
  | k + 1, left, s =>
    match orthogonalize s left with
    | none => none
    | some s' => corrLoop k (left + 1) s'

inductive Op
  | orthogonalize (k : Nat)
  | truncate
  /-- `self + other` → the returned object (`MPS(add_factors, None).truncate()`). -/
  | add
  /-- `scalar * self` / `self *= scalar` → the returned object. -/
  | scale
  | apply (k : Nat)
  /-- `MPO.apply_to(self)` → the returned object (`zip_right` + `truncate_impl`, declared 0). -/
  | applyTo
  | expectBatch
  | norm
  /-- `inner`, `overlap`, `get_max_bond_dim`, `get_memory_footprint`: no write. -/
  | inner
  | correlation
  | sample
  | entropy (k : Nat)
  /-- `MPSBackendImpl._evolve(i)`. -/
  | evolveSingle (i : Nat)
  /-- `MPSBackendImpl._evolve(l, l+1, orth_center_right)`. -/
  | evolvePair (l : Nat) (ocr : Bool)
  /-- `DMRGBackendImpl.progress`: same writes as `evolvePair` but **no assert** on the centre. -/
  | dmrgPair (l : Nat) (ocr : Bool)
  /-- `do_random_quantum_jump`: `apply(k)`, `orthogonalize(0)`, `state *= 1/norm`. -/
  | jump (k : Nat)
  deriving DecidableEq, Repr

/-- The two factor writes + the centre write shared by `_evolve(l, r)` and the DMRG step. -/
def pairWrite (s : St) (l : Nat) (ocr : Bool) : St :=
  if ocr then { s with flags := upd (upd s.flags l .L) (l + 1) .U, centre := some (l + 1) }
  else { s with flags := upd (upd s.flags l .U) (l + 1) .R, centre := some l }

def applyOp (s : St) (k : Nat) : Option St :=
  match orthogonalize s k with
  | none => none
  | some s1 => some { s1 with flags := upd s1.flags k .U }

def step (s : St) : Op → Option St
  | .orthogonalize k => orthogonalize s k
  | .truncate => truncate s
  | .add => truncate (fresh s.n)
  | .scale => some (scale s)
  | .apply k => applyOp s k
  | .applyTo =>
    -- zip_right: every new factor is a QR `L`, the last absorbs the slider, then the sweep
    some { n := s.n, flags := truncateImpl s.n (upd (fun _ => .L) (s.n - 1) .U), centre := some 0 }
  | .expectBatch => ensureCentre s
  | .norm => ensureCentre s
  | .inner => some s
  | .correlation => corrLoop s.n 0 s
  | .sample => orthogonalize s 0
  | .entropy k =>
    match orthogonalize s k with
    | none => none
    | some s1 => orthogonalize s1 0
  | .evolveSingle i =>
    if s.centre = some i ∧ i < s.n then some { s with flags := upd s.flags i .U } else none
  | .evolvePair l ocr =>
    if (s.centre = some l ∨ s.centre = some (l + 1)) ∧ l + 1 < s.n then some (pairWrite s l ocr)
    else none
  | .dmrgPair l ocr => if l + 1 < s.n then some (pairWrite s l ocr) else none
  | .jump k =>
    match applyOp s k with
    | none => none
    | some s1 =>
      match orthogonalize s1 0 with
      | none => none
      | some s2 => some (scale s2)

/-- A history; stops with `none` at the first operation on which Python raises. -/
def run : St → List Op → Option St
  | s, [] => some s
  | s, op :: ops =>
    match step s op with
    | none => none
    | some s' => run s' ops

/-- Every intermediate state of a history (for the driver), `none` from the first raise on. -/
def trace : St → List Op → List (Option St)
  | _, [] => []
  | s, op :: ops =>
    match step s op with
    | none => none :: ops.map (fun _ => none)
    | some s' => some s' :: trace s' ops

end EmuVerif.Canon
