/-
  Tensor-level model of the operations that move or claim the orthogonality centre of an `emu_mps.MPS`:
  the executable counterpart, on real factor tensors, of the flag machine `Model/Canon.lean`.

    emu_mps/utils.py   truncate_impl  (one iteration = `truncStep`; the loop = `truncSweep`)
                       split_matrix(orth_center_right=False): `right = q[:, mb:].T.conj_physical()`,
                       `left = m @ q[:, mb:]`  (`keptBlock`, `splitOf`: the rank decision is `Model/Cutoff.splitPlan`)
    emu_mps/mps.py     orthogonalize (= `Tensor.orthogonalize`), truncate, __add__, __rmul__, apply, norm,
                       expect_batch, get_correlation_matrix, sample, entanglement_entropy (centre moves only)
    emu_mps/mpo.py     MPO.apply_to  (= `Tensor.zipRight` + `truncate_impl`, declared centre 0)

  Numerical kernels are oracle parameters, as everywhere: `torch.linalg.qr` answers are the records
  `QRl`/`QRr`/`QR3` of `Model/Tensor.lean`, `torch.linalg.eigh` answers are `Split` records (the kept
  eigenvector block `q[:, max_bond:]`, un-flattened).  The theorems of `Props/C10Bridge.lean` assume the
  contracts `qᴴq = 1`, `q·r = m` (QR) and `Q_kᴴ Q_k = 1` (what `EighContract` gives for the kept block).
  `none` = Python raises (assert on the site index, `ValueError`/size error of `add_factors`/`zip_right`)
  or a tape is too short.
-/
import EmuVerif.Model.Tensor
import EmuVerif.Model.Canon
import EmuVerif.Model.Cutoff

namespace EmuVerif.CanonOps
open EmuVerif EmuVerif.Tensor

/-- The kept eigenvector block `q[:, max_bond:]` of the `eigh` call inside
`split_matrix(factor.view(dl, d·dr), orth_center_right=False)`, un-flattened:
`qk x r j = q[x·dr + r, max_bond + j]`, `k` columns. -/
structure Split (α : Type) where
  k : Nat
  qk : Nat → Nat → Nat → α

/-- recorded `qr` answers of one `orthogonalize` call (left-to-right loop, right-to-left loop) -/
structure OTape (α : Type) where
  lt : List (QRl α)
  rt : List (QRr α)

section ops
variable {α : Type} [Add α] [Mul α] [OfNat α 0] [OfNat α 1] [Conj α]

/-- `q[:, max_bond:]` cut out of the full recorded eigenvector matrix `q x r col = q[x·dr + r, col]` -/
def keptBlock (mb k : Nat) (q : Nat → Nat → Nat → α) : Split α :=
  { k := k, qk := fun x r j => q x r (mb + j) }

/-- the rank decision of `split_matrix` (`Model/Cutoff.splitPlan` on the recorded spectrum `d`) followed by
the slice; `none` = `assert max_error > 0` -/
def splitOf {β : Type} [Add β] [Mul β] [LT β] [DecidableLT β] [OfNat β 0]
    (precision : β) (maxBondDim : Int) (d : List β) (q : Nat → Nat → Nat → α) : Option (Split α) :=
  match Cutoff.splitPlan d precision maxBondDim false false with
  | none => none
  | some p => some (keptBlock p.maxBond p.kept q)

/-- One iteration of `truncate_impl` at site `B` (index `i`) preceded by `A` (index `i−1`):
`l = m @ q_k` with `m = B.view(dl, d·dr)`, `factors[i] = q_k^H .view(k, d, dr)`,
`factors[i-1] = tensordot(A, l, dims=1)`. -/
def truncStep (g : Split α) (A B : Site α) : Site α × Site α :=
  let l := memo2 B.dl g.k (fun a j => sumTo B.d (fun x => sumTo B.dr (fun r => B.t x a r * g.qk x r j)))
  (Site.make A.dl A.d g.k (fun x c j => sumTo A.dr (fun a => A.t x c a * get2 l a j)),
   Site.make g.k B.d B.dr (fun x j r => conj (g.qk x r j)))

/-- `for i in range(len(factors) - 1, 0, -1)` of `truncate_impl` (`i` = current site, `cnt` steps left) -/
def truncSweep : Nat → Nat → List (Site α) → List (Split α) → Option (List (Site α))
  | 0, _, fs, _ => some fs
  | cnt + 1, i, fs, g :: tape =>
    match i with
    | 0 => none
    | i' + 1 =>
      match fs[i']?, fs[i' + 1]? with
      | some A, some B => truncSweep cnt i' (setPair fs i' (truncStep g A B)) tape
      | _, _ => none
  | _ + 1, _, _, [] => none

/-- `truncate_impl(factors, …)` with the `eigh` answers supplied -/
def truncateImpl (fs : List (Site α)) (tape : List (Split α)) : Option (List (Site α)) :=
  truncSweep (fs.length - 1) (fs.length - 1) fs tape

/-! ### the tensor-level machine -/

/-- factors + declared `orthogonality_center` of one `MPS` object -/
structure TSt (α : Type) where
  fs : List (Site α)
  centre : Option Nat

/-- One public operation together with the kernel answers recorded while it ran.
The flag-level shadow is `shadow`. -/
inductive TOp (α : Type)
  | orthogonalize (k : Nat) (o : OTape α)
  | truncate (o : OTape α) (st : List (Split α))
  /-- `self + other` → the returned object -/
  | add (other : List (Site α)) (o : OTape α) (st : List (Split α))
  /-- `c * self` → the returned object -/
  | scale (c : α)
  | apply (k : Nat) (op : Nat → Nat → α) (o : OTape α)
  /-- `mpo.apply_to(self)` → the returned object -/
  | applyTo (mpo : List (Site α)) (zt : List (QR3 α)) (st : List (Split α))
  | expectBatch (o : OTape α)
  | norm (o : OTape α)
  /-- `inner`, `overlap`, `get_max_bond_dim`, `get_memory_footprint`: no write -/
  | inner
  /-- `get_correlation_matrix`: one `orthogonalize(left)` per site -/
  | correlation (os : List (OTape α))
  | sample (o : OTape α)
  | entropy (k : Nat) (o1 o2 : OTape α)
  /-- `do_random_quantum_jump`: `apply(k, op)`, `orthogonalize(0)`, `state *= c` -/
  | jump (k : Nat) (op : Nat → Nat → α) (o1 o2 : OTape α) (c : α)

def shadow : TOp α → Canon.Op
  | .orthogonalize k _ => .orthogonalize k
  | .truncate _ _ => .truncate
  | .add _ _ _ => .add
  | .scale _ => .scale
  | .apply k _ _ => .apply k
  | .applyTo _ _ _ => .applyTo
  | .expectBatch _ => .expectBatch
  | .norm _ => .norm
  | .inner => .inner
  | .correlation _ => .correlation
  | .sample _ => .sample
  | .entropy k _ _ => .entropy k
  | .jump k _ _ _ _ => .jump k

/-- `MPS.orthogonalize(k)` -/
def orth (t : TSt α) (k : Nat) (o : OTape α) : Option (TSt α) :=
  match Tensor.orthogonalize t.fs t.centre k o.lt o.rt with
  | none => none
  | some fs => some { fs := fs, centre := some k }

/-- `MPS.truncate()` -/
def trunc (t : TSt α) (o : OTape α) (st : List (Split α)) : Option (TSt α) :=
  match orth t (t.fs.length - 1) o with
  | none => none
  | some t1 =>
    match truncateImpl t1.fs st with
    | none => none
    | some fs => some { fs := fs, centre := some 0 }

/-- `__rmul__`: `scale_factors(which = centre or 0)`, same declared centre -/
def scale (t : TSt α) (c : α) : TSt α :=
  { fs := scaleFactors c (t.centre.getD 0) t.fs, centre := t.centre }

/-- `MPS.apply(k, op)` -/
def applyOp (t : TSt α) (k : Nat) (op : Nat → Nat → α) (o : OTape α) : Option (TSt α) :=
  match orth t k o with
  | none => none
  | some t1 =>
    match t1.fs[k]? with
    | none => none
    | some A => some { t1 with fs := t1.fs.set k (applySite A.d op A) }

/-- `norm()` / `expect_batch()`: `orthogonalize(0)` only when the centre is `None` -/
def ensureCentre (t : TSt α) (o : OTape α) : Option (TSt α) :=
  match t.centre with
  | some _ => some t
  | none => orth t 0 o

/-- `for left in range(n): orthogonalize(left)` -/
def corrLoop : Nat → Nat → TSt α → List (OTape α) → Option (TSt α)
  | 0, _, t, _ => some t
  | k + 1, left, t, o :: os =>
    match orth t left o with
    | none => none
    | some t' => corrLoop k (left + 1) t' os
  | _ + 1, _, _, [] => none

def tstep (t : TSt α) : TOp α → Option (TSt α)
  | .orthogonalize k o => orth t k o
  | .truncate o st => trunc t o st
  | .add other o st =>
    match addFactors t.fs other with
    | none => none
    | some S => trunc { fs := S, centre := none } o st
  | .scale c => some (scale t c)
  | .apply k op o => applyOp t k op o
  | .applyTo mpo zt st =>
    match zipRight ((t.fs.head?.map (·.d)).getD 0) 1 mpo t.fs zt with
    | none => none
    | some fs1 =>
      match truncateImpl fs1 st with
      | none => none
      | some fs => some { fs := fs, centre := some 0 }
  | .expectBatch o => ensureCentre t o
  | .norm o => ensureCentre t o
  | .inner => some t
  | .correlation os => corrLoop t.fs.length 0 t os
  | .sample o => orth t 0 o
  | .entropy k o1 o2 =>
    match orth t k o1 with
    | none => none
    | some t1 => orth t1 0 o2
  | .jump k op o1 o2 c =>
    match applyOp t k op o1 with
    | none => none
    | some t1 =>
      match orth t1 0 o2 with
      | none => none
      | some t2 => some (scale t2 c)

/-- a history; `none` from the first operation on which Python raises (or a tape runs out) -/
def trun : TSt α → List (TOp α) → Option (TSt α)
  | t, [] => some t
  | t, op :: ops =>
    match tstep t op with
    | none => none
    | some t' => trun t' ops

/-- squared Frobenius norm of a factor: `factor.norm()**2` -/
def frobSite (A : Site α) : α :=
  sumTo A.d (fun x => sumTo A.dl (fun l => sumTo A.dr (fun r => conj (A.t x l r) * A.t x l r)))

end ops
end EmuVerif.CanonOps
