/-
  Model of the configuration safeguards and of the accept/reject decision logic (C33, C04).

  Anchors (statement by statement, in the order the Python code evaluates them):
    * `emu_mps/mps_config.py`   `MPSConfig.__init__` (autosave assert, Krylov tolerance floor,
                                `optimize_qubit_ordering &= check_permutable_observables()`),
    * `emu_base/pulser_adapter.py` `PulserData.__init__` (interaction-type detection,
                                `_get_all_lindblad_noise_operators`), `_extract_omega_delta_phi`
                                (channel-basis rejection),
    * `emu_base/jump_lindblad_operators.py` `get_lindblad_operators`, `compute_noise_from_lindbladians`,
    * `emu_sv/sv_backend.py`    `SVBackend._run_from_sequence_data` (the basis guard; `run()` goes
                                through it — `SVBackendImpl.__init__` itself does not look at the
                                Hamiltonian type, the decision is modelled at the API level),
    * `emu_mps/mps_backend_impl.py` `create_impl`, `DMRGBackendImpl.__init__`,
                                `MPSBackendImpl.__init__`, `NoisyMPSBackendImpl.init`, `MPS.make`.

  Decisions are total functions over small enumerations; the only scalar code (tolerance floor,
  autosave guard) is polymorphic in the scalar. Where Python raises, the model returns an error
  tag (`R.err`, `Outcome.raise`, `none`) — never a default value.

  `Variant.asFound` reproduces the tree before the two `fix:` commits (emu-sv never looked at
  the Hamiltonian type / level count; `create_impl` tested the Lindblad operators before the
  solver). The current tree is `Variant.repaired`; the harness decides which one /repo matches.
-/
import EmuVerif.Model.Scalar

namespace EmuVerif.Config

/-! ## Enumerations -/

inductive Backend | sv | mps
  deriving DecidableEq, Repr
inductive Solver | tdvp | dmrg
  deriving DecidableEq, Repr
/-- `basis_data.interaction_type` as reported by Pulser (`other` = any other string). -/
inductive IntType | ising | xy | other
  deriving DecidableEq, Repr
/-- `emu_base.pulser_adapter.HamiltonianType`. -/
inductive HamType | rydberg | xy
  deriving DecidableEq, Repr
/-- The Hamiltonian that is emulated: interaction kind × number of levels. -/
inductive HamKind | rydberg2 | rydberg3 | xy2 | xy3
  deriving DecidableEq, Repr
/-- Python exception classes, canonicalised. -/
inductive Err | value | notImpl | assertion | runtime | zeroDiv
  deriving DecidableEq, Repr
/-- Result of a stage that may raise. -/
inductive R (β : Type) | ok (b : β) | err (e : Err)
  deriving DecidableEq, Repr
/-- Class returned by `create_impl`. -/
inductive Impl | plain | noisy | dmrg
  deriving DecidableEq, Repr
/-- What `run()` does: returns `Results` of an emulation with Hamiltonian `k`, or raises.
`raise` carries no result: an exception escapes `run()` before anything is returned. -/
inductive Outcome | emulate (k : HamKind) | raise (e : Err)
  deriving DecidableEq, Repr
inductive Variant | asFound | repaired
  deriving DecidableEq, Repr

/-! ## C33 — `MPSConfig.__init__` -/

section scalar
variable {α : Type} [Mul α] [Div α] [LT α] [DecidableLT α]
  [OfNat α 0] [OfNat α 1] [OfNat α 10] [OfNat α 1000000000000]

/-- `MIN_KRYLOV_TOL = 1.0e-12`. At binary64 `1 / 10¹²` *is* the literal `1.0e-12` (10¹² is a
double, IEEE division is correctly rounded); the driver command `config.floor` lets the harness
check the bit pattern on every run. -/
def minKrylovTol : α := 1 / 1000000000000

/-- `MIN_AUTOSAVE_DT = 10`. -/
def minAutosaveDt : α := 10

/-- `assert self.autosave_dt > MIN_AUTOSAVE_DT`. -/
def autosaveOk (dt : α) : Bool := decide (minAutosaveDt < dt)

/-- `x == 0` (only consulted on a branch where `x` is not NaN). -/
def isZero (x : α) : Bool := !decide (x < 0) && !decide (0 < x)

/-- `prod_tol < MIN_KRYLOV_TOL` with `prod_tol = precision * extra_krylov_tolerance`. -/
def belowFloor (p e : α) : Bool := decide (p * e < minKrylovTol)

/-- `new_extra_krylov_tolerance`; `none` = Python's `ZeroDivisionError` (`1e-12 / 0`). -/
def effExtra (p e : α) : Option α :=
  if belowFloor p e then (if isZero p then none else some (minKrylovTol / p)) else some e

/-- The Lanczos convergence tolerance the solvers use: `precision * extra_krylov_tolerance`
with the stored (adjusted) `extra_krylov_tolerance`. -/
def effTol (p e : α) : Option α := (effExtra p e).map (fun e' => p * e')
end scalar

/-- `allowed_permutable_obs` of `check_permutable_observables`. -/
def whitelist : List String :=
  ["bitstrings", "occupation", "correlation_matrix", "statistics", "energy",
   "energy_variance", "energy_second_moment"]

def allowedTag (t : String) : Bool := whitelist.contains t

/-- `check_permutable_observables()`: `set(tags) - allowed == set()`. -/
def permutable : List String → Bool
  | [] => true
  | t :: ts => allowedTag t && permutable ts

/-- `optimize_qubit_ordering &= check_permutable_observables()`. -/
def reorder (flag : Bool) (tags : List String) : Bool := flag && permutable tags

/-- The attributes of a constructed `MPSConfig` that the safeguards are about. -/
structure MpsCfg (α : Type) where
  precision : α
  extraKrylovTol : α
  autosaveDt : α
  reorder : Bool
  solver : Solver

section scalar
variable {α : Type} [Mul α] [Div α] [LT α] [DecidableLT α]
  [OfNat α 0] [OfNat α 1] [OfNat α 10] [OfNat α 1000000000000]

/-- `MPSConfig.__init__` after the base-class constructor: autosave assert, then the tolerance
floor, then the reordering switch. -/
def mkConfig (p e dt : α) (flag : Bool) (tags : List String) (s : Solver) : R (MpsCfg α) :=
  if !autosaveOk dt then .err .assertion
  else match effExtra p e with
    | none => .err .zeroDiv
    | some e' => .ok { precision := p, extraKrylovTol := e', autosaveDt := dt,
                       reorder := reorder flag tags, solver := s }
end scalar

/-! ## C04 — adapter stage (`PulserData.__init__`, `get_sequences`) -/

/-- One entry of `noise_model.noise_types`, with the features the code looks at.
`effNoise ds`: the sizes of the (square) `eff_noise_opers`; `dephasing hf`: is
`hyperfine_dephasing_rate != 0`; `nonLindblad`: a member of `_NON_LINDBLADIAN_NOISE`
(SPAM, doppler, amplitude, detuning, register, dmm_*); `unknown`: any other string. -/
inductive NoiseKind
  | relaxation | dephasing (hyperfine : Bool) | depolarizing
  | effNoise (opDims : List Nat) | leakage | nonLindblad | unknown
  deriving DecidableEq, Repr

def NoiseKind.isLindbladian : NoiseKind → Bool
  | .nonLindblad => false
  | _ => true

/-- `get_lindblad_operators(noise_type, dim)`: number of `dim × dim` operators returned, or the
exception. (For `dim ≥ 2`, which is all Pulser produces.) -/
def lindbladOf (dim : Nat) : NoiseKind → R Nat
  | .relaxation => .ok 1
  | .dephasing hf => if hf then .err .notImpl else .ok 1
  | .depolarizing => .ok 3
  | .effNoise ds => if ds.all (· == dim) then .ok ds.length else .err .value
  | .leakage => .ok 0
  | .nonLindblad => .ok 0
  | .unknown => .err .value

/-- The list comprehension of `_get_all_lindblad_noise_operators` over the already filtered
types: operators are produced in order, the first exception wins. -/
def sumLindblad (dim : Nat) : List NoiseKind → R Nat
  | [] => .ok 0
  | k :: ks =>
    match lindbladOf dim k with
    | .err e => .err e
    | .ok n =>
      match sumLindblad dim ks with
      | .err e => .err e
      | .ok m => .ok (n + m)

def allLindblad (dim : Nat) (kinds : List NoiseKind) : R Nat :=
  sumLindblad dim (kinds.filter NoiseKind.isLindbladian)

/-- `if int_type == "ising" … elif int_type == "XY" … else raise ValueError`. -/
def detectHam : IntType → R HamType
  | .ising => .ok .rydberg
  | .xy => .ok .xy
  | .other => .err .value

/-- Channel bases addressed by a sequence (keys of `to_nested_dict(all_local=True)["Local"]`). -/
inductive ChanBasis | groundRydberg | digital | xy
  deriving DecidableEq, Repr

/-- `_extract_omega_delta_phi`: exactly one basis, and it is `ground-rydberg` or `XY`. -/
def extractOk : List ChanBasis → R Unit
  | [.groundRydberg] => .ok ()
  | [.xy] => .ok ()
  | _ => .err .value

/-! ## C04 — back-end stage on a `SequenceData` -/

/-- The features of a `SequenceData` the back-ends' accept/reject logic depends on.
`opDims` = sizes of the (square) Lindblad operators; `nGood` = atoms surviving state
preparation (`= nAtoms` unless `state_prep_error > 0`). -/
structure Seq where
  ham : HamType
  dim : Nat
  opDims : List Nat
  nAtoms : Nat
  nGood : Nat
  deriving DecidableEq, Repr

/-- What Pulser defines for an interaction type and a level count (2 levels, or 3 = with the
leakage state `x`). -/
def hamKind : HamType → Nat → Option HamKind
  | .rydberg, 2 => some .rydberg2
  | .rydberg, 3 => some .rydberg3
  | .xy, 2 => some .xy2
  | .xy, 3 => some .xy3
  | _, _ => none

/-- The same table keyed by Pulser's interaction-type string. -/
def pulserHam : IntType → Nat → Option HamKind
  | .ising, d => hamKind .rydberg d
  | .xy, d => hamKind .xy d
  | .other, _ => none

/-- Which Hamiltonians a back-end/solver implements: emu-sv only the 2-level Rydberg one
(`RydbergHamiltonian`/`RydbergLindbladian`); emu-mps TDVP all four (`make_H`); emu-mps DMRG only
2-level (`minimize_energy_pair` hard-codes `d = 2`). -/
def implements : Backend → Solver → HamKind → Bool
  | .sv, _, .rydberg2 => true
  | .sv, _, _ => false
  | .mps, .tdvp, _ => true
  | .mps, .dmrg, .rydberg2 => true
  | .mps, .dmrg, .xy2 => true
  | .mps, .dmrg, _ => false

def allEq (d : Nat) (ds : List Nat) : Bool := ds.all (· == d)

/-- `torch.stack` accepts the list (all operators have the same shape). -/
def uniform : List Nat → Bool
  | [] => true
  | d :: ds => allEq d ds

/-- `SVBackend._run_from_sequence_data`: the basis guard (before `SVBackendImpl` is built), then
the first evolution step
(`compute_noise_from_lindbladians(ops)` with the default `dim = 2` in `RydbergLindbladian`).
emu-sv always builds the 2-level Rydberg operator. -/
def svAccept (v : Variant) (d : Seq) : Outcome :=
  if v = .repaired ∧ (d.ham ≠ .rydberg ∨ d.dim ≠ 2) then .raise .notImpl
  else if !allEq 2 d.opDims then .raise .assertion
  else .emulate .rydberg2

/-- `create_impl` + the constructors it calls (`DMRGBackendImpl.__init__` noise check,
`MPSBackendImpl.__init__` `qubit_count >= 2` assert). `cfgNoise` is
`config.noise_model.noise_types != ()`. -/
def createImpl (v : Variant) (s : Solver) (nOps : Nat) (cfgNoise : Bool) (nAtoms : Nat) : R Impl :=
  let dmrgCtor : R Impl :=
    if cfgNoise then .err .notImpl
    else if nAtoms < 2 then .err .assertion
    else .ok .dmrg
  let noisyCtor : R Impl := if nAtoms < 2 then .err .assertion else .ok .noisy
  let plainCtor : R Impl := if nAtoms < 2 then .err .assertion else .ok .plain
  match v with
  | .repaired =>
    if s = .dmrg then (if 0 < nOps then .err .notImpl else dmrgCtor)
    else if 0 < nOps then noisyCtor
    else plainCtor
  | .asFound =>
    if 0 < nOps then noisyCtor
    else if s = .dmrg then dmrgCtor
    else plainCtor

/-- `impl.init()`: for the noisy implementation `init_lindblad_noise` first (`torch.stack`,
then the `(dim, dim)` shape assert of `compute_noise_from_lindbladians`); then
`init_dark_qubits` and `MPS.make` (≤ 1 surviving atom → ValueError; level count other than 2
or 3 → ValueError). -/
def mpsInit (impl : Impl) (d : Seq) : R Unit :=
  if impl = .noisy ∧ !uniform d.opDims then .err .runtime
  else if impl = .noisy ∧ !allEq d.dim d.opDims then .err .assertion
  else if d.nGood ≤ 1 then .err .value
  else if d.dim ≠ 2 ∧ d.dim ≠ 3 then .err .value
  else .ok ()

/-- `MPSBackend._run_from_sequence_data`. After `init()` the Hamiltonian is `make_H(ham, dim)`;
the DMRG sweep (`minimize_energy_pair`) reshapes with `d = 2` hard-coded and raises
RuntimeError for 3 levels at its first step, before any result is returned. -/
def mpsAccept (v : Variant) (d : Seq) (s : Solver) (cfgNoise : Bool) : Outcome :=
  match createImpl v s d.opDims.length cfgNoise d.nAtoms with
  | .err e => .raise e
  | .ok impl =>
    match mpsInit impl d with
    | .err e => .raise e
    | .ok () =>
      match hamKind d.ham d.dim with
      | none => .raise .value
      | some k => if impl = .dmrg ∧ d.dim = 3 then .raise .runtime else .emulate k

/-- Outcome of `<Backend>._run_from_sequence_data(data, config)`. -/
def acceptSeq (v : Variant) (b : Backend) (d : Seq) (s : Solver) (cfgNoise : Bool) : Outcome :=
  match b with
  | .sv => svAccept v d
  | .mps => mpsAccept v d s cfgNoise

/-! ## C04 — the Hamiltonian in use over the whole run -/

/-- How `MPSBackendImpl.timestep_complete` rebuilds the MPO when the interaction matrix changes
(the SLM mask ends inside the sequence): the current tree passes `hamiltonian_type`; the seeded
variant relies on a default `hamiltonian_type = Rydberg` of `make_H`. -/
inductive Rebuild | passesType | defaultRydberg
  deriving DecidableEq, Repr

/-- Kind of the MPO that a rebuild produces, given the kind `k` built by `init()`. -/
def rebuiltKind (rb : Rebuild) (dim : Nat) (k : HamKind) : HamKind :=
  match rb with
  | .passesType => k
  | .defaultRydberg => (hamKind .rydberg dim).getD k

/-- Hamiltonian in use during each time step. `changes[i]` = the interaction matrix seen by
`timestep_complete` after step `i` differs from the current one (then `make_H` is called again and
yields `k'`); `cur` = the Hamiltonian in use in the first step of the list. -/
def stepKinds (k' : HamKind) : List Bool → HamKind → List HamKind
  | [], cur => [cur]
  | c :: cs, cur => cur :: stepKinds k' cs (if c then k' else cur)

/-- Outcome of a run with the Hamiltonian kind of every time step. -/
inductive RunOutcome | emulate (ks : List HamKind) | raise (e : Err)
  deriving DecidableEq, Repr

/-- `<Backend>._run_from_sequence_data` on a sequence of `changes.length + 1` time steps.
emu-sv builds a fresh `RydbergHamiltonian`/`RydbergLindbladian` for every step; emu-mps builds
the MPO once in `init()` and again whenever the interaction matrix changes. -/
def acceptRun (rb : Rebuild) (v : Variant) (b : Backend) (d : Seq) (s : Solver) (cfgNoise : Bool)
    (changes : List Bool) : RunOutcome :=
  match acceptSeq v b d s cfgNoise with
  | .raise e => .raise e
  | .emulate k =>
    match b with
    | .sv => .emulate (List.replicate (changes.length + 1) k)
    | .mps => .emulate (stepKinds (rebuiltKind rb d.dim k) changes k)

/-- Remove consecutive duplicates (what the harness compares: the sequence of distinct
Hamiltonians in use). -/
def collapse : List HamKind → List HamKind
  | [] => []
  | [a] => [a]
  | a :: b :: r => if a = b then collapse (b :: r) else a :: collapse (b :: r)

def collapseRun : RunOutcome → RunOutcome
  | .emulate ks => .emulate (collapse ks)
  | .raise e => .raise e

/-! ## C04 — the whole pipeline `run()` -/

/-- `PulserData.__init__` (interaction type, then the Lindblad operators of the noise model *in
effect*, `kinds`), then the back-end on the resulting `SequenceData` (a register of two
well-prepared atoms). `cfgNoise` is `config.noise_model.noise_types != ()` — what
`DMRGBackendImpl.__init__` looks at. -/
def acceptCore (v : Variant) (b : Backend) (it : IntType) (dim : Nat) (kinds : List NoiseKind)
    (cfgNoise : Bool) (s : Solver) : Outcome :=
  match detectHam it with
  | .err e => .raise e
  | .ok ham =>
    match allLindblad dim kinds with
    | .err e => .raise e
    | .ok n =>
      acceptSeq v b { ham := ham, dim := dim, opDims := List.replicate n dim, nAtoms := 2, nGood := 2 }
        s cfgNoise

/-- `accept backend interaction_type dim noise_kinds solver`: the whole `run()` with
`prefer_device_noise_model = False` (the default): the noise model in effect *is*
`config.noise_model`. -/
def acceptV (v : Variant) (b : Backend) (it : IntType) (dim : Nat) (kinds : List NoiseKind)
    (s : Solver) : Outcome :=
  acceptCore v b it dim kinds (!kinds.isEmpty) s

/-- `run()` with the `prefer_device_noise_model` switch: `PulserData.__init__` takes the device's
default noise model (`devKinds`) when it is set, `config.noise_model` (`cfgKinds`) otherwise; the
DMRG constructor always looks at `config.noise_model`. `fixed = true` is the current tree (D22,
/repo de798eb): `run()` refuses solver DMRG when the noise model in effect is not empty, right
after `PulserData` is built; `fixed = false` is the tree before that fix. -/
def acceptDevEff (fixed : Bool) (b : Backend) (it : IntType) (dim : Nat)
    (eff : List NoiseKind) (cfgNoise : Bool) (s : Solver) : Outcome :=
  match detectHam it with
  | .err e => .raise e
  | .ok _ =>
    match allLindblad dim eff with
    | .err e => .raise e
    | .ok _ =>
      if fixed ∧ b = .mps ∧ s = .dmrg ∧ !eff.isEmpty then .raise .notImpl
      else acceptCore .repaired b it dim eff cfgNoise s

def acceptDev (fixed : Bool) (b : Backend) (it : IntType) (dim : Nat) (prefer : Bool)
    (cfgKinds devKinds : List NoiseKind) (s : Solver) : Outcome :=
  acceptDevEff fixed b it dim (if prefer then devKinds else cfgKinds) (!cfgKinds.isEmpty) s

/-- `accept` with the Hamiltonian kind of every time step: `PulserData.__init__`, then the back-end
run over `changes.length + 1` steps (`changes` as in `acceptRun`). -/
def acceptSteps (rb : Rebuild) (b : Backend) (it : IntType) (dim : Nat) (kinds : List NoiseKind)
    (s : Solver) (changes : List Bool) : RunOutcome :=
  match detectHam it with
  | .err e => .raise e
  | .ok ham =>
    match allLindblad dim kinds with
    | .err e => .raise e
    | .ok n =>
      acceptRun rb .repaired b
        { ham := ham, dim := dim, opDims := List.replicate n dim, nAtoms := 2, nGood := 2 }
        s (!kinds.isEmpty) changes

def accept : Backend → IntType → Nat → List NoiseKind → Solver → Outcome := acceptV .repaired

/-- What Pulser reports (interaction type, level count) for the set of channel bases a sequence
*pulses* (+ leakage); channels that are declared but never pulsed do not count, and a sequence that
pulses nothing is reported as XY if it is in XY mode (a microwave channel is declared) and as
ground-rydberg otherwise. (Specification table; validated against the installed Pulser by the
harness.) -/
def pulserBasis (declared pulsed : List ChanBasis) (leak : Bool) : Option (IntType × Nat) :=
  let l := if leak then 1 else 0
  match pulsed with
  | [] => if declared.contains .xy then some (.xy, 2 + l) else some (.ising, 2 + l)
  | [.groundRydberg] => some (.ising, 2 + l)
  | [.digital] => some (.ising, 2 + l)
  | [.groundRydberg, .digital] => some (.ising, 3 + l)
  | [.digital, .groundRydberg] => some (.ising, 3 + l)
  | [.xy] => some (.xy, 2 + l)
  | _ => none

/-- Which bases the single-basis guard of `_extract_omega_delta_phi` counts: every *declared* one
(the keys of the nested sample dict — the current tree), or only those with non-zero samples (the
seeded change t11-C04, which still *selects* the samples by looking at the declared keys). -/
inductive ExtractGuard | declared | used
  deriving DecidableEq, Repr

def extractOkG (g : ExtractGuard) (declared pulsed : List ChanBasis) : R Unit :=
  match g with
  | .declared => extractOk declared
  | .used =>
    if 1 < pulsed.length then .err .value
    else if declared.contains .groundRydberg then .ok ()
    else if declared.contains .xy then .ok ()
    else .err .value

/-- A Pulser sequence through `run()`: `PulserData.__init__`, then `get_sequences`
(`_extract_omega_delta_phi` rejects every set of *declared* bases but `{ground-rydberg}` and
`{XY}`), then the back-end. `declared` = bases of the declared channels, `pulsed ⊆ declared` =
bases that are actually driven. `none` = Pulser cannot build such a sequence. `fixed` as in
`acceptDev` (D22 fix: `run()` refuses DMRG + a non-empty noise model right after `PulserData` is
built; it only changes *which* exception such a run gets). -/
def acceptSequenceG (g : ExtractGuard) (v : Variant) (fixed : Bool) (b : Backend)
    (declared pulsed : List ChanBasis) (leak : Bool) (kinds : List NoiseKind) (s : Solver) :
    Option Outcome :=
  match pulserBasis declared pulsed leak with
  | none => none
  | some (it, dim) =>
    some <|
      match detectHam it with
      | .err e => .raise e
      | .ok _ =>
        match allLindblad dim kinds with
        | .err e => .raise e
        | .ok _ =>
          if fixed ∧ b = .mps ∧ s = .dmrg ∧ !kinds.isEmpty then .raise .notImpl
          else
            match extractOkG g declared pulsed with
            | .err e => .raise e
            | .ok () => acceptV v b it dim kinds s

def acceptSequence : Variant → Bool → Backend → List ChanBasis → List ChanBasis → Bool →
    List NoiseKind → Solver → Option Outcome := acceptSequenceG .declared

/-! ## How the solver is requested -/

/-- How `config.solver` is stored: the enum member `Solver.DMRG`, the documented plain string
`"dmrg"`, or a string that came back from `to_abstract_repr`/`from_abstract_repr` (`Solver` is a
`str` enum: all three compare equal, only the first is identical to the member). -/
inductive SolverForm | member | string | roundTrip
  deriving DecidableEq, Repr

/-- How the code tests the option: `== Solver.DMRG` (by value, the current tree) or
`is Solver.DMRG` (by identity, the seeded change t09-C33). -/
inductive SolverTest | byValue | byIdentity
  deriving DecidableEq, Repr

/-- The branch the code takes for a solver requested in a given form. -/
def recognised (t : SolverTest) (f : SolverForm) (s : Solver) : Solver :=
  match t, f with
  | .byValue, _ => s
  | .byIdentity, .member => s
  | .byIdentity, _ => .tdvp

def createImplF (t : SolverTest) (f : SolverForm) (v : Variant) (s : Solver) (nOps : Nat)
    (cfgNoise : Bool) (nAtoms : Nat) : R Impl :=
  createImpl v (recognised t f s) nOps cfgNoise nAtoms

def acceptSeqF (t : SolverTest) (f : SolverForm) (v : Variant) (b : Backend) (d : Seq) (s : Solver)
    (cfgNoise : Bool) : Outcome :=
  acceptSeq v b d (recognised t f s) cfgNoise

end EmuVerif.Config
