/-
  Model of the truncation arithmetic of `emu_mps/utils.py`:
  `_determine_cutoff_index` (statement by statement, polymorphic in the scalar) and the rank
  logic of `split_matrix` (`max_bond`, kept rank, which factor is the isometry, `preserve_norm`).

  ```python
  def _determine_cutoff_index(d, max_error):
      assert max_error > 0
      squared_max_error = max_error * max_error
      acc = 0.0
      for i in range(d.shape[0]):
          acc += d[i].item()
          if acc > squared_max_error:
              return i
      return 0
  ```
  `d[i].item()` is a Python float (binary64) and `acc += …` a binary64 addition, so the executable
  reading at `Float` is bit-for-bit the Python loop. `eigh` itself is *not* modelled: its output `d`
  is an input of the model (oracle tape), its contract is a hypothesis of the matrix theorems.
-/
import EmuVerif.Model.Scalar

namespace EmuVerif.Cutoff

section scalar
variable {α : Type} [Add α] [Mul α] [LT α] [DecidableLT α] [OfNat α 0]

/-- The `for` loop, entered at index `i` with accumulator `acc`.
`acc > squared_max_error` is `sq < acc`; the fall-through `return 0` is the `[]` case. -/
def scan (sq : α) : List α → Nat → α → Nat
  | [], _, _ => 0
  | x :: xs, i, acc =>
    let acc' := acc + x
    if sq < acc' then i else scan sq xs (i + 1) acc'

/-- `_determine_cutoff_index(d, max_error)`; `none` = the `assert max_error > 0` fails. -/
def cutoffIndex (d : List α) (maxError : α) : Option Nat :=
  if 0 < maxError then some (scan (maxError * maxError) d 0 0) else none

end scalar

/-- `max(cut, d.shape[0] - max_rank)` on Python integers (`len - max_rank` may be negative;
Python's `max(a, b)` returns `a` unless `b > a`). -/
def maxBond (cut len : Nat) (maxRank : Int) : Int := pmax (cut : Int) ((len : Int) - maxRank)

/-- Number of columns of `q[:, max_bond:]` (slice semantics: empty when `max_bond ≥ len`;
`max_bond ≥ cut ≥ 0`, so the start is never a negative "from the end" index). -/
def keptRank (cut len : Nat) (maxRank : Int) : Nat := ((len : Int) - maxBond cut len maxRank).toNat

/-- The cap decides the rank (strictly more is discarded than the cutoff index asks for). -/
def capBinds (cut len : Nat) (maxRank : Int) : Bool := decide ((cut : Int) < (len : Int) - maxRank)

/-- Which returned factor is the isometry. -/
inductive Side | left | right
  deriving DecidableEq, Repr

/-- Everything `split_matrix` decides from `(d, max_error, max_rank, orth_center_right,
preserve_norm)`; the linear algebra (`eigh`, the two matmuls) is outside the model. -/
structure Plan where
  cut : Nat
  maxBond : Nat
  kept : Nat
  /-- `orth_center_right=True`: `left = q[:, mb:]` is the isometry and `right` carries the weight;
  `False`: `right = q[:, mb:]†` is the (row) isometry and `left = m q[:, mb:]` carries the weight. -/
  iso : Side
  /-- `preserve_norm`: the non-isometric factor is multiplied by `sqrt(Σd / Σd[mb:])`. -/
  rescaled : Bool
  deriving DecidableEq, Repr

section scalar
variable {α : Type} [Add α] [Mul α] [LT α] [DecidableLT α] [OfNat α 0]

def splitPlan (d : List α) (maxError : α) (maxRank : Int) (orthCenterRight preserveNorm : Bool) :
    Option Plan :=
  match cutoffIndex d maxError with
  | none => none
  | some cut =>
    some { cut := cut
           maxBond := (maxBond cut d.length maxRank).toNat
           kept := keptRank cut d.length maxRank
           iso := if orthCenterRight then Side.left else Side.right
           rescaled := preserveNorm }

/-- `torch.sum` replaced by a left fold (exact reading only; not compared bit-for-bit). -/
def total (d : List α) : α := d.foldl (· + ·) 0

/-- Discarded weight `Σ d[:mb]` and kept weight `Σ d[mb:]`. -/
def discardedWeight (d : List α) (mb : Nat) : α := total (d.take mb)
def keptWeight (d : List α) (mb : Nat) : α := total (d.drop mb)

/-- Square of the `preserve_norm` factor, `old_norm2 / new_norm2`. -/
def normFactorSq [Div α] (d : List α) (mb : Nat) : α := total d / keptWeight d mb

end scalar

/-- New bond dimensions of the right-to-left sweep of `truncate_impl`, given for every bond
(right-most first) the recorded spectrum: bond `i-1|i` becomes `keptRank`. `none` = assert. -/
def sweepBonds {α : Type} [Add α] [Mul α] [LT α] [DecidableLT α] [OfNat α 0]
    (precision : α) (maxBondDim : Int) : List (List α) → Option (List Nat)
  | [] => some []
  | d :: ds =>
    match cutoffIndex d precision, sweepBonds precision maxBondDim ds with
    | some cut, some rest => some (keptRank cut d.length maxBondDim :: rest)
    | _, _ => none

end EmuVerif.Cutoff
