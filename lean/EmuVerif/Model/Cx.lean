/-
  Complex scalars for the tensor models (Mathlib-free).

  * `Cx α` is the pair type `re + i·im` with the textbook (= torch CPU `complex128`)
    multiplication formula `(a+bi)(c+di) = (ac − bd) + (ad + bc)i`. At `α := Rat` it is the
    field of Gaussian rationals: every dyadic complex128 value is represented exactly and
    `+ − ×` agree *exactly* with torch as long as torch's results stay dyadic-exact (small
    integers / powers of two — what the harness generates).
  * `CxLike κ` is the small vocabulary the tensor models need from a "complex" scalar type
    `κ` beyond ring notation: the imaginary unit, conjugation and the constant `1/2`
    (`-0.5j` in `compute_noise_from_lindbladians`). The models are written against `CxLike`,
    the driver instantiates `κ := Cx Rat`, the proofs read the same definitions over any
    commutative ring with the laws `LawfulCx` (`Proofs/Cx.lean`), of which `Cx α` over any
    commutative ring `α` with `2` invertible is an instance.
-/
namespace EmuVerif

/-- `re + i·im`. -/
structure Cx (α : Type) where
  re : α
  im : α
  deriving DecidableEq, Repr

/-- What the tensor models need from a complex scalar type. -/
class CxLike (κ : Type) where
  /-- the imaginary unit (`1j`) -/
  I : κ
  /-- complex conjugation (`.conj()`) -/
  conj : κ → κ
  /-- the real constant `0.5` -/
  half : κ

namespace Cx
variable {α : Type}

instance [Add α] : Add (Cx α) := ⟨fun x y => ⟨x.re + y.re, x.im + y.im⟩⟩
instance [Sub α] : Sub (Cx α) := ⟨fun x y => ⟨x.re - y.re, x.im - y.im⟩⟩
instance [Neg α] : Neg (Cx α) := ⟨fun x => ⟨-x.re, -x.im⟩⟩
/-- torch / C99 finite-value formula. -/
instance [Add α] [Sub α] [Mul α] : Mul (Cx α) :=
  ⟨fun x y => ⟨x.re * y.re - x.im * y.im, x.re * y.im + x.im * y.re⟩⟩
instance [OfNat α 0] : OfNat (Cx α) 0 := ⟨⟨0, 0⟩⟩
instance [OfNat α 0] [OfNat α 1] : OfNat (Cx α) 1 := ⟨⟨1, 0⟩⟩

/-- embedding of a real scalar -/
def ofReal [OfNat α 0] (x : α) : Cx α := ⟨x, 0⟩

/-- division of a complex by a *real* scalar (what `data / norm` does component-wise). -/
def divReal [Div α] (z : Cx α) (r : α) : Cx α := ⟨z.re / r, z.im / r⟩

/-- `|z|²` as a real. -/
def normSq [Add α] [Mul α] (z : Cx α) : α := z.re * z.re + z.im * z.im

def conj [Neg α] (z : Cx α) : Cx α := ⟨z.re, -z.im⟩

instance [OfNat α 0] [OfNat α 1] [OfNat α 2] [Neg α] [Div α] : CxLike (Cx α) where
  I := ⟨0, 1⟩
  conj := conj
  half := ⟨1 / 2, 0⟩

end Cx
end EmuVerif
