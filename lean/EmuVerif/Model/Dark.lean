/-
  Model of the dark-atom (badly prepared atom) handling:

    emu_mps/utils.py            extended_mps_factors, extended_mpo_factors, get_extended_site_index
    emu_mps/mps_backend_impl.py init_dark_qubits (boolean-mask filtering of the drives), _get_interaction_matrix
                                (sub-matrix of the good atoms), init_initial_state (MPS.make needs ≥ 2 sites)
    emu_sv/sv_backend_impl.py   init_dark_qubits (zeroing drives and interaction rows/columns of bad atoms)

  A mask `w : List Bool` is `well_prepared_qubits_filter` of emu-mps: `true` = good atom (a factor of the
  reduced state exists), `false` = dark atom (padded).  Re-uses `Site`, `amp`, … of `Model/Tensor.lean`.
-/
import EmuVerif.Model.Tensor

namespace EmuVerif.Dark
open EmuVerif.Tensor

variable {α : Type} [Add α] [Mul α] [OfNat α 0] [OfNat α 1] [Conj α]

/-! ### padding factors -/

/-- entries of a padding factor: the identity on the bond for the levels that `pass`, 0 otherwise
(`factor[:, 0, :] = eye(b, b')` for states, `factor[:, k, k, :] = eye(b, b')` for operators) -/
def padEntries (pass : Nat → Bool) : Nat → Nat → Nat → α :=
  fun x l r => if pass x ∧ l = r then 1 else 0

/-- level 0 only (`|g⟩` / `|0⟩`) -/
def passState : Nat → Bool := fun x => x == 0
/-- diagonal levels `k·dim + k` of an operator factor -/
def passOp (dim : Nat) : Nat → Bool := fun x => x / dim == x % dim

/-- the `for is_factor in where` loop, generic in the padding factor: `mid b` between/before factors
(shape `(b, ·, b)`), `last b` after the last factor (shape `(b, ·, 1)`, then `bond_dimension = 1`) -/
def extendAux (mid last : Nat → Site α) : List (Site α) → List Bool → Nat → List (Site α)
  | _, [], _ => []
  | A :: fs, true :: w, _ => A :: extendAux mid last fs w A.dr
  | [], true :: w, b => extendAux mid last [] w b
  | [], false :: w, b => last b :: extendAux mid last [] w 1
  | A :: fs, false :: w, b => mid b :: extendAux mid last (A :: fs) w b

def countGood (w : List Bool) : Nat := w.count true

/-- `dim = mps_factors[0].shape[1] if mps_factors else 2` -/
def stateDim : List (Site α) → Nat
  | A :: _ => A.d
  | [] => 2

/-- `extended_mps_factors(mps_factors, where)`; `none` = the `assert` on the number of factors fails -/
def extendedMps (fs : List (Site α)) (w : List Bool) : Option (List (Site α)) :=
  if fs.length ≠ countGood w then none
  else
    let dim := stateDim fs
    some (extendAux (fun b => Site.make b dim b (padEntries passState))
                    (fun b => Site.make b dim 1 (padEntries passState)) fs w 1)

/-- `dim = mpo_factors[0].shape[1] if mpo_factors else 2` (a factor has `dim·dim` levels) -/
def opDim : List (Site α) → Nat
  | W :: _ => ((List.range (W.d + 1)).find? (fun k => k * k == W.d)).getD 2
  | [] => 2

/-- `extended_mpo_factors(mpo_factors, where)` -/
def extendedMpo (ws : List (Site α)) (w : List Bool) : Option (List (Site α)) :=
  if ws.length ≠ countGood w then none
  else
    let dim := opDim ws
    some (extendAux (fun b => Site.make b (dim * dim) b (padEntries (passOp dim)))
                    (fun b => Site.make b (dim * dim) 1 (padEntries (passOp dim))) ws w 1)

/-! ### `get_extended_site_index` -/

/-- the loop: `seen` = number of good atoms before position `pos` -/
def extIndexAux : List Bool → Nat → Nat → Nat → Option Nat
  | [], _, _, _ => none
  | b :: w, k, seen, pos =>
    if b then (if seen = k then some pos else extIndexAux w k (seen + 1) (pos + 1))
    else extIndexAux w k seen (pos + 1)

/-- `get_extended_site_index(where, desired_index)`; outer `none` = `ValueError`, `some none` = `None` -/
def getExtendedSiteIndex (w : List Bool) (desired : Option Nat) : Option (Option Nat) :=
  match desired with
  | none => some none
  | some k => (extIndexAux w k 0 0).map some

/-! ### specification vocabulary -/

/-- the levels of the good atoms, in order (`s[where]`) -/
def restrict {β : Type} : List Bool → List β → List β
  | true :: w, x :: s => x :: restrict w s
  | false :: w, _ :: s => restrict w s
  | _, _ => []

/-- every dark atom carries a level that `pass`es -/
def darkPass (pass : Nat → Bool) : List Bool → List Nat → Bool
  | true :: w, _ :: s => darkPass pass w s
  | false :: w, x :: s => pass x && darkPass pass w s
  | _, _ => true

/-- the two strings agree on every dark atom -/
def darkAgree : List Bool → List Nat → List Nat → Bool
  | true :: w, _ :: o, _ :: i => darkAgree w o i
  | false :: w, x :: o, y :: i => (x == y) && darkAgree w o i
  | _, _, _ => true

/-! ### emu-mps: boolean-mask filtering; emu-sv: zeroing -/

/-- `xs[:, mask]` / `matrix[mask, :][:, mask]` on one axis -/
def filterGood {β : Type} (w : List Bool) (xs : List β) : List β := restrict w xs

/-- `MPS.make(qubit_count)` in `init_initial_state`: `none` = `ValueError("For 1 qubit states, do state vector")` -/
def mpsInitialSites (w : List Bool) : Option Nat :=
  if countGood w ≤ 1 then none else some (countGood w)

/-- per-atom drive parameters of one time step -/
structure Drives (α : Type) where
  omega : Nat → α
  delta : Nat → α
  phi : Nat → α

/-- emu-sv `init_dark_qubits`: `omega[:, bad] = delta[:, bad] = phi[:, bad] = 0` -/
def svZeroDrives (bad : Nat → Bool) (p : Drives α) : Drives α :=
  { omega := fun i => if bad i then 0 else p.omega i,
    delta := fun i => if bad i then 0 else p.delta i,
    phi := fun i => if bad i then 0 else p.phi i }

/-- emu-sv `init_dark_qubits`: `mat[bad, :] = 0; mat[:, bad] = 0` -/
def svZeroU (bad : Nat → Bool) (U : Nat → Nat → α) : Nat → Nat → α :=
  fun i j => if bad i ∨ bad j then 0 else U i j

end EmuVerif.Dark
