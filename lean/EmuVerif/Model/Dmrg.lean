/-
  Model of the sweep / convergence machine of `emu_mps/mps_backend_impl.py:DMRGBackendImpl`
  (`progress`, `_left_to_right_update`, `_right_to_left_update`, `sweep_complete`,
  `convergence_check`) and of the index/time part of `MPSBackendImpl.timestep_complete`,
  statement by statement, as the code is NOW (after the `sweep_count = 0` reset on a converged
  step; `previous_energy` is still *not* reset and *not* updated by a converged sweep — variant
  `resetPrev = false`; `resetPrev = true` is the proposed repair).

  The tensors are abstracted away: the bath stacks are represented by their lengths, the state
  by its declared orthogonality centre, and the energy returned by every call of
  `minimize_energy_pair` is supplied by the environment (a tape), so every theorem holds for
  *every* sequence of energies, physical or not. Polymorphic in the energy/time scalar.
-/
import EmuVerif.Model.Scalar

namespace EmuVerif.Dmrg

/-- `SwipeDirection` -/
inductive Dir
  | l2r
  | r2l
  deriving DecidableEq, Repr

/-- What the outside world sees of one run. -/
inductive Event
  /-- a call of `minimize_energy_pair` on sites `idx, idx+1` with `orth_center_right` -/
  | min (idx : Nat) (centreRight : Bool)
  /-- `sweep_complete` was entered; the flag is the value of `convergence_check` -/
  | sweepDone (converged : Bool)
  /-- `timestep_complete` for time step `k` (0-based) -/
  | stepDone (k : Nat)
  /-- `RuntimeError("DMRG did not converge …")` -/
  | raise
  deriving DecidableEq, Repr

/-- Why a `progress()` call did not return normally. -/
inductive Halt
  /-- the `RuntimeError` of `sweep_complete` -/
  | notConverged
  /-- an `IndexError` (`baths[-1]` of an empty stack, `factors[idx+1]`, `target_times[k+1]`) -/
  | index
  /-- one of the three `assert`s at the end of `sweep_complete` -/
  | assertion
  deriving DecidableEq, Repr

/-- The constants of a run. -/
structure Cfg (α : Type) where
  /-- `qubit_count` -/
  n : Nat
  /-- `timestep_count = omega.shape[0]` -/
  steps : Nat
  /-- `energy_tolerance` -/
  tol : α
  /-- `max_sweeps` -/
  maxSweeps : Nat
  /-- `target_times` -/
  times : List α
  /-- variant switch: `false` = the code as found (`previous_energy` survives a completed step),
  `true` = repaired (`previous_energy = None` in the converged branch of `sweep_complete`) -/
  resetPrev : Bool := false

/-- The fields of `DMRGBackendImpl` the machine reads or writes. -/
structure St (α : Type) where
  /-- `_swipe_direction` -/
  dir : Dir
  /-- `_sweep_index` -/
  idx : Nat
  /-- `len(left_baths)` -/
  left : Nat
  /-- `len(right_baths)` -/
  right : Nat
  /-- `state.orthogonality_center` -/
  centre : Nat
  /-- `previous_energy` -/
  prevE : Option α
  /-- `current_energy` -/
  curE : Option α
  /-- `sweep_count` -/
  sweepCount : Nat
  /-- `_timestep_index` -/
  tsIndex : Nat
  /-- `current_time` -/
  curT : α
  /-- `target_time` -/
  tgtT : α

/-- Result of a piece of the machine: the object afterwards, the events emitted, and whether an
exception escaped. -/
structure Res (α : Type) where
  st : St α
  evs : List Event
  halt : Option Halt

variable {α : Type} [Sub α] [Neg α] [LT α] [DecidableLT α] [OfNat α 0]

/-- `__init__` + `init()`: `none` = the `assert qubit_count >= 2` fails or `target_times[1]`
does not exist. -/
def init (cfg : Cfg α) : Option (St α) :=
  if cfg.n < 2 then none
  else
    match cfg.times[1]? with
    | none => none
    | some t1 =>
      some { dir := .l2r, idx := 0, left := 1, right := cfg.n - 1, centre := 0,
             prevE := none, curE := none, sweepCount := 0, tsIndex := 0, curT := 0, tgtT := t1 }

/-- `is_finished` -/
def finished (cfg : Cfg α) (s : St α) : Bool := decide (cfg.steps ≤ s.tsIndex)

/-- `convergence_check(energy_tolerance)` -/
def convergenceCheck (tol : α) (s : St α) : Bool :=
  match s.prevE, s.curE with
  | some p, some c => decide (absv (c - p) < tol)
  | _, _ => false

/-- `orth_center_right = (direction == LEFT_TO_RIGHT)` -/
def centreRight (s : St α) : Bool := decide (s.dir = .l2r)

/-- Can `progress` get past the call and the factor assignment? (`baths[-1]` needs non-empty
stacks — checked before the call; `state.factors[idx+1] = …` needs `idx+1 < n` — after it.) -/
def bathsOk (s : St α) : Bool := decide (0 < s.left) && decide (0 < s.right)

/-- The part of `progress` up to `self.current_energy = energy`. -/
def afterMin (s : St α) (e : α) : St α :=
  { s with centre := if centreRight s then s.idx + 1 else s.idx, curE := some e }

/-- Index/time part of `timestep_complete` (`fill_results`, `update_H` are not modelled here;
`init_baths` rebuilds the stacks with lengths 1 and `n-1`). -/
def timestepComplete (cfg : Cfg α) (s : St α) : Res α :=
  let k := s.tsIndex
  let s1 := { s with tsIndex := k + 1 }
  if finished cfg s1 then ⟨s1, [.stepDone k], none⟩
  else
    match cfg.times[k + 2]? with
    | none => ⟨s1, [.stepDone k], some .index⟩
    | some t => ⟨{ s1 with tgtT := t, left := 1, right := cfg.n - 1 }, [.stepDone k], none⟩

/-- The three `assert`s at the end of `sweep_complete`. -/
def assertsOk (s : St α) : Bool :=
  decide (s.idx = 0) && decide (s.centre = 0) && decide (s.dir = .l2r)

/-- Tail of `sweep_complete`: asserts, then `current_energy = None`. -/
def sweepTail (r : Res α) : Res α :=
  match r.halt with
  | some _ => r
  | none =>
    if assertsOk r.st then ⟨{ r.st with curE := none }, r.evs, none⟩
    else ⟨r.st, r.evs, some .assertion⟩

/-- Does the non-converged branch raise? (`self.sweep_count + 1 > self.max_sweeps`) -/
def exhausted (cfg : Cfg α) (s : St α) : Bool := decide (cfg.maxSweeps < s.sweepCount + 1)

/-- `sweep_complete` -/
def sweepComplete (cfg : Cfg α) (s : St α) : Res α :=
  if convergenceCheck cfg.tol s then
    let r := timestepComplete cfg { s with curT := s.tgtT, sweepCount := 0, prevE := if cfg.resetPrev then none else s.prevE }
    sweepTail ⟨r.st, .sweepDone true :: r.evs, r.halt⟩
  else if exhausted cfg s then
    ⟨s, [.sweepDone false, .raise], some .notConverged⟩
  else
    sweepTail ⟨{ s with prevE := s.curE }, [.sweepDone false], none⟩

/-- `_left_to_right_update(idx)` (with `idx = s.idx`, the value read at the top of `progress`) -/
def l2rUpdate (cfg : Cfg α) (s : St α) : St α :=
  let s1 := if s.idx + 2 < cfg.n
            then { s with left := s.left + 1, right := s.right - 1, idx := s.idx + 1 }
            else s
  if s1.idx + 2 = cfg.n then { s1 with dir := .r2l } else s1

/-- The moving part of `_right_to_left_update(idx)` -/
def r2lMove (s : St α) : St α :=
  if 0 < s.idx then { s with right := s.right + 1, left := s.left - 1, idx := s.idx - 1 } else s

/-- The sweep-end part of `_right_to_left_update`: `orthogonalize(0)`, direction, count. -/
def sweepEnd (s : St α) : St α :=
  { s with centre := 0, dir := .l2r, sweepCount := s.sweepCount + 1 }

/-- `_right_to_left_update(idx)` -/
def r2lUpdate (cfg : Cfg α) (s : St α) : Res α :=
  let s1 := r2lMove s
  if s1.idx = 0 then sweepComplete cfg (sweepEnd s1) else ⟨s1, [], none⟩

/-- One call of `progress()` on an unfinished run, the local minimisation returning energy `e`. -/
def progress (cfg : Cfg α) (s : St α) (e : α) : Res α :=
  if !bathsOk s then ⟨s, [], some .index⟩
  else
    let ev := Event.min s.idx (centreRight s)
    if ¬ (s.idx + 1 < cfg.n) then ⟨s, [ev], some .index⟩
    else
      let s1 := afterMin s e
      match s.dir with
      | .l2r => ⟨l2rUpdate cfg s1, [ev], none⟩
      | .r2l =>
        let r := r2lUpdate cfg s1
        ⟨r.st, ev :: r.evs, r.halt⟩

/-- Sequential composition of two pieces of the run: an exception stops everything. -/
def Res.andThen (r : Res α) (k : St α → Res α) : Res α :=
  match r.halt with
  | some h => ⟨r.st, r.evs, some h⟩
  | none => ⟨(k r.st).st, r.evs ++ (k r.st).evs, (k r.st).halt⟩

/-- The loop of `MPSBackend._run` (`while not impl.is_finished(): impl.progress()`), the energies
of the successive local minimisations coming from a tape. Stops at the end of the tape, when the
run is finished, or at the first exception. -/
def runTape (cfg : Cfg α) : List α → St α → Res α
  | [], s => ⟨s, [], none⟩
  | e :: es, s =>
    if finished cfg s then ⟨s, [], none⟩
    else (progress cfg s e).andThen (fun s' => runTape cfg es s')

/-- The `(idx, orth_center_right)` pairs of one sweep, in order, as the code visits them:
`0,…,n-3` left-to-right, then `n-2,…,1` right-to-left (the pair `(0,1)` is *not* revisited on
the way back); for two atoms `(0,→)` then `(0,←)`. -/
def sweepPositions (n : Nat) : List (Nat × Bool) :=
  if n ≤ 2 then [(0, true), (0, false)]
  else (List.range' 0 (n - 2)).map (fun i => (i, true))
    ++ (List.range' 1 (n - 2)).reverse.map (fun i => (i, false))

end EmuVerif.Dmrg
