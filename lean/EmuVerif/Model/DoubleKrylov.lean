/-
  Model of `emu_base/math/double_krylov.py` (`lanczos`, `double_krylov`), statement by statement, over the abstract
  vector space `VecOps` of `Model/Krylov.lean` (whose per-iteration pieces `iterVals`, `isBreakdown`, `extVals`,
  `errOk`, `nextSt`, `expInit` are reused: `lanczos` is declared in the source as a copy of `krylov_exp_impl`'s loop).

  * `lanczos(op, v, tolerance)`: Hermitian branch only (`k_start = max(0, j-1)`), ONE tolerance for both tests,
    returns `(lanczos_vectors, T[:size, :size])` with `size = len(lanczos_vectors)`; on happy breakdown the new vector is
    not appended (`size = j+1`), on an accepted error estimate it is (`size = j+2`, last column of the slice never
    written). Raises `RecursionError` when the loop is exhausted (also for `max_krylov_dim = 0`).
  * `double_krylov(op, state, grad, tolerance)`: two `lanczos` runs (state first), `torch.block_diag(Ts, Tg)`,
    the single entry `big_mat[0, size_s] = state.norm() * grad.norm()` (a product of two *real* 0-dim tensors stored into
    the complex matrix), `dS = matrix_exp(big_mat)[:size_s, size_s:]`, returns `(Vs, dS, Vg)`.
  * `matrix_exp` calls are ORACLES: `mexpS`, `mexpG` (indexed by the iteration, as in `Model/Krylov.lean`) and `mexpBig`.
  * Ghost fields of `DKResult` (`sizeS`, `sizeG`, `Ts`, `Tg`, `big`) are locals of the Python function, exposed for the
    correspondence check.
-/
import EmuVerif.Model.Krylov

namespace EmuVerif.DoubleKrylov
open EmuVerif EmuVerif.Krylov

variable {S R V : Type}

/-! ### matrix bookkeeping -/
section mat
variable [OfNat S 0]

/-- number of columns (of the first row; `0` for an empty matrix) -/
def ncols (A : Mat S) : Nat := (A.getD 0 #[]).size

/-- `torch.block_diag(A, B)` for two 2-D tensors: zeros of shape `(ra+rb, ca+cb)` with `A` copied to the top-left and
`B` to the bottom-right corner -/
def blockDiag (A B : Mat S) : Mat S :=
  Array.ofFn (n := A.size + B.size) fun i =>
    Array.ofFn (n := ncols A + ncols B) fun j =>
      if i.val < A.size then (if j.val < ncols A then getM A i.val j.val else 0)
      else (if j.val < ncols A then 0 else getM B (i.val - A.size) (j.val - ncols A))

/-- `M[:r, c:]` -/
def sliceTR (M : Mat S) (r c : Nat) : Mat S := (M.extract 0 r).map (fun row => row.extract c row.size)

end mat

/-! ### `lanczos` -/

/-- `(lanczos_vectors, T[:size, :size])`; ghost: `iters = j + 1` at the exit, `happy` = exit through `n2 < tolerance`,
`opCalls` = number of `op(...)` evaluations -/
structure LanResult (S V : Type) where
  qs : List V
  T : Mat S
  iters : Nat
  happy : Bool
  opCalls : Nat

inductive LanOut (S R V : Type)
  | done (r : LanResult S V)
  | cont (st : ExpSt S R V)

section
variable [OfNat S 0] [OfNat S 1] [Mul S]
variable [LT R] [DecidableLT R] [Sub R] [Mul R] [Div R]

/-- the configuration `lanczos` corresponds to in terms of `krylov_exp_impl`'s parameters -/
def lanCfg (tol : R) (maxDim : Nat) : ExpCfg R :=
  { isHermitian := true, expTol := tol, normTol := tol, maxDim := maxDim }

/-- body of `for j in range(max_krylov_dim)` in `lanczos` -/
def lanIter (O : VecOps S R V) (mexp : Nat → Mat S → Mat S) (tol : R) (maxDim : Nat) (j : Nat)
    (st : ExpSt S R V) : LanOut S R V :=
  let cfg := lanCfg tol maxDim
  let iv := iterVals O cfg j st
  if isBreakdown cfg iv then
    .done { qs := st.qs, T := sliceM iv.T st.qs.length, iters := j + 1, happy := true, opCalls := st.opCalls + 1 }
  else
    let ev := extVals O mexp j st iv
    if errOk tol ev.err1 ev.err2 then
      .done { qs := ev.qs, T := sliceM ev.T ev.qs.length, iters := j + 1, happy := false, opCalls := st.opCalls + 1 }
    else .cont (nextSt st ev)

/-- the loop from iteration `j` with `fuel = max_krylov_dim - j`; exhausted = `raise RecursionError` -/
def lanLoop (O : VecOps S R V) (mexp : Nat → Mat S → Mat S) (tol : R) (maxDim : Nat) :
    Nat → Nat → ExpSt S R V → Except Err (LanResult S V)
  | 0, _, _ => .error .recursion
  | fuel + 1, j, st =>
    match lanIter O mexp tol maxDim j st with
    | .done r => .ok r
    | .cont st' => lanLoop O mexp tol maxDim fuel (j + 1) st'

/-- `lanczos(op, v, tolerance)` (`max_krylov_dim` is the module constant) -/
def lanczos (O : VecOps S R V) (mexp : Nat → Mat S → Mat S) (tol : R) (maxDim : Nat) (v : V) :
    Except Err (LanResult S V) :=
  lanLoop O mexp tol maxDim maxDim 0 (expInit O (lanCfg tol maxDim) v)

/-! ### `double_krylov` -/

/-- `(Vs, dS, Vg)` + ghost locals -/
structure DKResult (S V : Type) where
  Vs : List V
  dS : Mat S
  Vg : List V
  sizeS : Nat
  sizeG : Nat
  Ts : Mat S
  Tg : Mat S
  big : Mat S
  opCalls : Nat

/-- `big_mat = block_diag(Ts, Tg); big_mat[0, size_s] = c` -/
def bigMat (Ts Tg : Mat S) (sizeS : Nat) (c : S) : Mat S := setM (blockDiag Ts Tg) 0 sizeS c

/-- `double_krylov(op, state, grad, tolerance)` -/
def doubleKrylov (O : VecOps S R V) (mexpS mexpG : Nat → Mat S → Mat S) (mexpBig : Mat S → Mat S)
    (tol : R) (maxDim : Nat) (state grad : V) : Except Err (DKResult S V) :=
  match lanczos O mexpS tol maxDim state with
  | .error e => .error e
  | .ok rs =>
    match lanczos O mexpG tol maxDim grad with
    | .error e => .error e
    | .ok rg =>
      let sizeS := rs.qs.length
      let big := bigMat rs.T rg.T sizeS (O.ofReal (O.norm state * O.norm grad))
      .ok { Vs := rs.qs, dS := sliceTR (mexpBig big) sizeS sizeS, Vg := rg.qs,
            sizeS := sizeS, sizeG := rg.qs.length, Ts := rs.T, Tg := rg.T, big := big,
            opCalls := rs.opCalls + rg.opCalls }

end

end EmuVerif.DoubleKrylov
