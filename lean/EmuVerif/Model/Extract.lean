/-
  Model of `_extract_omega_delta_phi` (`emu_base/pulser_adapter.py`): mid-points of the time
  grid, PCHIP through the Pulser samples at the knots `0 … T-1`, evaluation at the mid-points,
  clamp of the *whole* amplitude column at 0; plus the dictionary dispatch around it (single
  interaction type, `ground-rydberg`/`XY`, qubit filter, imaginary-part check, duration assert).
-/
import EmuVerif.Model.Pchip

namespace EmuVerif.Extract
open EmuVerif EmuVerif.Pchip

variable {α : Type} [Add α] [Sub α] [Mul α] [Div α] [Neg α] [LT α] [DecidableLT α]
  [LE α] [DecidableLE α] [OfNat α 0] [OfNat α 1] [OfNat α 2] [OfNat α 3]

/-- `t_mid = 0.5 * (target_t[:-1] + target_t[1:])` (`1 / 2` is exactly `0.5` in binary64). -/
def midpoints (t : List α) : List α := List.zipWith (fun a b => (1 / 2) * (a + b)) t t.tail

/-- The scalar `k` as produced by `torch.arange` (exact in binary64 below 2^53). -/
def natScalar : Nat → α
  | 0 => 0
  | k + 1 => natScalar k + 1

/-- `t_grid = torch.arange(T)`: the knots `0, 1, …, T-1`. -/
def knots (T : Nat) : List α := (List.range T).map natScalar

/-- `torch.where(col > 0, col, 0)` on a whole column. -/
def clampCol (v : List α) : List α := v.map (fun a => if 0 < a then a else 0)

inductive Kind where
  | amp | det | phase
  deriving DecidableEq, Repr

/-- `pchip(xq)` on a tensor of query points. -/
def evalAll (P : Interp α) : List α → Option (List α)
  | [] => some []
  | q :: qs =>
    match P.eval q, evalAll P qs with
    | some v, some vs => some (v :: vs)
    | _, _ => none

/-- The interpolated values before the clamp: `pchip(t_mid)`. -/
def rawColumn (T : Nat) (samples tt : List α) : Option (List α) :=
  match build (knots T) samples with
  | none => none
  | some P => evalAll P (midpoints tt)

/-- One column of `omega_mid` / `delta_mid` / `phi_mid`; `none` = `PCHIP1D` raised. -/
def column (kind : Kind) (T : Nat) (samples tt : List α) : Option (List α) :=
  (rawColumn T samples tt).map (fun v => if kind = Kind.amp then clampCol v else v)

/-! ### The dispatch around the columns -/

/-- One qubit's entry of the nested dict: real parts and, for complex tensors, imaginary parts. -/
structure QS (α : Type) where
  amp : List α
  det : List α
  phase : List α
  ampIm : Option (List α)
  detIm : Option (List α)
  phaseIm : Option (List α)

inductive Res (α : Type) where
  | ok (omega delta phi : List (List α))      -- column per kept qubit
  | errSingle | errChannel | errIndex | errAssert
  | errImag (k : Kind) | errPchip (k : Kind)

/-- The two ways the per-qubit loop can raise `ValueError`. -/
inductive ColErr where
  | imag | pchip

def Res.ofColErr (k : Kind) : ColErr → Res α
  | .imag => .errImag k
  | .pchip => .errPchip k

def Kind.re (k : Kind) (q : QS α) : List α :=
  match k with | .amp => q.amp | .det => q.det | .phase => q.phase
def Kind.im (k : Kind) (q : QS α) : Option (List α) :=
  match k with | .amp => q.ampIm | .det => q.detIm | .phase => q.phaseIm

/-- `torch.allclose(imag, 0)`: `|imag| ≤ atol` element-wise (`rtol·|0| = 0`). -/
def imagOk (atol : α) : Option (List α) → Bool
  | none => true
  | some im => im.all (fun v => decide (absv v ≤ atol))

/-- Columns of one kind for the kept qubits, in order; stops at the first error. -/
def columnsOf (k : Kind) (atol : α) (T : Nat) (tt : List α) :
    List (QS α) → Except ColErr (List (List α))
  | [] => .ok []
  | q :: qs =>
    if !imagOk atol (k.im q) then .error .imag
    else match column k T (k.re q) tt with
      | none => .error .pchip
      | some c => (columnsOf k atol T tt qs).map (c :: ·)

def eqScalar (a b : α) : Bool := !decide (a < b) && !decide (b < a)

/-- `_extract_omega_delta_phi`. `localD` = `to_nested_dict(...)["Local"]` as an ordered
association list; `T` = `max_duration`. -/
def extract (localD : List (String × List (String × QS α))) (qubitIds : List String)
    (tt : List α) (T : Nat) (atol : α) : Res α :=
  if localD.length ≠ 1 then .errSingle
  else
    match (localD.lookup "ground-rydberg").orElse (fun _ => localD.lookup "XY") with
    | none => .errChannel
    | some chan =>
      let kept := qubitIds.filterMap (fun q => chan.lookup q)
      match tt.getLast? with
      | none => .errIndex
      | some tlast =>
        if !eqScalar (natScalar T) tlast then .errAssert
        else
          match columnsOf Kind.amp atol T tt kept with
          | .error e => Res.ofColErr Kind.amp e
          | .ok om =>
            match columnsOf Kind.det atol T tt kept with
            | .error e => Res.ofColErr Kind.det e
            | .ok de =>
              match columnsOf Kind.phase atol T tt kept with
              | .error e => Res.ofColErr Kind.phase e
              | .ok ph => .ok om de ph

end EmuVerif.Extract
