/-
  Glue between the two models of an emu-mps Hamiltonian:

    `Model/HamMPO.lean`   the factors of `make_H` / `update_H` with LABEL-indexed bonds, enumerated over their
                          ordered label lists (`enumFactor`: `rows[a][b] = factor[a, :, :, b]`, a local operator);
    `Model/Tensor.lean`   `MPO.expect`, `opAmp`, … on NUMERICALLY indexed factors `t x l r = factor[l, o, i, r]`,
                          level `x = o·d + i`.

  `toSite d ent F` reads one enumerated factor as a Tensor-model MPO factor: the local operator in row `l`, column
  `r` is turned into scalars by `ent a o i = a[o, i]` (the matrix entry of a local operator).  Nothing else happens:
  this is the torch tensor the code builds, seen with its second and third axis merged (`factor.view(dl, d*d, dr)`).

  `denseElem` is the dense Hamiltonian as a function of two basis strings,
      `⟨s|H|t⟩ = Σ_m [s = t off m]·h_m[s_m, t_m] + Σ_{i<j} Σ_k [s = t off i, j]·c·U_ij·op_k[s_i, t_i]·op_k[s_j, t_j]`,
  and `denseEnergy` the sesquilinear form `Σ_{s,t} conj(amp s)·⟨s|H|t⟩·amp t` of a Tensor-model MPS.

  Polymorphic ("one definition, two readings"): the driver runs it at `A = LMat d`, `α = Rat`, `β = Cx Rat`
  (`lmatEnt`, `castQ`); `Proofs/HamBridge.lean` reads the same definitions at `A = Matrix (Fin d) (Fin d) K`,
  `α = β = K` any commutative ring.  Mathlib-free.
-/
import EmuVerif.Model.HamMPO
import EmuVerif.Model.Tensor

namespace EmuVerif.HamBridge
open EmuVerif.HamMPO EmuVerif.Tensor

section convert
variable {A β : Type} [Zero A]

/-- one enumerated HamMPO factor of shape `(dl, d, d, dr)` as a Tensor-model MPO factor with `d·d` levels:
`t (o·d + i) l r = ent (factor[l, :, :, r]) o i` -/
def toSite (d : Nat) (ent : A → Nat → Nat → β) (F : Factor A) : Site β :=
  Site.make F.dl (d * d) F.dr (fun x l r => ent ((F.rows.getD l []).getD r 0) (x / d) (x % d))

/-- the whole factor list -/
def toTensor (d : Nat) (ent : A → Nat → Nat → β) (fs : List (Factor A)) : List (Site β) :=
  fs.map (toSite d ent)

end convert

/-- entries of the driver's local operators as `Cx Rat` scalars -/
def lmatEnt {d : Nat} (m : LMat d) (o i : Nat) : Cx Rat := ⟨(m.e o i).1, (m.e o i).2⟩

/-- interaction values (real) as complex scalars -/
def castQ (q : Rat) : Cx Rat := ⟨q, 0⟩

section dense
variable {α A β : Type} [Mul α] [Add β] [Mul β] [OfNat β 0] [OfNat β 1] [Conj β]

/-- the strings `s`, `t` agree on every site `< N` other than `i` and `j` -/
def agreeOff (N i j : Nat) (s t : List Nat) : Bool :=
  (List.range N).all (fun m => m == i || m == j || s.getD m 0 == t.getD m 0)

/-- single-site part of `⟨s|H|t⟩` -/
def denseSingle (P : Params α A) (ent : A → Nat → Nat → β) (s t : List Nat) : β :=
  sumTo P.N (fun m => if agreeOff P.N m m s t then ent (P.h m) (s.getD m 0) (t.getD m 0) else 0)

/-- pair part of `⟨s|H|t⟩`, pairs `i < j` in the order of `Props.C05.Hdense` -/
def densePair (P : Params α A) (ent : A → Nat → Nat → β) (cast : α → β) (s t : List Nat) : β :=
  sumTo P.N (fun j => sumTo j (fun i => sumTo P.K (fun k =>
    if agreeOff P.N i j s t then
      cast (P.c * P.U i j) * (ent (P.op k) (s.getD i 0) (t.getD i 0) * ent (P.op k) (s.getD j 0) (t.getD j 0))
    else 0)))

/-- `⟨s|H_dense|t⟩` in the computational basis -/
def denseElem (P : Params α A) (ent : A → Nat → Nat → β) (cast : α → β) (s t : List Nat) : β :=
  denseSingle P ent s t + densePair P ent cast s t

/-- `⟨ψ|H|ψ⟩ = Σ_{s,t} conj(amp s)·H s t·amp t` for a Tensor-model MPS `As` (not normalised) -/
def denseEnergy (d n : Nat) (H : List Nat → List Nat → β) (As : List (Site β)) : β :=
  sumStrings d n (fun s => sumStrings d n (fun t => conj (amp As s) * H s t * amp As t))

end dense

end EmuVerif.HamBridge
