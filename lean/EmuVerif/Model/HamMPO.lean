/-
  Model of `emu_mps/hamiltonian.py`
  (`HamiltonianMPOFactors.{_has_left/right_interaction, _left/_right_interaction_masks,
  __iter__}`, `RydbergHamiltonianMPOFactors`, `XYHamiltonianMPOFactors`, `make_H`, `update_H`).

  Bond indices are *labels*: `done` (position 0: everything already accumulated), `idle`
  (position 1: nothing started yet) and `chan i k` (an open interaction channel of site `i`,
  kind `k`; Rydberg has one kind (`n`), XY two (`sx`, `sy`)). Every factor is a function
  `W : Label → Label → A` (`A` = local operators) together with the ordered lists of labels of
  its left and right bond; **each list is computed on its own from the interaction masks,
  exactly as the code computes each tensor on its own**. The numeric tensor the code builds is
  the enumeration `enumFactor LL LR W` (row `a`, column `b` ↦ `factor[a, :, :, b]`).

  Polymorphic in the scalar `α` (entries of the interaction matrix) and in the local operator
  type `A`; the driver runs it at `α = Rat`, `A = LMat d` (d×d Gaussian-rational matrices), the
  theorems read the same definitions over any commutative ring / module.
  Domain: `N ≥ 2` (`MPO.__init__` raises for fewer than two factors).
-/
namespace EmuVerif.HamMPO

inductive Label
  | done
  | idle
  | chan (i k : Nat)
  deriving DecidableEq, Repr

/-- What the factor classes are built from. `K`/`c`/`op`: Rydberg = `1`/`1`/`n`;
XY = `2`/`2`/`sx, sy`. `h` = single-site terms (zero after `make_H`, set by `update_H`). -/
structure Params (α A : Type) where
  N : Nat
  K : Nat
  c : α
  U : Nat → Nat → α
  op : Nat → A
  h : Nat → A

/-- One MPO factor, shape `(dl, d, d, dr)`: `rows[a][b] = factor[a, :, :, b]`. -/
structure Factor (A : Type) where
  dl : Nat
  dr : Nat
  rows : List (List A)

section masks
variable {α A : Type} [Zero α] [DecidableEq α]

def nz (x : α) : Bool := !decide (x = 0)

/-- `U[i, lo:hi].any()` -/
def anyRow (U : Nat → Nat → α) (i lo hi : Nat) : Bool :=
  (List.range hi).any (fun j => decide (lo ≤ j) && nz (U i j))

/-- `_has_right_interaction(n)` = `U[n, n+1:].any()` -/
def hasRight (P : Params α A) (n : Nat) : Bool := anyRow P.U n (n + 1) P.N
/-- `_has_left_interaction(n)` = `U[n, :n].any()` -/
def hasLeft (P : Params α A) (n : Nat) : Bool := anyRow P.U n 0 n
/-- `_left_interaction_masks(n)[0][i]` = `U[:n, n:].any(dim=1)[i]` -/
def curL (P : Params α A) (n i : Nat) : Bool := anyRow P.U i n P.N
/-- `_left_interaction_masks(n)[1][i]` = `U[:n, n+1:].any(dim=1)[i]` -/
def keepL (P : Params α A) (n i : Nat) : Bool := anyRow P.U i (n + 1) P.N
/-- `_right_interaction_masks(n)[0]` at absolute row `j > n`: `U[n+1:, :n+1].any(dim=1)` -/
def curR (P : Params α A) (n j : Nat) : Bool := anyRow P.U j 0 (n + 1)
/-- `_right_interaction_masks(n)[1]` at absolute row `j > n`: `U[n+1:, :n].any(dim=1)` -/
def keepR (P : Params α A) (n j : Nat) : Bool := anyRow P.U j 0 n

/-- the `K` consecutive bond positions of site `i`'s channel -/
def chans (K i : Nat) : List Label := (List.range K).map (Label.chan i)

/-- channels of the sites of `is` selected by a mask, in order (`mask.nonzero()`) -/
def chanList (K : Nat) (is : List Nat) (p : Nat → Bool) : List Label :=
  (is.filter p).flatMap (chans K)

def optChans (K : Nat) (b : Bool) (i : Nat) : List Label := if b then chans K i else []

/-- the sites `n+1 … N-1` -/
def after (N n : Nat) : List Nat := (List.range N).filter (fun j => decide (n < j))

/-- left bond of `left_factor(n)` / `middle_factor()` -/
def LLl (P : Params α A) (n : Nat) : List Label :=
  .done :: .idle :: chanList P.K (List.range n) (curL P n)
/-- right bond of `first_factor()` (n = 0) / `left_factor(n)`: kept channels, then the new one
(`factor[1, :, :, -1]`) -/
def LRl (P : Params α A) (n : Nat) : List Label :=
  .done :: .idle :: (chanList P.K (List.range n) (keepL P n) ++ optChans P.K (hasRight P n) n)
/-- left bond of `right_factor(n)` / `last_factor()`: the channel that closes here
(`factor[2, :, :, 0]`), then the kept ones -/
def LLr (P : Params α A) (n : Nat) : List Label :=
  .done :: .idle :: (optChans P.K (hasLeft P n) n ++ chanList P.K (after P.N n) (keepR P n))
/-- right bond of `middle_factor()` / `right_factor(n)` -/
def LRr (P : Params α A) (n : Nat) : List Label :=
  .done :: .idle :: chanList P.K (after P.N n) (curR P n)
/-- left bond of `last_factor()` when `N = 2` (the channel is the one `first_factor` opened) -/
def LLlast2 (P : Params α A) : List Label :=
  .done :: .idle :: optChans P.K (hasLeft P 1) 0

end masks

section factors
variable {α A : Type} [Zero α] [Mul α] [DecidableEq α] [Zero A] [One A] [SMul α A]

/-- `first_factor` (row `idle` only) and `left_factor(n)`. -/
def Wleft (P : Params α A) (n : Nat) : Label → Label → A
  | .done, .done => 1
  | .idle, .idle => 1
  | .idle, .done => P.h n
  | .idle, .chan i k => if i = n then P.op k else 0
  | .chan i k, .done => (P.c * P.U i n) • P.op k
  | .chan i k, .chan i' k' => if i = i' ∧ k = k' then 1 else 0
  | _, _ => 0

/-- `middle_factor` at site `n`. -/
def Wmid (P : Params α A) (n : Nat) : Label → Label → A
  | .done, .done => 1
  | .idle, .idle => 1
  | .idle, .done => P.h n
  | .idle, .chan j k => (P.c * P.U j n) • P.op k
  | .chan i k, .done => (P.c * P.U i n) • P.op k
  | .chan i k, .chan j k' => if k = k' then (P.c * P.U i j) • (1 : A) else 0
  | _, _ => 0

/-- `right_factor(n)` and (column `done` only, `N ≥ 3`) `last_factor`. -/
def Wright (P : Params α A) (n : Nat) : Label → Label → A
  | .done, .done => 1
  | .idle, .idle => 1
  | .idle, .done => P.h n
  | .idle, .chan j k => (P.c * P.U j n) • P.op k
  | .chan j k, .done => if j = n then P.op k else 0
  | .chan j k, .chan j' k' => if j = j' ∧ k = k' then 1 else 0
  | _, _ => 0

/-- `last_factor` for `N = 2`: `coeff = U[0, 1]` (times 2 for XY). -/
def Wlast2 (P : Params α A) : Label → Label → A
  | .done, .done => 1
  | .idle, .done => P.h 1
  | .chan _ k, .done => (P.c * P.U 0 1) • P.op k
  | _, _ => 0

def enumFactor (LL LR : List Label) (W : Label → Label → A) : Factor A :=
  { dl := LL.length, dr := LR.length, rows := LL.map (fun l => LR.map (W l)) }

def mid (P : Params α A) : Nat := P.N / 2

def firstF (P : Params α A) : Factor A := enumFactor [.idle] (LRl P 0) (Wleft P 0)
def leftF (P : Params α A) (n : Nat) : Factor A := enumFactor (LLl P n) (LRl P n) (Wleft P n)
def middleF (P : Params α A) : Factor A :=
  enumFactor (LLl P (mid P)) (LRr P (mid P)) (Wmid P (mid P))
def rightF (P : Params α A) (n : Nat) : Factor A := enumFactor (LLr P n) (LRr P n) (Wright P n)
def lastF (P : Params α A) : Factor A :=
  if P.N = 2 then enumFactor (LLlast2 P) [.done] (Wlast2 P)
  else enumFactor (LLr P (P.N - 1)) [.done] (Wright P (P.N - 1))

/-- `HamiltonianMPOFactors.__iter__` -/
def factors (P : Params α A) : List (Factor A) :=
  firstF P :: ((List.range' 1 (mid P - 1)).map (leftF P)
    ++ (if 3 ≤ P.N then [middleF P] else [])
    ++ (List.range' (mid P + 1) (P.N - 1 - (mid P + 1))).map (rightF P)
    ++ [lastF P])

/-! ### `update_H` -/

/-- `factor[a, :, :, b] = x` -/
def setEntry (F : Factor A) (a b : Nat) (x : A) : Factor A :=
  { F with rows := F.rows.set a ((F.rows.getD a []).set b x) }

def updateFrom (h : Nat → A) : Nat → List (Factor A) → List (Factor A)
  | _, [] => []
  | i, F :: Fs => setEntry F (if i = 0 then 0 else 1) 0 (h i) :: updateFrom h (i + 1) Fs

/-- `update_H`: `factors[0][0,:,:,0] = h 0`, `factors[i][1,:,:,0] = h i`. -/
def updateH (fs : List (Factor A)) (h : Nat → A) : List (Factor A) := updateFrom h 0 fs

end factors

/-! ### Contraction (the meaning of an MPO): row vector of accumulated operators times the
factor, the local operator of site `n` being placed by `e = emb n`. -/
section contract
variable {A R : Type} [Zero A] [Zero R] [Add R] [Mul R]

/-- `r'[b] = Σ_a r[a] · e(F[a][b])` -/
def rowStep (e : A → R) (r : List R) (F : Factor A) : List R :=
  (List.range F.dr).map fun b =>
    (List.zipWith (fun x (row : List A) => x * e (row.getD b 0)) r F.rows).sum

/-- left-to-right contraction, factor number `n` acting on site `n`. -/
def contractFrom (emb : Nat → A → R) : Nat → List R → List (Factor A) → List R
  | _, r, [] => r
  | n, r, F :: Fs => contractFrom emb (n + 1) (rowStep (emb n) r F) Fs

end contract

/-! ### The concrete local operators of the code: d×d matrices over ℚ(i) -/

/-- complex numbers with rational parts -/
abbrev Cq := Rat × Rat

structure LMat (d : Nat) where
  e : Nat → Nat → Cq

namespace LMat
variable {d : Nat}
instance : Zero (LMat d) := ⟨⟨fun _ _ => (0, 0)⟩⟩
/-- `torch.eye(d)` -/
instance : One (LMat d) := ⟨⟨fun p q => if p = q ∧ p < d then (1, 0) else (0, 0)⟩⟩
instance : SMul Rat (LMat d) := ⟨fun a m => ⟨fun p q => (a * (m.e p q).1, a * (m.e p q).2)⟩⟩
instance : Add (LMat d) := ⟨fun m m' => ⟨fun p q => ((m.e p q).1 + (m'.e p q).1, (m.e p q).2 + (m'.e p q).2)⟩⟩
instance : Sub (LMat d) := ⟨fun m m' => ⟨fun p q => ((m.e p q).1 - (m'.e p q).1, (m.e p q).2 - (m'.e p q).2)⟩⟩
/-- complex scalar times matrix -/
def cmul (z : Cq) (m : LMat d) : LMat d :=
  ⟨fun p q => (z.1 * (m.e p q).1 - z.2 * (m.e p q).2, z.1 * (m.e p q).2 + z.2 * (m.e p q).1)⟩

/-- `Operators.n` in the top-left 2×2 block (`factor[.., :2, :2, ..] = Operators.n`) -/
def nOp : LMat d := ⟨fun p q => if p = 1 ∧ q = 1 then (1, 0) else (0, 0)⟩
/-- `Operators.sx = [[0, .5], [.5, 0]]` -/
def sxOp : LMat d := ⟨fun p q => if (p = 0 ∧ q = 1) ∨ (p = 1 ∧ q = 0) then (1 / 2, 0) else (0, 0)⟩
/-- `Operators.sy = [[0, -.5j], [.5j, 0]]` -/
def syOp : LMat d :=
  ⟨fun p q => if p = 0 ∧ q = 1 then (0, -1 / 2) else if p = 1 ∧ q = 0 then (0, 1 / 2) else (0, 0)⟩

/-- `single_qubit_terms[i] = noise; [:2, :2] += a + b - c` of `update_H`, with
`oc = omega*cos(phi)`, `os = omega*sin(phi)`, `dl = delta` supplied by the caller. -/
def singleTerm (oc os dl : Cq) (noise : LMat d) : LMat d :=
  noise + ((cmul oc sxOp + cmul os syOp) - cmul dl nOp)
end LMat

/-- `RydbergHamiltonianMPOFactors`: one channel kind (`n`), coefficient `U[i,j]`. -/
def mkRyd {α A : Type} [One α] (N : Nat) (U : Nat → Nat → α) (nop : A) (h : Nat → A) : Params α A :=
  { N := N, K := 1, c := 1, U := U, op := fun _ => nop, h := h }
/-- `XYHamiltonianMPOFactors`: two channel kinds (`sx`, `sy`), coefficient `2·U[i,j]`. -/
def mkXY {α A : Type} [OfNat α 2] (N : Nat) (U : Nat → Nat → α) (sx sy : A) (h : Nat → A) :
    Params α A :=
  { N := N, K := 2, c := 2, U := U, op := fun k => if k = 0 then sx else sy, h := h }

/-- Rydberg parameters at the concrete operators. -/
def rydParams (d N : Nat) (U : Nat → Nat → Rat) (h : Nat → LMat d) : Params Rat (LMat d) :=
  mkRyd N U LMat.nOp h
/-- XY parameters at the concrete operators. -/
def xyParams (d N : Nat) (U : Nat → Nat → Rat) (h : Nat → LMat d) : Params Rat (LMat d) :=
  mkXY N U LMat.sxOp LMat.syOp h

end EmuVerif.HamMPO
