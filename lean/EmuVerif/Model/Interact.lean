/-
  Model of the interaction-matrix pipeline.

  * `emu_base/pulser_adapter.py`, `PulserData.get_sequences`: choice between the user matrix and
    the register matrix, `M[abs(M) < cutoff] = 0`, the SLM mask (`M[target] = 0; M[:, target] = 0`
    for every target), and `_InteractionMatrixCallable.__call__`.
  * the times at which the two back-ends query the callable: emu-sv `_evolve_step` at the step
    start `target_times[k]`; emu-mps `_get_interaction_matrix` at
    `0.5 * (current_time + target_time)`, called in `init_noiseless_hamiltonian` (current_time = 0,
    target_time = target_times[1]: the mid-point of step 0) and in `timestep_complete` *before*
    `target_time` is advanced (current_time = target_time = target_times[k]: the start of step k).

  Matrices are functions of two indices (the driver converts nested lists).
-/
import EmuVerif.Model.Scalar

namespace EmuVerif.Interact

variable {α : Type} [Add α] [Sub α] [Mul α] [Neg α] [LT α] [DecidableLT α] [OfNat α 0]

abbrev Mat (α : Type) := Nat → Nat → α

/-- `config.interaction_matrix` if given, else the trajectory's register matrix. -/
def chooseFull (user : Option (Mat α)) (reg : Mat α) : Mat α :=
  match user with
  | some u => u
  | none => reg

/-- `M[torch.abs(M) < cutoff] = 0.0`. -/
def applyCutoff (cutoff : α) (m : Mat α) : Mat α :=
  fun i j => if absv (m i j) < cutoff then 0 else m i j

/-- `M[target] = 0.0; M[:, target] = 0.0`. -/
def maskOne (t : Nat) (m : Mat α) : Mat α :=
  fun i j => if i = t then 0 else if j = t then 0 else m i j

/-- The loop over `register.find_indices(slm_targets)`. -/
def applyMask (targets : List Nat) (m : Mat α) : Mat α :=
  targets.foldl (fun acc t => maskOne t acc) m

/-- `_InteractionMatrixCallable.__call__`. -/
def callable (full masked : Mat α) (slmEnd t : α) : Mat α :=
  if t < slmEnd then masked else full

/-- What `get_sequences` puts into `SequenceData.interaction_matrix`, as a function of time. -/
def sequenceInteraction (user : Option (Mat α)) (reg : Mat α) (cutoff : α) (targets : List Nat)
    (slmEnd : α) (t : α) : Mat α :=
  let full := applyCutoff cutoff (chooseFull user reg)
  callable full (applyMask targets full) slmEnd t

/-- Query time of emu-sv for step `k` (`none` = IndexError). -/
def svQuery (g : List α) (k : Nat) : Option α := g[k]?

/-- Query time of emu-mps for step `k`. -/
def mpsQuery (half : α) (g : List α) (k : Nat) : Option α :=
  match k with
  | 0 => g[1]?.map (fun t1 => half * (0 + t1))
  | k + 1 => g[k + 1]?.map (fun t => half * (t + t))

/-- Every call of the callable during an emu-sv run, in order: the Hamiltonian handed to the
observables at t = 0 (only if some observable is due at t = 0) is built at the mid-point of step 0,
then one call per step at its start time. -/
def svQueries (half : α) (g : List α) (nsteps : Nat) (obsAt0 : Bool) : List α :=
  (match obsAt0, g with
   | true, t0 :: t1 :: _ => [half * (t0 + t1)]
   | _, _ => []) ++ g.take nsteps

/-- Every call of the callable during an emu-mps run, in order: `minimize_bandwidth` at the
final time (only with `optimize_qubit_ordering`), the mid-point of step 0 in `init`, then
`timestep_complete` after step `k` with `current_time = target_time = target_times[k+1]`
(including after the last step, where the matrix is no longer used). -/
def mpsQueries (half : α) (g : List α) (nsteps : Nat) (reorder : Bool) : List α :=
  (match reorder, g.getLast? with
   | true, some l => [l]
   | _, _ => []) ++
  (match g with
   | _ :: t1 :: _ => [half * (0 + t1)]
   | _ => []) ++ ((g.drop 1).take nsteps).map (fun t => half * (t + t))

/-! ### Badly prepared ("dark") atoms, applied by the back-ends on top of the callable -/

/-- emu-sv `init_dark_qubits` (installed whenever `state_prep_error > 0`, even if no atom is bad):
`mat = original(t).clone(); mat[bad, :] = 0; mat[:, bad] = 0` — evaluated at **every** call. -/
def darkSv (bad : Nat → Bool) (m : Mat α) : Mat α :=
  fun i j => if bad i || bad j then 0 else m i j

/-- emu-mps `_get_interaction_matrix`: `matrix[filter, :][:, filter]` — the sub-matrix of the well
prepared atoms, `keep` = their indices in increasing order (no qubit reordering). -/
def darkMps (keep : List Nat) (m : Mat α) : Mat α :=
  fun i j => m (keep.getD i 0) (keep.getD j 0)

/-- The atoms held by the surviving sites of emu-mps, in site order: site `k` holds atom
`perm[k]` (`optimat.permute_tensor(matrix, qubit_permutation)`, i.e. `M'[i,j] = M[perm[i], perm[j]]`),
then the sites holding badly prepared atoms are dropped (`matrix[filter, :][:, filter]` with the filter
permuted into site order). `darkMps (siteAtoms …)` is the matrix emu-mps builds its Hamiltonian from. -/
def siteAtoms (n : Nat) (perm : Option (List Nat)) (bad : Nat → Bool) : List Nat :=
  ((List.range n).map (fun k =>
    match perm with
    | some p => p.getD k 0
    | none => k)).filter (fun a => !bad a)

/-- The matrix emu-sv hands to the stepper in step `k` (`dark = none`: `state_prep_error = 0`, no
wrapper). -/
def svStepMat (full masked : Mat α) (slmEnd : α) (dark : Option (Nat → Bool)) (g : List α) (k : Nat) :
    Option (Mat α) :=
  (svQuery g k).map (fun t =>
    match dark with
    | some bad => darkSv bad (callable full masked slmEnd t)
    | none => callable full masked slmEnd t)

/-- The matrix emu-mps builds its Hamiltonian from in step `k`. -/
def mpsStepMat (half : α) (full masked : Mat α) (slmEnd : α) (dark : Option (List Nat)) (g : List α)
    (k : Nat) : Option (Mat α) :=
  (mpsQuery half g k).map (fun t =>
    match dark with
    | some keep => darkMps keep (callable full masked slmEnd t)
    | none => callable full masked slmEnd t)

/-- Is the masked matrix used in step `k`? -/
def stepMasked (q : Option α) (slmEnd : α) : Option Bool := q.map (fun t => decide (t < slmEnd))

end EmuVerif.Interact
