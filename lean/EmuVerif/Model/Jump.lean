/-
  Model of the quantum-jump bookkeeping of emu-mps that is plain linear algebra / list logic:
    * `compute_noise_from_lindbladians`  (emu_base/jump_lindblad_operators.py):  −0.5j · Σ L†L
    * `NoisyMPSBackendImpl.init_lindblad_noise`: `aggregated_lindblad_ops[k] = L_k† L_k`
    * `do_random_quantum_jump`: the candidate list `[(qubit, op) for qubit … for op …]`, the weight
      tensor `expect_batch(aggregated).real.view(-1)` (qubit-major, operator-minor), and
      `random.choices(population, weights)` (= `bisect(cum_weights, random() * total, 0, n-1)`).
  Generic in the scalar `β` (run at `Cx Rat`, proved at `ℂ`).
-/
import EmuVerif.Model.Scalar

namespace EmuVerif.Jump

/-- Complex numbers as pairs with torch's multiplication formula (driver-side scalar). -/
structure Cx (α : Type) where
  re : α
  im : α
deriving Repr, BEq, DecidableEq

/-- complex conjugation on the scalar (Mathlib's `Star` is not available in model files) -/
class Conj (β : Type) where
  conj : β → β

namespace Cx
variable {α : Type} [Add α] [Sub α] [Mul α] [Neg α] [OfNat α 0]
instance : Add (Cx α) := ⟨fun a b => ⟨a.re + b.re, a.im + b.im⟩⟩
instance : Mul (Cx α) := ⟨fun a b => ⟨a.re * b.re - a.im * b.im, a.re * b.im + a.im * b.re⟩⟩
instance : Zero (Cx α) := ⟨⟨0, 0⟩⟩
instance : Conj (Cx α) := ⟨fun a => ⟨a.re, -a.im⟩⟩
end Cx

section generic
variable {β : Type} [Add β] [Mul β] [Zero β] [Conj β]

/-- square `d × d` matrices as functions (what a `(dim, dim)` tensor is) -/
abbrev Mat (d : Nat) (β : Type) := Fin d → Fin d → β

def lsum (l : List β) : β := l.foldr (· + ·) 0

/-- `A @ B` -/
def matMul {d : Nat} (A B : Mat d β) : Mat d β :=
  fun i j => lsum ((List.finRange d).map fun k => A i k * B k j)

/-- `A.mH` -/
def matH {d : Nat} (A : Mat d β) : Mat d β := fun i j => Conj.conj (A j i)

def matAdd {d : Nat} (A B : Mat d β) : Mat d β := fun i j => A i j + B i j

def matZero {d : Nat} : Mat d β := fun _ _ => 0

/-- `L.mH @ L` -/
def dagMul {d : Nat} (L : Mat d β) : Mat d β := matMul (matH L) L

/-- `sum((L.mH @ L for L in lindbladians), start=zero)` — Python's `sum` folds from the left. -/
def sumDagMul {d : Nat} (Ls : List (Mat d β)) : Mat d β :=
  Ls.foldl (fun acc L => matAdd acc (dagMul L)) matZero

/-- `compute_noise_from_lindbladians`: `c · Σ L†L` with `c = -0.5j`. -/
def noiseTerm {d : Nat} (c : β) (Ls : List (Mat d β)) : Mat d β :=
  fun i j => c * sumDagMul Ls i j

/-- `stacked.conj().transpose(1, 2) @ stacked` -/
def aggregated {d : Nat} (Ls : List (Mat d β)) : List (Mat d β) := Ls.map dagMul

end generic

/-! ### Jump candidates and `random.choices` -/

/-- `[(qubit, op) for qubit in range(n) for op in range(m)]` (operators by index). -/
def candidates (n m : Nat) : List (Nat × Nat) :=
  (List.range n).flatMap fun q => (List.range m).map fun k => (q, k)

/-- position of weight `(q, k)` in `weights.view(-1)` for a `(n, m)` tensor -/
def flatIndex (m q k : Nat) : Nat := q * m + k

section choice
variable {α : Type} [Add α] [Mul α] [LT α] [DecidableLT α] [LE α] [DecidableLE α] [OfNat α 0]

/-- `itertools.accumulate(weights)` -/
def cumWeights : List α → α → List α
  | [], _ => []
  | w :: ws, acc => (acc + w) :: cumWeights ws (acc + w)

/-- `bisect.bisect(cum, x, 0, hi)` = number of leading entries `≤ x` among the first `hi`. -/
def bisectRight : List α → α → Nat → Nat
  | [], _, _ => 0
  | _ :: _, _, 0 => 0
  | c :: cs, x, hi + 1 => if x < c then 0 else 1 + bisectRight cs x hi

/-- `random.choices(range(n), weights)[0]` given the uniform draw `u ∈ [0, 1)`.
`none` = Python raises (`ValueError: Total of weights must be greater than zero`, or empty). -/
def choose (weights : List α) (u : α) : Option Nat :=
  let cum := cumWeights weights 0
  let total := cum.getLastD 0
  if weights.isEmpty then none
  else if total ≤ 0 then none
  else some (bisectRight cum (u * total) (weights.length - 1))

end choice

end EmuVerif.Jump
