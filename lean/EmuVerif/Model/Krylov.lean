/-
  Model of `emu_base/math/krylov_exp.py` (`krylov_exp_impl`, `krylov_exp`) and of
  `emu_base/math/krylov_energy_min.py` (`krylov_energy_minimization`,
  `krylov_energy_minimization_impl`, `_lowest_eigenvector_krylov_method`,
  `_next_lanczos_iteration`, `_ritz_vector`; `_lowest_ritz_pair_tridiagonal` is the `eigh`
  oracle), statement by statement, over an abstract vector space `VecOps`.

  * `S` = the tensor's (complex) scalar type, `R` = the real type of norms/tolerances,
    `V` = tensors. Nothing is assumed about them here: the driver runs these definitions with
    `V` = handles into a tape recorded from the real run (and with `V` = dense binary64 complex
    vectors); the proof files read them with `V` an inner-product space over `S = 𝕜`, `R = ℝ`.
  * `torch.linalg.matrix_exp` and `torch.linalg.eigh` are ORACLES (`mexp`, `eigh`), indexed by
    the call site's loop counters so that a recorded tape *is* such a function.
  * Where Python raises, the model returns `.error`: `UnboundLocalError` (`expd` unbound when
    `max_krylov_dim = 0`), `RecursionError` (public wrappers), `ValueError` (zero start / Ritz
    vector), `IndexError` (oracle returned too short an eigenvector).
  * Ghost fields (`Ghost`, `EGhost`) are not part of the Python result objects: they count the
    places where `op(...)` is evaluated and expose the local `T` / `alphas` / `betas` so that the
    correspondence check can compare them with what the real run handed to the kernels.
  * Conventions forced by the scalar-polymorphic reading:
      - `T` is a zero-initialised `(max_krylov_dim+2)²` array; every index written is in range
        (largest is `(j+2, j+1)` with `j < max_krylov_dim`);
      - `err1*err2/(err1-err2)` with `err1 = err2` is `inf`/`nan` in torch, so `err < tol` is
        False there; `errOk` spells that case out (a field's `x/0 = 0` would get it wrong);
      - `float("inf")` initial energies/residuals are `none`;
      - division by a zero norm is whatever `divR` does — NaN at binary64, exactly as torch. In
        `krylov_exp_impl` this happens (a) for `n2 = 0` when `norm_tolerance ≤ 0`, and (b) for the
        exactly-zero start vector: `initial_norm = v.norm() = 0`, `v /= initial_norm` is all-NaN, there
        is NO guard on `initial_norm` (`expInit`/`expImpl` below: `norm`, `divR`, nothing else), every
        later comparison with a NaN is False, so all `max_krylov_dim` iterations run, the result is
        `converged = False` with a NaN vector, and `krylov_exp` raises `RecursionError`. Any
        non-zero `v`, however small relative to the tolerances, is normalised and iterated
        (`iteration_count ≥ 1` when `max_krylov_dim ≥ 1`, theorem `C07.at_least_one_iteration`).
-/
import EmuVerif.Model.Scalar

namespace EmuVerif.Krylov

inductive Err
  | unboundLocal | recursion | valueError | indexError
  deriving DecidableEq, Repr

/-! ### dense matrices (the local `T`, the arguments/results of `matrix_exp`) -/

abbrev Mat (S : Type) := Array (Array S)

section Mat
variable {S : Type} [OfNat S 0]

/-- `torch.zeros(n, n)` -/
def zerosM (n : Nat) : Mat S := Array.replicate n (Array.replicate n 0)
/-- `T[i, j]` (reads outside the array never happen; they would give 0 here) -/
def getM (T : Mat S) (i j : Nat) : S := (T.getD i #[]).getD j 0
/-- `T[i, j] = x` -/
def setM (T : Mat S) (i j : Nat) (x : S) : Mat S := T.modify i (fun r => r.setIfInBounds j x)
/-- `T[:m, :m]` -/
def sliceM (T : Mat S) (m : Nat) : Mat S := (T.extract 0 m).map (fun r => r.extract 0 m)
/-- `expd[:, 0]` -/
def col0 (M : Mat S) : List S := M.toList.map (fun r => r.getD 0 0)
end Mat

/-- The tensor operations the two algorithms use. -/
structure VecOps (S R V : Type) where
  /-- the caller's `op` -/
  op : V → V
  /-- `torch.tensordot(a.conj(), b, dims=b.dim())` / `torch.vdot(a, b)` -/
  inner : V → V → S
  /-- `x.norm()` -/
  norm : V → R
  /-- `w -= c * q` is `axpy c q w` -/
  axpy : S → V → V → V
  /-- `v / r`, `v /= r` -/
  divR : V → R → V
  /-- the `0` Python's `sum` starts from -/
  zero : V
  add : V → V → V
  /-- `c * x` -/
  smul : S → V → V
  /-- a real 0-dim tensor used as a scalar of the tensor's dtype -/
  ofReal : R → S
  /-- storing a complex value into a real tensor keeps the real part -/
  re : S → R
  /-- `abs(z)` of a scalar of the tensor's dtype -/
  cabs : S → R

variable {S R V : Type}

/-- `sum(a * b for a, b in zip(cs, vs))` (left fold from `0`, `zip` truncates). -/
def lincomb (O : VecOps S R V) (cs : List S) (vs : List V) : V :=
  (cs.zip vs).foldl (fun acc cv => O.add acc (O.smul cv.1 cv.2)) O.zero

/-! ## `krylov_exp_impl` -/

/-- Not in `KrylovExpResult`: number of `op(...)` evaluations, the local `T` on exit, and the
`(err1, err2)` pairs computed so far (oldest first). -/
structure Ghost (S R : Type) where
  opCalls : Nat
  T : Mat S
  errs : List (R × R)

/-- `KrylovExpResult` -/
structure ExpResult (S R V : Type) where
  result : V
  converged : Bool
  happyBreakdown : Bool
  iterationCount : Nat
  ghost : Ghost S R

structure ExpCfg (R : Type) where
  isHermitian : Bool
  expTol : R
  normTol : R
  maxDim : Nat

/-- Loop state at the top of iteration `j`: `lanczos_vectors`, its last element, `T`, the
last `expd` (`none` = not yet bound). -/
structure ExpSt (S R V : Type) where
  qs : List V
  cur : V
  T : Mat S
  expd : Option (Mat S)
  opCalls : Nat
  errs : List (R × R)

/-- `k_start = max(0, j - 1) if is_hermitian else 0` (`j - 1` is truncated subtraction). -/
def kStart (herm : Bool) (j : Nat) : Nat := if herm then max 0 (j - 1) else 0

/-- One pass of `overlap = <q, w>; T[k, j] = overlap; w -= overlap * q`: new `w`, overlaps so far. -/
def mgsStep (O : VecOps S R V) (acc : V × List S) (q : V) : V × List S :=
  (O.axpy (O.inner q acc.1) q acc.1, acc.2 ++ [O.inner q acc.1])

/-- The inner `for k in range(k_start, j + 1)` loop over `lanczos_vectors[k_start:]`
(`len(lanczos_vectors) = j + 1` there). -/
def mgs (O : VecOps S R V) (ql : List V) (w : V) : V × List S := ql.foldl (mgsStep O) (w, [])

section
variable [OfNat S 0] [OfNat S 1] [Mul S]
variable [LT R] [DecidableLT R] [Sub R] [Mul R] [Div R]

/-- `T[k0 + i, j] = ovs[i]` -/
def writeCol (T : Mat S) (j k0 : Nat) (ovs : List S) : Mat S :=
  ovs.zipIdx.foldl (fun T ci => setM T (k0 + ci.2) j ci.1) T

/-- What iteration `j` computes before it branches. -/
structure IterVals (S R V : Type) where
  n : R
  ovs : List S
  w : V
  n2 : R
  T : Mat S

def iterVals (O : VecOps S R V) (cfg : ExpCfg R) (j : Nat) (st : ExpSt S R V) : IterVals S R V :=
  let w0 := O.op st.cur
  let k0 := kStart cfg.isHermitian j
  let r := mgs O (st.qs.drop k0) w0
  let n2 := O.norm r.1
  { n := O.norm w0, ovs := r.2, w := r.1, n2 := n2,
    T := setM (writeCol st.T j k0 r.2) (j + 1) j (O.ofReal n2) }

/-- `if n2 < norm_tolerance` -/
def isBreakdown (cfg : ExpCfg R) (iv : IterVals S R V) : Bool := decide (iv.n2 < cfg.normTol)

/-- `err = err1 if err1 < err2 else err1*err2/(err1-err2); err < tol` (see header for `err1 = err2`). -/
def errOk (tol err1 err2 : R) : Bool :=
  if err1 < err2 then decide (err1 < tol)
  else if err2 < err1 then decide (err1 * err2 / (err1 - err2) < tol)
  else false

/-- `initial_norm * sum(a * b for a, b in zip(expd[:len(qs), 0], qs))` -/
def combine (O : VecOps S R V) (n0 : R) (expd : Mat S) (qs : List V) : V :=
  O.smul (O.ofReal n0) (lincomb O ((col0 expd).take qs.length) qs)

/-- Happy-breakdown exit of iteration `j`. -/
def breakdownResult (O : VecOps S R V) (mexp : Nat → Mat S → Mat S) (n0 : R) (j : Nat)
    (st : ExpSt S R V) (iv : IterVals S R V) : ExpResult S R V :=
  { result := combine O n0 (mexp j (sliceM iv.T (j + 1))) st.qs,
    converged := true, happyBreakdown := true, iterationCount := j + 1,
    ghost := { opCalls := st.opCalls + 1, T := iv.T, errs := st.errs } }

/-- What iteration `j` computes after `w /= n2`: extended `T`, `expd`, the two error terms. -/
structure ExtVals (S R V : Type) where
  qs : List V
  cur : V
  T : Mat S
  expd : Mat S
  err1 : R
  err2 : R

def extVals (O : VecOps S R V) (mexp : Nat → Mat S → Mat S) (j : Nat)
    (st : ExpSt S R V) (iv : IterVals S R V) : ExtVals S R V :=
  let q := O.divR iv.w iv.n2
  let T3 := setM iv.T (j + 2) (j + 1) 1
  let expd := mexp j (sliceM T3 (j + 3))
  { qs := st.qs ++ [q], cur := q, T := T3, expd := expd,
    err1 := O.cabs (getM expd (j + 1) 0),
    err2 := O.cabs (getM expd (j + 2) 0 * O.ofReal iv.n) }

def convergedResult (O : VecOps S R V) (n0 : R) (j : Nat) (st : ExpSt S R V)
    (ev : ExtVals S R V) : ExpResult S R V :=
  { result := combine O n0 ev.expd ev.qs,
    converged := true, happyBreakdown := false, iterationCount := j + 1,
    ghost := { opCalls := st.opCalls + 1, T := ev.T, errs := st.errs ++ [(ev.err1, ev.err2)] } }

def nextSt (st : ExpSt S R V) (ev : ExtVals S R V) : ExpSt S R V :=
  { qs := ev.qs, cur := ev.cur, T := ev.T, expd := some ev.expd,
    opCalls := st.opCalls + 1, errs := st.errs ++ [(ev.err1, ev.err2)] }

inductive StepOut (S R V : Type)
  | done (r : ExpResult S R V)
  | cont (st : ExpSt S R V)

/-- Body of `for j in range(max_krylov_dim)`. -/
def expIter (O : VecOps S R V) (mexp : Nat → Mat S → Mat S) (cfg : ExpCfg R) (n0 : R) (j : Nat)
    (st : ExpSt S R V) : StepOut S R V :=
  let iv := iterVals O cfg j st
  if isBreakdown cfg iv then .done (breakdownResult O mexp n0 j st iv)
  else
    let ev := extVals O mexp j st iv
    if errOk cfg.expTol ev.err1 ev.err2 then .done (convergedResult O n0 j st ev)
    else .cont (nextSt st ev)

/-- The code after the loop (`expd` is the last one computed; unbound if there was none). -/
def exhaustedResult (O : VecOps S R V) (cfg : ExpCfg R) (n0 : R) (st : ExpSt S R V) :
    Except Err (ExpResult S R V) :=
  match st.expd with
  | none => .error .unboundLocal
  | some e => .ok { result := combine O n0 e st.qs, converged := false, happyBreakdown := false,
                    iterationCount := cfg.maxDim,
                    ghost := { opCalls := st.opCalls, T := st.T, errs := st.errs } }

/-- `for j in range(max_krylov_dim): …` from iteration `j` with `fuel = max_krylov_dim - j`. -/
def expLoop (O : VecOps S R V) (mexp : Nat → Mat S → Mat S) (cfg : ExpCfg R) (n0 : R) :
    Nat → Nat → ExpSt S R V → Except Err (ExpResult S R V)
  | 0, _, st => exhaustedResult O cfg n0 st
  | fuel + 1, j, st =>
    match expIter O mexp cfg n0 j st with
    | .done r => .ok r
    | .cont st' => expLoop O mexp cfg n0 fuel (j + 1) st'

def expInit (O : VecOps S R V) (cfg : ExpCfg R) (v : V) : ExpSt S R V :=
  let q0 := O.divR v (O.norm v)
  { qs := [q0], cur := q0, T := zerosM (cfg.maxDim + 2), expd := none, opCalls := 0, errs := [] }

/-- `krylov_exp_impl` -/
def expImpl (O : VecOps S R V) (mexp : Nat → Mat S → Mat S) (cfg : ExpCfg R) (v : V) :
    Except Err (ExpResult S R V) :=
  expLoop O mexp cfg (O.norm v) cfg.maxDim 0 (expInit O cfg v)

/-- `krylov_exp` -/
def krylovExp (O : VecOps S R V) (mexp : Nat → Mat S → Mat S) (cfg : ExpCfg R) (v : V) :
    Except Err V :=
  match expImpl O mexp cfg v with
  | .error e => .error e
  | .ok r => if r.converged then .ok r.result else .error .recursion

/-- The public entry point with its own parameter list
`krylov_exp(op, v, exp_tolerance, norm_tolerance, is_hermitian, max_krylov_dim)`: every argument
is forwarded *by name* to `krylov_exp_impl` (whose positional order is different:
`is_hermitian, exp_tolerance, norm_tolerance`). -/
def krylovExpPublic (O : VecOps S R V) (mexp : Nat → Mat S → Mat S) (v : V)
    (expTolerance normTolerance : R) (isHermitian : Bool) (maxKrylovDim : Nat) : Except Err V :=
  krylovExp O mexp { isHermitian := isHermitian, expTol := expTolerance, normTol := normTolerance,
                     maxDim := maxKrylovDim } v

end

/-! ## `krylov_energy_minimization_impl` -/

/-- Not in `KrylovEnergyResult`: `op(...)` evaluations (all cycles) and the last cycle's
`alphas[:m]`, `betas[:m]`. -/
structure EGhost (R : Type) where
  opCalls : Nat
  alphas : List R
  betas : List R

/-- `KrylovEnergyResult`; `none` = `float("inf")`. -/
structure EnergyResult (R V : Type) where
  groundState : V
  groundEnergy : Option R
  residualNorm : Option R
  converged : Bool
  happyBreakdown : Bool
  iterationCount : Nat
  restartCount : Nat
  ghost : EGhost R

structure EnergyCfg (R : Type) where
  residTol : R
  normTol : R
  maxDim : Nat
  maxRestarts : Nat
  /-- `NUMERICAL_TOLERANCE` (1e-12) -/
  numTol : R

/-- State of `_lowest_eigenvector_krylov_method` at the top of iteration `j`. -/
structure CycSt (R V : Type) where
  qs : List V
  cur : V
  prev : Option V
  alphas : List R
  betas : List R
  best : V
  bestE : Option R
  bestR : Option R
  nIter : Nat

/-- `resid < best_resid` with `best_resid` possibly `inf`. -/
def ltInf [LT R] [DecidableLT R] (x : R) : Option R → Bool
  | none => true
  | some b => decide (x < b)

/-- `_next_lanczos_iteration`: `(w, alphas[i], betas[i])`. -/
def lanczosNext (O : VecOps S R V) (st : CycSt R V) : V × R × R :=
  let w0 := O.op st.cur
  let alpha := O.re (O.inner st.cur w0)
  let w1 := O.axpy (O.ofReal alpha) st.cur w0
  let w2 := match st.prev, st.betas.getLast? with
    | some p, some b => O.axpy (O.ofReal b) p w1
    | _, _ => w1
  (w2, alpha, O.norm w2)

section
variable [LT R] [DecidableLT R] [LE R] [DecidableLE R] [Mul R] [Neg R] [OfNat R 0]

/-- `_ritz_vector` -/
def ritzVector (O : VecOps S R V) (numTol : R) (y : List R) (qs : List V) : Except Err V :=
  let rv := lincomb O (y.map O.ofReal) qs
  let nrm := O.norm rv
  if nrm ≤ numTol then .error .valueError else .ok (O.divR rv nrm)

inductive CycOut (R V : Type)
  | done (st : CycSt R V) (converged happy : Bool)
  | cont (st : CycSt R V)

/-- Body of `for j in range(max_krylov_dim)` in `_lowest_eigenvector_krylov_method`; the `eigh`
oracle is indexed by (cycle, iteration). -/
def cycIter (O : VecOps S R V) (eigh : Nat → Nat → List R → List R → R × List R)
    (cfg : EnergyCfg R) (c j : Nat) (st : CycSt R V) : Except Err (CycOut R V) :=
  let l := lanczosNext O st
  let w := l.1
  let beta := l.2.2
  let alphas := st.alphas ++ [l.2.1]
  let ty := eigh c j alphas st.betas
  match ritzVector O cfg.numTol ty.2 st.qs with
  | .error e => .error e
  | .ok rv =>
    match ty.2[j]? with
    | none => .error .indexError
    | some yj =>
      let resid := absv (beta * yj)
      let upd := ltInf resid st.bestR
      let st1 : CycSt R V :=
        { st with alphas := alphas, betas := st.betas ++ [beta], nIter := st.nIter + 1,
                  best := if upd then rv else st.best,
                  bestE := if upd then some ty.1 else st.bestE,
                  bestR := if upd then some resid else st.bestR }
      if beta < cfg.normTol then .ok (.done st1 true true)
      else if resid < cfg.residTol then .ok (.done st1 true false)
      else
        let q := O.divR w beta
        .ok (.cont { st1 with qs := st.qs ++ [q], cur := q, prev := some st.cur })

def cycResult (st : CycSt R V) (conv hb : Bool) (ops : Nat) : EnergyResult R V :=
  { groundState := st.best, groundEnergy := st.bestE, residualNorm := st.bestR,
    converged := conv, happyBreakdown := hb, iterationCount := st.nIter, restartCount := 0,
    ghost := { opCalls := ops + st.nIter, alphas := st.alphas, betas := st.betas } }

def cycLoop (O : VecOps S R V) (eigh : Nat → Nat → List R → List R → R × List R)
    (cfg : EnergyCfg R) (c ops : Nat) : Nat → Nat → CycSt R V → Except Err (EnergyResult R V)
  | 0, _, st => .ok (cycResult st false false ops)
  | fuel + 1, j, st =>
    match cycIter O eigh cfg c j st with
    | .error e => .error e
    | .ok (.done st' conv hb) => .ok (cycResult st' conv hb ops)
    | .ok (.cont st') => cycLoop O eigh cfg c ops fuel (j + 1) st'

/-- `_lowest_eigenvector_krylov_method` (cycle number `c`, `ops` = `op` evaluations so far). -/
def cycle (O : VecOps S R V) (eigh : Nat → Nat → List R → List R → R × List R)
    (cfg : EnergyCfg R) (c ops : Nat) (vInit : V) : Except Err (EnergyResult R V) :=
  let nrm := O.norm vInit
  if nrm < cfg.normTol then .error .valueError
  else
    let q0 := O.divR vInit nrm
    cycLoop O eigh cfg c ops cfg.maxDim 0
      { qs := [q0], cur := q0, prev := none, alphas := [], betas := [], best := q0,
        bestE := none, bestR := none, nIter := 0 }

/-- `for r in range(max_restarts + 1)` from restart `r` with `fuel = max_restarts + 1 - r`. -/
def restartLoop (O : VecOps S R V) (eigh : Nat → Nat → List R → List R → R × List R)
    (cfg : EnergyCfg R) : Nat → Nat → EnergyResult R V → Except Err (EnergyResult R V)
  | 0, _, res => .ok res
  | fuel + 1, r, res =>
    match cycle O eigh cfg r res.ghost.opCalls res.groundState with
    | .error e => .error e
    | .ok cyc =>
      let res' := { cyc with restartCount := r, iterationCount := res.iterationCount + cyc.iterationCount }
      if res'.happyBreakdown || res'.converged then .ok res'
      else restartLoop O eigh cfg fuel (r + 1) res'

/-- `krylov_energy_minimization_impl` -/
def energyImpl (O : VecOps S R V) (eigh : Nat → Nat → List R → List R → R × List R)
    (cfg : EnergyCfg R) (psi : V) : Except Err (EnergyResult R V) :=
  restartLoop O eigh cfg (cfg.maxRestarts + 1) 0
    { groundState := psi, groundEnergy := none, residualNorm := none, converged := false,
      happyBreakdown := false, iterationCount := 0, restartCount := 0,
      ghost := { opCalls := 0, alphas := [], betas := [] } }

/-- `krylov_energy_minimization` (the energy is `inf` = `none` only if no iteration ran). -/
def energyMin (O : VecOps S R V) (eigh : Nat → Nat → List R → List R → R × List R)
    (cfg : EnergyCfg R) (psi : V) : Except Err (V × Option R) :=
  match energyImpl O eigh cfg psi with
  | .error e => .error e
  | .ok r =>
    if !r.converged && !r.happyBreakdown then .error .recursion
    else .ok (r.groundState, r.groundEnergy)

/-- The public entry point with its own parameter list
`krylov_energy_minimization(op, psi, norm_tolerance, residual_tolerance, max_krylov_dim)`: the
arguments are forwarded *by name* to `krylov_energy_minimization_impl`, whose positional order is
`(op, psi, residual_tolerance, norm_tolerance, …)`; `max_restarts` keeps its default
`DEFAULT_MAX_RESTARTS = 100`. `numTol` is the module constant `NUMERICAL_TOLERANCE`. -/
def energyMinPublic (O : VecOps S R V) (eigh : Nat → Nat → List R → List R → R × List R)
    (numTol : R) (psi : V) (normTolerance residualTolerance : R) (maxKrylovDim : Nat) :
    Except Err (V × Option R) :=
  energyMin O eigh { residTol := residualTolerance, normTol := normTolerance, maxDim := maxKrylovDim,
                     maxRestarts := 100, numTol := numTol } psi

end

end EmuVerif.Krylov
