/-
  Model of the emu-mps observables (the MPS half of C13):

    emu_mps/mps.py                             MPS.expect_batch (both centre walks), MPS.norm (squared),
                                               MPS.get_correlation_matrix (symmetric fill around `corrRow` of Model/Tensor)
    emu_mps/custom_callback_implementations.py qubit_occupation_mps_impl, correlation_matrix_mps_impl,
                                               energy_mps_impl / energy_second_moment_mps_impl / energy_variance_mps_impl
                                               (through `expect` / `zipRight` of Model/Tensor)
    emu_mps/mps_backend_impl.py                fill_results: `1 / norm * state` (through `scaleFactors`)

  `expect_batch` is modelled statement by statement, with the loop ranges written as Python writes them
  (`pyRange c n` = `range(c, n)`, `pyRangeDown c` = `range(c - 1, -1, -1)`), the result table initialised to
  zeros and filled with `result[qubit_index] = …` (`List.set`), and the `r` factors of `torch.linalg.qr`
  supplied as recorded answers (`RMat`, one tape per loop).  The theorems of `Props/C13Mps.lean` assume about
  a recorded `r` only the Gram identity `r†·r = m†·m` (a consequence of `q·r = m`, `q†·q = 1`).

  Spec-level vocabulary (`oneSiteOps`, `twoSiteOps`, `prodOp`, `denseProd`) is executable too, so the driver can
  print the dense side of the theorems next to the code side.
-/
import EmuVerif.Model.Tensor

namespace EmuVerif.MpsObs
open EmuVerif.Tensor

variable {α : Type} [Add α] [Mul α] [OfNat α 0] [OfNat α 1] [Conj α]

/-! ### Python ranges -/

/-- `range(a, b)` -/
def pyRange (a b : Nat) : List Nat := List.range' a (b - a)

/-- `range(a - 1, -1, -1)`: `a-1, a-2, …, 0` (empty for `a = 0`) -/
def pyRangeDown (a : Nat) : List Nat := (List.range a).reverse

/-- a `for` loop whose body may raise -/
def foldOpt {σ : Type} (step : σ → Nat → Option σ) : List Nat → σ → Option σ
  | [], s => some s
  | q :: qs, s =>
    match step s q with
    | none => none
    | some s' => foldOpt step qs s'

/-! ### the local contraction -/

/-- `temp = tensordot(center_factor.conj(), center_factor, ([0, 2], [0, 2]))`:
`temp[x, y] = Σ_{l,r} conj(C[l,x,r])·C[l,y,r]` -/
def localGram (d : Nat) (C : Site α) : Arr (Arr α) :=
  memo2 d d (fun x y => sumTo C.dl (fun l => sumTo C.dr (fun r => conj (C.t x l r) * C.t y l r)))

/-- `tensordot(single_qubit_operators, temp, dims=2)`: one number per operator,
`Σ_{x,y} op[x,y]·temp[x,y]` -/
def localExpect (d : Nat) (ops : List (Nat → Nat → α)) (C : Site α) : List α :=
  let g := localGram d C
  ops.map (fun op => sumTo d (fun x => sumTo d (fun y => op x y * get2 g x y)))

/-! ### `MPS.expect_batch` -/

/-- the `r` of a recorded `torch.linalg.qr` answer (`k` rows; the column count is that of the matrix given) -/
structure RMat (α : Type) where
  k : Nat
  r : Nat → Nat → α

/-- `center_factor = tensordot(r, factors[q + 1], dims=1)` -/
def absorbLeft (f : RMat α) (F : Site α) : Site α :=
  Site.make f.k F.d F.dr (fun x k r => sumTo F.dl (fun j => f.r k j * F.t x j r))

/-- `center_factor = tensordot(factors[q], r, ([2], [1]))` -/
def absorbRight (F : Site α) (f : RMat α) : Site α :=
  Site.make F.dl F.d f.k (fun x l k => sumTo F.dr (fun j => F.t x l j * f.r k j))

/-- loop state: the current `center_factor`, the unread part of the tape, the `result` table -/
structure EbState (α : Type) where
  C : Site α
  tape : List (RMat α)
  res : List (List α)

/-- second half of the body of `for qubit_index in range(orthogonality_center, self.num_sites)`:
`if qubit_index < self.num_sites - 1: _, r = qr(…); center_factor = tensordot(r, factors[q + 1], dims=1)`;
`none` = tape exhausted / `tensordot` shape error -/
def ebRightMove (n : Nat) (fs : List (Site α)) (C : Site α) (tape : List (RMat α)) (q : Nat) :
    Option (Site α × List (RMat α)) :=
  if q < n - 1 then
    match tape, fs[q + 1]? with
    | f :: tape', some F => if C.dr ≠ F.dl then none else some (absorbLeft f F, tape')
    | _, _ => none
  else some (C, tape)

/-- body of the first loop: `result[qubit_index] = tensordot(ops, temp, dims=2)`, then the move -/
def ebRightStep (d n : Nat) (ops : List (Nat → Nat → α)) (fs : List (Site α)) (st : EbState α) (q : Nat) :
    Option (EbState α) :=
  match ebRightMove n fs st.C st.tape q with
  | none => none
  | some (C', tape') => some ⟨C', tape', st.res.set q (localExpect d ops st.C)⟩

/-- first half of the body of `for qubit_index in range(orthogonality_center - 1, -1, -1)`:
`_, r = qr(center_factor.view(dl, -1).mT); center_factor = tensordot(factors[q], r, ([2], [1]))` -/
def ebLeftMove (fs : List (Site α)) (C : Site α) (tape : List (RMat α)) (q : Nat) :
    Option (Site α × List (RMat α)) :=
  match tape, fs[q]? with
  | f :: tape', some F => if F.dr ≠ C.dl then none else some (absorbRight F f, tape')
  | _, _ => none

/-- body of the second loop: the move, then `result[qubit_index] = …` on the new centre factor -/
def ebLeftStep (d : Nat) (ops : List (Nat → Nat → α)) (fs : List (Site α)) (st : EbState α) (q : Nat) :
    Option (EbState α) :=
  match ebLeftMove fs st.C st.tape q with
  | none => none
  | some (C', tape') => some ⟨C', tape', st.res.set q (localExpect d ops C')⟩

/-- `MPS.expect_batch(single_qubit_operators)` for a known orthogonality centre `c`;
`rt`, `lt` = the `r` factors recorded in the first / second loop.
`none` = `IndexError` (`c` out of range), shape mismatch, or a tape of the wrong length. -/
def expectBatchAt (d : Nat) (ops : List (Nat → Nat → α)) (fs : List (Site α)) (c : Nat)
    (rt lt : List (RMat α)) : Option (List (List α)) :=
  let n := fs.length
  match fs[c]? with
  | none => none
  | some Fc =>
    if fs.any (fun A => A.d != d) then none
    else
      let res0 : List (List α) := List.replicate n (List.replicate ops.length 0)
      match foldOpt (ebRightStep d n ops fs) (pyRange c n) ⟨Fc, rt, res0⟩ with
      | none => none
      | some st1 =>
        match foldOpt (ebLeftStep d ops fs) (pyRangeDown c) ⟨Fc, lt, st1.res⟩ with
        | none => none
        | some st2 => some st2.res

/-- `expect_batch` including `self.orthogonalize(0)` when no centre is recorded (`otape` = its qr answers) -/
def expectBatch (d : Nat) (ops : List (Nat → Nat → α)) (fs : List (Site α)) (center : Option Nat)
    (otape : List (QRr α)) (rt lt : List (RMat α)) : Option (List (List α)) :=
  match center with
  | some c => expectBatchAt d ops fs c rt lt
  | none =>
    match orthogonalize fs none 0 [] otape with
    | none => none
    | some fs' => expectBatchAt d ops fs' 0 rt lt

/-- the number operator `op[0, 1, 1] = 1.0` of `qubit_occupation_mps_impl` -/
def nOp : Nat → Nat → α := fun x y => if x = 1 ∧ y = 1 then 1 else 0

/-- `qubit_occupation_mps_impl` before `.real`: `state.expect_batch(op).view(-1)` -/
def occupationMps (d : Nat) (fs : List (Site α)) (c : Nat) (rt lt : List (RMat α)) : Option (List α) :=
  (expectBatchAt d [nOp] fs c rt lt).map (fun res => res.map (fun row => row.getD 0 0))

/-- `MPS.norm()` squared: `Σ |factors[c]|²` (the square root is a kernel) -/
def normSqAt (d : Nat) (fs : List (Site α)) (c : Nat) : Option α :=
  (fs[c]?).map (fun C => sumTo C.dl (fun l => sumTo d (fun x => sumTo C.dr (fun r => conj (C.t x l r) * C.t x l r))))

/-! ### `MPS.get_correlation_matrix`: the table around `corrRow` -/

/-- `result[left, right] = …; result[right, left] = result[left, right]` with `rows[left]` = the numbers
computed for `left` (entries `[left,left], [left,left+1], …`) -/
def corrFill (rows : List (List α)) (i j : Nat) : α :=
  if i ≤ j then (rows.getD i []).getD (j - i) 0 else (rows.getD j []).getD (i - j) 0

/-- `get_correlation_matrix(operator)` on the factor lists present after each `self.orthogonalize(left)` -/
def corrMatrix (d : Nat) (op : Nat → Nat → α) (snaps : List (List (Site α))) (i j : Nat) : α :=
  corrFill ((List.range snaps.length).map (fun left => corrRow d op ((snaps.getD left []).drop left))) i j

/-! ### specification vocabulary: product operators and their dense expectation values -/

/-- `1 ⊗ … ⊗ O ⊗ … ⊗ 1` with `O` at site `i` (of `n`, `i < n`) -/
def oneSiteOps (n i : Nat) (O : Nat → Nat → α) : List (Nat → Nat → α) :=
  List.replicate i identOp ++ O :: List.replicate (n - i - 1) identOp

/-- `O` at sites `i < j` (of `n`), identities elsewhere -/
def twoSiteOps (n i j : Nat) (O : Nat → Nat → α) : List (Nat → Nat → α) :=
  List.replicate i identOp ++ O :: (List.replicate (j - i - 1) identOp ++ O :: List.replicate (n - j - 1) identOp)

/-- matrix element `⟨s| f₀ ⊗ f₁ ⊗ … |t⟩ = Π_k f_k(s_k, t_k)` (0 on strings of the wrong length) -/
def prodOp : List (Nat → Nat → α) → List Nat → List Nat → α
  | [], [], [] => 1
  | f :: fs, x :: s, y :: t => f x y * prodOp fs s t
  | _, _, _ => 0

/-- `⟨ψ| f₀ ⊗ f₁ ⊗ … |ψ⟩ = Σ_{s,t} conj(amp s)·Π_k f_k(s_k,t_k)·amp t` — the dense definition -/
def denseProd (d : Nat) (ops : List (Nat → Nat → α)) (fs : List (Site α)) : α :=
  sumStrings d fs.length (fun s => sumStrings d fs.length (fun t => conj (amp fs s) * prodOp ops s t * amp fs t))

/-- `⟨ψ|ψ⟩ = Σ_s conj(amp s)·amp s` -/
def denseNormSq (d : Nat) (fs : List (Site α)) : α :=
  sumStrings d fs.length (fun s => conj (amp fs s) * amp fs s)

/-- `Σ_s w(s)·conj(amp s)·amp s` — expectation value of a diagonal operator with eigenvalue `w s` -/
def denseDiag (d : Nat) (w : List Nat → α) (fs : List (Site α)) : α :=
  sumStrings d fs.length (fun s => w s * (conj (amp fs s) * amp fs s))

/-- indicator "site `i` is in level 1" -/
def bitW (i : Nat) (s : List Nat) : α := if s.getD i 0 = 1 then 1 else 0

end EmuVerif.MpsObs
