/-
  Model of `emu_base/jump_lindblad_operators.py:get_lindblad_operators` and of
  `emu_base/pulser_adapter.py:_get_all_lindblad_noise_operators`, statement by statement,
  polymorphic in the real scalar `α`. Complex entries are pairs `Cx α` with the
  multiplication formula CPython/torch use. `math.sqrt` is a parameter `sq : α → α`
  (oracle; contract `sq x * sq x = x`, stated in `Props/C24.lean`).

  The second half of the file is the *specification side*: Pulser's own collapse operators
  (`pulser/_hamiltonian_data/hamiltonian_data.py:_build_local_collapse_operators`) written in
  Pulser's basis ordering, and the index map between the two orderings.

      ordering            index 0   index 1   index 2
      Pulser  ising         r         g         x        (STATES_RANK order)
      emulator ising        g         r         x        (MPS basis_0 / basis_1 / basis_x)
      Pulser / emulator XY  u         d         x        (no flip: |0⟩ = u, |1⟩ = d)
-/
namespace EmuVerif.Noise

/-! ### Complex numbers as pairs -/

structure Cx (α : Type) where
  re : α
  im : α

namespace Cx
variable {α : Type}

instance [Add α] : Add (Cx α) := ⟨fun a b => ⟨a.re + b.re, a.im + b.im⟩⟩
instance [Sub α] : Sub (Cx α) := ⟨fun a b => ⟨a.re - b.re, a.im - b.im⟩⟩
instance [Neg α] : Neg (Cx α) := ⟨fun a => ⟨-a.re, -a.im⟩⟩
/-- `(a+bi)(c+di) = (ac − bd) + (ad + bc)i` — the formula of CPython's `complex.__mul__`. -/
instance [Add α] [Sub α] [Mul α] : Mul (Cx α) :=
  ⟨fun a b => ⟨a.re * b.re - a.im * b.im, a.re * b.im + a.im * b.re⟩⟩

/-- `complex(x)` / `torch.tensor(x, dtype=complex128)` of a real. -/
def ofReal [OfNat α 0] (x : α) : Cx α := ⟨x, 0⟩
def zero [OfNat α 0] : Cx α := ⟨0, 0⟩
def one [OfNat α 0] [OfNat α 1] : Cx α := ⟨1, 0⟩
/-- `1.0j` -/
def I [OfNat α 0] [OfNat α 1] : Cx α := ⟨0, 1⟩
def conj [Neg α] (a : Cx α) : Cx α := ⟨a.re, -a.im⟩

end Cx

/-- A `dim × dim` complex tensor. -/
abbrev Mat (n : Nat) (α : Type) := Fin n → Fin n → Cx α

/-! ### The code -/

inductive NoiseType
  | relaxation | dephasing | depolarizing | effNoise | leakage
  | nonLindblad (k : Nat)  -- k-th of SPAM, doppler, amplitude, detuning, register, dmm_sigma, dmm_crosstalk
  | unknown (k : Nat)      -- any other string (numbered)
  deriving DecidableEq, Repr

/-- `noise_type in _NON_LINDBLADIAN_NOISE` -/
def NoiseType.isNonLindblad : NoiseType → Bool
  | .nonLindblad _ => true
  | _ => false

inductive Interact
  | ising | xy
  deriving DecidableEq, Repr

/-- `asFound`: the tree as read (only the 2×2 block is flipped). `repaired`: the whole operator is
re-indexed (`tensor = tensor[[1, 0, 2]][:, [1, 0, 2]]`-style). The correspondence check decides
which one the current /repo matches. -/
inductive Variant
  | asFound | repaired
  deriving DecidableEq, Repr

/-- Which exception Python raises. -/
inductive Err
  | assertion        -- `assert noise_type in noise_model.noise_types`
  | notImplemented   -- hyperfine dephasing
  | valueShape       -- "Only {dim} by {dim} effective noise operator matrices are supported"
  | valueUnknown     -- "Unknown noise type"
  | indexError       -- `t[0, 1] = c` on a tensor with dim < 2
  deriving DecidableEq, Repr

/-- One entry of `noise_model.eff_noise_opers`: a 2-D array with its shape; `m` is only read
inside the shape. -/
structure EffOp (α : Type) where
  rows : Nat
  cols : Nat
  m : Nat → Nat → Cx α

/-- The fields of `pulser.NoiseModel` that `get_lindblad_operators` reads. -/
structure NoiseModel (α : Type) where
  types : List NoiseType
  relaxRate : α
  dephRate : α
  depolRate : α
  /-- `noise_model.hyperfine_dephasing_rate != 0.0` -/
  hyperfineNonzero : Bool
  effRates : List α
  effOps : List (EffOp α)

section code
variable {α : Type} [Add α] [Sub α] [Mul α] [Neg α] [OfNat α 0] [OfNat α 1]

/-- `relaxation = zeros(dim, dim); relaxation[0, 1] = c` -/
def relaxOp (n : Nat) (c : α) : Mat n α :=
  fun i j => if i.val = 0 ∧ j.val = 1 then Cx.ofReal c else Cx.zero

/-- `dephasing[0, 0] = c; dephasing[1, 1] = -c` (also `depolarizing_z`). -/
def dephOp (n : Nat) (c : α) : Mat n α :=
  fun i j => if i.val = 0 ∧ j.val = 0 then Cx.ofReal c
    else if i.val = 1 ∧ j.val = 1 then Cx.ofReal (-c) else Cx.zero

/-- `depolarizing_x[0, 1] = c; depolarizing_x[1, 0] = c` -/
def depolX (n : Nat) (c : α) : Mat n α :=
  fun i j => if (i.val = 0 ∧ j.val = 1) ∨ (i.val = 1 ∧ j.val = 0) then Cx.ofReal c else Cx.zero

/-- `depolarizing_y[0, 1] = -c * 1.0j; depolarizing_y[1, 0] = c * 1.0j` -/
def depolY (n : Nat) (c : α) : Mat n α :=
  fun i j => if i.val = 0 ∧ j.val = 1 then Cx.ofReal (-c) * Cx.I
    else if i.val = 1 ∧ j.val = 0 then Cx.ofReal c * Cx.I else Cx.zero

/-- `tensor[:2, :2] = torch.flip(tensor[:2, :2], (0, 1))` on a `dim × dim` tensor (the slice is
`min(2, dim)` wide; `torch.flip` returns a copy, so there is no aliasing). -/
def flipBlock {n : Nat} (m : Mat n α) : Mat n α :=
  fun i j =>
    if h : i.val < min 2 n ∧ j.val < min 2 n then
      m ⟨min 2 n - 1 - i.val, by omega⟩ ⟨min 2 n - 1 - j.val, by omega⟩
    else m i j

/-- Repaired basis change: swap indices 0 and 1 of rows and columns of the whole tensor. -/
def flipFull {n : Nat} (m : Mat n α) : Mat n α :=
  fun i j =>
    let sw : Fin n → Fin n := fun i => if h : i.val < 2 ∧ 2 ≤ n then ⟨1 - i.val, by omega⟩ else i
    m (sw i) (sw j)

/-- `math.sqrt(rate) * op` on a complex tensor. -/
def scaleOp {n : Nat} (c : α) (m : Mat n α) : Mat n α := fun i j => Cx.ofReal c * m i j

/-- View an effective operator of the right shape as a `dim × dim` tensor. -/
def EffOp.toMat (n : Nat) (op : EffOp α) : Mat n α := fun i j => op.m i.val j.val

/-- The `eff_noise` branch after the shape check. -/
def effOne (v : Variant) (sq : α → α) (it : Interact) (n : Nat) (rate : α) (op : EffOp α) : Mat n α :=
  let l := scaleOp (sq rate) (op.toMat n)
  match it, v with
  | .ising, .asFound => flipBlock l
  | .ising, .repaired => flipFull l
  | .xy, _ => l

def effBranch (v : Variant) (sq : α → α) (it : Interact) (n : Nat) (nm : NoiseModel α) :
    Except Err (List (Mat n α)) :=
  if nm.effOps.all (fun op => op.rows == n && op.cols == n) then
    .ok (List.zipWith (effOne v sq it n) nm.effRates nm.effOps)
  else .error .valueShape

variable [Div α] [OfNat α 2] [OfNat α 4]

/-- `get_lindblad_operators(noise_type=…, noise_model=…, interact_type=…, dim=…)`. -/
def getLindblad (v : Variant) (sq : α → α) (nt : NoiseType) (nm : NoiseModel α) (it : Interact) (n : Nat) :
    Except Err (List (Mat n α)) :=
  if ¬ nm.types.contains nt then .error .assertion
  else match nt with
  | .relaxation =>
    if n < 2 then .error .indexError else .ok [relaxOp n (sq nm.relaxRate)]
  | .dephasing =>
    if nm.hyperfineNonzero then .error .notImplemented
    else if n < 2 then .error .indexError
    else .ok [dephOp n (sq (nm.dephRate / 2))]
  | .depolarizing =>
    if n < 2 then .error .indexError
    else
      let c := sq (nm.depolRate / 4)
      .ok [depolX n c, depolY n c, dephOp n c]
  | .effNoise => effBranch v sq it n nm
  | .leakage => .ok []
  | _ => .error .valueUnknown

/-- `_get_all_lindblad_noise_operators(noise_model, dim, interact_type)`; `none` = `None`. -/
def allLindblad (v : Variant) (sq : α → α) (nm : Option (NoiseModel α)) (n : Nat) (it : Interact) :
    Except Err (List (Mat n α)) :=
  match nm with
  | none => .ok []
  | some nm => do
    let parts ← (nm.types.filter (fun t => !t.isNonLindblad)).mapM (fun nt => getLindblad v sq nt nm it n)
    pure parts.flatten

/-- `NoiseModel()` — no channel at all. -/
def NoiseModel.empty : NoiseModel α :=
  { types := [], relaxRate := 0, dephRate := 0, depolRate := 0, hyperfineNonzero := false,
    effRates := [], effOps := [] }

/-- `PulserData.__init__`: the noise model in effect —
`sequence.device.default_noise_model if config.prefer_device_noise_model else config.noise_model`,
replaced by `NoiseModel()` when falsy (`None`). This is also the model handed to `HamiltonianData`. -/
def effectiveModel (prefer : Bool) (device config : Option (NoiseModel α)) : NoiseModel α :=
  match (if prefer then device else config) with
  | some m => m
  | none => NoiseModel.empty

/-- `PulserData.__init__`: `self.lindblad_ops = _get_all_lindblad_noise_operators(self.noise_model, …)`. -/
def pulserDataLindblad (v : Variant) (sq : α → α) (prefer : Bool) (device config : Option (NoiseModel α))
    (n : Nat) (it : Interact) : Except Err (List (Mat n α)) :=
  allLindblad v sq (some (effectiveModel prefer device config)) n it

end code

/-! ### Specification side -/

/-- Emulator index ↦ Pulser index of the same atomic level: `g↔r` swapped for ising (Pulser
orders `(r, g, x)`, the emulator `(g, r, x)`), identity for XY; the leakage level keeps index 2. -/
def toPulser (it : Interact) {n : Nat} (i : Fin n) : Fin n :=
  match it with
  | .xy => i
  | .ising =>
    if h : i.val < 2 ∧ 2 ≤ n then ⟨1 - i.val, by omega⟩ else i

section spec
variable {α : Type} [Add α] [Sub α] [Mul α] [Neg α] [OfNat α 0] [OfNat α 1]

/-- An operator given in Pulser's ordering, written in the emulator's ordering: `P A Pᵀ`. -/
def toEmu (it : Interact) {n : Nat} (a : Mat n α) : Mat n α :=
  fun i j => a (toPulser it i) (toPulser it j)

/-- `sigma_ab = |a⟩⟨b|` with `a`, `b` given by their index. -/
def ketbra (n : Nat) (a b : Nat) : Mat n α :=
  fun i j => if i.val = a ∧ j.val = b then Cx.one else Cx.zero

def smulM {n : Nat} (c : Cx α) (m : Mat n α) : Mat n α := fun i j => c * m i j
def addM {n : Nat} (a b : Mat n α) : Mat n α := fun i j => a i j + b i j
def subM {n : Nat} (a b : Mat n α) : Mat n α := fun i j => a i j - b i j

/-- Pulser, ising ordering `(r, g, x)`: `(sqrt(relaxation_rate), "sigma_gr")`. -/
def pulserRelax (n : Nat) (p : α) : Mat n α := smulM (Cx.ofReal p) (ketbra n 1 0)

/-- Pulser: `(sqrt(2 * dephasing_rate), "sigma_rr")` (ising, `r` = index 0) or `"sigma_dd"`
(XY, `d` = index 1). -/
def pulserDeph (it : Interact) (n : Nat) (p : α) : Mat n α :=
  match it with
  | .ising => smulM (Cx.ofReal p) (ketbra n 0 0)
  | .xy => smulM (Cx.ofReal p) (ketbra n 1 1)

/-- Pulser: `b, a = eigenbasis[:2]` (indices 0, 1);
`x = σ_ab + σ_ba`, `y = i σ_ab − i σ_ba`, `z = σ_bb − σ_aa`, each with `sqrt(rate / 4)`. -/
def pulserDepol (n : Nat) (q : α) : List (Mat n α) :=
  [ smulM (Cx.ofReal q) (addM (ketbra n 1 0) (ketbra n 0 1)),
    smulM (Cx.ofReal q) (subM (smulM Cx.I (ketbra n 1 0)) (smulM Cx.I (ketbra n 0 1))),
    smulM (Cx.ofReal q) (subM (ketbra n 0 0) (ketbra n 1 1)) ]

/-- Pulser: `(sqrt(rate), operator)`. -/
def pulserEff {n : Nat} (p : α) (a : Mat n α) : Mat n α := smulM (Cx.ofReal p) a

end spec

end EmuVerif.Noise
