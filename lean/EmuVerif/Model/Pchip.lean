/-
  Model of `emu_base/math/pchip_torch.py` (`_weighted_harmonic_mean`, `_endpoint_slope`,
  `_limit_endpoint`, `_pchip_derivatives`, `_polynomial_coeffs`, `PCHIP1D.{__init__,
  _validate_xy, _interval_index, __call__}`), statement by statement, on lists, polymorphic
  in the scalar. Tensors of shape (n,) are `List α`; element-wise tensor expressions are
  `List.zipWith`; slices `a[1:]`/`a[:-1]` are `tail`/the truncation done by `zip`.
  `none` = Python raises (`ValueError` in `_validate_xy`, `IndexError` for an empty `h`).
-/
import EmuVerif.Model.Scalar

namespace EmuVerif.Pchip

variable {α : Type} [Add α] [Sub α] [Mul α] [Div α] [Neg α] [LT α] [DecidableLT α]
  [LE α] [DecidableLE α] [OfNat α 0] [OfNat α 1] [OfNat α 2] [OfNat α 3]

/-- `a[1:] - a[:-1]`. -/
def diffs (a : List α) : List α := List.zipWith (fun lo hi => hi - lo) a a.tail

/-- `delta = (y[1:] - y[:-1]) / h`. -/
def secants (y h : List α) : List α := List.zipWith (fun dy hh => dy / hh) (diffs y) h

/-- `_weighted_harmonic_mean`. -/
def whm (dl dr hl hr : α) : α :=
  let wl := hl + 2 * hr
  let wr := 2 * hl + hr
  (wl + wr) / (wl / dl + wr / dr)

/-- `_endpoint_slope` (one-sided three-point formula). -/
def endpointSlope (dl dr hl hr : α) : α :=
  let w1 := 2 * hl + hr
  (w1 * dl - hl * dr) / (hl + hr)

/-- `torch.sign` as a three-valued function (models never see NaN). -/
def sgn (x : α) : Int := if x < 0 then -1 else if 0 < x then 1 else 0

/-- First `torch.where` of `_limit_endpoint`: zero the slope unless it has the sign of the
first secant. -/
def zeroIfWrongSign (d sl : α) : α := if sgn d ≠ sgn sl then 0 else d

/-- `mask_cap`: secants switch sign and `|d| > 3|s_l|`. -/
def capNeeded (d1 sl sr : α) : Bool := (sgn sl != sgn sr) && decide (3 * absv sl < absv d1)

/-- `_limit_endpoint`. -/
def limitEndpoint (d sl sr : α) : α :=
  let d1 := zeroIfWrongSign d sl
  if capNeeded d1 sl sr then 3 * sl else d1

/-- `mask_same_sign = (torch.sign(delta_l) * torch.sign(delta_r)) > 0`: both secants non-zero with the same
sign. (Signs, not the product `delta_l * delta_r`, which underflows in binary64 for secants below ≈ 1e-162;
over an ordered field the two are the same test: `sameSign_iff` in `Proofs/PchipSlopes.lean`.) -/
def sameSign (dl dr : α) : Bool := decide (0 < sgn dl * sgn dr)

/-- The mask as it was before the fix of PCHIP-U1 (kept only to document the binary64 gap). -/
def sameSignByProduct (dl dr : α) : Bool := decide (0 < dl * dr)

/-- `torch.where(mask_same_sign, delta, ones)`: the argument actually handed to
`_weighted_harmonic_mean` (division happens only where the mean is used). -/
def safeArg (m : Bool) (d : α) : α := if m then d else 1

/-- One interior knot derivative. -/
def interiorAt (dl dr hl hr : α) : α :=
  let m := sameSign dl dr
  let dh := whm (safeArg m dl) (safeArg m dr) hl hr
  if m then dh else 0

/-- `d[1:-1]`: `delta_l, delta_r = delta[:-1], delta[1:]`, `h_l, h_r = h[:-1], h[1:]`. -/
def interior (h delta : List α) : List α :=
  List.zipWith (fun (d : α × α) (w : α × α) => interiorAt d.1 d.2 w.1 w.2)
    (delta.zip delta.tail) (h.zip h.tail)

/-- The two tensors passed to `_weighted_harmonic_mean` (for the tape correspondence). -/
def whmArgs (delta : List α) : List (α × α) :=
  (delta.zip delta.tail).map (fun d => (safeArg (sameSign d.1 d.2) d.1, safeArg (sameSign d.1 d.2) d.2))

/-- `_pchip_derivatives(h, delta)`. -/
def derivs (h delta : List α) : Option (List α) :=
  let m := h.length
  if delta.length ≠ m then none
  else if m = 1 then do
    let d0 ← delta[0]?
    some [d0, d0]
  else do
    let d0 ← delta[0]?
    let d1 ← delta[1]?
    let h0 ← h[0]?
    let h1 ← h[1]?
    let dn ← delta[m - 1]?
    let dm ← delta[m - 2]?
    let hn ← h[m - 1]?
    let hm ← h[m - 2]?
    some (limitEndpoint (endpointSlope d0 d1 h0 h1) d0 d1
      :: (interior h delta ++ [limitEndpoint (endpointSlope dn dm hn hm) dn dm]))

/-- One row of `_coeffs`. -/
structure Cubic (α : Type) where
  p0 : α
  p1 : α
  p2 : α
  p3 : α

/-- `_polynomial_coeffs` on one interval. -/
def cubic (y0 h dl d0 d1 : α) : Cubic α :=
  { p0 := y0, p1 := d0, p2 := (3 * dl - 2 * d0 - d1) / h, p3 := (d0 + d1 - 2 * dl) / (h * h) }

/-- Horner evaluation exactly as in `__call__`. -/
def Cubic.eval (c : Cubic α) (t : α) : α := c.p0 + t * (c.p1 + t * (c.p2 + t * c.p3))

/-- Formal derivative of the cubic (used in statements only; the code never computes it). -/
def Cubic.deriv (c : Cubic α) (t : α) : α := c.p1 + t * (2 * c.p2 + t * (3 * c.p3))

/-- `_polynomial_coeffs(y, h, delta, d)`. -/
def polyCoeffs (y h delta d : List α) : List (Cubic α) :=
  List.zipWith (fun (a : α × α × α) (b : α × α) => cubic a.1 a.2.1 a.2.2 b.1 b.2)
    (y.zip (h.zip delta)) (d.zip d.tail)

/-- `torch.all(x[1:] > x[:-1])`. -/
def strictlyIncreasing (x : List α) : Bool :=
  (List.zipWith (fun lo hi => decide (lo < hi)) x x.tail).all id

/-- A constructed `PCHIP1D`. -/
structure Interp (α : Type) where
  xs : List α
  coeffs : List (Cubic α)

/-- `PCHIP1D.__init__`; `none` = `_validate_xy` raises `ValueError`. -/
def build (x y : List α) : Option (Interp α) :=
  if x.length ≠ y.length then none
  else if x.length < 2 then none
  else if !strictlyIncreasing x then none
  else
    let h := diffs x
    let delta := secants y h
    (derivs h delta).map fun d => { xs := x, coeffs := polyCoeffs y h delta d }

/-- `torch.searchsorted(x, q, right=True)` on a sorted `x`: the number of knots `≤ q`. -/
def countLE (x : List α) (q : α) : Nat := x.countP (fun a => decide (a ≤ q))

/-- `_interval_index`: `(searchsorted(right=True) - 1).clamp(0, n - 2)`. -/
def intervalIndex (x : List α) (q : α) : Nat := min (countLE x q - 1) (x.length - 2)

/-- `PCHIP1D.__call__` at one query point. -/
def Interp.eval (P : Interp α) (q : α) : Option α := do
  let i := intervalIndex P.xs q
  let xi ← P.xs[i]?
  let c ← P.coeffs[i]?
  some (c.eval (q - xi))

end EmuVerif.Pchip
