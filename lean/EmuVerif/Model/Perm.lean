/-
  Model of `emu_mps/optimatrix/permutations.py` (`eye_permutation`, `permute_list`,
  `permute_tuple`, `permute_string`, `inv_permutation`, `permute_tensor`), of
  `permute_results` / `permute_bitstrings` / `permute_occupations_and_correlations` /
  `permute_atom_order` in `emu_mps/mps_backend_impl.py`, and of
  `MPSConfig.check_permutable_observables` (`emu_mps/mps_config.py`).

  Pure index bookkeeping: permutations are `List Nat` (an index tensor with non-negative
  entries; Python's wrap-around of *negative* indices is outside the model — no caller
  produces one), sequences are `List β`, square matrices are `List (List β)`.
  Where Python raises (`IndexError`, `ValueError`) the model returns `none` / an error tag.
-/
namespace EmuVerif.Perm

/-- `eye_permutation(n) = torch.arange(n)`. -/
def eyePermutation (n : Nat) : List Nat := List.range n

/-- Every index addresses a sequence of length `n` (no `IndexError`). -/
def inRange (n : Nat) (p : List Nat) : Bool := p.all (· < n)

/-- `xs[p]` when no index is out of range: the gather `k ↦ xs[p[k]]`.
(`toArray` only makes the look-up O(1) in the driver; `xs.toArray[i]? = xs[i]?`.) -/
def gatherT {β : Type} (xs : List β) (p : List Nat) : List β :=
  let a := xs.toArray
  p.filterMap (fun i => a[i]?)

/-- `permute_list(input_list, perm) = [input_list[i] for i in perm.tolist()]`, element by
element, left to right; `none` = `IndexError`. The length of `perm` is not checked by the code. -/
def permuteList {β : Type} (xs : List β) : List Nat → Option (List β)
  | [] => some []
  | i :: p =>
    match xs[i]? with
    | none => none
    | some x =>
      match permuteList xs p with
      | none => none
      | some r => some (x :: r)

/-- `permute_tuple`: `tuple(permute_list(list(t), perm))` — tuples and lists are both `List`. -/
def permuteTuple {β : Type} (xs : List β) (p : List Nat) : Option (List β) :=
  permuteList xs p

/-- `permute_string`: `"".join(permute_list(list(s), perm))`. -/
def permuteString (s : String) (p : List Nat) : Option String :=
  (permuteList s.toList p).map String.ofList

/-- 1-D branch of `permute_tensor`: `tensor[perm]`; `none` = `IndexError`. -/
def permuteVec {β : Type} (v : List β) (p : List Nat) : Option (List β) :=
  if inRange v.length p then some (gatherT v p) else none

/-- `tensor[perm][:, perm]` when nothing raises. -/
def permuteMatT {β : Type} (m : List (List β)) (p : List Nat) : List (List β) :=
  (gatherT m p).map (fun row => gatherT row p)

/-- Every row has as many entries as there are rows. -/
def isSquare {β : Type} (m : List (List β)) : Bool := m.all (fun row => row.length == m.length)

inductive TErr where
  | indexError
  | valueError
  deriving DecidableEq, Repr

/-- 2-D branch of `permute_tensor`: `ValueError` unless square, else `tensor[perm][:, perm]`. -/
def permuteMat {β : Type} (m : List (List β)) (p : List Nat) : Except TErr (List (List β)) :=
  if !isSquare m then .error .valueError
  else if !inRange m.length p then .error .indexError
  else .ok (permuteMatT m p)

/-- `p` is a permutation of `0..n-1` (executable). -/
def nodupB : List Nat → Bool
  | [] => true
  | x :: xs => !xs.contains x && nodupB xs

def isPermOf (n : Nat) (p : List Nat) : Bool := p.length == n && inRange n p && nodupB p

/-- The index-put `inv[perm] = arange(len(perm))` for an injective in-range `perm`:
position `j` receives the `k` with `perm[k] = j`. -/
def invPermT (p : List Nat) : List Nat := (List.range p.length).map (fun j => p.idxOf j)

/-- `inv_permutation`. Outside permutations the real function raises `IndexError`
(out-of-range entry) or returns uninitialised memory (`torch.empty_like`, repeated entry):
both are `none` here (nothing is claimed, nothing is compared). -/
def invPermutation (p : List Nat) : Option (List Nat) :=
  if isPermOf p.length p then some (invPermT p) else none

/-! ### `permute_results` -/

/-- A `Counter`/`dict` as an association list in insertion order. -/
abbrev Counter (κ : Type) := List (κ × Nat)

/-- `d[k] = v` on an insertion-ordered dict: overwrite in place, or append. -/
def dictInsert {κ ν : Type} [DecidableEq κ] : List (κ × ν) → κ → ν → List (κ × ν)
  | [], k, v => [(k, v)]
  | (k', v') :: r, k, v => if k' = k then (k', v) :: r else (k', v') :: dictInsert r k v

/-- `Counter({f(k): c for k, c in items})`. -/
def dictOfPairs {κ ν : Type} [DecidableEq κ] (l : List (κ × ν)) : List (κ × ν) :=
  l.foldl (fun d kv => dictInsert d kv.1 kv.2) []

/-- `mapM` for `Option`, spelled out. -/
def allSome {β : Type} : List (Option β) → Option (List β)
  | [] => some []
  | none :: _ => none
  | some x :: r => match allSome r with
    | none => none
    | some l => some (x :: l)

/-- One `Counter` of `permute_bitstrings`. -/
def permuteCounter (c : Counter (List Char)) (p : List Nat) : Option (Counter (List Char)) :=
  (allSome (c.map (fun kv => (permuteList kv.1 p).map (fun k => (k, kv.2))))).map dictOfPairs

/-- The part of a `Results` object that `permute_results` touches. A tag that was never
stored is `none`; values are lists over the evaluation times. -/
structure Res (α : Type) where
  atomOrder : List String
  bitstrings : Option (List (Counter (List Char)))
  occupation : Option (List (List α))
  correlation : Option (List (List (List α)))
  /-- every other stored tag (energy, energy_variance, statistics …): not touched -/
  others : List (String × List α)

/-- `Option`-lift: apply `f` to every stored value of a tag, if the tag is present. -/
def onTag {β : Type} (t : Option (List β)) (f : β → Option β) : Option (Option (List β)) :=
  match t with
  | none => some none
  | some l => (allSome (l.map f)).map some

/-- `permute_tensor` on a stored correlation matrix (`none` = it raised). -/
def permuteMatO {β : Type} (m : List (List β)) (p : List Nat) : Option (List (List β)) :=
  match permuteMat m p with
  | .ok r => some r
  | .error _ => none

/-- Body of `permute_results(results, True)` for a given `inv_perm`. -/
def permuteResultsWith {α : Type} (r : Res α) (q : List Nat) : Option (Res α) :=
  match onTag r.bitstrings (fun c => permuteCounter c q) with
  | none => none
  | some bs =>
    match onTag r.occupation (fun v => permuteVec v q) with
    | none => none
    | some oc =>
      match onTag r.correlation (fun m => permuteMatO m q) with
      | none => none
      | some co =>
        match permuteList r.atomOrder q with
        | none => none
        | some ao => some { atomOrder := ao, bitstrings := bs, occupation := oc, correlation := co, others := r.others }

/-- `MPSBackendImpl.permute_results(results, permute)` with `self.qubit_permutation = p`. -/
def permuteResults {α : Type} (p : List Nat) (r : Res α) (permute : Bool) : Option (Res α) :=
  if permute then
    match invPermutation p with
    | none => none
    | some q => permuteResultsWith r q
  else some r

/-- What a run in *site order* reports when the run in register order would report `r`:
site `k` holds register atom `p[k]` (`atom_order = permute_tuple(qubit_ids, p)`, interaction
matrix `permute_tensor(U, p)`, basis-state labels `permute_string(bstr, p)`). -/
def siteView {α : Type} (p : List Nat) (r : Res α) : Res α :=
  { atomOrder := gatherT r.atomOrder p
    bitstrings := r.bitstrings.map (fun l => l.map (fun c => c.map (fun kv => (gatherT kv.1 p, kv.2))))
    occupation := r.occupation.map (fun l => l.map (fun v => gatherT v p))
    correlation := r.correlation.map (fun l => l.map (fun m => permuteMatT m p))
    others := r.others }

/-! ### `check_permutable_observables` -/

def allowedPermutableObs : List String :=
  ["bitstrings", "occupation", "correlation_matrix", "statistics", "energy",
   "energy_variance", "energy_second_moment"]

/-- `check_permutable_observables`: no observable tag outside the allowed set. -/
def checkPermutableObservables (tags : List String) : Bool :=
  tags.all (fun t => allowedPermutableObs.contains t)

/-- `optimize_qubit_ordering &= check_permutable_observables()`. -/
def effectiveOrdering (requested : Bool) (tags : List String) : Bool :=
  requested && checkPermutableObservables tags

end EmuVerif.Perm
