/-
  Model of the sampling code:

    emu_mps/mps.py                  MPS.sample   (batch loop, per-site conditional weights, outcome → bit,
                                                  the `or/and` guard around apply_measurement_errors)
    emu_sv/state_vector.py          StateVector.sample   (weights |ψ|², index_to_bitstring)
    emu_sv/density_matrix_state.py  DensityMatrix.sample (weights |diag ρ|)
    emu_sv/utils.py                 index_to_bitstring
    emu_base/utils.py               readout_with_error, apply_measurement_errors

  Random kernels are oracle tapes: every `torch.multinomial` call is replaced by its recorded answer
  (a list of outcomes), every `random.random()` by the next element of a list of uniform draws.
  The *contract* of `torch.multinomial(w, …)` (outcome `x` with probability `w_x / Σ w`, independently
  per row / per draw) is an assumption; `shotProb` below is the probability of a level string under
  that contract (chain rule), and `Props/C15.lean` proves it equals the Born probability.

  A `Counter` is an association list in insertion order (what CPython's `Counter`/`dict` is), because
  `apply_measurement_errors` consumes the uniform draws in the iteration order of `bitstrings.items()`.
-/
import EmuVerif.Model.Tensor

namespace EmuVerif.Sampling
open EmuVerif.Tensor

/-! ### Counters -/

abbrev Counter := List (String × Nat)

/-- `counter[key] += k` (new keys go to the end) -/
def counterAdd (c : Counter) (key : String) (k : Nat) : Counter :=
  match c with
  | [] => [(key, k)]
  | (key', n) :: rest => if key' = key then (key', n + k) :: rest else (key', n) :: counterAdd rest key k

/-- `Counter(list)` / `counter.update(list)` -/
def counterAddAll (c : Counter) (keys : List String) : Counter := keys.foldl (fun c k => counterAdd c k 1) c

def counterTotal (c : Counter) : Nat := (c.map (·.2)).sum

/-! ### outcome → character -/

/-- `"1" if x == 1 else "0"`: level 1 (`r` / `1`) reads as 1, level 0 and the leakage level 2 as 0 -/
def bitOf (x : Nat) : Char := if x = 1 then '1' else '0'

def bitsOf (row : List Nat) : String := String.ofList (row.map bitOf)

/-! ### `MPS.sample`: the batch loop -/

/-- rows of `batch_outcomes`: shot `j` ↦ its outcome at every site (`calls[q][j]`) -/
def batchRows (b : Nat) (calls : List (List Nat)) : List (List Nat) :=
  (List.range b).map (fun j => calls.map (fun c => c.getD j 0))

/-- The `while shots_done < num_shots` loop. `tape` holds one entry per `torch.multinomial` call, in
call order (`nSites` calls per batch, each answering for the whole batch).  `none` = the tape does not
have the shape the code asks for, or `max_batch_size = 0` (the Python would not terminate). -/
def sampleLoop (maxB nSites numShots : Nat) (done : Nat) (tape : List (List Nat)) (ctr : Counter) :
    Option Counter :=
  if _h : done < numShots then
    if _hB : maxB = 0 then none
    else
      let b := min maxB (numShots - done)
      let calls := tape.take nSites
      if calls.length ≠ nSites ∨ calls.any (fun c => c.length ≠ b) then none
      else sampleLoop maxB nSites numShots (done + b) (tape.drop nSites)
             (counterAddAll ctr ((batchRows b calls).map bitsOf))
  else some ctr
termination_by numShots - done
decreasing_by omega

/-- the batch sizes the loop uses -/
def batchSizes (maxB numShots done : Nat) : List Nat :=
  if _h : done < numShots ∧ 0 < maxB then
    min maxB (numShots - done) :: batchSizes maxB numShots (done + min maxB (numShots - done))
  else []
termination_by numShots - done
decreasing_by omega

/-! ### `MPS.sample`: the weights handed to `torch.multinomial` -/

section weights
variable {α : Type} [Add α] [Mul α] [OfNat α 0] [OfNat α 1] [Conj α]

/-- `|z|²` -/
def nsq (z : α) : α := conj z * z

/-- one row of `probn`: `‖acc · A[x]‖²` for every level `x` -/
def condWeights (acc : Arr α) (A : Site α) : List α :=
  (List.range A.d).map (fun x => sumTo A.dr (fun r => nsq ((rowStep acc A x).get r)))

/-- the rows of `probn` seen by one shot with outcomes `xs`, site by site -/
def shotWeights : List (Site α) → List Nat → Arr α → List (List α)
  | A :: fs, x :: xs, acc => condWeights acc A :: shotWeights fs xs (rowStep acc A x)
  | _, _, _ => []

/-- state-vector weights `torch.abs(data) ** 2` -/
def svWeights (psi : List α) : List α := psi.map nsq

/-- density-matrix weights `torch.abs(data.diagonal())`; `absf` = complex modulus (a `sqrt`, oracle) -/
def dmWeights (absf : α → α) (dim : Nat) (rho : Nat → Nat → α) : List α :=
  (List.range dim).map (fun i => absf (rho i i))

end weights

/-! ### probability of a level string under the multinomial contract -/

section prob
variable {α : Type} [Add α] [Mul α] [Div α] [OfNat α 0] [OfNat α 1] [Conj α]

/-- chain rule: `Π_k w_k(x_k | x_<k) / Σ_x w_k(x | x_<k)` -/
def shotProb : List (Site α) → List Nat → Arr α → α
  | [], [], _ => 1
  | A :: fs, x :: xs, acc =>
    let w := condWeights acc A
    (w.getD x 0 / w.foldl (· + ·) 0) * shotProb fs xs (rowStep acc A x)
  | _, _, _ => 0
end prob

/-! ### read-out errors -/

section readout
variable {β : Type} [LT β] [DecidableLT β] [OfNat β 0]

/-- `readout_with_error(c, p_false_pos=…, p_false_neg=…)` with `r = random.random()` supplied -/
def readoutWithError (c : Char) (r pfp pfn : β) : Char :=
  if c = '0' ∧ r < pfp then '1'
  else if c = '1' ∧ r < pfn then '0'
  else c

/-- the generator expression over one bitstring: one draw per character, in order -/
def flipChars (pfp pfn : β) : List Char → List β → Option (List Char × List β)
  | [], us => some ([], us)
  | _ :: _, [] => none
  | c :: cs, u :: us =>
    match flipChars pfp pfn cs us with
    | none => none
    | some (cs', rest) => some (readoutWithError c u pfp pfn :: cs', rest)

/-- `for _ in range(count)` -/
def flipRepeat (pfp pfn : β) (bits : List Char) : Nat → List β → Counter → Option (Counter × List β)
  | 0, us, res => some (res, us)
  | k + 1, us, res =>
    match flipChars pfp pfn bits us with
    | none => none
    | some (cs', rest) => flipRepeat pfp pfn bits k rest (counterAdd res (String.ofList cs') 1)

/-- `apply_measurement_errors`: `for bitstring, count in bitstrings.items()`; `none` = tape too short -/
def applyErrorsAux (pfp pfn : β) : Counter → List β → Counter → Option (Counter × List β)
  | [], us, res => some (res, us)
  | (bits, count) :: rest, us, res =>
    match flipRepeat pfp pfn bits.toList count us res with
    | none => none
    | some (res', us') => applyErrorsAux pfp pfn rest us' res'

def applyErrors (pfp pfn : β) (c : Counter) (us : List β) : Option Counter :=
  (applyErrorsAux pfp pfn c us []).map (·.1)

/-- outcome of a `sample` call -/
inductive Res
  | ok (c : Counter)
  | notImplemented
  | tapeError
  deriving Repr

/-- `if p_false_neg > 0 or p_false_pos > 0 and self.dim == 2:` — Python precedence: `or (… and …)` -/
def mpsErrorsApplied (dim : Nat) (pfp pfn : β) : Bool :=
  decide (0 < pfn) || (decide (0 < pfp) && dim == 2)

/-- `if p_false_pos > 0 and self.dim > 2: raise NotImplementedError` -/
def mpsRaises (dim : Nat) (pfp : β) : Bool := decide (0 < pfp) && decide (2 < dim)

/-- tail of `MPS.sample` after the loop, statement by statement -/
def mpsReadout (dim : Nat) (pfp pfn : β) (bitstrings : Counter) (us : List β) : Res :=
  let step1 : Option Counter :=
    if mpsErrorsApplied dim pfp pfn then applyErrors pfp pfn bitstrings us else some bitstrings
  match step1 with
  | none => .tapeError
  | some c => if mpsRaises dim pfp then .notImplemented else .ok c

/-- the whole of `MPS.sample` given both tapes (`max_batch_size = 32`) -/
def mpsSample (dim nSites numShots : Nat) (pfp pfn : β) (tape : List (List Nat)) (us : List β) : Res :=
  match sampleLoop 32 nSites numShots 0 tape [] with
  | none => .tapeError
  | some c => mpsReadout dim pfp pfn c us

/-! ### state vectors and density matrices -/

/-- `index_to_bitstring(nqubits, index)` = `format(index, "0{n}b")`; `none` = the `assert` fails -/
def indexToBits (n idx : Nat) : Option String :=
  if idx < 2 ^ n then
    some (String.ofList ((List.range n).map (fun i => if (idx / 2 ^ (n - 1 - i)) % 2 = 1 then '1' else '0')))
  else none

/-- `StateVector.sample` / `DensityMatrix.sample` after `outcomes = torch.multinomial(…)` -/
def svSample (n : Nat) (pfp pfn : β) (outcomes : List Nat) (us : List β) : Res :=
  match outcomes.mapM (indexToBits n) with
  | none => .tapeError
  | some keys =>
    let counts := counterAddAll [] keys
    if decide (0 < pfn) || decide (0 < pfp) then
      match applyErrors pfp pfn counts us with
      | none => .tapeError
      | some c => .ok c
    else .ok counts

end readout
end EmuVerif.Sampling
