/-
  Scalar helpers shared by every model (Mathlib-free).

  Models are *polymorphic in the scalar type*: they only ask for the notation classes
  they use, so that the very same definition
    * runs at `Float` / `Rat` in the driver (correspondence with the Python code), and
  	* is the object of the theorems in `Props/`, where the classes are the ones induced
      by an ordered field / commutative ring.
-/
namespace EmuVerif

section
variable {α : Type} [Neg α] [LT α] [DecidableLT α] [OfNat α 0]

/-- Python's `abs` on a scalar. -/
def absv (x : α) : α := if x < 0 then -x else x
end

section
variable {α : Type} [LT α] [DecidableLT α]
/-- Python's `min(a, b)` (returns `a` unless `b < a`). -/
def pmin (a b : α) : α := if b < a then b else a
/-- Python's `max(a, b)` (returns `a` unless `b > a`). -/
def pmax (a b : α) : α := if a < b then b else a
end

/-! ### Line-protocol helpers (driver side only) -/

/-- IEEE-754 binary64 scalars cross the boundary as decimal `UInt64` bit patterns. -/
def parseF (s : String) : Option Float :=
  s.toNat?.map (fun n => Float.ofBits n.toUInt64)

def showF (x : Float) : String := toString x.toBits.toNat

/-- NaN-insensitive canonical output: all NaNs print as `nan`. -/
def showFc (x : Float) : String := if x.isNaN then "nan" else showF x

/-- Rationals cross as `num/den` (den > 0) or as a bare integer. -/
def parseQ (s : String) : Option Rat :=
  match s.splitOn "/" with
  | [n] => n.toInt?.map (fun i => (i : Rat))
  | [n, d] => do
      let i ← n.toInt?
      let k ← d.toNat?
      if k = 0 then none else some ((i : Rat) / (k : Rat))
  | _ => none

def showQ (q : Rat) : String := s!"{q.num}/{q.den}"

def parseB (s : String) : Option Bool :=
  if s = "1" then some true else if s = "0" then some false else none

def showB (b : Bool) : String := if b then "1" else "0"

def parseList {β} (p : String → Option β) (s : String) : Option (List β) :=
  if s = "" || s = "-" then some [] else (s.splitOn ",").mapM p

def showList {β} (sh : β → String) (l : List β) : String :=
  if l.isEmpty then "-" else ",".intercalate (l.map sh)

end EmuVerif
