/-
  Model of the stepping machine of `emu_mps/mps_backend_impl.py`:

    MPSBackendImpl.{init, progress, _left_to_right_update_tdvp, _right_to_left_update_tdvp,
                    _evolve (its asserts only), sweep_complete, timestep_complete, init_baths}
    NoisyMPSBackendImpl.{init, set_jump_threshold, sweep_complete, do_random_quantum_jump,
                    timestep_complete}
    and the column/row permutation applied to the drives and the interaction matrix in
    `MPSBackendImpl.__init__` / `_get_interaction_matrix`.

  The *position* of the machine is modelled exactly (direction, sweep index, time-step index,
  sizes of the two bath stacks, orthogonality centre, current/target time); the tensors are
  not: the local kernels `evolve_pair`, `evolve_single`, `new_left_bath`, `new_right_bath`,
  `update_H`, `make_H`, `fill_results` appear as *events*. The noisy layer embeds
  `Model.Brent` (ε = 1, tolerance = 1); the environment supplies, per completed sweep, the
  squared norm of the state, and — used only when a jump happens in that sweep — the uniform
  draw and the squared norm after re-normalisation.

  Where Python raises, the model returns an error tag (never a default value).
  Scalar-polymorphic, Mathlib-free.
-/
import EmuVerif.Model.Brent

namespace EmuVerif.Stepper

/-- What the machine does, in program order. Times are in ns. -/
inductive Ev (α : Type) where
  /-- `progress()` entered at the start of a sweep: step index, `current_time`, `target_time` -/
  | sweep (k : Nat) (frm to : α)
  /-- `_evolve(l, l+1, dt=…, orth_center_right=…)` -/
  | pair (l : Nat) (dt : α) (centreRight : Bool)
  /-- `_evolve(i, dt=…)` -/
  | single (i : Nat) (dt : α)
  /-- `left_baths.append(new_left_bath(…, factors[i], …))` -/
  | leftBath (i : Nat)
  /-- `right_baths.append(new_right_bath(…, factors[i], …))` -/
  | rightBath (i : Nat)
  /-- `update_H_no_noise()` with drive row `k` -/
  | hNoNoise (k : Nat)
  /-- `fill_results()` at `current_time = t` -/
  | fill (t : α)
  /-- `update_H()` with drive row `k`; `q` = time of the last interaction-matrix query -/
  | newH (k : Nat) (q : α)
  /-- `MPSBackendImpl.timestep_complete` returned for step `k` -/
  | stepDone (k : Nat)
  /-- `do_random_quantum_jump()` at `current_time = t` -/
  | jump (t : α)

/-- An event together with the bath-stack sizes and the orthogonality centre seen when it
was emitted (before its own effect). -/
structure Rec (α : Type) where
  ev : Ev α
  lb : Nat
  rb : Nat
  centre : Nat

inductive Err where
  | qubitCount     -- `assert self.qubit_count >= 1`
  | cornerAssert   -- the two asserts of the N ≤ 2 corner case
  | bathIndex      -- `left_baths[-1]` / `right_baths[-1]` / `.pop()` on an empty list
  | evolveAssert   -- orthogonality-centre asserts of `_evolve`
  | timeIndex      -- `target_times[k]` out of range
  | initBaths      -- `assert len(self.right_baths) == self.qubit_count - 1`
  | brentInit      -- one of the two asserts of `BrentsRootFinder.__init__`
  | zeroDiv        -- `ZeroDivisionError` in `get_next_abscissa`
  | fuel           -- model artefact: sweep loop ran out of fuel (unreachable, see `Props.C02`)
  deriving DecidableEq, Repr

structure Cfg (α : Type) where
  /-- `qubit_count` (after dark-qubit filtering) -/
  n : Nat
  /-- `timestep_count = omega.shape[0]` -/
  nsteps : Nat
  /-- `target_times` -/
  times : List α
  /-- `has_lindblad_noise` (noisy `timestep_complete` calls `update_H_no_noise` first) -/
  noisy : Bool

structure St (α : Type) where
  l2r : Bool
  sweep : Nat
  step : Nat
  lb : Nat
  rb : Nat
  centre : Nat
  cur : α
  tgt : α

variable {α : Type} [Add α] [Sub α] [Mul α] [Div α] [Neg α] [LT α] [DecidableLT α]
  [LE α] [DecidableLE α] [OfNat α 0] [OfNat α 1] [OfNat α 2] [OfNat α 3] [OfNat α 4]

def St.snap (s : St α) (e : Ev α) : Rec α := ⟨e, s.lb, s.rb, s.centre⟩

def finished (c : Cfg α) (s : St α) : Bool := decide (c.nsteps ≤ s.step)

/-! ### `_evolve`: the checks it performs, and its effect on the orthogonality centre -/

def evolveSingle (s : St α) (i : Nat) (dt : α) : Except Err (St α × Rec α) :=
  if s.lb = 0 ∨ s.rb = 0 then .error .bathIndex
  else if s.centre ≠ i then .error .evolveAssert
  else .ok (s, s.snap (.single i dt))

def evolvePair (s : St α) (l : Nat) (dt : α) (cr : Bool) : Except Err (St α × Rec α) :=
  if s.lb = 0 ∨ s.rb = 0 then .error .bathIndex
  else if ¬ (s.centre = l ∨ s.centre = l + 1) then .error .evolveAssert
  else .ok ({ s with centre := if cr then l + 1 else l }, s.snap (.pair l dt cr))

/-! ### `progress` without the `sweep_complete` call (the flag says it is due) -/

/-- `_left_to_right_update_tdvp` -/
def l2rUpdate (c : Cfg α) (s : St α) (dt : α) : Except Err (St α × List (Rec α) × Bool) :=
  if s.sweep + 2 < c.n then
    match evolvePair s s.sweep (dt / 2) true with
    | .error e => .error e
    | .ok (s1, r1) =>
      let r2 := s1.snap (.leftBath s.sweep)
      let s2 := { s1 with lb := s1.lb + 1 }
      match evolveSingle s2 (s.sweep + 1) (-dt / 2) with
      | .error e => .error e
      | .ok (s3, r3) =>
        .ok ({ s3 with rb := s3.rb - 1, sweep := s.sweep + 1 }, [r1, r2, r3], false)
  else
    match evolvePair s s.sweep dt false with
    | .error e => .error e
    | .ok (s1, r1) => .ok ({ s1 with l2r := false }, [r1], false)

/-- the `if self._sweep_index > 0` block of `_right_to_left_update_tdvp` -/
def r2lInner (s : St α) (dt : α) : Except Err (St α × List (Rec α)) :=
  if s.rb = 0 then .error .bathIndex
  else
    let r0 := s.snap (.rightBath (s.sweep + 1))
    let s0 := { s with rb := s.rb + 1 }
    match evolveSingle s0 s.sweep (-dt / 2) with
    | .error e => .error e
    | .ok (s1, r1) =>
      let s2 := { s1 with lb := s1.lb - 1 }
      match evolvePair s2 (s.sweep - 1) (dt / 2) false with
      | .error e => .error e
      | .ok (s3, r2) => .ok ({ s3 with sweep := s.sweep - 1 }, [r0, r1, r2])

/-- `_right_to_left_update_tdvp` (the direction is reset after `sweep_complete`, which does
not read it) -/
def r2lUpdate (s : St α) (dt : α) : Except Err (St α × List (Rec α) × Bool) :=
  match (if 0 < s.sweep then r2lInner s dt else .ok (s, [])) with
  | .error e => .error e
  | .ok (s1, evs) =>
    if s1.sweep = 0 then .ok ({ s1 with l2r := true }, evs, true) else .ok (s1, evs, false)

/-- Is this `progress()` call the first of a sweep? -/
def atSweepStart (c : Cfg α) (s : St α) : Bool := decide (c.n ≤ 2) || (s.l2r && decide (s.sweep = 0))

def progressCore (c : Cfg α) (s : St α) : Except Err (St α × List (Rec α) × Bool) :=
  let dt := s.tgt - s.cur
  if c.n = 0 then .error .qubitCount
  else if c.n ≤ 2 then
    if ¬ (s.l2r = true ∧ s.sweep = 0) then .error .cornerAssert
    else if c.n = 1 then
      match evolveSingle s 0 dt with
      | .error e => .error e
      | .ok (s1, r) => .ok (s1, [r], true)
    else
      match evolvePair s 0 dt false with
      | .error e => .error e
      | .ok (s1, r) => .ok (s1, [r], true)
  else if s.l2r then l2rUpdate c s dt
  else r2lUpdate s dt

/-- `progressCore` preceded by the `sweep` marker when a sweep starts. -/
def progressMarked (c : Cfg α) (s : St α) : Except Err (St α × List (Rec α) × Bool) :=
  match progressCore c s with
  | .error e => .error e
  | .ok (s1, evs, sc) =>
    .ok (s1, (if atSweepStart c s then [s.snap (.sweep s.step s.cur s.tgt)] else []) ++ evs, sc)

/-! ### `timestep_complete`, `init_baths`, `init` -/

/-- `0.5` -/
def half : α := 1 / 2

/-- `init_baths`: `left_baths = [1]`, `right_baths = right_baths(state, H, final_qubit=2)` has
`1 + max(n-2, 0)` entries and must have `n - 1`. -/
def initBaths (c : Cfg α) (s : St α) : Except Err (St α) :=
  if c.n < 2 then .error .initBaths else .ok { s with lb := 1, rb := c.n - 1 }

/-- `MPSBackendImpl.timestep_complete` (preceded, in the noisy class, by
`update_H_no_noise`). -/
def timestepComplete (c : Cfg α) (s : St α) : Except Err (St α × List (Rec α)) :=
  let k := s.step
  let pre := if c.noisy then [s.snap (.hNoNoise k)] else []
  let rFill := s.snap (.fill s.cur)
  let s1 := { s with step := k + 1 }
  let q : α := half * (s1.cur + s1.tgt)
  if k + 1 < c.nsteps then
    match c.times[k + 2]? with
    | none => .error .timeIndex
    | some t =>
      let s2 := { s1 with tgt := t }
      match initBaths c s2 with
      | .error e => .error e
      | .ok s3 => .ok (s3, pre ++ [rFill, s2.snap (.newH (k + 1) q), s3.snap (.stepDone k)])
  else .ok (s1, pre ++ [rFill, s1.snap (.stepDone k)])

/-- `MPSBackendImpl.sweep_complete` -/
def sweepComplete (c : Cfg α) (s : St α) : Except Err (St α × List (Rec α)) :=
  timestepComplete c { s with cur := s.tgt }

/-- `MPSBackendImpl.__init__` + `init()`: `current_time = 0.0`, `target_time = target_times[1]`;
`init_noiseless_hamiltonian` (interaction matrix queried at `0.5·(0 + t₁)`, `update_H_no_noise`
row 0), `fill_results`, `update_H`, `init_baths`. -/
def init (c : Cfg α) : Except Err (St α × List (Rec α)) :=
  match c.times[1]? with
  | none => .error .timeIndex
  | some t1 =>
    let s0 : St α := { l2r := true, sweep := 0, step := 0, lb := 0, rb := 0, centre := 0,
                       cur := 0, tgt := t1 }
    let q : α := half * (s0.cur + s0.tgt)
    match initBaths c s0 with
    | .error e => .error e
    | .ok s1 => .ok (s1, [s0.snap (.hNoNoise 0), s0.snap (.fill s0.cur), s0.snap (.newH 0 q)])

/-- one `progress()` call of the noiseless back-end -/
def progress (c : Cfg α) (s : St α) : Except Err (St α × List (Rec α)) :=
  if finished c s then .ok (s, [])
  else
    match progressMarked c s with
    | .error e => .error e
    | .ok (s1, evs, sc) =>
      if sc then
        match sweepComplete c s1 with
        | .error e => .error e
        | .ok (s2, evs2) => .ok (s2, evs ++ evs2)
      else .ok (s1, evs)

/-- `k` calls of `progress()` (what `MPSBackend._run` does, with fuel). -/
def progressN (c : Cfg α) : Nat → St α → List (Rec α) → (St α × List (Rec α) × Option Err)
  | 0, s, acc => (s, acc, none)
  | k + 1, s, acc =>
    match progress c s with
    | .error e => (s, acc, some e)
    | .ok (s1, evs) => progressN c k s1 (acc ++ evs)

/-- A whole sweep: `progress` calls up to and including the one that asks for
`sweep_complete` (which is *not* executed here). -/
def sweepLoop (c : Cfg α) : Nat → St α → List (Rec α) → Except Err (St α × List (Rec α))
  | 0, _, _ => .error .fuel
  | f + 1, s, acc =>
    match progressMarked c s with
    | .error e => .error e
    | .ok (s1, evs, sc) => if sc then .ok (s1, acc ++ evs) else sweepLoop c f s1 (acc ++ evs)

def sweepCore (c : Cfg α) (s : St α) : Except Err (St α × List (Rec α)) :=
  sweepLoop c (2 * c.n + s.sweep + 3) s []

/-! ### The noisy layer -/

/-- What the environment supplies for one completed sweep: `sq` = `state.norm()**2` at
`sweep_complete`; if a jump happens in that sweep, `u` = the `[0,1]` variate behind
`random.uniform(0, bound)` and `psq` = `norm_after_normalizing**2`. -/
structure Env (α : Type) where
  sq : α
  u : α
  psq : α

structure NSt (α : Type) where
  base : St α
  rf : Option (Brent.St α)
  thr : α
  gap : α

/-- `set_jump_threshold(bound)`: `random.uniform(0.0, bound) = 0.0 + (bound - 0.0) * u`. -/
def uniform0 (bound u : α) : α := 0 + (bound - 0) * u

/-- `NoisyMPSBackendImpl.init()` -/
def ninit (c : Cfg α) (e : Env α) : Except Err (NSt α × List (Rec α)) :=
  match init c with
  | .error err => .error err
  | .ok (s, evs) =>
    let thr := uniform0 1 e.u
    .ok ({ base := s, rf := none, thr := thr, gap := e.sq - thr }, evs)

/-- `BrentsRootFinder(start, end, f_start, f_end, epsilon=1)` followed by
`get_next_abscissa()`. -/
def openSearch (start stop fS fE : α) : Except Err (Brent.St α × α) :=
  match Brent.init start stop fS fE 1 with
  | none => .error .brentInit
  | some r => if Brent.divZero r then .error .zeroDiv else .ok (Brent.getNext r)

/-- `do_random_quantum_jump` as far as the stepping is concerned: the state is
re-orthogonalised at 0, the baths rebuilt, a new threshold drawn. -/
def doJump (c : Cfg α) (s : NSt α) (e : Env α) : Except Err (NSt α × List (Rec α)) :=
  let r := s.base.snap (.jump s.base.cur)
  match initBaths c { s.base with centre := 0 } with
  | .error err => .error err
  | .ok b =>
    let thr := uniform0 e.psq e.u
    .ok ({ base := b, rf := none, thr := thr, gap := e.psq - thr }, [r])

/-- `NoisyMPSBackendImpl.sweep_complete` -/
def nsweepComplete (c : Cfg α) (s : NSt α) (e : Env α) : Except Err (NSt α × List (Rec α)) :=
  let prevTime := s.base.cur
  let b := { s.base with cur := s.base.tgt }
  let prevGap := s.gap
  let gap := e.sq - s.thr
  match s.rf with
  | none =>
    if gap < 0 then
      match openSearch prevTime b.cur prevGap gap with
      | .error err => .error err
      | .ok (r, x) => .ok ({ s with base := { b with tgt := x }, rf := some r, gap := gap }, [])
    else
      match timestepComplete c b with
      | .error err => .error err
      | .ok (b1, evs) => .ok ({ s with base := b1, gap := gap }, evs)
  | some r =>
    let r1 := Brent.provide r b.cur gap
    if Brent.isConverged r1 1 then
      match doJump c { s with base := b, gap := gap } e with
      | .error err => .error err
      | .ok (s1, evs) =>
        match c.times[s.base.step + 1]? with
        | none => .error .timeIndex
        | some t => .ok ({ s1 with base := { s1.base with tgt := t } }, evs)
    else if Brent.divZero r1 then .error .zeroDiv
    else
      let (r2, x) := Brent.getNext r1
      .ok ({ s with base := { b with tgt := x }, rf := some r2, gap := gap }, [])

/-- One whole sweep of the noisy back-end followed by its `sweep_complete`. -/
def nstep (c : Cfg α) (s : NSt α) (e : Env α) : Except Err (NSt α × List (Rec α)) :=
  match sweepCore c s.base with
  | .error err => .error err
  | .ok (b, evs) =>
    match nsweepComplete c { s with base := b } e with
    | .error err => .error err
    | .ok (s1, evs1) => .ok (s1, evs ++ evs1)

inductive Status where
  | done            -- `is_finished()`
  | tapeOut         -- environment tape exhausted before the run finished
  | err (e : Err)
  deriving DecidableEq, Repr

/-- The run loop `while not impl.is_finished(): impl.progress()` driven by an environment
tape (one entry per sweep). -/
def nrun (c : Cfg α) : List (Env α) → NSt α → List (Rec α) × NSt α × Status
  | [], s => ([], s, if finished c s.base then .done else .tapeOut)
  | e :: es, s =>
    if finished c s.base then ([], s, .done)
    else
      match nstep c s e with
      | .error err => ([], s, .err err)
      | .ok (s1, evs) =>
        let (evs', sf, st) := nrun c es s1
        (evs ++ evs', sf, st)

/-- `init()` followed by the run loop: the head of the tape feeds `init`. -/
def nrunFromInit (c : Cfg α) : List (Env α) → List (Rec α) × Status
  | [] => ([], .tapeOut)
  | e :: es =>
    match ninit c e with
    | .error err => ([], .err err)
    | .ok (s, evs) =>
      let (evs', _, st) := nrun c es s
      (evs ++ evs', st)

/-! ### Which Hamiltonian is installed: the permutation of drives and interactions -/

/-- `asFound` = the tree before commit 4109696 (drive columns not permuted). -/
inductive Variant where
  | asFound
  | repaired
  deriving DecidableEq, Repr

/-- `[f x for x in l]` where `f` may raise. -/
def mapOpt {γ β : Type} (f : γ → Option β) : List γ → Option (List β)
  | [] => some []
  | a :: l =>
    match f a, mapOpt f l with
    | some x, some xs => some (x :: xs)
    | _, _ => none

/-- `row[perm]` (torch advanced indexing); `none` = index out of range. -/
def permuteRow {β : Type} (perm : List Nat) (row : List β) : Option (List β) :=
  mapOpt (fun a => row[a]?) perm

/-- the drive row handed to `update_H` for step `k`: `self.omega[k, :]` after `__init__`. -/
def installedDrive {β : Type} (v : Variant) (perm : List Nat) (drive : List (List β)) (k : Nat) :
    Option (List β) :=
  match drive[k]? with
  | none => none
  | some row => match v with
    | .repaired => permuteRow perm row
    | .asFound => some row

/-- `permute_tensor(matrix, perm) = matrix[perm][:, perm]` -/
def installedInteraction {β : Type} (perm : List Nat) (u : List (List β)) : Option (List (List β)) :=
  match permuteRow perm u with
  | none => none
  | some rows => mapOpt (permuteRow perm) rows


/-! ### The initial state: a user-supplied state is rewritten into site order -/

/-- `inv_permutation(perm)`: `inv[perm[i]] = i`. -/
def invPerm (perm : List Nat) : List Nat := (List.range perm.length).map (fun a => perm.idxOf a)

/-- Which index list `init_initial_state` hands to `permute_string`: `direct` = `qubit_permutation` (the tree as it
is), `inverse` = `inv_permutation(qubit_permutation)` (a plausible slip: identical on every self-inverse order). -/
inductive StateMap where
  | direct
  | inverse
  deriving DecidableEq, Repr

/-- `permute_string(bstr, …)`: the basis string of a user-supplied initial state (one symbol per atom, register
order) rewritten into site order. -/
def installedString {β : Type} (m : StateMap) (perm : List Nat) (b : List β) : Option (List β) :=
  match m with
  | .direct => permuteRow perm b
  | .inverse => permuteRow (invPerm perm) b

end EmuVerif.Stepper
