/-
  Model of the hand-written gradient operators of emu-sv (C30): `emu_sv/time_evolution.py`
  `DHDOmegaSparse`, `DHDDeltaSparse`, `DHDPhiSparse`, `DHDUSparse` (each applied to one row of the batch
  `e_l`; rows are independent) and the slot bookkeeping of `EvolveStateVector.backward`
  (`grad_p[i] = (−i·dt · tensordot(Vg.conj(), ∂H/∂p_i @ e_l)).real`).

  `torch.exp(1j·φ)` and `torch.exp(1j·(φ + π/2))` are tapes (`Phase`): contract `exp(iφ) = c + i s`,
  `exp(i(φ+π/2)) = −s + i c` (validated by the harness).
-/
import EmuVerif.Model.SvOps

namespace EmuVerif.SvGrad
open EmuVerif EmuVerif.TreeVec EmuVerif.SvOps

variable {κ β : Type}

section
variable [Add β] [SMul κ β] [OfNat β 0]

/-- `torch.zeros_like(vec)` -/
def zerosLike {n : Nat} (v : Vec β n) : Vec β n := v.map (fun _ => 0)

variable [Add κ] [Mul κ] [CxLike κ]

/-- `DHDOmegaSparse(k, …, phi_k) @ v`: `alpha = 0.5 * exp(1j * phi_k)`; the complex kernel iff `phi_k` is non-zero -/
def dhdOmega (p : Phase κ) {n : Nat} (k : Nat) (v : Vec β n) : Vec β n :=
  let α := CxLike.half * expi p
  if p.nz then
    indexAddAt k false true (CxLike.conj α) v (indexAddAt k true false α v (zerosLike v))
  else
    indexAddAt k false true α v (indexAddAt k true false α v (zerosLike v))

/-- `DHDPhiSparse(k, …, omega_k, phi_k) @ v`: `alpha = 0.5 * (omega_k * exp(1j * (phi_k + pi/2)))`, always the complex
kernel; `q` is the tape of the shifted angle -/
def dhdPhi (ω : κ) (q : Phase κ) {n : Nat} (k : Nat) (v : Vec β n) : Vec β n :=
  let α := CxLike.half * (ω * expi q)
  indexAddAt k false true (CxLike.conj α) v (indexAddAt k true false α v (zerosLike v))

end

/-- `result[:, :, 0] = 0.0` on the `(2**k, 2, -1)` view: keep only the entries whose qubit-`k` bit is 1 -/
def keep1 [OfNat β 0] : {n : Nat} → Nat → Vec β n → Vec β n
  | _, _, .leaf x => .leaf x
  | _, 0, .node a b => .node (a.map (fun _ => 0)) b
  | _, k + 1, .node a b => .node (keep1 k a) (keep1 k b)

/-- `DHDDeltaSparse(k, n) @ v = −(v with the qubit-k = 0 half zeroed)` -/
def dhdDelta [OfNat β 0] [Neg β] {n : Nat} (k : Nat) (v : Vec β n) : Vec β n := -(keep1 k v)

/-- `DHDUSparse(i, j, n) @ v`: zero where bit `i` is 0, then where bit `i` is 1 and bit `j` is 0 (`i < j`) -/
def dhdU [OfNat β 0] : {n : Nat} → Nat → Nat → Vec β n → Vec β n
  | _, _, _, .leaf x => .leaf x
  | _, 0, j, .node a b => .node (a.map (fun _ => 0)) (keep1 (j - 1) b)
  | _, i + 1, j, .node a b => .node (dhdU i (j - 1) a) (dhdU i (j - 1) b)

/-- `(−1j * dt * torch.tensordot(Vg.conj(), D @ e_l))`: the trace `Σ_b ⟨Vg_b | D e_l_b⟩` (before `.real`) -/
def gradEntry [Add κ] [Mul κ] [Neg κ] [OfNat κ 0] [CxLike κ] {n : Nat} (dt : κ) (D : Vec κ n → Vec κ n)
    (Vg el : List (Vec κ n)) : κ :=
  -(CxLike.I : κ) * dt * ((Vg.zip el).foldl (fun acc p => acc + Vec.vdot p.1 (D p.2)) 0)

end EmuVerif.SvGrad
