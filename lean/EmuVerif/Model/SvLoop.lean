/-
  Model of the emu-sv run loop (`emu_sv/sv_backend_impl.py`:
  `SVBackendImpl.{__init__ (the two statements that can raise on the grid), _run, step,
  _compute_dt, _evolve_step, _apply_observables (which index, which normalised time, which
  Hamiltonian at index 0)}` and `_TIME_CONVERSION_COEFF`), statement by statement.

  Polymorphic in
    * the scalar `α` (binary64 in the driver, ℝ in the theorems),
    * the drive row `ρ` (the triple `omega[k], delta[k], phi[k]`; the driver uses the row index),
    * the interaction matrix `μ` (`interaction_matrix(t)`; C23's callable is a parameter `umat`),
    * the state `σ` and the exponentiation kernel `expStep` (`stepper.apply`, i.e.
      `EvolveStateVector` / `EvolveDensityMatrix`: C06 + C07 are its contract).
  The loop *emits its schedule*: the list of events (observable passes and exponentiations) in
  program order.
-/
import EmuVerif.Model.Scalar

namespace EmuVerif.SvLoop

/-- Python exceptions the loop can raise on a malformed grid. -/
inductive Err where
  | index    -- IndexError: `target_times[k+1]` / `target_times[-1]` out of range
  | zerodiv  -- ZeroDivisionError: `t / target_times[-1]` with a final time of 0.0
  deriving DecidableEq, Repr

/-- The arguments `_evolve_step` hands to `stepper.apply` at step `idx`
(`krylov_tolerance` and the jump operators are run constants and not listed). -/
structure StepArgs (α ρ μ : Type) where
  idx : Nat
  dt : α        -- `dt * _TIME_CONVERSION_COEFF`
  row : ρ       -- `omega[idx], delta[idx], phi[idx]`
  u : μ         -- `interaction_matrix(target_times[idx])`

/-- What the loop does, in program order. -/
inductive Ev (α ρ μ : Type) where
  | obs (idx : Nat) (normT : α)      -- `_apply_observables(idx)` with `norm_time`
  | step (a : StepArgs α ρ μ)        -- `_evolve_step` → `stepper.apply`

section
variable {α ρ μ σ : Type} [Add α] [Sub α] [Mul α] [Div α] [LT α] [DecidableLT α] [OfNat α 0]

/-- `x == 0.0` without `BEq` (generators exclude NaN). -/
def isZero (x : α) : Bool := !decide (x < 0) && !decide (0 < x)

/-- `_compute_dt`: `target_times[k+1] - target_times[k]` (in ns). -/
def computeDt (times : List α) (k : Nat) : Except Err α :=
  match times[k + 1]?, times[k]? with
  | some t1, some t0 => .ok (t1 - t0)
  | _, _ => .error .index

/-- The argument list of `stepper.apply` in `_evolve_step(dt, k)`. `coeff` is
`_TIME_CONVERSION_COEFF`. (`k < nsteps` always holds in `_run`, so `omega[k]` cannot raise; a
missing row is reported as `index` all the same.) -/
def evolveArgs (coeff : α) (times : List α) (rows : List ρ) (umat : α → μ) (k : Nat) (dt : α) :
    Except Err (StepArgs α ρ μ) :=
  match rows[k]?, times[k]? with
  | some r, some t0 => .ok { idx := k, dt := dt * coeff, row := r, u := umat t0 }
  | _, _ => .error .index

/-- `norm_time = target_times[k] / target_times[-1]`; `tl` is `target_times[-1]`, already known
to be non-zero (`__init__` divides by it first). -/
def normTime (tl : α) (times : List α) (k : Nat) : Except Err α :=
  match times[k]? with
  | some t => .ok (t / tl)
  | none => .error .index

/-- `step(k)`: `_compute_dt`, `_evolve_step`, `_apply_observables(k+1)` (statistics follow and
do not touch the state). The event list is accumulated newest-first. -/
def step (coeff tl : α) (times : List α) (rows : List ρ) (umat : α → μ)
    (expStep : α → ρ → μ → σ → σ) (acc : σ × List (Ev α ρ μ)) (k : Nat) :
    Except Err (σ × List (Ev α ρ μ)) := do
  let dt ← computeDt times k
  let a ← evolveArgs coeff times rows umat k dt
  let s' := expStep a.dt a.row a.u acc.1
  let nt ← normTime tl times (k + 1)
  pure (s', Ev.obs (k + 1) nt :: Ev.step a :: acc.2)

/-- What `__init__` does with the grid before anything runs: `int(target_times[-1])`
(IndexError on an empty list) and `[t / target_times[-1] for t in target_times]`
(ZeroDivisionError when the final time is 0.0). Returns `target_times[-1]`. -/
def initLast (times : List α) : Except Err α :=
  match times.getLast? with
  | none => .error .index
  | some tl => if isZero tl then .error .zerodiv else .ok tl

/-- `_run`: observables at index 0, then `for step in range(nsteps): self.step(step)` with
`nsteps = omega.shape[0] = rows.length`. Returns the final state and the events in order. -/
def run (coeff : α) (times : List α) (rows : List ρ) (umat : α → μ)
    (expStep : α → ρ → μ → σ → σ) (s0 : σ) : Except Err (σ × List (Ev α ρ μ)) := do
  let tl ← initLast times
  let nt0 ← normTime tl times 0
  let r ← (List.range rows.length).foldlM (step coeff tl times rows umat expStep)
            (s0, [Ev.obs 0 nt0])
  pure (r.1, r.2.reverse)

/-- The Hamiltonian handed to observables that are due at index 0 (before any step has set
`_current_H`): built from **row 0** and `interaction_matrix(0.5 * (t[0] + t[1]))` — the
mid-point of the first step, not its start. Only evaluated when some callback is due.
`half` is the literal `0.5`. -/
def obs0Ham (half : α) (times : List α) (rows : List ρ) (umat : α → μ) : Except Err (ρ × μ) :=
  match rows[0]?, times[0]?, times[1]? with
  | some r, some t0, some t1 => .ok (r, umat (half * (t0 + t1)))
  | _, _, _ => .error .index

/-- `_InteractionMatrixCallable.__call__` reduced to the choice it makes
(`true` = masked matrix, `t < slm_end_time`); the matrices themselves are C23's. -/
def slmMasked (slmEnd t : α) : Bool := decide (t < slmEnd)

end

/-- The step events of an event list, in order. -/
def stepsOf {α ρ μ : Type} : List (Ev α ρ μ) → List (StepArgs α ρ μ)
  | [] => []
  | .step a :: es => a :: stepsOf es
  | .obs _ _ :: es => stepsOf es

/-- The indices at which observables were offered the state, in order. -/
def obsOf {α ρ μ : Type} : List (Ev α ρ μ) → List (Nat × α)
  | [] => []
  | .step _ :: es => obsOf es
  | .obs i t :: es => (i, t) :: obsOf es

end EmuVerif.SvLoop
