/-
  Model of the emu-sv observables (C13) on `TreeVec`:
  `emu_sv/custom_callback_implementations.py` — `qubit_occupation_sv_impl`,
  `qubit_occupation_sv_den_mat_impl`, `correlation_matrix_sv_impl`, `correlation_matrix_sv_den_mat_impl`,
  `energy_variance_sv_impl`, `energy_variance_sv_den_mat_impl`, `energy_second_moment_sv_impl`,
  `energy_second_moment_den_mat_impl`, and `RydbergHamiltonian.expect` / `RydbergLindbladian.expect`.

  `x.view(2**i, 2, -1)[:, 1]` is "the entries whose qubit-`i` bit is 1"; the code then takes
  `vector_norm(·)**2` (state vectors: `Σ|·|²`, the `sqrt`/square pair is exact in the model and compared with a
  tolerance) or `.sum()` of the matrix diagonal (density matrices).
-/
import EmuVerif.Model.SvOps
import EmuVerif.Model.SvState

namespace EmuVerif.SvObs
open EmuVerif EmuVerif.TreeVec EmuVerif.SvOps EmuVerif.SvState

section
variable {γ : Type} [Add γ]

/-- `w.view(2**k, 2, -1)[:, 1].sum()`: the sum of the entries whose qubit-`k` bit is 1 -/
def sumSel : {n : Nat} → Nat → Vec γ n → γ
  | _, _, .leaf x => x
  | _, 0, .node _ b => b.sum
  | _, k + 1, .node a b => sumSel k a + sumSel k b

/-- `w.view(2**i,2,-1)[:,1].view(2**i, 2**(j-i-1), 2, -1)[:,:,1,:].sum()` for `i < j`: qubits `i` and `j` both 1 -/
def sumSel2 : {n : Nat} → Nat → Nat → Vec γ n → γ
  | _, _, _, .leaf x => x
  | _, 0, j, .node _ b => sumSel (j - 1) b
  | _, i + 1, j, .node a b => sumSel2 i (j - 1) a + sumSel2 i (j - 1) b
end

section
variable {κ : Type} [Add κ] [Sub κ] [Mul κ] [Neg κ] [OfNat κ 0] [OfNat κ 1] [CxLike κ]

/-- `|z|²` inside `κ` -/
def absSq (z : κ) : κ := CxLike.conj z * z

/-- `qubit_occupation_sv_impl`: entry `k` -/
def occSv {n : Nat} (ψ : Vec κ n) (k : Nat) : κ := sumSel k (ψ.map absSq)

/-- `correlation_matrix_sv_impl`: entry `[i, j]` (symmetric; the diagonal is the occupation) -/
def corrSv {n : Nat} (ψ : Vec κ n) (i j : Nat) : κ :=
  if i = j then occSv ψ i else if i < j then sumSel2 i j (ψ.map absSq) else sumSel2 j i (ψ.map absSq)

/-- `qubit_occupation_sv_den_mat_impl`: entry `k` (before `.real`) -/
def occDm {n : Nat} (ρ : RMat κ n) (k : Nat) : κ := sumSel k (Vec.diagonal ρ)

/-- `correlation_matrix_sv_den_mat_impl`: entry `[i, j]` (before `.real`) -/
def corrDm {n : Nat} (ρ : RMat κ n) (i j : Nat) : κ :=
  if i = j then occDm ρ i else if i < j then sumSel2 i j (Vec.diagonal ρ) else sumSel2 j i (Vec.diagonal ρ)

/-- `RydbergHamiltonian.expect`: `vdot(ψ, H * ψ)` (before `.real`) -/
def energySv (Ω δ : Nat → κ) (ph : Nat → Phase κ) (U : Nat → Nat → κ) {n : Nat} (ψ : Vec κ n) : κ :=
  Vec.vdot ψ (hamMul Ω δ ph U ψ)

/-- `energy_second_moment_sv_impl`: `vdot(Hψ, Hψ)` (before `.real`) -/
def secondSv (Ω δ : Nat → κ) (ph : Nat → Phase κ) (U : Nat → Nat → κ) {n : Nat} (ψ : Vec κ n) : κ :=
  Vec.vdot (hamMul Ω δ ph U ψ) (hamMul Ω δ ph U ψ)

/-- `h_eff(ρ)` with the default `lindblad_ops = zeros(2, 2)`: `H ρ` -/
def hRho (batched : Bool) (Ω δ : Nat → κ) (ph : Nat → Phase κ) (U : Nat → Nat → κ) {n : Nat} (ρ : RMat κ n) : RMat κ n :=
  hEff batched (isComplex ph n) (halfOmega Ω) δ ph U M2.zero ρ

/-- `RydbergLindbladian.expect`: `h_eff(ρ).trace()` (before `.real`) -/
def energyDm (batched : Bool) (Ω δ : Nat → κ) (ph : Nat → Phase κ) (U : Nat → Nat → κ) {n : Nat} (ρ : RMat κ n) : κ :=
  rtrace (hRho batched Ω δ ph U ρ)

/-- `energy_second_moment_den_mat_impl`: `expect(DensityMatrix(h_eff(ρ)))` -/
def secondDm (batched : Bool) (Ω δ : Nat → κ) (ph : Nat → Phase κ) (U : Nat → Nat → κ) {n : Nat} (ρ : RMat κ n) : κ :=
  rtrace (hRho batched Ω δ ph U (hRho batched Ω δ ph U ρ))

end

/-! ### real-valued results (`.real`), concretely over `Cx α` -/
section
variable {α : Type} [Add α] [Sub α] [Mul α] [Neg α] [Div α] [OfNat α 0] [OfNat α 1] [OfNat α 2]

/-- what `qubit_occupation_sv_impl` returns: `Σ_{s : bit k set} |ψ_s|²` as a real -/
def occSvR {n : Nat} (ψ : Vec (Cx α) n) (k : Nat) : α := sumSel k (ψ.map Cx.normSq)

def corrSvR {n : Nat} (ψ : Vec (Cx α) n) (i j : Nat) : α :=
  if i = j then occSvR ψ i else if i < j then sumSel2 i j (ψ.map Cx.normSq) else sumSel2 j i (ψ.map Cx.normSq)

/-- `energy_variance_sv_impl`: `vdot(Hψ,Hψ).real − vdot(ψ,Hψ).real ** 2` -/
def varianceSv (Ω δ : Nat → Cx α) (ph : Nat → Phase (Cx α)) (U : Nat → Nat → Cx α) {n : Nat} (ψ : Vec (Cx α) n) : α :=
  (secondSv Ω δ ph U ψ).re - (energySv Ω δ ph U ψ).re * (energySv Ω δ ph U ψ).re

/-- `energy_variance_sv_den_mat_impl`: `tr(H·Hρ).real − tr(Hρ).real ** 2` -/
def varianceDm (batched : Bool) (Ω δ : Nat → Cx α) (ph : Nat → Phase (Cx α)) (U : Nat → Nat → Cx α) {n : Nat}
    (ρ : RMat (Cx α) n) : α :=
  (secondDm batched Ω δ ph U ρ).re - (energyDm batched Ω δ ph U ρ).re * (energyDm batched Ω δ ph U ρ).re

end
end EmuVerif.SvObs
