/-
  Model of the emu-sv operators (C06), statement by statement, on `TreeVec`:

  * `emu_sv/hamiltonian.py`  `RydbergHamiltonian.{__init__, _create_diagonal, __mul__,
    _apply_sigma_operators_real, _apply_sigma_operators_complex}`
  * `emu_base/math/matmul.py`  `matmul_2x2_with_batched`
  * `emu_sv/lindblad_operator.py`  `RydbergLindbladian.{_create_diagonal,
    apply_local_op_to_density_matrix, apply_density_matrix_to_local_op_T, h_eff,
    _local_terms_hamiltonian, _apply_interaction_terms, __matmul__}` and
    `emu_base.jump_lindblad_operators.compute_noise_from_lindbladians`
  * the *dense references* the theorems compare them with (`denseH`, `denseHeff`, `denseLind`):
    sums of `embed n k m = I⊗…⊗m⊗…⊗I` and products of those, i.e. the textbook Kronecker
    construction. They are executable too, so the harness also checks them against an
    independent numpy `kron` build.

  Scalars: any `κ` with ring notation and `CxLike` (`I`, `conj`, `half`). Parameters are functions
  `Nat → κ` of the qubit index (drivers wrap lists). `torch.cos/sin/exp(1j·)` are an oracle tape:
  `Phase.c`, `Phase.s` (contract validated by the harness: `exp(iφ) = cos φ + i sin φ`,
  `cos 0 = 1`, `sin 0 = 0`), `Phase.nz` is `φ ≠ 0`.
-/
import EmuVerif.Model.TreeVec

namespace EmuVerif.SvOps
open EmuVerif EmuVerif.TreeVec

/-- one phase of the drive as seen by the code: is it non-zero, `torch.cos(φ)`, `torch.sin(φ)` -/
structure Phase (κ : Type) where
  nz : Bool
  c : κ
  s : κ

instance {β : Type} [OfNat β 0] {n : Nat} : OfNat (Vec β n) 0 := ⟨Vec.replicate n 0⟩

section
variable {κ β : Type} [Add β] [SMul κ β]

/-! ### `matmul_2x2_with_batched` on the `(2**k, 2, -1)` view -/

def matmulBatchedAt [OfNat β 0] {n : Nat} (k : Nat) (m : M2 κ) (x : Vec β n) : Vec β n :=
  let r0 : Vec β n := x.map (fun _ => 0)           -- torch.zeros_like(right)
  let r1 := indexAddAt k false false m.a x r0
  let r2 := indexAddAt k false true m.b x r1
  let r3 := indexAddAt k true false m.c x r2
  indexAddAt k true true m.d x r3

/-- `local_op @ x` (CPU) or `matmul_2x2_with_batched(local_op, x)` (otherwise) -/
def applyLocal [OfNat β 0] (batched : Bool) {n : Nat} (k : Nat) (m : M2 κ) (x : Vec β n) : Vec β n :=
  if batched then matmulBatchedAt k m x else applyAt k m x

end

section
variable {κ : Type} [Add κ] [Sub κ] [Mul κ] [Neg κ] [OfNat κ 0] [OfNat κ 1] [CxLike κ]

/-- `self.omegas = omegas / 2.0` -/
def halfOmega (Ω : Nat → κ) : Nat → κ := fun k => Ω k * CxLike.half

/-- `self.complex = self.phis.any()` -/
def isComplex (ph : Nat → Phase κ) (n : Nat) : Bool := (List.range n).any (fun k => (ph k).nz)

/-- `torch.exp(1.0j * phi)` through the tape -/
def expi (p : Phase κ) : κ := p.c + CxLike.I * p.s

/-! ### `_create_diagonal` -/

/-- `i_j_fixed += U[i, j]` on the view `diag.view(2**i,2,-1)[:,1,:].view(2**i,2**(j-i-1),2,-1)[:,:,1,:]` -/
def diagStepJ (U : Nat → Nat → κ) (i j : Nat) {n : Nat} (d : Vec κ n) : Vec κ n :=
  mapAt1 (fun _ t => mapAt1 (fun _ s => s.map (· + U i j)) (j - i - 1) t) i d

/-- body of the outer loop; `withDet = false` is the Lindbladian's copy (no `i_fixed -= deltas[i]`) -/
def diagStepI (withDet : Bool) (δ : Nat → κ) (U : Nat → Nat → κ) {n : Nat} (d : Vec κ n) (i : Nat) : Vec κ n :=
  let d1 := if withDet then mapAt1 (fun _ t => t.map (· - δ i)) i d else d
  (List.range' (i + 1) (n - i - 1)).foldl (fun d j => diagStepJ U i j d) d1

def createDiagonal (withDet : Bool) (δ : Nat → κ) (U : Nat → Nat → κ) (n : Nat) : Vec κ n :=
  (List.range n).foldl (diagStepI withDet δ U) (Vec.replicate n 0)

variable {β : Type} [Add β] [SMul κ β]

/-! ### σ terms of `RydbergHamiltonian.__mul__` -/

/-- `result.index_add_(1, [1, 0], vec, alpha=omega_n)` on the `(2**k, 2, -1)` views -/
def sigmaRealStep (ω : Nat → κ) {n : Nat} (v : Vec β n) (r : Vec β n) (k : Nat) : Vec β n :=
  indexAddAt k false true (ω k) v (indexAddAt k true false (ω k) v r)

def sigmaReal (ω : Nat → κ) {n : Nat} (v r : Vec β n) : Vec β n :=
  (List.range n).foldl (sigmaRealStep ω v) r

/-- `c_omegas[k] = omegas[k] * exp(1j * phis[k])` -/
def cOmega (ω : Nat → κ) (ph : Nat → Phase κ) (k : Nat) : κ := ω k * expi (ph k)

/-- the two `index_add_` calls of `_apply_sigma_operators_complex` -/
def sigmaComplexStep (ω : Nat → κ) (ph : Nat → Phase κ) {n : Nat} (v : Vec β n) (r : Vec β n) (k : Nat) : Vec β n :=
  indexAddAt k false true (CxLike.conj (cOmega ω ph k)) v (indexAddAt k true false (cOmega ω ph k) v r)

def sigmaComplex (ω : Nat → κ) (ph : Nat → Phase κ) {n : Nat} (v r : Vec β n) : Vec β n :=
  (List.range n).foldl (sigmaComplexStep ω ph v) r

/-- `__mul__` with the value of `self.complex` made explicit -/
def hamMulWith (cplx : Bool) (Ω δ : Nat → κ) (ph : Nat → Phase κ) (U : Nat → Nat → κ) {n : Nat} (v : Vec β n) : Vec β n :=
  let ω := halfOmega Ω
  let result := (createDiagonal true δ U n).hmul v
  if cplx then sigmaComplex ω ph v result else sigmaReal ω v result

/-- `RydbergHamiltonian(omegas=Ω, deltas=δ, phis, interaction_matrix=U) * vec` -/
def hamMul (Ω δ : Nat → κ) (ph : Nat → Phase κ) (U : Nat → Nat → κ) {n : Nat} (v : Vec β n) : Vec β n :=
  hamMulWith (isComplex ph n) Ω δ ph U v

end

/-! ### dense references -/
section
variable {κ : Type} [Add κ] [Sub κ] [Mul κ] [Neg κ] [OfNat κ 0] [OfNat κ 1] [CxLike κ]

def matSum {n : Nat} (l : List (Mat κ n)) : Mat κ n := l.foldl (· + ·) (Mat.zero n)

/-- all `(i, j)` with `i < j < n` -/
def pairs (n : Nat) : List (Nat × Nat) :=
  (List.range n).flatMap (fun i => (List.range' (i + 1) (n - i - 1)).map (fun j => (i, j)))

/-- `Σ_{i<j} U_ij n_i n_j` as a dense matrix -/
def denseInteraction (U : Nat → Nat → κ) (n : Nat) : Mat κ n :=
  matSum ((pairs n).map (fun p => U p.1 p.2 • (Mat.embed n p.1 M2.nOp * Mat.embed n p.2 M2.nOp)))

/-- `_local_terms_hamiltonian`: `ω σˣ − δ n + S`, resp. `ω (cos φ σˣ + sin φ σʸ) − δ n + S` -/
def localTerms (cplx : Bool) (ω δ : Nat → κ) (ph : Nat → Phase κ) (S : M2 κ) (q : Nat) : M2 κ :=
  if !cplx then ω q • M2.sigmaX - δ q • M2.nOp + S
  else ω q • ((ph q).c • M2.sigmaX + (ph q).s • M2.sigmaY) - δ q • M2.nOp + S

/-- the single-qubit matrix that `__mul__` applies on qubit `k`, entry by entry as the
`index_add_` calls define it: `[[0, conj(cω)], [cω, −δ]]` (complex path), `[[0, ω], [ω, −δ]]` (real path) -/
def hLocal (cplx : Bool) (ω δ : Nat → κ) (ph : Nat → Phase κ) (k : Nat) : M2 κ :=
  if cplx then ⟨0, CxLike.conj (cOmega ω ph k), cOmega ω ph k, 0 - δ k⟩ else ⟨0, ω k, ω k, 0 - δ k⟩

/-- `Σ_k I⊗…⊗h_k⊗…⊗I + Σ_{i<j} U_ij n_i n_j` -/
def denseOf (h : Nat → M2 κ) (U : Nat → Nat → κ) (n : Nat) : Mat κ n :=
  matSum ((List.range n).map (fun k => Mat.embed n k (h k))) + denseInteraction U n

/-- the dense Hamiltonian in the docstring's form: `Σ_k (Ω_k/2)(cos φ_k σˣ + sin φ_k σʸ) − δ_k n + Σ U n n` -/
def denseH (Ω δ : Nat → κ) (ph : Nat → Phase κ) (U : Nat → Nat → κ) (n : Nat) : Mat κ n :=
  denseOf (localTerms (isComplex ph n) (halfOmega Ω) δ ph M2.zero) U n

/-! ### `RydbergLindbladian` -/

/-- `compute_noise_from_lindbladians`: `-0.5j * sum(L.mH @ L, start=zero)` -/
def noiseTerm (Ls : List (M2 κ)) : M2 κ :=
  (-(CxLike.half * CxLike.I) : κ) • Ls.foldl (fun acc L => acc + L.dagger * L) M2.zero

/-- `X.conj().T` on a row-major matrix -/
def conjT {n : Nat} (X : RMat κ n) : RMat κ n := (X.map (Vec.map CxLike.conj)).transpose

/-- `apply_local_op_to_density_matrix`: `L ρ` with `L` on qubit `k` (row bit `k`) -/
def localLeft (batched : Bool) {n : Nat} (k : Nat) (m : M2 κ) (ρ : RMat κ n) : RMat κ n :=
  applyLocal batched k m ρ

/-- `apply_density_matrix_to_local_op_T`: `ρ L†`: `conj(L)` on the `(2**(k+n), 2, -1)` view, i.e. on
column bit `k` of every row -/
def localRightDag (batched : Bool) {n : Nat} (k : Nat) (m : M2 κ) (ρ : RMat κ n) : RMat κ n :=
  ρ.map (applyLocal batched k m.conj)

/-- `h_eff(ρ, S)` -/
def hEff (batched cplx : Bool) (ω δ : Nat → κ) (ph : Nat → Phase κ) (U : Nat → Nat → κ) (S : M2 κ)
    {n : Nat} (ρ : RMat κ n) : RMat κ n :=
  let acc := (List.range n).foldl
    (fun acc q => acc + localLeft batched q (localTerms cplx ω δ ph S q) ρ) (0 : RMat κ n)
  acc + (createDiagonal false δ U n).hmul ρ

/-- `Σ_qubit Σ_L (L ρ) L†` in the code's iteration order -/
def jumpSum (batched : Bool) (Ls : List (M2 κ)) {n : Nat} (ρ : RMat κ n) : RMat κ n :=
  (List.range n).foldl
    (fun acc q => Ls.foldl (fun acc L => acc + localRightDag batched q L (localLeft batched q L ρ)) acc)
    (0 : RMat κ n)

/-- `RydbergLindbladian(...) @ ρ` -/
def lindMatmul (batched : Bool) (Ω δ : Nat → κ) (ph : Nat → Phase κ) (U : Nat → Nat → κ) (Ls : List (M2 κ))
    {n : Nat} (ρ : RMat κ n) : RMat κ n :=
  let X := hEff batched (isComplex ph n) (halfOmega Ω) δ ph U (noiseTerm Ls) ρ
  (X - conjT X) + (CxLike.I : κ) • jumpSum batched Ls ρ

/-- `H + Σ_q I⊗…⊗(−(i/2) Σ_L L†L)⊗…⊗I` -/
def denseHeff (Ω δ : Nat → κ) (ph : Nat → Phase κ) (U : Nat → Nat → κ) (Ls : List (M2 κ)) (n : Nat) : Mat κ n :=
  denseOf (localTerms (isComplex ph n) (halfOmega Ω) δ ph (noiseTerm Ls)) U n

/-- `Σ_q Σ_L L_q R L_q†` -/
def denseJump (Ls : List (M2 κ)) {n : Nat} (R : Mat κ n) : Mat κ n :=
  matSum ((List.range n).flatMap (fun q => Ls.map (fun L => Mat.embed n q L * R * (Mat.embed n q L).dagger)))

/-- the dense generator in the code's convention (`i·ℒ`): `Heff R − R Heff† + i Σ L R L†` -/
def denseLind (Ω δ : Nat → κ) (ph : Nat → Phase κ) (U : Nat → Nat → κ) (Ls : List (M2 κ)) {n : Nat}
    (R : Mat κ n) : Mat κ n :=
  let He := denseHeff Ω δ ph U Ls n
  (He * R - R * He.dagger) + (CxLike.I : κ) • denseJump Ls R

/-- what the code computes for *every* input (Hermitian or not): `Heff R − R† Heff† + i Σ L R L†` -/
def denseLindCode (Ω δ : Nat → κ) (ph : Nat → Phase κ) (U : Nat → Nat → κ) (Ls : List (M2 κ)) {n : Nat}
    (R : Mat κ n) : Mat κ n :=
  let He := denseHeff Ω δ ph U Ls n
  (He * R - R.dagger * He.dagger) + (CxLike.I : κ) • denseJump Ls R

end
end EmuVerif.SvOps
