/-
  Model of the emu-sv state / operator objects (C12) on `TreeVec`:

  * `emu_sv/state_vector.py`    `StateVector.{_from_state_amplitudes, _normalize, inner, overlap, __add__,
                                 __rmul__, norm}`
  * `emu_sv/density_matrix_state.py`  `DensityMatrix.{from_state_vector, _from_state_amplitudes, overlap}`
  * `emu_sv/dense_operator.py`  `DenseOperator.{__matmul__, __add__, __rmul__, apply_to, expect,
                                 _from_operator_repr}`
  * `emu_sv/sparse_operator.py` `sparse_add`, `sparse_kron`, `SparseOperator._from_operator_repr`

  Tensors are `Vec κ n` (state vectors) and row-major `RMat κ n` (matrices). Where Python raises
  the model returns `none`. `torch.linalg.vector_norm` (a `sqrt`) and `torch.abs` are oracle
  tapes (arguments `nrm`, contract `nrm ≥ 0 ∧ nrm² = Σ|aᵢ|²` validated by the harness).
-/
import EmuVerif.Model.Scalar
import EmuVerif.Model.TreeVec

namespace EmuVerif.SvState
open EmuVerif EmuVerif.TreeVec

/-! ### bitstrings -/

/-- one character of `state.replace("r", "1").replace("g", "0")` read in base 2; `none` = `ValueError` -/
def charBit (c : Char) : Option Bool :=
  if c = 'r' || c = '1' then some true else if c = 'g' || c = '0' then some false else none

/-- Horner evaluation of a bit list, first bit most significant (`int(bits, 2)`) -/
def bitsToNat (bs : List Bool) : Nat := bs.foldl (fun acc b => 2 * acc + b.toNat) 0

/-- `int(state.replace(one, "1").replace("g", "0"), 2)`; `none` = `ValueError` (bad character or empty) -/
def binToInt (s : String) : Option Nat :=
  if s.isEmpty then none else (s.toList.mapM charBit).map bitsToNat

/-- what `_from_state_amplitudes` does with `eigenstates` -/
inductive Basis | rg | xy | bad
  deriving DecidableEq, Repr

def basisOf (eig : List String) : Basis :=
  let has := fun s => eig.contains s
  let only := fun (a b : String) => eig.all (fun s => s = a || s = b) && has a && has b
  if only "r" "g" then .rg else if only "0" "1" then .xy else .bad

section
variable {κ : Type} [Add κ] [Mul κ] [OfNat κ 0]

/-- the loop `accum_state.data[int(bits,2)] = amplitude` over the dict items (before `_normalize`);
`none` = `ValueError` / `IndexError` -/
def rawAmplitudes (n : Nat) (amps : List (String × κ)) : Option (Vec κ n) :=
  amps.foldlM (fun v (sa : String × κ) => do
    let idx ← binToInt sa.1
    Vec.setIdx? v idx sa.2) (Vec.replicate n 0)

/-! ### dense operator algebra (row-major) -/

/-- `self.data @ other.data` (matrix · vector): entry `r` is row `r` dotted with `v` -/
def applyTo {n : Nat} (M : RMat κ n) (v : Vec κ n) : Vec κ n := M.map (fun row => Vec.dotG row v)

/-- `self.data @ other.data` (matrix · matrix): row `r` of the product is `Σ_c A[r,c] · B[c,:]` -/
def rmatMul {n : Nat} (A B : RMat κ n) : RMat κ n := A.map (fun row => Vec.dotG row B)

variable [CxLike κ]

/-- `torch.vdot(state.data, (self.data @ state.data))` -/
def expect {n : Nat} (M : RMat κ n) (v : Vec κ n) : κ := Vec.vdot v (applyTo M v)

/-- `torch.outer(state.data, state.data.conj())` -/
def fromStateVector {n : Nat} (ψ : Vec κ n) : RMat κ n := Vec.outer ψ (ψ.map CxLike.conj)

/-- `torch.vdot(self.data.flatten(), other.data.flatten())` -/
def dmOverlap {n : Nat} (A B : RMat κ n) : κ := (Vec.zipWith Vec.vdot A B).sum

/-- `torch.trace` -/
def rtrace {n : Nat} (A : RMat κ n) : κ := (Vec.diagonal A).sum

end

/-! ### norms (concretely over `Cx α`) -/
section
variable {α : Type} [Add α] [Sub α] [Mul α] [Div α] [Neg α] [LT α] [DecidableLT α] [OfNat α 0] [OfNat α 1] [OfNat α 2]

/-- `Σ |aᵢ|²` -/
def normSqV {n : Nat} (v : Vec (Cx α) n) : α := (v.map Cx.normSq).sum

/-- `_normalize` with `nrm = torch.linalg.vector_norm(self.data)` supplied:
`if abs(norm**4 - 1.0) > 1e-12: data = data / norm` -/
def normalize (tol nrm : α) {n : Nat} (v : Vec (Cx α) n) : Vec (Cx α) n :=
  if tol < absv (nrm * nrm * nrm * nrm - 1) then v.map (fun z => z.divReal nrm) else v

/-- `StateVector._from_state_amplitudes(eigenstates, n_qudits, amplitudes)`; `nrmOf` is the norm tape -/
def fromAmplitudes (tol : α) (nrmOf : Vec (Cx α) n → α) (eig : List String) (amps : List (String × Cx α)) :
    Option (Vec (Cx α) n) :=
  match basisOf eig with
  | .rg => (rawAmplitudes n amps).map (fun v => normalize tol (nrmOf v) v)
  | _ => none

/-- `overlap = torch.abs(inner) ** 2`, with the exact square of the modulus -/
def overlap {n : Nat} (a b : Vec (Cx α) n) : α := Cx.normSq (Vec.vdot a b)

end

/-! ### `_from_operator_repr` -/
section
variable {κ : Type} [Add κ] [Mul κ] [OfNat κ 0] [OfNat κ 1]

/-- a value of `operators_with_tensors`: already a tensor, or a `QuditOp` (`{opstr: coeff}`) -/
inductive Sym (κ : Type)
  | tensor (m : M2 κ)
  | expr (terms : List (String × κ))

/-- the four entries the code puts in the table: `"gg"`, `"rg"`, `"gr"`, `"rr"` (`|row⟩⟨col|`) -/
def basisTable : List (String × Sym κ) :=
  [("gg", .tensor (M2.ketbra false false)), ("rg", .tensor (M2.ketbra true false)),
   ("gr", .tensor (M2.ketbra false true)), ("rr", .tensor (M2.ketbra true true))]

/-- `build_torch_operator_from_string` (the memoisation `operators_with_tensors[opstr] = tensor`
replaces a symbol by its own value and is not modelled); `none` = `KeyError` / recursion limit -/
def build (table : List (String × Sym κ)) : Nat → Sym κ → Option (M2 κ)
  | _, .tensor m => some m
  | 0, .expr _ => none
  | fuel + 1, .expr terms =>
    terms.foldlM (fun (acc : M2 κ) (sc : String × κ) => do
      let sym ← table.lookup sc.1
      let t ← build table fuel sym
      some (acc + sc.2 • t)) M2.zero

/-- Python list index: negative counts from the end; `none` = `IndexError` -/
def normTarget (n : Nat) (t : Int) : Option Nat :=
  if 0 ≤ t then (if t.toNat < n then some t.toNat else none)
  else (if (-t).toNat ≤ n then some (n - (-t).toNat) else none)

def setGate (g : Nat → M2 κ) (q : Nat) (f : M2 κ) : Nat → M2 κ := fun k => if k = q then f else g k

/-- `single_qubit_gates` after the loop over `(operator, target_qubits)` pairs -/
def gatesOf (table : List (String × Sym κ)) (fuel n : Nat) (factors : List (Sym κ × List Int)) :
    Option (Nat → M2 κ) :=
  factors.foldlM (fun g (ft : Sym κ × List Int) => do
    let f ← build table fuel ft.1
    ft.2.foldlM (fun g t => (normTarget n t).map (fun q => setGate g q f)) g) (fun _ => M2.one)

/-- `reduce(torch.kron, gates)`: `((g₀ ⊗ g₁) ⊗ g₂) ⊗ …` -/
def kronFold (g : Nat → M2 κ) : (n : Nat) → Mat κ n
  | 0 => .leaf 1
  | n + 1 => Mat.kronR (kronFold g n) (g n)

/-- `DenseOperator._from_operator_repr`: `Σ_terms coeff · ⊗_q gate_q`; `none` where Python raises
(`reduce` of an empty list when `n_qudits = 0`, bad symbol, bad target) -/
def fromOperatorRepr (table : List (String × Sym κ)) (fuel n : Nat)
    (ops : List (κ × List (Sym κ × List Int))) : Option (Mat κ n) :=
  ops.foldlM (fun acc (term : κ × List (Sym κ × List Int)) => do
    let g ← gatesOf table fuel n term.2
    if n = 0 then none else some (acc + term.1 • kronFold g n)) (Mat.zero n)

/-! ### sparse COO tensors as bags of `(row, col, value)` -/

abbrev Coo (κ : Type) := List (Nat × Nat × κ)

def keyLt (a b : Nat × Nat × κ) : Bool := a.1 < b.1 || (a.1 = b.1 && a.2.1 < b.2.1)
def keyEq (a b : Nat × Nat × κ) : Bool := a.1 = b.1 && a.2.1 = b.2.1

/-- insert into a list sorted by `(row, col)`, adding to an existing entry with the same index -/
def insertC (e : Nat × Nat × κ) : Coo κ → Coo κ
  | [] => [e]
  | h :: t =>
    if keyLt e h then e :: h :: t
    else if keyEq e h then (h.1, h.2.1, h.2.2 + e.2.2) :: t
    else h :: insertC e t

/-- `.coalesce()`: sort by index, sum duplicates (explicit zeros are kept, as torch does) -/
def coalesce (l : Coo κ) : Coo κ := l.foldl (fun acc e => insertC e acc) []

/-- `sparse_add` -/
def sparseAdd (a b : Coo κ) : Coo κ := coalesce (a ++ b)

/-- `sparse_kron(a, b)` for `b` of shape `(sbr, sbc)` -/
def sparseKron (sbr sbc : Nat) (a b : Coo κ) : Coo κ :=
  (coalesce a).flatMap (fun ea => (coalesce b).map (fun eb =>
    (sbr * ea.1 + eb.1, sbc * ea.2.1 + eb.2.1, ea.2.2 * eb.2.2)))

/-- dense meaning of a bag: entry `(r, c)` is the sum of the values stored at `(r, c)` -/
def den (l : Coo κ) (r c : Nat) : κ :=
  l.foldl (fun acc e => if e.1 = r && e.2.1 = c then acc + e.2.2 else acc) 0

/-- `tensor.to_sparse_coo()` of a 2×2 tensor: the non-zero entries, row-major -/
def m2ToCoo [DecidableEq κ] (m : M2 κ) : Coo κ :=
  [(0, 0, m.a), (0, 1, m.b), (1, 0, m.c), (1, 1, m.d)].filter (fun e => e.2.2 ≠ 0)

def scaleCoo (c : κ) (l : Coo κ) : Coo κ := l.map (fun e => (e.1, e.2.1, c * e.2.2))

/-- sparse `build_torch_operator_from_string` (`result += tensor * coeff` on sparse tensors) -/
def buildS [DecidableEq κ] (table : List (String × Sym κ)) : Nat → Sym κ → Option (Coo κ)
  | _, .tensor m => some (m2ToCoo m)
  | 0, .expr _ => none
  | fuel + 1, .expr terms =>
    terms.foldlM (fun (acc : Coo κ) (sc : String × κ) => do
      let sym ← table.lookup sc.1
      let t ← buildS table fuel sym
      some (sparseAdd acc (scaleCoo sc.2 t))) []

def setGateS (g : Nat → Coo κ) (q : Nat) (f : Coo κ) : Nat → Coo κ := fun k => if k = q then f else g k

def gatesOfS [DecidableEq κ] (table : List (String × Sym κ)) (fuel n : Nat) (factors : List (Sym κ × List Int)) :
    Option (Nat → Coo κ) :=
  factors.foldlM (fun g (ft : Sym κ × List Int) => do
    let f ← buildS table fuel ft.1
    ft.2.foldlM (fun g t => (normTarget n t).map (fun q => setGateS g q f)) g) (fun _ => m2ToCoo M2.one)

/-- `reduce(sparse_kron, gates)` for `n ≥ 1` -/
def kronFoldS (g : Nat → Coo κ) : Nat → Coo κ
  | 0 => []
  | 1 => g 0
  | n + 2 => sparseKron 2 2 (kronFoldS g (n + 1)) (g (n + 1))

/-- `SparseOperator._from_operator_repr` (before `.to_sparse_csr()`) -/
def fromOperatorReprS [DecidableEq κ] (table : List (String × Sym κ)) (fuel n : Nat)
    (ops : List (κ × List (Sym κ × List Int))) : Option (Coo κ) :=
  ops.foldlM (fun acc (term : κ × List (Sym κ × List Int)) => do
    let g ← gatesOfS table fuel n term.2
    if n = 0 then none else some (sparseAdd acc (scaleCoo term.1 (kronFoldS g n)))) []

end
end EmuVerif.SvState
