/-
  Symmetry transformations used by C29 (and reusable by C30): the diagonal unitary
  `V = ⊗_q diag(1, u)` acting matrix-free on a tree vector, entry-wise conjugation, the ground state `|g…g⟩`,
  polynomial "propagators" `Σ_m c_m Aᵐ v` (Horner form) and multi-step evolutions. Mathlib-free, executable.
-/
import EmuVerif.Model.SvObs

namespace EmuVerif.SvSym
open EmuVerif EmuVerif.TreeVec EmuVerif.SvOps

variable {κ β : Type}

/-- `(⊗_q diag(1, u)) x`: every entry is multiplied by `u^(number of excited qubits)` -/
def phase [SMul κ β] (u : κ) : {n : Nat} → Vec β n → Vec β n
  | _, .leaf x => .leaf x
  | _, .node a b => .node (phase u a) (u • phase u b)

/-- `|g…g⟩` -/
def ground [OfNat κ 0] [OfNat κ 1] : (n : Nat) → Vec κ n
  | 0 => .leaf 1
  | n + 1 => .node (ground n) (Vec.replicate n 0)

/-- `Σ_m c_m Aᵐ v` in Horner form (`[]` is the zero polynomial) -/
def polyApply [Add β] [SMul κ β] [OfNat κ 0] {n : Nat} (A : Vec β n → Vec β n) : List κ → Vec β n → Vec β n
  | [], v => (0 : κ) • v
  | c :: cs, v => c • v + A (polyApply A cs v)

/-- a sequence of steps applied in order (first element first) -/
def evolve {n : Nat} (steps : List (Vec β n → Vec β n)) (v : Vec β n) : Vec β n :=
  steps.foldl (fun w f => f w) v

/-- phases shifted by `θ`: `(cos, sin) ↦ (c cθ − s sθ, s cθ + c sθ)`; every phase becomes "non-zero" -/
def shiftPhase [Add κ] [Sub κ] [Mul κ] (cθ sθ : κ) (p : Phase κ) : Phase κ :=
  ⟨true, p.c * cθ - p.s * sθ, p.s * cθ + p.c * sθ⟩

/-- phases negated: `(cos, sin) ↦ (c, −s)` -/
def negPhase [Neg κ] (p : Phase κ) : Phase κ := ⟨p.nz, p.c, -p.s⟩

end EmuVerif.SvSym
