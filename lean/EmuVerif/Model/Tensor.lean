/-
  Model of the exact (factorisation-free) MPS/MPO algebra of emu-mps:

    emu_mps/algebra.py   add_factors, scale_factors, zip_right_step, zip_right (before `truncate_impl`)
    emu_mps/utils.py     new_left_bath
    emu_mps/mps.py       MPS.inner, MPS.orthogonalize, MPS.apply, MPS._from_state_amplitudes
    emu_mps/mpo.py       MPO.expect, MPO.apply_to / __matmul__ (through zip_right), MPO._from_operator_repr

  A *site tensor* is a function `level → left bond → right bond → scalar` together with its three
  dimensions (torch shape `(dl, d, dr)`, i.e. `t x l r = factor[l, x, r]`).  An MPO factor of torch
  shape `(dl, d_out, d_in, dr)` is the same thing with `d_out·d_in` levels, level `o·d_in + i`
  (row-major, what `.view`/`.reshape` does), so `add_factors` / `scale_factors` — which in the Python
  only look at the first and last axis — are modelled once.

  Semantics: `amp fs s` = the row-vector fold  `[1] · A₀[s₀] · A₁[s₁] ⋯`  read at index 0.

  Numerical kernels are oracle parameters: `torch.linalg.qr` appears as a recorded answer `(q, r)`
  (structures `QR3`, `QRl`, `QRr`); the theorems in `Props/C11.lean` assume only `q · r = m`.
  `truncate_impl` (eigh) is *not* modelled here (C10); everything below is "before truncation".

  Executable reading: scalars `Cx Int` (exact, Gaussian integers) or `Cx Float`.  Intermediate tensors
  are materialised in arrays through `Arr` (a function together with a cache of its first values);
  semantically `Arr.get (Arr.ofFn n f) = f`, so the cache is invisible to the theorems.
-/
import EmuVerif.Model.Scalar

namespace EmuVerif.Tensor

/-! ### Scalars -/

/-- Complex conjugation as a notation class (identity on real scalars). -/
class Conj (α : Type) where
  conj : α → α
export Conj (conj)

/-- Complex numbers as pairs (torch `complex128` with `β = Float`). -/
structure Cx (β : Type) where
  re : β
  im : β
  deriving Repr, DecidableEq

section cx
variable {β : Type}
instance [Add β] : Add (Cx β) := ⟨fun a b => ⟨a.re + b.re, a.im + b.im⟩⟩
instance [Add β] [Sub β] [Mul β] : Mul (Cx β) :=
  ⟨fun a b => ⟨a.re * b.re - a.im * b.im, a.re * b.im + a.im * b.re⟩⟩
instance [Neg β] : Conj (Cx β) := ⟨fun a => ⟨a.re, -a.im⟩⟩
instance [OfNat β 0] : OfNat (Cx β) 0 := ⟨⟨0, 0⟩⟩
instance [OfNat β 0] [OfNat β 1] : OfNat (Cx β) 1 := ⟨⟨1, 0⟩⟩
end cx

instance : Conj Int := ⟨id⟩
instance : Conj Rat := ⟨id⟩
instance : Conj Float := ⟨id⟩

/-! ### Cached functions -/

/-- A function `f : ℕ → β` with its first `a.size` values cached.  Invariant-free on purpose:
`get` falls back on `f`, and `ofFn` caches exactly `f`, so `get (ofFn n f) = f`. -/
structure Arr (β : Type) where
  a : Array β
  f : Nat → β

namespace Arr
variable {β : Type}
def get (m : Arr β) (i : Nat) : β := if h : i < m.a.size then m.a[i] else m.f i
def ofFn (n : Nat) (f : Nat → β) : Arr β := ⟨Array.ofFn (n := n) (fun i => f i.val), f⟩
end Arr

section memo
variable {β : Type}
def memo2 (n m : Nat) (f : Nat → Nat → β) : Arr (Arr β) := Arr.ofFn n (fun i => Arr.ofFn m (f i))
def get2 (t : Arr (Arr β)) (i j : Nat) : β := (t.get i).get j
def memo3 (n m p : Nat) (f : Nat → Nat → Nat → β) : Arr (Arr (Arr β)) :=
  Arr.ofFn n (fun i => memo2 m p (f i))
def get3 (t : Arr (Arr (Arr β))) (i j k : Nat) : β := get2 (t.get i) j k
def memo4 (n m p q : Nat) (f : Nat → Nat → Nat → Nat → β) : Arr (Arr (Arr (Arr β))) :=
  Arr.ofFn n (fun i => memo3 m p q (f i))
def get4 (t : Arr (Arr (Arr (Arr β)))) (i j k l : Nat) : β := get3 (t.get i) j k l
end memo

variable {α : Type} [Add α] [Mul α] [OfNat α 0] [OfNat α 1] [Conj α]

/-- `Σ_{i<n} f i`, summed in increasing `i`. -/
def sumTo (n : Nat) (f : Nat → α) : α :=
  match n with
  | 0 => 0
  | n + 1 => sumTo n f + f n

/-- `Σ` over all strings of length `n` over levels `0..d-1` (the dense reference sum). -/
def sumStrings (d : Nat) : Nat → (List Nat → α) → α
  | 0, f => f []
  | n + 1, f => sumTo d (fun x => sumStrings d n (fun s => f (x :: s)))

/-! ### Site tensors and amplitudes -/

/-- One factor of a matrix product: torch shape `(dl, d, dr)`, `t x l r = factor[l, x, r]`. -/
structure Site (α : Type) where
  dl : Nat
  d : Nat
  dr : Nat
  t : Nat → Nat → Nat → α

/-- Build a site and materialise its entries. -/
def Site.make (dl d dr : Nat) (f : Nat → Nat → Nat → α) : Site α :=
  let arr := memo3 d dl dr f
  { dl := dl, d := d, dr := dr, t := fun x l r => get3 arr x l r }

/-- consecutive bond dimensions match (asserted by the `MPS`/`MPO` constructors) -/
def chainOk : List (Site α) → Bool
  | A :: B :: fs => A.dr == B.dl && chainOk (B :: fs)
  | _ => true

/-- what the `MPS`/`MPO` constructors assert: ≥ 2 sites, outer bonds 1, matching bonds, one `d`. -/
def validChain (d : Nat) (fs : List (Site α)) : Bool :=
  decide (1 < fs.length) && chainOk fs && (fs.head?.map (·.dl) == some 1)
    && (fs.getLast?.map (·.dr) == some 1) && fs.all (·.d == d)

/-- `v · A[x]` for a row vector `v`. -/
def rowStep (v : Arr α) (A : Site α) (x : Nat) : Arr α :=
  Arr.ofFn A.dr (fun r => sumTo A.dl (fun l => v.get l * A.t x l r))

/-- row-vector fold along the chain; a string of the wrong length has amplitude 0 -/
def ampVec : List (Site α) → List Nat → Arr α → Arr α
  | [], [], v => v
  | A :: fs, x :: s, v => ampVec fs s (rowStep v A x)
  | _, _, _ => Arr.ofFn 0 (fun _ => 0)

def ones1 : Arr α := Arr.ofFn 1 (fun _ => 1)

/-- amplitude of the level string `s` -/
def amp (fs : List (Site α)) (s : List Nat) : α := (ampVec fs s ones1).get 0

/-- level of an MPO factor for physical indices `(out, in)` -/
def opLevel (d o i : Nat) : Nat := o * d + i

/-- the level string of an operator for `(out string, in string)` -/
def opString (d : Nat) (o i : List Nat) : List Nat := List.zipWith (opLevel d) o i

/-- matrix element `⟨o| O |i⟩` of an MPO -/
def opAmp (d : Nat) (ws : List (Site α)) (o i : List Nat) : α := amp ws (opString d o i)

/-! ### `add_factors` -/

/-- `torch.cat((core1, core2), dim=-1)` -/
def catRight (A B : Site α) : Site α :=
  Site.make A.dl A.d (A.dr + B.dr) (fun x l r => if r < A.dr then A.t x l r else B.t x l (r - A.dr))

/-- `torch.cat((core1, core2), dim=0)` -/
def catLeft (A B : Site α) : Site α :=
  Site.make (A.dl + B.dl) A.d A.dr (fun x l r => if l < A.dl then A.t x l r else B.t x (l - A.dl) r)

/-- the zero-padded block-diagonal core of the middle sites -/
def blockDiag (A B : Site α) : Site α :=
  Site.make (A.dl + B.dl) A.d (A.dr + B.dr) (fun x l r =>
    if l < A.dl then (if r < A.dr then A.t x l r else 0)
    else (if r < A.dr then 0 else B.t x (l - A.dl) (r - A.dr)))

/-- body of the `for i, (core1, core2)` loop; `none` = `torch.cat` raises on mismatching sizes -/
def addSite (n i : Nat) (A B : Site α) : Option (Site α) :=
  if i = 0 then (if A.dl = B.dl ∧ A.d = B.d then some (catRight A B) else none)
  else if i = n - 1 then (if A.dr = B.dr ∧ A.d = B.d then some (catLeft A B) else none)
  else if A.d = B.d then some (blockDiag A B) else none

def addAux (n : Nat) : Nat → List (Site α) → List (Site α) → Option (List (Site α))
  | _, [], [] => some []
  | i, A :: L, B :: R =>
    match addSite n i A B, addAux n (i + 1) L R with
    | some c, some rest => some (c :: rest)
    | _, _ => none
  | _, _, _ => none

/-- `add_factors(left, right)`; `none` = `ValueError` / torch size error -/
def addFactors (L R : List (Site α)) : Option (List (Site α)) :=
  if L.length ≠ R.length then none else addAux L.length 0 L R

/-! ### `scale_factors` -/

def scaleSite (c : α) (A : Site α) : Site α :=
  Site.make A.dl A.d A.dr (fun x l r => c * A.t x l r)

def scaleAux (c : α) (which : Nat) : Nat → List (Site α) → List (Site α)
  | _, [] => []
  | i, A :: fs => (if i = which then scaleSite c A else A) :: scaleAux c which (i + 1) fs

/-- `scale_factors(factors, scalar, which=which)` (an out-of-range `which` scales nothing) -/
def scaleFactors (c : α) (which : Nat) (fs : List (Site α)) : List (Site α) := scaleAux c which 0 fs

/-- `MPS.__rmul__` / `__imul__`: the scalar is absorbed into the factor at the *recorded* orthogonality
centre (`which = self.orthogonality_center if … is not None else 0`) and the result inherits that centre —
so that `norm()` (the Frobenius norm of the centre factor) and the centre walks see the scaled factor. -/
def rmulFactors (c : α) (center : Option Nat) (fs : List (Site α)) : List (Site α) × Option Nat :=
  (scaleFactors c (center.getD 0) fs, center)

/-- squared Frobenius norm of one factor -/
def factorNormSq (A : Site α) : α :=
  sumTo A.d (fun x => sumTo A.dl (fun l => sumTo A.dr (fun r => conj (A.t x l r) * A.t x l r)))

/-- `norm()**2` for a state with recorded centre `k`: `factors[k].norm()**2` (`0` if there is no such factor) -/
def normSqAtCenter (fs : List (Site α)) (k : Nat) : α :=
  match fs[k]? with
  | some A => factorNormSq A
  | none => 0

/-! ### `MPS.inner` -/

/-- one iteration of the loop in `MPS.inner`: `acc ← A†·(acc·B)` -/
def innerStep (acc : Arr (Arr α)) (A B : Site α) : Arr (Arr α) :=
  let acc1 := memo3 B.d A.dl B.dr (fun x a r' => sumTo B.dl (fun b => get2 acc a b * B.t x b r'))
  memo2 A.dr B.dr (fun r r' => sumTo A.dl (fun a => sumTo A.d (fun x => conj (A.t x a r) * get3 acc1 x a r')))

def innerAcc : List (Site α) → List (Site α) → Arr (Arr α) → Arr (Arr α)
  | A :: As, B :: Bs, acc => innerAcc As Bs (innerStep acc A B)
  | _, _, acc => acc

def ones2 : Arr (Arr α) := memo2 1 1 (fun _ _ => 1)

/-- `self.inner(other)`; `none` = the `assert` on equal site counts fails -/
def inner (As Bs : List (Site α)) : Option α :=
  if As.length ≠ Bs.length then none else some (get2 (innerAcc As Bs ones2) 0 0)

/-! ### `new_left_bath` and `MPO.expect` -/

/-- `new_left_bath(bath, state, op)`; `bath[a,b,c]`: bra bond, operator bond, ket bond.
`W` is an MPO factor with levels `out·d + in`, `d = A.d`. -/
def bathStep (bath : Arr (Arr (Arr α))) (A W : Site α) : Arr (Arr (Arr α)) :=
  let d := A.d
  let b1 := memo4 W.dl A.dl d A.dr (fun b c x r => sumTo A.dl (fun a => get3 bath a b c * conj (A.t x a r)))
  let b2 := memo4 A.dl A.dr d W.dr (fun c r y br =>
    sumTo W.dl (fun b => sumTo d (fun x => get4 b1 b c x r * W.t (opLevel d x y) b br)))
  memo3 A.dr W.dr A.dr (fun r br r' => sumTo A.dl (fun c => sumTo d (fun y => get4 b2 c r y br * A.t y c r')))

def expectAcc : List (Site α) → List (Site α) → Arr (Arr (Arr α)) → Arr (Arr (Arr α))
  | A :: As, W :: Ws, acc => expectAcc As Ws (bathStep acc A W)
  | _, _, acc => acc

def ones3 : Arr (Arr (Arr α)) := memo3 1 1 1 (fun _ _ _ => 1)

/-- `MPO.expect(state)` for equally long chains (other lengths: not modelled, `none`) -/
def expect (As Ws : List (Site α)) : Option α :=
  if As.length ≠ Ws.length then none else some (get3 (expectAcc As Ws ones3) 0 0 0)

/-! ### `zip_right` before truncation (`MPO.apply_to`, `MPO.__matmul__`) -/

/-- A recorded answer of `torch.linalg.qr` inside `zip_right_step`, un-flattened:
`q[a, level, k]` (stored as `q level a k`) and `r[k, bt, rb]`. -/
structure QR3 (α : Type) where
  k : Nat
  q : Nat → Nat → Nat → α
  r : Nat → Nat → Nat → α

/-- The matrix handed to `qr` in `zip_right_step`, un-flattened: entry `(a, o·m+j ; bt, rb)`.
`top` has levels `o·d+i`, `bottom` has levels `i·m+j` (`m = 1`: MPS factor, `m = d`: MPO factor). -/
def zipMerged (d m : Nat) (S : Nat → Nat → Nat → α) (top bot : Site α) (a o j bt rb : Nat) : α :=
  sumTo top.dl (fun b => sumTo d (fun i => sumTo bot.dl (fun c =>
    S a b c * top.t (opLevel d o i) b bt * bot.t (opLevel m i j) c rb)))

/-- slider state between two zip steps: its shape `(sa, sb, sc)` and entries -/
structure Slider (α : Type) where
  sa : Nat
  sb : Nat
  sc : Nat
  s : Nat → Nat → Nat → α

/-- `zip_right_step` with the `qr` answer supplied; `none` = the shape test raises `ValueError` -/
def zipStep (d m : Nat) (S : Slider α) (top bot : Site α) (f : QR3 α) : Option (Site α × Slider α) :=
  if S.sb ≠ top.dl ∨ S.sc ≠ bot.dl then none
  else some ({ dl := S.sa, d := d * m, dr := f.k, t := f.q },
             { sa := f.k, sb := top.dr, sc := bot.dr, s := f.r })

/-- the `for top, bottom in zip(...)` loop: new factors and the last slider -/
def zipLoop (d m : Nat) : List (Site α) → List (Site α) → List (QR3 α) → Slider α →
    Option (List (Site α) × Slider α)
  | [], [], _, S => some ([], S)
  | top :: tops, bot :: bots, f :: tape, S =>
    match zipStep d m S top bot f with
    | none => none
    | some (A, S') =>
      match zipLoop d m tops bots tape S' with
      | none => none
      | some (rest, Sf) => some (A :: rest, Sf)
  | _, _, _, _ => none

/-- `new_factors[-1] @= slider[:, :, 0]` -/
def absorbLast (S : Slider α) : List (Site α) → List (Site α)
  | [] => []
  | [A] => [Site.make A.dl A.d S.sb (fun x a bt => sumTo A.dr (fun k => A.t x a k * S.s k bt 0))]
  | A :: fs => A :: absorbLast S fs

def slider0 : Slider α := { sa := 1, sb := 1, sc := 1, s := fun _ _ _ => 1 }

/-- `zip_right(top_factors, bottom_factors, …)` up to (excluding) `truncate_impl` -/
def zipRight (d m : Nat) (tops bots : List (Site α)) (tape : List (QR3 α)) : Option (List (Site α)) :=
  if tops.length ≠ bots.length then none
  else match zipLoop d m tops bots tape slider0 with
    | none => none
    | some (fs, S) => some (absorbLast S fs)

/-! ### `MPS.orthogonalize` (qr answers supplied) and `MPS.apply` -/

/-- answer of `qr(factor.view(-1, dr))` in the left-to-right sweep: `q[l, x, k]` (as `q x l k`), `r[k, j]` -/
structure QRl (α : Type) where
  k : Nat
  q : Nat → Nat → Nat → α
  r : Nat → Nat → α

/-- left-to-right step at site `A` followed by `B`: `A ← q`, `B ← r·B` -/
def lrStep (f : QRl α) (A B : Site α) : Site α × Site α :=
  ({ dl := A.dl, d := A.d, dr := f.k, t := f.q },
   Site.make f.k B.d B.dr (fun y k r => sumTo B.dl (fun j => f.r k j * B.t y j r)))

/-- answer of `qr(factor.view(dl, -1).mT)` in the right-to-left sweep, already transposed back:
`q.mT.view(k, d, dr)` (as `q x k r`) and `r[k, l]` -/
structure QRr (α : Type) where
  k : Nat
  q : Nat → Nat → Nat → α
  r : Nat → Nat → α

/-- right-to-left step at site `B` preceded by `A`: `B ← qᵀ`, `A ← A·rᵀ` -/
def rlStep (f : QRr α) (A B : Site α) : Site α × Site α :=
  (Site.make A.dl A.d f.k (fun x l k => sumTo A.dr (fun j => A.t x l j * f.r k j)),
   { dl := f.k, d := B.d, dr := B.dr, t := f.q })

/-- replace the factors at positions `i`, `i+1` -/
def setPair (fs : List (Site α)) (i : Nat) (p : Site α × Site α) : List (Site α) :=
  (fs.set i p.1).set (i + 1) p.2

/-- `for i in range(start, desired)` of `orthogonalize`; `none` = tape exhausted / index error -/
def lrSweep : Nat → Nat → List (Site α) → List (QRl α) → Option (List (Site α))
  | 0, _, fs, _ => some fs
  | cnt + 1, i, fs, f :: tape =>
    match fs[i]?, fs[i + 1]? with
    | some A, some B => lrSweep cnt (i + 1) (setPair fs i (lrStep f A B)) tape
    | _, _ => none
  | _ + 1, _, _, [] => none

/-- `for i in range(start, desired, -1)` of `orthogonalize` (`i` = current site, `cnt` steps left) -/
def rlSweep : Nat → Nat → List (Site α) → List (QRr α) → Option (List (Site α))
  | 0, _, fs, _ => some fs
  | cnt + 1, i, fs, f :: tape =>
    match i with
    | 0 => none
    | i' + 1 =>
      match fs[i']?, fs[i' + 1]? with
      | some A, some B => rlSweep cnt i' (setPair fs i' (rlStep f A B)) tape
      | _, _ => none
  | _ + 1, _, _, [] => none

/-- `MPS.orthogonalize(desired)`: both loops (at most one of them runs when the centre is known);
returns the new factors; `none` = the `assert` on `desired` fails or a tape is too short. -/
def orthogonalize (fs : List (Site α)) (center : Option Nat) (desired : Nat)
    (ltape : List (QRl α)) (rtape : List (QRr α)) : Option (List (Site α)) :=
  if ¬ desired < fs.length then none
  else
    let l0 := center.getD 0
    let r0 := center.getD (fs.length - 1)
    match lrSweep (desired - l0) l0 fs ltape with
    | none => none
    | some fs1 => rlSweep (r0 - desired) r0 fs1 rtape

/-- `MPS.apply(qubit_index, op)` after its `orthogonalize`: `factor ← op @ factor` -/
def applySite (d : Nat) (op : Nat → Nat → α) (A : Site α) : Site α :=
  Site.make A.dl A.d A.dr (fun x l r => sumTo d (fun y => op x y * A.t y l r))

/-! ### `MPS.get_correlation_matrix`: the contractions as written

For one value of `left` (the factors are those present after `self.orthogonalize(left)`): the number whose
`.real` is stored in `result[left, left]`, then in `result[left, right]` for `right = left+1, …`.
`op s t = operator[s, t]`.  Variant `repaired` (= /repo since commit 7ffda71): `dims=([1],[1])` first and
`([0,2],[1,0])` last, i.e. the matrix element `⟨bra|O|ket⟩ = operator[bra, ket]`.  The variant found originally
(`corrRowAsFound`) contracted `operator[ket, bra]`, i.e. the same code with `operatorᵀ`. -/

/-- `accumulator[r, r'] = Σ_{l,s,t} A[l,s,r]·operator[t,s]·conj(A[l,t,r'])` (the first two `tensordot`s) -/
def corrAcc0 (d : Nat) (op : Nat → Nat → α) (A : Site α) : Arr (Arr α) :=
  memo2 A.dr A.dr (fun r r' => sumTo A.dl (fun l => sumTo d (fun s => sumTo d (fun t =>
    A.t s l r * op t s * conj (A.t t l r')))))

/-- `accumulator.trace()` -/
def corrTrace (n : Nat) (acc : Arr (Arr α)) : α := sumTo n (fun r => get2 acc r r)

/-- `partial[t, b, t', b'] = Σ_{a,a'} accumulator[a,a']·B[a,t,b]·conj(B[a',t',b'])` -/
def corrPartial (d : Nat) (acc : Arr (Arr α)) (B : Site α) : Arr (Arr (Arr (Arr α))) :=
  memo4 d B.dr d B.dr (fun t b t' b' => sumTo B.dl (fun a => sumTo B.dl (fun a' =>
    get2 acc a a' * B.t t a b * conj (B.t t' a' b'))))

/-- `tensordot(partial, operator, dims=([0, 2], [1, 0])).trace()` -/
def corrEntry (d : Nat) (op : Nat → Nat → α) (B : Site α) (p : Arr (Arr (Arr (Arr α)))) : α :=
  sumTo B.dr (fun b => sumTo d (fun t => sumTo d (fun t' => get4 p t b t' b * op t' t)))

/-- `tensor_trace(partial, 0, 2)` -/
def corrNext (d : Nat) (B : Site α) (p : Arr (Arr (Arr (Arr α)))) : Arr (Arr α) :=
  memo2 B.dr B.dr (fun b b' => sumTo d (fun t => get4 p t b t b'))

/-- the inner `for right in range(left + 1, num_sites)` loop -/
def corrWalk (d : Nat) (op : Nat → Nat → α) : List (Site α) → Arr (Arr α) → List α
  | [], _ => []
  | B :: rest, acc =>
    let p := corrPartial d acc B
    corrEntry d op B p :: corrWalk d op rest (corrNext d B p)

/-- entries `[left,left], [left,left+1], …` for the factors `A :: rest` from `left` on -/
def corrRow (d : Nat) (op : Nat → Nat → α) : List (Site α) → List α
  | [] => []
  | A :: rest =>
    let acc := corrAcc0 d op A
    corrTrace A.dr acc :: corrWalk d op rest acc

/-- the variant found before commit 7ffda71: `dims=([1],[0])` / `([0,2],[0,1])`, i.e. `operatorᵀ` -/
def corrRowAsFound (d : Nat) (op : Nat → Nat → α) (fs : List (Site α)) : List α :=
  corrRow d (fun s t => op t s) fs

/-! ### `MPS._from_state_amplitudes` (before truncation / normalisation) -/

/-- the three supported bases (`set(eigenstates)`); anything else raises `ValueError` -/
inductive Basis | rg | zo | rgx
  deriving DecidableEq, Repr

def Basis.dim : Basis → Nat
  | .rgx => 3
  | _ => 2

/-- `one`, `leak` of `_from_state_amplitudes` and the `if ch == one … elif ch == leak … else` chain -/
def stateCharLevel (b : Basis) (ch : Char) : Nat :=
  let one : Char := if b = .zo then '1' else 'r'
  if ch = one then 1 else if b = .rgx ∧ ch = 'x' then 2 else 0

/-- a product basis state `basis_k` factor -/
def basisSite (dim lvl : Nat) : Site α :=
  { dl := 1, d := dim, dr := 1, t := fun x _ _ => if x = lvl then 1 else 0 }

def zeroSite (dim : Nat) : Site α := { dl := 1, d := dim, dr := 1, t := fun _ _ _ => 0 }

/-- the accumulation loop `accum_mps += amplitude * MPS(factors)` without the truncation done by
`MPS.__add__` (C10) -/
def fromAmplitudesAux (dim : Nat) : List (List Nat × α) → List (Site α) → Option (List (Site α))
  | [], acc => some acc
  | (lv, a) :: rest, acc =>
    match addFactors acc (scaleFactors a 0 (lv.map (basisSite dim))) with
    | none => none
    | some acc' => fromAmplitudesAux dim rest acc'

def fromAmplitudes (b : Basis) (n : Nat) (entries : List (String × α)) : Option (List (Site α)) :=
  fromAmplitudesAux b.dim (entries.map (fun e => (e.1.toList.map (stateCharLevel b), e.2)))
    (List.replicate n (zeroSite b.dim))

/-! ### `MPO._from_operator_repr` -/

/-- level of a character of an operator string ("gg", "rg", "01", "xr" …); `none` = `KeyError` -/
def opCharLevel (b : Basis) (ch : Char) : Option Nat :=
  match b with
  | .rg => if ch = 'g' then some 0 else if ch = 'r' then some 1 else none
  | .zo => if ch = '0' then some 0 else if ch = '1' then some 1 else none
  | .rgx => if ch = 'g' then some 0 else if ch = 'r' then some 1 else if ch = 'x' then some 2 else none

/-- a `QuditOp` dictionary resolved against the table: `Σ coeff · |a⟩⟨b|` for keys `"ab"`
(row = first character = output level) -/
def resolveOp (b : Basis) : List (String × α) → Option (Nat → Nat → α)
  | [] => some (fun _ _ => 0)
  | (key, c) :: rest =>
    match key.toList, resolveOp b rest with
    | [ca, cb], some f =>
      match opCharLevel b ca, opCharLevel b cb with
      | some la, some lb => some (fun o i => f o i + (if o = la ∧ i = lb then 1 else 0) * c)
      | _, _ => none
    | _, _ => none

/-- `for target_qubit in op[1]: factors[target_qubit] = factor`; `none` = `IndexError` -/
def assignTargets (f : Nat → Nat → α) : List Nat → List (Nat → Nat → α) → Option (List (Nat → Nat → α))
  | [], fs => some fs
  | t :: ts, fs => if t < fs.length then assignTargets f ts (fs.set t f) else none

/-- the list `factors` of one term after all its `(op, targets)` assignments -/
def termFactors : List ((Nat → Nat → α) × List Nat) → List (Nat → Nat → α) → Option (List (Nat → Nat → α))
  | [], fs => some fs
  | (f, ts) :: ops, fs =>
    match assignTargets f ts fs with
    | none => none
    | some fs' => termFactors ops fs'

def identOp : Nat → Nat → α := fun o i => if o = i then 1 else 0

/-- a bond-dimension-1 MPO factor from a local matrix -/
def opSite (d : Nat) (f : Nat → Nat → α) : Site α :=
  Site.make 1 (d * d) 1 (fun x _ _ => f (x / d) (x % d))

/-- one term `coeff * MPO(factors)` -/
def termMpo (d n : Nat) (c : α) (ops : List ((Nat → Nat → α) × List Nat)) : Option (List (Site α)) :=
  match termFactors ops (List.replicate n identOp) with
  | none => none
  | some fs => some (scaleFactors c 0 (fs.map (opSite d)))

/-- `sum(mpos[1:], start=mpos[0])` -/
def sumMpos : List (List (Site α)) → Option (List (Site α))
  | [] => none
  | m :: ms => ms.foldl (fun acc x => acc.bind (fun a => addFactors a x)) (some m)

/-- the list `mpos` (one `coeff * MPO(factors)` per term) -/
def termMpos (d n : Nat) : List (α × List ((Nat → Nat → α) × List Nat)) → Option (List (List (Site α)))
  | [] => some []
  | t :: ts =>
    match termMpo d n t.1 t.2, termMpos d n ts with
    | some m, some ms => some (m :: ms)
    | _, _ => none

def fromOperatorRepr (d n : Nat) (terms : List (α × List ((Nat → Nat → α) × List Nat))) :
    Option (List (Site α)) :=
  match termMpos d n terms with
  | none => none
  | some mpos => sumMpos mpos

end EmuVerif.Tensor
